"""Device-engine cases: generator, execution on the Go runner and the Lean driver, comparison."""
import os, random, struct, subprocess, json, time
from common import *

ACTIONS = ["mapping_up", "mapping_down", "octave_up", "octave_down", "semitone_up", "semitone_down",
           "channel_up", "channel_down", "multinote", "panic", "cc_learning", "mapping", "channel", "exit"]
MODES = ["off", "no_repeat", "interrupt", "retrigger"]
NOTE_CODES = list(range(30, 46))
ACT_CODES = list(range(59, 71))
SUBS = ["-", "-", "-", "s1"]


def f64bits(x):
    return struct.unpack("<Q", struct.pack("<d", x))[0]


class Case:
    def __init__(self, cid):
        self.cid = cid
        self.cfg = []       # cfg.* lines (without cfg.end)
        self.events = []    # op lines
        self.disconnect = False
        self.meta = {}

    def lines(self):
        return ["case %s" % self.cid] + self.cfg + ["cfg.end"] + self.events + (["disconnect"] if self.disconnect else [])

    def to_json(self):
        return {"cid": self.cid, "cfg": self.cfg, "events": self.events, "disconnect": self.disconnect, "meta": self.meta}

    @staticmethod
    def from_json(j):
        c = Case(j["cid"])
        c.cfg, c.events, c.disconnect, c.meta = j["cfg"], j["events"], j["disconnect"], j.get("meta", {})
        return c

    def clone(self, cid=None):
        c = Case(cid if cid is not None else self.cid)
        c.cfg, c.events, c.disconnect, c.meta = list(self.cfg), list(self.events), self.disconnect, dict(self.meta)
        c.info = getattr(self, "info", None)
        return c


DZ_CHOICES = [0.0, 0.05, 0.06, 0.09, 0.1, 0.13, 0.2, 0.25, 0.5, 0.91]


def gen_axes(rng, c, nmaps, prof):
    """axes: node/code/min/max plus per-mapping analog entries; returns list of axis descriptors"""
    axes = []
    naxes = rng.choice(prof.get("naxes", [0, 0, 1, 2, 3]))
    kinds = prof.get("akinds", ["cc", "cc", "pitch_bend", "key", "action"])
    used_cc = set()
    shapes = {}
    for i in range(naxes):
        code = i  # ABS_X.. small codes
        node = rng.choice(["event3", "event3", "event4"])
        sub = rng.choice(SUBS)
        shape = rng.choice(["s8", "u8", "hat", "s16", "u16", "asym", "u10"])
        twin = None
        if axes and rng.random() < prof.get("twin_axis_p", 0.3):
            # the same ABS code on another handler of the device (main handler / named sub-handler): the two axes
            # must not share any state (last transmitted value, key-emulation tracker entries are per code, though)
            twin = rng.choice(axes)
            if not any(a is not twin and a["code"] == twin["code"] for a in axes):
                code = twin["code"]
                sub = "s1" if twin["sub"] == "-" else "-"
                node = {"event3": "event4", "event4": "event3"}.get(twin["node"], "event3")
                shape = shapes[id(twin)]
                if rng.random() < 0.5:
                    # ... nor their ranges: sticks 0..255 and a touchpad 0..1919 report the same code on two handlers
                    shape = rng.choice([x for x in ["s8", "u8", "s16", "u16", "asym", "u10"] if x != shape])
            else:
                twin = None
        mn, mx = {"s8": (-128, 127), "u8": (0, 255), "hat": (-1, 1), "s16": (-32768, 32767),
                  "u16": (0, 65535), "asym": (-100, 300), "u10": (0, 1023)}[shape]
        c.cfg.append("cfg.axis %s %d %d %d" % (node, code, mn, mx))
        ax = {"code": code, "node": node, "sub": sub, "min": mn, "max": mx, "maps": {}}
        shapes[id(ax)] = shape
        for mi in range(nmaps):
            if rng.random() < prof.get("axis_unmapped_p", 0.15):
                continue
            kind = rng.choice(kinds)
            if prof.get("same_kind_all_maps") and ax["maps"]:
                kind = list(ax["maps"].values())[0]["kind"]
            bidir = rng.random() < prof.get("bidir_p", 0.5)
            flip = rng.random() < 0.4
            dzc = (mn == 0) and rng.random() < 0.5
            def fresh_cc():
                for _ in range(50):
                    v = rng.randrange(0, 120)
                    if v not in used_cc or not prof.get("distinct_cc", True):
                        used_cc.add(v)
                        return v
                return rng.randrange(0, 120)
            cc, ccn = fresh_cc(), fresh_cc()
            note, noten = rng.choice([0, 36, 60, 61, 120, 127]), rng.choice([1, 37, 62, 119, 126])
            off, offn = rng.choice([0, 0, 1, 15]), rng.choice([0, 2, 15])
            act, actn = "-", "-"
            if kind == "action":
                pair = rng.choice([("octave_up", "octave_down"), ("semitone_up", "semitone_down"),
                                   ("channel_up", "channel_down"), ("mapping_up", "mapping_down"),
                                   ("panic", "cc_learning"), ("octave_up", "-")])
                act, actn = pair
                bidir = actn != "-"
            if kind == "pitch_bend":
                bidir = False
                offn = 0
            if not bidir:
                if kind == "cc":
                    ccn = 0
                if kind == "key":
                    noten = 0
            c.cfg.append("cfg.abs %d %s %d %s %d %d %d %d %d %d %s %s %d %d %d" % (
                mi, sub, code, kind, cc if kind == "cc" else 0, ccn if kind == "cc" else 0,
                note if kind == "key" else 0, noten if kind == "key" else 0, off, offn, act, actn,
                int(flip), int(bidir), int(dzc)))
            ax["maps"][mi] = {"kind": kind, "bidir": bidir, "flip": flip, "dzc": dzc}
            src = rng.choice(["specific", "subdef", "global"])
            dz = rng.choice(DZ_CHOICES + [round(rng.random() * 0.95, 3)])
            ax["maps"][mi]["dz"] = dz
            if src == "specific":
                c.cfg.append("cfg.dz %d %s %d %d" % (mi, sub, code, f64bits(dz)))
                c.cfg.append("cfg.defdz %d %s %d" % (mi, sub, f64bits(rng.choice(DZ_CHOICES))))
            elif src == "subdef" or sub == "-":
                c.cfg.append("cfg.defdz %d %s %d" % (mi, sub, f64bits(dz)))
            else:
                # only the global ("") default exists... the parser always writes one per sub-handler,
                # so this shape only arises for hand-built configs; the Go code falls back to ""
                c.cfg.append("cfg.defdz %d - %d" % (mi, f64bits(dz)))
        axes.append(ax)
    return axes


def axis_positions(rng, ax):
    mn, mx = ax["min"], ax["max"]
    mid = (mn + mx) // 2 if mn == 0 else 0
    span = mx - mn
    pts = [mn, mx, mid, mid + 1, mid - 1 if mid - 1 >= mn else mid, mn + span // 4, mx - span // 4,
           mid + span // 20, mid - span // 20 if mid - span // 20 >= mn else mn, mn + 1 if mn + 1 <= mx else mn, mx - 1]
    pts.append(rng.randint(mn, mx))
    return pts


def gen_case(rng, cid, prof):
    c = Case(cid)
    mode = rng.choice(prof.get("modes", MODES))
    nmaps = rng.choice(prof.get("nmaps", [1, 1, 2, 3]))
    accepted = rng.random() >= prof.get("unaccepted_p", 0.03)
    d_oct = rng.choice([0, 0, 0, 1, -1, 2, -2] + prof.get("extra_oct", [10, -10]))
    d_semi = rng.choice([0, 0, 0, 1, -1, 3, -3, 11] + prof.get("extra_semi", []))
    d_ch = rng.choice([1, 1, 2, 8, 15, 16]) if accepted else rng.choice([0, 17, 16, 1])
    d_map = rng.randrange(nmaps)
    vel = rng.choice([64, 64, 1, 127, rng.randint(1, 127)]) if accepted else rng.choice([0, 128, 64, 300])
    c.cfg.append("cfg.begin %s %d %d %d %d %d" % (mode, d_oct, d_semi, d_ch, d_map, vel))
    names = ["Piano", "Chromatic", "Control"]
    for i in range(nmaps):
        c.cfg.append("cfg.map %d %s" % (i, names[i]))
    # note keys: a shared pool of base notes so that collisions (direct, via +-12, via +-1) are common
    base = rng.choice([0, 11, 36, 48, 60, 115, 120])
    pool = [base, base, base + 12, base + 1, base + 7, base + 24, 127, 0]
    pool = [min(127, max(0, n)) for n in pool]
    note_keys = {}
    for mi in range(nmaps):
        nk = rng.randint(2, prof.get("max_keys", 8))
        codes = rng.sample(NOTE_CODES, nk)
        for code in codes:
            sub = rng.choice(SUBS)
            note = rng.choice(pool)
            off = rng.choice([0, 0, 0, 1, 15, rng.randrange(16)])
            c.cfg.append("cfg.key %d %s %d %d %d" % (mi, sub, code, note, off))
            note_keys.setdefault(code, set()).add(sub)
    nact = rng.choice(prof.get("nactions", [0, 2, 3, 4, 6]))
    act_keys = {}
    acts = list(ACTIONS[:11])
    if prof.get("no_learning"):
        acts.remove("cc_learning")
    wanted = prof.get("want_actions", [])
    for i in range(nact):
        code = rng.choice(ACT_CODES + ([rng.choice(NOTE_CODES)] if rng.random() < 0.1 else []))
        a = wanted[i] if i < len(wanted) else rng.choice(acts + (["mapping", "channel", "exit"] if rng.random() < 0.05 else []))
        act_keys[code] = a
    # prefer complete pairs
    if nact >= 2 and rng.random() < 0.6 and not prof.get("no_pairs"):
        p = rng.choice([("octave_up", "octave_down"), ("semitone_up", "semitone_down"),
                        ("channel_up", "channel_down"), ("mapping_up", "mapping_down")])
        ks = list(act_keys.keys())
        if len(ks) >= 2:
            act_keys[ks[0]], act_keys[ks[1]] = p
    for code, a in act_keys.items():
        c.cfg.append("cfg.action %d %s" % (code, a))
    allcodes = sorted(set(list(note_keys.keys()) + list(act_keys.keys())))
    nexit = rng.choice(prof.get("nexit", [0, 0, 1, 2, 2, 3]))
    exitseq = rng.sample(allcodes, min(nexit, len(allcodes)))
    if exitseq:
        c.cfg.append("cfg.exit " + " ".join(map(str, exitseq)))
    axes = gen_axes(rng, c, nmaps, prof) if prof.get("axes", True) and rng.random() < prof.get("axes_p", 1.0) else []

    c.meta = {"mode": mode, "accepted": accepted}
    if rng.random() < prof.get("slow_sink_p", 0.1):
        # "stall": slow, and at the disconnect the receiver takes nothing for 150 ms while the queue is full
        c.meta["sink"] = rng.choice(["slow", "slow", "stall"])
    c.info = {"note_keys": {k: sorted(v) for k, v in note_keys.items()}, "act_keys": act_keys, "exitseq": exitseq, "axes": axes}
    gen_history(rng, c, prof)
    return c


def gen_history(rng, c, prof):
    note_keys, act_keys, exitseq, axes = c.info["note_keys"], c.info["act_keys"], c.info["exitseq"], c.info["axes"]
    n = rng.randint(1, prof.get("max_events", 60))
    down = set()
    ev = []
    if axes and rng.random() < prof.get("sweep_p", 0.0):
        # sweep: every raw value of one axis (8-bit / hat / asymmetric), or edges and samples of a 16-bit one
        ax = rng.choice(axes)
        mn, mx = ax["min"], ax["max"]
        vals = list(range(mn, mx + 1)) if mx - mn <= 1100 else sorted(set(axis_positions(rng, ax) + [rng.randint(mn, mx) for _ in range(200)]))
        if rng.random() < 0.3:
            rng.shuffle(vals)
        elif rng.random() < 0.5:
            vals.reverse()
        c.events = ["abs %s %s %d %d" % (ax["sub"], ax["node"], ax["code"], v) for v in vals]
        lk = [k for k, a in act_keys.items() if a == "cc_learning" and k not in exitseq]
        if lk and rng.random() < 0.4:
            # the whole sweep with the CC-learning key held
            c.events = ["key - %d 1" % lk[0]] + c.events + ["key - %d 0" % lk[0]]
        c.disconnect = False
        c.meta["sweep"] = True
        return c
    codes_n = sorted(note_keys.keys())
    codes_a = sorted(act_keys.keys())
    for _ in range(n):
        r = rng.random()
        if axes and r < prof.get("abs_p", 0.25):
            ax = rng.choice(axes)
            v = rng.choice(axis_positions(rng, ax))
            ev.append("abs %s %s %d %d" % (ax["sub"], ax["node"], ax["code"], v))
            continue
        if r < 0.02:
            ev.append("syn")
            continue
        if r < 0.03 and prof.get("midiin", True):
            ev.append("midiin %d %d %d" % (rng.choice([0x90, 0x80, 0x9f, 0xb0]), rng.randrange(128), rng.choice([0, 64])))
            continue
        pick_action = codes_a and rng.random() < prof.get("action_p", 0.3)
        code = rng.choice(codes_a) if pick_action else rng.choice(codes_n)
        if code in exitseq and rng.random() < 0.3 and exitseq:
            code = rng.choice(exitseq)
        subs = sorted(note_keys.get(code, {"-"}))
        sub = rng.choice(subs)
        weird = rng.random() < prof.get("weird_p", 0.02)
        if weird:
            val = rng.choice([2, 2, 3, -1, 1, 0])
            if val == 1:
                down.add(code)
            elif val != 2:
                down.discard(code)
        elif code in down:
            val = 0 if rng.random() < 0.8 else None
            if val is None:
                continue
            down.discard(code)
        else:
            val = 1
            down.add(code)
        ev.append("key %s %d %d" % (sub, code, val))
    # directed patterns that random histories rarely contain (only keys that are up at this point take part)
    if rng.random() < prof.get("directed_p", 0.2):
        inv0 = {a: k for k, a in act_keys.items()}
        kb = {}
        for l in c.cfg:
            t = l.split()
            if t[0] == "cfg.key":
                kb.setdefault(int(t[1]), []).append((t[2], int(t[3]), int(t[4]), int(t[5])))   # (sub, code, note, offset) per mapping
        free = lambda k: k not in down and k not in exitseq and k not in act_keys
        tap = lambda k: ["key - %d 1" % k, "key - %d 0" % k]
        seq = []
        which = rng.random()
        ms = [a for a in ("mapping_up", "mapping_down") if a in inv0 and inv0[a] not in down and inv0[a] not in exitseq]
        if which < 0.5 and ms and len(kb) >= 2:
            # a note key held while the mapping is switched; auto-repeat events of the held key arrive; then its release
            cands = [(sub, code) for m_ in kb.values() for (sub, code, _, _) in m_ if free(code)]
            if cands:
                sub, code = rng.choice(cands)
                seq += ["key %s %d 1" % (sub, code)] + tap(inv0[rng.choice(ms)])
                for _ in range(rng.choice([1, 1, 2])):
                    seq.append("key %s %d 2" % (sub, code))
                if rng.random() < 0.3:
                    seq += tap(inv0[rng.choice(ms)])
                seq.append("key %s %d 0" % (sub, code))
        else:
            # two keys of one mapping with the same pitch, pressed on two channels an even / odd number of steps apart
            cu = [a for a in ("channel_up", "channel_down") if a in inv0 and inv0[a] not in down and inv0[a] not in exitseq]
            pairs = [(a, b) for m_ in kb.values() for a in m_ for b in m_ if a[1] < b[1] and a[2] == b[2] and a[3] == b[3] and free(a[1]) and free(b[1])]
            if cu and pairs:
                a, b = rng.choice(pairs)
                seq.append("key %s %d 1" % (a[0], a[1]))
                for _ in range(rng.choice([1, 2, 2, 3, 4])):
                    seq += tap(inv0[rng.choice(cu[:1])])
                seq += ["key %s %d 1" % (b[0], b[1]), "key %s %d 0" % (a[0], a[1]), "key %s %d 0" % (b[0], b[1])]
        ev += seq
    # directed: an axis creeping in small steps across half travel (where a key-emulating axis presses, where learning
    # starts to let values through) and back across 49 % (where it releases): every position is a new one and counts
    if axes and rng.random() < prof.get("creep_p", 0.08):
        ax = rng.choice(axes)
        mn, mx = ax["min"], ax["max"]
        if mx - mn >= 1000 and ax["maps"]:
            dz = rng.choice(list(ax["maps"].values())).get("dz", 0.0)
            side = rng.choice([1, -1]) if mn < 0 else 1
            def raw_of(v):
                x = dz + v * (1 - dz)
                if mn < 0:
                    return int(round(side * x * (mx if side > 0 else -mn)))
                return int(round(mn + x * (mx - mn)))
            step = max(1, (mx - mn) // 1600)
            up = [raw_of(0.5) + k * step for k in range(-6, 7)]
            down = [raw_of(0.49) + k * step for k in range(6, -7, -1)]
            seq = up + [raw_of(0.9)] + down if rng.random() < 0.7 else up + down
            ev += ["abs %s %s %d %d" % (ax["sub"], ax["node"], ax["code"], max(mn, min(mx, r))) for r in seq]
    # directed: the CC-learning key held while axes move a little (such movements are filtered) or a lot, then released;
    # the axes move again afterwards
    lk = [k for k, a in act_keys.items() if a == "cc_learning" and k not in exitseq and k not in down]
    if lk and axes and rng.random() < prof.get("learn_axis_p", 0.25):
        seq = []
        def pos(ax, small):
            mn, mx = ax["min"], ax["max"]
            mid = (mn + mx) // 2 if mn == 0 else 0
            span = mx - mn
            if small:
                return max(mn, min(mx, mid + rng.choice([0, 0, 1, -1, span // 10, -(span // 10), span // 5, -(span // 5)])))
            return rng.choice([mn, mx, mn + span // 8, mx - span // 8, rng.randint(mn, mx)])
        for ax in rng.sample(axes, min(len(axes), rng.choice([1, 1, 2]))):
            if rng.random() < 0.6:
                seq.append("abs %s %s %d %d" % (ax["sub"], ax["node"], ax["code"], pos(ax, False)))
        seq.append("key - %d 1" % lk[0])
        for _ in range(rng.choice([1, 2, 3, 6])):
            ax = rng.choice(axes)
            seq.append("abs %s %s %d %d" % (ax["sub"], ax["node"], ax["code"], pos(ax, rng.random() < 0.7)))
        seq.append("key - %d 0" % lk[0])
        for _ in range(rng.choice([0, 1, 2])):
            ax = rng.choice(axes)
            seq.append("abs %s %s %d %d" % (ax["sub"], ax["node"], ax["code"], pos(ax, rng.random() < 0.5)))
        ev += seq
    # directed: a panic pressed and released while another action key (or a note key) is held, then the partner of that
    # action / another note — what was held across the panic must still count as held afterwards
    inv = {a: k for k, a in act_keys.items()}
    if "panic" in inv and rng.random() < prof.get("panic_across_held_p", 0.0) and inv["panic"] not in exitseq:
        pairs = [(u, d_) for u, d_ in (("octave_up", "octave_down"), ("semitone_up", "semitone_down"), ("channel_up", "channel_down"),
                                       ("mapping_up", "mapping_down")) if u in inv and d_ in inv]
        pk = inv["panic"]
        if pk not in down:
            seq = []
            # a key-emulating axis held at an end stop across the panic (its note may live on another channel)
            kax = [ax for ax in axes if any(m_["kind"] == "key" for m_ in ax["maps"].values())]
            held_ax = rng.choice(kax) if kax and rng.random() < 0.7 else None
            if held_ax:
                seq.append("abs %s %s %d %d" % (held_ax["sub"], held_ax["node"], held_ax["code"], rng.choice([held_ax["min"], held_ax["max"]])))
                if not pairs and rng.random() < 0.7:
                    seq += ["key - %d 1" % pk, "key - %d 0" % pk]
            if pairs:
                u, d_ = rng.choice(pairs)
                if rng.random() < 0.5:
                    u, d_ = d_, u
                ku, kd = inv[u], inv[d_]
                if ku not in down and kd not in down and ku not in exitseq and kd not in exitseq:
                    for _ in range(rng.choice([0, 1, 2])):
                        seq += ["key - %d 1" % ku, "key - %d 0" % ku]
                    seq += ["key - %d 1" % ku, "key - %d 1" % pk, "key - %d 0" % pk, "key - %d 1" % kd, "key - %d 0" % kd, "key - %d 0" % ku]
            if "cc_learning" in inv and rng.random() < 0.5 and inv["cc_learning"] not in down:
                kl = inv["cc_learning"]
                seq += ["key - %d 1" % kl, "key - %d 1" % pk, "key - %d 0" % pk, "key - %d 0" % kl]
            if codes_n:
                kn = rng.choice(codes_n)
                if kn not in down:
                    sub = sorted(note_keys.get(kn, {"-"}))[0]
                    seq += ["key %s %d 1" % (sub, kn), "key %s %d 0" % (sub, kn)]
            if held_ax:
                seq.append("abs %s %s %d %d" % (held_ax["sub"], held_ax["node"], held_ax["code"],
                                                (held_ax["min"] + held_ax["max"]) // 2 if held_ax["min"] == 0 else 0))
            ev += seq
    if rng.random() < prof.get("release_all_p", 0.5):
        for code in sorted(down):
            subs = sorted(note_keys.get(code, {"-"}))
            ev.append("key %s %d 0" % (subs[0], code))
        for ax in axes:
            if rng.random() < 0.8:
                mid = (ax["min"] + ax["max"]) // 2 if ax["min"] == 0 else 0
                ev.append("abs %s %s %d %d" % (ax["sub"], ax["node"], ax["code"], mid))
    c.events = ev
    c.disconnect = rng.random() < prof.get("disconnect_p", 0.5)
    if c.disconnect and rng.random() < 0.5 and ev:
        c.events = ev[:rng.randint(0, len(ev))]
    return c


# ---------------------------------------------------------------- execution

def velocity_failure(c, gl):
    """index of the first operation whose output has a Note On with another velocity than the configured one, on the press of
    a note key of an accepted configuration; None if there is none"""
    if not c.meta.get("accepted", True) or not c.cfg or not c.cfg[0].startswith("cfg.begin"):
        return None
    vel = int(c.cfg[0].split()[6])
    if not 1 <= vel <= 127:
        return None
    acts = {l.split()[1] for l in c.cfg if l.startswith("cfg.action ")}
    for k, e in enumerate(c.events):
        t = e.split()
        if t[0] != "key" or t[3] != "1" or t[2] in acts or 1 + k >= len(gl):
            continue
        for tok in gl[1 + k].partition("|")[0].split():
            if len(tok) == 6 and tok[0] == "9" and int(tok[4:6], 16) != vel:
                return 1 + k
    return None


DEV_PROPS = ["C01", "C02", "C03", "C04", "C05", "C06", "C07", "C08", "C13", "C14"]


def parse_outputs(text):
    """split runner/driver output into {cid: [lines]}"""
    res, cur = {}, None
    for line in text.split("\n"):
        if line.startswith("case "):
            cur = line[5:].strip()
            res[cur] = []
        elif cur is not None:
            res[cur].append(line)
    return res


def run_go(binary, ops_text, workdir, tag, timeout=600, test="TestVerifRunner"):
    os.makedirs(workdir, exist_ok=True)
    inp = os.path.join(workdir, tag + ".ops")
    outp = os.path.join(workdir, tag + ".go.out")
    with open(inp, "w") as f:
        f.write(ops_text)
    if os.path.exists(outp):
        os.remove(outp)
    env = dict(os.environ, VERIF_OUT=outp, VERIF_IN=inp, GOMEMLIMIT="2GiB")
    try:
        p = subprocess.run([binary, "-test.run", "^%s$" % test, "-test.timeout", "%ds" % timeout], env=env,
                           stdout=subprocess.PIPE, stderr=subprocess.STDOUT, text=True, timeout=timeout + 30, cwd=workdir)
        rc, log_ = p.returncode, p.stdout
    except subprocess.TimeoutExpired as e:
        rc, log_ = 124, "timeout"
    out = open(outp).read() if os.path.exists(outp) else ""
    return rc, out, log_


def run_driver(text, timeout=900):
    p = subprocess.run([DRIVER], input=text, stdout=subprocess.PIPE, stderr=subprocess.PIPE, text=True, timeout=timeout)
    return p.returncode, p.stdout, p.stderr


def chunks(lst, n):
    for i in range(0, len(lst), n):
        yield lst[i:i + n]


def execute(cases, binary, workdir, tag="dev", jobs=8):
    """run all cases on both sides. returns {cid: {"go":[lines], "model":[lines], "mon": str, "crash": bool}}"""
    from concurrent.futures import ThreadPoolExecutor
    res = {}
    parts = list(chunks(cases, max(1, (len(cases) + jobs - 1) // jobs)))

    def work(args):
        i, part = args
        # a case marked `sink: slow` is run by the implementation with the 8-slot output queue of cmd/hidi/main.go, full of
        # other traffic whenever the device wants to send, and a reader that takes its time; what the device emits must not
        # depend on that (the model knows nothing about queues)
        ops = "\n".join("\n".join(("cfg.end " + c.meta["sink"] if l == "cfg.end" and c.meta.get("sink") in ("slow", "stall") else l) for l in c.lines()) for c in part) + "\n"
        # time limit of the runner process: 10 minutes, more for big batches (slow-sink cases take up to a second each)
        rc, gout, glog = run_go(binary, ops, workdir, "%s-%d" % (tag, i), timeout=max(600, len(part) // 4))
        g = parse_outputs(gout)
        merged = []
        local = {}
        for c in part:
            gl = [l for l in g.get(str(c.cid), []) if l != ""] if False else g.get(str(c.cid), [])
            # drop the trailing empty line produced by split
            if gl and gl[-1] == "":
                gl = gl[:-1]
            local[str(c.cid)] = {"go": gl, "crash": False, "golog": ""}
            lines = c.lines()
            merged.append(lines[0])
            gi = 0
            for l in lines[1:]:
                merged.append(l)
                if l.startswith("cfg.") and l != "cfg.end":
                    continue
                if gi < len(gl):
                    merged.append("obs " + gl[gi])
                gi += 1
            expected = sum(1 for l in lines[1:] if not (l.startswith("cfg.") and l != "cfg.end"))
            if len(gl) != expected:
                local[str(c.cid)]["crash"] = True
                local[str(c.cid)]["golog"] = glog[-3000:]
            merged.append("endcase")
        rc2, dout, derr = run_driver("\n".join(merged) + "\n")
        m = parse_outputs(dout)
        for c in part:
            ml = m.get(str(c.cid), [])
            if ml and ml[-1] == "":
                ml = ml[:-1]
            mon = ""
            if ml and ml[-1].startswith("mon "):
                mon = ml[-1]
                ml = ml[:-1]
            # a message that changed after the receiver had it (reported by the runner's slow sink): whatever the device
            # sends later, the stream the receiver holds is no longer what was emitted — a failure of the implementation
            # for every property that speaks about emitted messages
            gl = local[str(c.cid)]["go"]
            ch = next((k for k, l in enumerate(gl) if "CHANGED-AFTER-SENT" in l), None)
            if ch is not None:
                extra = " ".join("%s:%d:message-changed-after-it-was-sent" % (q, ch) for q in DEV_PROPS)
                if mon.startswith("mon impl="):
                    head, _, rest = mon.partition(" ; ")
                    mon = head + (" " if head != "mon impl=" else "") + extra + " ; " + rest
                else:
                    mon = "mon impl=" + extra + " ; model="
            # C04, "with the configured velocity" (theorem C04_velocity): every Note On that the press of a note key produces —
            # also the one that follows the Note Off of an interrupted note — carries the configured velocity
            vfail = velocity_failure(c, gl)
            if vfail is not None:
                extra = "C04:%d:note-on-velocity" % vfail
                if mon.startswith("mon impl="):
                    head, _, rest = mon.partition(" ; ")
                    mon = head + (" " if head != "mon impl=" else "") + extra + " ; " + rest
                else:
                    mon = "mon impl=" + extra + " ; model="
            local[str(c.cid)]["model"] = ml
            local[str(c.cid)]["mon"] = mon
        return local

    with ThreadPoolExecutor(max_workers=jobs) as ex:
        for loc in ex.map(work, list(enumerate(parts))):
            res.update(loc)
    return res


def parse_mon(mon):
    """'mon impl=a b ; model=c ; diff=C01@3' -> (impl fails, model fails, {prop: first differing observation index})"""
    impl, model, diff = [], [], {}
    if not mon.startswith("mon "):
        return impl, model, diff
    parts = [x.strip() for x in mon[4:].split(" ; ")]
    def toks(s, key):
        assert s.startswith(key + "="), s
        out = []
        for t in s[len(key) + 1:].split():
            p, st, cl = t.split(":", 2)
            out.append((p, int(st), cl))
        return out
    impl, model = toks(parts[0], "impl"), toks(parts[1], "model")
    if len(parts) > 2 and parts[2].startswith("diff="):
        for t in parts[2][5:].split():
            p, _, i = t.partition("@")
            diff[p] = int(i)
    return impl, model, diff


# ---------------------------------------------------------------- projections for the correspondence

def split_line(line):
    msgs, _, st = line.partition("|")
    return msgs.split(), st.split()


def recv(snd, tok):
    if len(tok) != 6:
        return
    a, b, c = int(tok[0:2], 16), int(tok[2:4], 16), int(tok[4:6], 16)
    ty, ch = a >> 4, a & 15
    if ty == 9 and c > 0:
        snd.add((ch, b))
    elif ty == 8 or (ty == 9 and c == 0):
        snd.discard((ch, b))
    elif ty == 11 and b == 123:
        for p in [p for p in snd if p[0] == ch]:
            snd.discard(p)


def project(prop, case, lines):
    """canonical view of one side's output relevant to `prop` (list of strings, one per op)"""
    ops = [l for l in case.lines()[1:] if not (l.startswith("cfg.") and l != "cfg.end")]
    out = []
    snd = set()
    actions = {}
    for l in case.cfg:
        t = l.split()
        if t[0] == "cfg.action":
            actions[t[1]] = t[2]
    for i, op in enumerate(ops):
        line = lines[i] if i < len(lines) else "<missing>"
        msgs, st = split_line(line)
        t = op.split()
        if prop == "C01":
            for m in msgs:
                recv(snd, m)
            out.append(" ".join("%d:%d" % p for p in sorted(snd)))
        elif prop in ("C02", "C03"):
            out.append(" ".join(msgs) if t[0] == "key" else "")
        elif prop == "C04":
            out.append((" ".join(msgs) if t[0] == "key" else "") + "|" + " ".join(st))
        elif prop == "C05":
            # kind/channel of every message and whether its data bytes are valid
            def cls(m):
                if len(m) != 6:
                    return m
                return m[0:2] + ("v" if int(m[2:4], 16) < 128 else "X") + ("v" if int(m[4:6], 16) < 128 else "X")
            out.append(" ".join(cls(m) for m in msgs))
        elif prop == "C13":
            isp = t[0] == "key" and actions.get(t[2]) == "panic"
            out.append(line if isp else "")
        elif prop == "C14":
            out.append(line if "SIG" in msgs else str(msgs.count("SIG")))
        elif prop in ("C06", "C07", "C08"):
            out.append(" ".join(msgs) if t[0] == "abs" else "")
        else:
            out.append(line)
    return out
