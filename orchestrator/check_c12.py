"""C12: config selection — user over factory, specific over default, bad files isolated, missing directory handled.
Generated hidi-config trees are materialised in a temp dir; the real LoadDeviceConfigs + FindConfig run on them for every
device type; the model (Hidi/Loader.lean) gets each file's parse outcome and must agree; the property's own precedence
rule is evaluated independently (Python) on the implementation's answers."""
import os, random, time
from common import *
import dev

ROOTS = ["factory/gamepad", "factory/keyboard", "user/gamepad", "user/keyboard"]


def valid_cfg(ident, rng=None):
    if rng is not None and rng.random() < 0.5:
        # zero components left out (they default to zero); a default configuration may have no identifier table at all
        keys = [(k, v) for k, v in zip(("bus", "vendor", "product", "version"), ident) if v != 0 or rng.random() < 0.3]
        idt = ("[identifier]\n" + "".join("%s = %d\n" % kv for kv in keys)) if keys or rng.random() < 0.5 else ""
        return ("collision_mode = \"off\"\n%s[defaults]\nchannel = 1\nmapping = \"m\"\n[[mapping]]\nname = \"m\"\n" % idt).encode()
    return ("collision_mode = \"off\"\n[identifier]\nbus = %d\nvendor = %d\nproduct = %d\nversion = %d\n[defaults]\nchannel = 1\nmapping = \"m\"\n"
            "[[mapping]]\nname = \"m\"\n" % ident).encode()


BROKEN = [b"collision_mode = \"off\"\n[[mapping]]\nname = \"m\"\n[mapping.keys]\nKEY_A = \"c1", b"exit_sequence = [\"KEY_ESC\"",
          b"collision_mode = \n", b"\xff\xfe", b"collision_mode = \"nope\"\n[defaults]\nchannel=1\nmapping=\"m\"\n[[mapping]]\nname=\"m\"\n",
          b"", b"[defaults]\nmapping = \"x\"\n", b"mapping = 1979-05-27\n", b"unknown_field = 1\n"]


def hx(s):
    b = s.encode() if isinstance(s, str) else s
    return b.hex() if b else "-"


def gen_tree(rng):
    """returns (go_ops, model_ops, expectation-data)"""
    ids = [(3, 0x45e, 0x28e, 0x110), (5, 0x54c, 0x9cc, 0x8111), (0, 0, 0, 0), (3, 1, 2, 3)]
    # the device asking: mostly an ordinary identifier; sometimes one with zero vendor and product but a bus / version
    # (uinput and platform devices), or with only one non-zero component — none of these is the default (all-zero) identifier
    dev_id = rng.choice([ids[0], ids[0], ids[0], (6, 0, 0, 0), (0, 0, 0, 5), (25, 0, 0, 1), (0, 0x45e, 0, 0), (0, 0, 7, 0), (3, 0x45e, 0x28e, 0)])
    ids[0] = dev_id
    go, mo = ["tree.reset"], ["tree.reset"]
    missing = set()
    files = [[] for _ in range(4)]
    for r in range(4):
        if rng.random() < 0.08:
            missing.add(r)
            continue
        # the four candidate files: exact id / default (zero id)
        present = []
        if rng.random() < 0.5:
            present.append(("%s.toml" % rng.choice(["PS4", "dev", "Z_dev", "1"]), dev_id))
        if rng.random() < 0.5:
            present.append((rng.choice(["0_default.toml", "default.TOML", "a/0_default.toml"]), (0, 0, 0, 0)))
        if rng.random() < 0.3:
            present.append(("other.toml", ids[1]))
        if rng.random() < 0.15:
            # duplicate identifier in a later (lexically) file: later wins
            present.append(("zz_dup.toml", rng.choice([dev_id, (0, 0, 0, 0)])))
        if rng.random() < 0.1:
            present.append(("sub/dir/nested.toml", ids[3]))
        if rng.random() < 0.15 and present:
            # a copy of a file of another directory adapted for another device: same name, other identifier
            other_names = [f[0] for rr in range(r) for f in files[rr] if f[1] == "ok"]
            if other_names:
                nm = rng.choice(other_names)
                if not any(pn == nm for pn, _ in present):
                    present.append((nm, rng.choice([ids[1], ids[3], dev_id, (0, 0, 0, 0)])))
        for name, ident in present:
            files[r].append((name, "ok", ident, valid_cfg(ident, rng)))
        # a candidate that is a symbolic link to a configuration kept elsewhere (dot-file managers, shared set-ups):
        # the link's own name decides whether it is a configuration file, its target's content is the configuration
        if rng.random() < 0.25:
            ident = rng.choice([dev_id, (0, 0, 0, 0), ids[1]])
            lname = rng.choice(["link_%d.toml", "zz_link_%d.TOML", "l/ink_%d.toml"]) % rng.randrange(100)
            tname = "store/%s_%d.%s" % (rng.choice(["cfg", "x"]), rng.randrange(1000), rng.choice(["toml.orig", "conf", "txt"]))
            files[r].append((tname, "nontoml", ident, valid_cfg(ident) + b"# " + b"x" * rng.choice([0, 10, 300]) + b"\n"))
            files[r].append((lname, "link-ok", ident, "@hidi-config/" + ROOTS[r] + "/" + tname))
        if rng.random() < 0.06:
            files[r].append(("dangling_%d.toml" % rng.randrange(100), "link-fail", None, rng.choice(["nowhere.toml", "@hidi-config/" + ROOTS[r]])))
        # decorations: broken files, non-TOML files, empty dirs, dir named *.toml
        for _ in range(rng.choice([0, 0, 1, 2, 4])):
            k = rng.random()
            if rng.random() < 0.25:
                # hidden files: the shipped user directories contain `.placeholder`; editors leave `.x.toml.swp`; a
                # dot-file sorts before every other entry of its directory
                hid = rng.choice([".placeholder", ".DS_Store", ".dev.toml.swp", ".git"])
                if not any(f[0] == hid for f in files[r]):
                    if hid == ".git" and rng.random() < 0.5:
                        files[r].append((hid, "dir", None, None))
                    else:
                        files[r].append((hid, "nontoml", dev_id, valid_cfg(dev_id)))
                continue
            nm = rng.choice(["broken", "aaa", "zzz", "0", "x/y"]) + str(rng.randrange(100))
            # one decoration per base name and directory: a file and a directory of the same name cannot coexist
            if any(f[0].split(".")[0] == nm for f in files[r]):
                continue
            if k < 0.5:
                # broken in many ways, or (a third) off by one character: `channel = 0` in an otherwise valid file
                bc = rng.choice(BROKEN) if rng.random() < 0.66 else near_broken(rng.choice([dev_id, (0, 0, 0, 0), ids[1]]))
                files[r].append((nm + rng.choice([".toml", ".TOML", ".Toml"]), "fail", None, bc))
            elif k < 0.8:
                # not a TOML file by name: ignored even if its content is a valid config for the device
                files[r].append((nm + rng.choice([".txt", ".toml.bak", "toml", ".tom", ""]), "nontoml", dev_id, valid_cfg(dev_id)))
            else:
                files[r].append((nm + rng.choice(["", ".toml"]), "dir", None, None))
    for r in range(4):
        if r not in missing:
            rng.shuffle(files[r])
    g1, m1, maps = emit_tree(files, missing)
    go += g1
    mo += m1
    go.append("tree.load")
    mo.append("tree.load")
    finds = []
    fops = []
    for ident in [dev_id, ids[1], ids[3], (9, 9, 9, 9), rng.choice([(6, 0, 0, 0), (0, 0, 0, 1), (0, 0, 0, 0)])]:
        for ty in range(4):
            fops.append("find %d %d %d %d %d" % (ident + (ty,)))
            finds.append((ident, ty))
    go += fops
    mo += fops
    phases = [(go, mo, {"maps": maps, "missing": missing, "finds": finds, "files": files})]
    # ---- the same tree edited in place and loaded again by the same process (the application reloads the whole tree on
    # every change): a file rejected before is repaired — same length, possibly the same time stamp —, an accepted one is
    # broken, removed, or given another identifier; the second load must be what a fresh process would load
    if rng.random() < 0.35:
        import copy
        files2 = copy.deepcopy(files)
        go2, mo2 = [], ["tree.reset"]
        for r in range(4):
            if r in missing:
                continue
            keep = []
            for (name, kind, ident, content) in files2[r]:
                if kind == "fail" and content in NEAR and rng.random() < 0.7:
                    ident = NEAR[content]
                    content = valid_cfg(ident)
                    kind = "ok"
                    go2.append("tree.rewrite %d %s %s %d" % (r, hx(name), hx(content), rng.choice([0, 1, 1])))
                elif kind == "ok" and rng.random() < 0.2:
                    content = near_broken(ident)
                    kind, ident = "fail", None
                    go2.append("tree.rewrite %d %s %s %d" % (r, hx(name), hx(content), rng.choice([0, 1, 1])))
                elif kind == "ok" and rng.random() < 0.1:
                    go2.append("tree.remove %d %s" % (r, hx(name)))
                    continue
                elif kind == "ok" and rng.random() < 0.1:
                    ident = rng.choice([dev_id, (0, 0, 0, 0), ids[1]])
                    content = valid_cfg(ident)
                    go2.append("tree.rewrite %d %s %s %d" % (r, hx(name), hx(content), rng.choice([0, 1])))
                keep.append((name, kind, ident, content))
            files2[r] = keep
        _, m2, maps2 = emit_tree(files2, missing)
        mo2 += m2
        go2.append("tree.load")
        mo2.append("tree.load")
        go2 += fops
        mo2 += fops
        phases.append((go2, mo2, {"maps": maps2, "missing": missing, "finds": finds, "files": files2, "reload": True}))
    return phases


def near_broken(ident):
    """a configuration that is rejected and differs from the valid one for `ident` in one character (same length)"""
    b = valid_cfg(ident).replace(b"channel = 1\n", b"channel = 0\n")
    NEAR[b] = ident
    return b


NEAR = {}


def emit_tree(files, missing):
    go, mo = [], []
    maps = [dict() for _ in range(4)]     # expected: id -> filename, built with the same rule as the property states
    for r in range(4):
        if r in missing:
            go.append("tree.missing %d" % r)
            mo.append("tree.missing %d" % r)
            continue
        for name, kind, ident, content in files[r]:
            if kind == "dir":
                go.append("tree.dir %d %s" % (r, hx(name)))
                mo.append("tree.dir %d %s" % (r, hx(name)))
                continue
            if kind in ("link-ok", "link-fail"):
                go.append("tree.link %d %s %s" % (r, hx(name), hx(content)))
                if kind == "link-ok":
                    mo.append("tree.file %d %s ok %d %d %d %d" % ((r, hx(name)) + ident))
                else:
                    mo.append("tree.file %d %s fail" % (r, hx(name)))
                continue
            go.append("tree.file %d %s %s" % (r, hx(name), hx(content)))
            if kind == "ok" or kind == "nontoml":
                mo.append("tree.file %d %s ok %d %d %d %d" % ((r, hx(name)) + ident))
            else:
                mo.append("tree.file %d %s fail" % (r, hx(name)))
        # expectation (independent of the model): walk order = sorted by path components; later wins
        for name, kind, ident, content in sorted([f for f in files[r] if f[1] in ("ok", "link-ok")], key=lambda f: f[0].encode().split(b"/")):
            maps[r][ident] = name.split("/")[-1]
    return go, mo, maps


def expected_find(maps, ident, ty):
    if ty == 1:
        user, fact = maps[3], maps[1]
    elif ty == 3:
        user, fact = maps[2], maps[0]
    else:
        return "err:unsupported"
    for m, t in ((user, "user"), (user, "user"), (fact, "factory"), (fact, "factory")):
        pass
    if ident in user:
        return "ok %s user" % hx(user[ident])
    if (0, 0, 0, 0) in user:
        return "ok %s user" % hx(user[(0, 0, 0, 0)])
    if ident in fact:
        return "ok %s factory" % hx(fact[ident])
    if (0, 0, 0, 0) in fact:
        return "ok %s factory" % hx(fact[(0, 0, 0, 0)])
    return "err:notfound"


def run(prop, tier, seed, verdict):
    binary, blog = go_build("config")
    if binary is None:
        verdict.violation({"clause": "harness-build"}, {"log": blog[-3000:]}, False)
        return {"evaluations": 0, "distinct_nontrivial": 0}
    rng = random.Random(seed * 101 + 12)
    n = 2000 if tier == "quick" else 20000
    workdir = os.path.join(WORK, prop)
    os.makedirs(workdir, exist_ok=True)
    trees = [ph for _ in range(n) for ph in gen_tree(rng)]
    go_ops, mo_ops = [], []
    for i, (g, m, e) in enumerate(trees):
        go_ops.append("case %d" % i)
        go_ops.extend(g)
        mo_ops.append("case %d" % i)
        mo_ops.extend(m)
    env_tmp = os.path.join(workdir, "tmp")
    os.makedirs(env_tmp, exist_ok=True)
    os.environ["VERIF_TMP"] = env_tmp
    rc, gout, glog = dev.run_go(binary, "\n".join(go_ops) + "\n", workdir, "c12", timeout=1800)
    rc2, mout, merr = dev.run_driver("\n".join(mo_ops) + "\n")
    G, M = dev.parse_outputs(gout), dev.parse_outputs(mout)
    nfind = 0
    combos = set()
    disag = 0
    for i, (g, m, e) in enumerate(trees):
        gl = [x for x in G.get(str(i), []) if x != ""]
        ml = [x for x in M.get(str(i), []) if x != ""]
        if len(gl) != 1 + len(e["finds"]):
            verdict.violation({"clause": "runner-crash"}, {"ops": g[:40], "log": glog[-2000:]}, False)
            break
        # ---- the property on the implementation's answers
        if gl[0] == "hang":
            verdict.violation({"clause": "load-hangs"},
                              {"ops": g, "outcome": "LoadDeviceConfigs did not return within 8 s", "files": [(ROOTS[r], f[0], f[1]) for r in range(4) for f in e["files"][r]]}, True)
        elif gl[0] == "panic":
            verdict.violation({"clause": "load-panic"},
                              {"ops": g, "outcome": "LoadDeviceConfigs panicked", "missing_roots": [ROOTS[r] for r in sorted(e["missing"])]}, True)
        elif e["missing"]:
            if not (gl[0] == "err" or gl[0].startswith("ok")):
                verdict.violation({"clause": "missing-directory"}, {"ops": g, "outcome": gl[0]}, True)
            elif gl[0].startswith("ok"):
                # the missing directory counts as empty: every other directory must still be honoured
                for (ident, ty), ans in zip(e["finds"], gl[1:]):
                    nfind += 1
                    exp = expected_find(e["maps"], ident, ty)
                    if ans != exp:
                        verdict.violation({"clause": "missing-directory-affects-others", "devtype": ty},
                                          {"ops": g, "find": "find %d %d %d %d type=%d" % (ident + (ty,)), "implementation": ans, "expected": exp,
                                           "missing_roots": [ROOTS[r] for r in sorted(e["missing"])],
                                           "rule": "a missing directory is an error or counts as empty; the files of the other directories keep their precedence"}, True)
        else:
            if not gl[0].startswith("ok"):
                verdict.violation({"clause": "load-failed-on-complete-tree"}, {"ops": g, "outcome": gl[0]}, True)
            else:
                for (ident, ty), ans in zip(e["finds"], gl[1:]):
                    nfind += 1
                    exp = expected_find(e["maps"], ident, ty)
                    combos.add((tuple(sorted((r, tuple(sorted(mm))) for r, mm in enumerate(e["maps"]))), ty, ident))
                    if ans != exp:
                        verdict.violation({"clause": "precedence", "expected": exp.split()[0:1] + exp.split()[2:], "devtype": ty},
                                          {"ops": g, "find": "find %d %d %d %d type=%d" % (ident + (ty,)), "implementation": ans,
                                           "expected": exp, "rule": "user exact > user default > factory exact > factory default; keyboards from keyboard dirs, joysticks from gamepad dirs"}, True)
        if gl != ml:
            disag += 1
            if not verdict.violations:
                k = next(j for j in range(max(len(gl), len(ml))) if (gl[j] if j < len(gl) else None) != (ml[j] if j < len(ml) else None))
                verdict.violation({"clause": "correspondence"},
                                  {"correspondence": "Hidi.loadAll/findConfig (lean/Hidi/Loader.lean) vs config.LoadDeviceConfigs/FindConfig",
                                   "ops": g, "model_ops": m, "implementation": gl[k] if k < len(gl) else None, "model": ml[k] if k < len(ml) else None}, False)
    return {
        "evaluations": len(trees) + nfind, "distinct_nontrivial": len(combos),
        "rule": "hidi-config trees: per directory each of {exact-id file, default file, other-id file, duplicate-id file, nested file} present or absent, "
                "decorated with broken .toml files, non-TOML names with valid content, empty directories, directories named *.toml, upper-case suffixes, "
                "8 % of directories missing; 35 % of the trees edited in place (rejected file repaired at the same length and time stamp, accepted file broken / removed / re-identified) and loaded again by the same process; FindConfig for 4 identifiers x 4 device types; distinct_nontrivial = distinct (loaded maps, device type, identifier) combinations queried",
        "find_queries": nfind, "traces_validated_against_impl": len(trees), "reloads_of_an_edited_tree": sum(1 for t in trees if t[2].get("reload")), "disagreements": disag,
        "trees_with_missing_root": sum(1 for t in trees if t[2]["missing"]),
        "samples": [{"ops": trees[0][0][:20], "implementation": [x for x in G.get("0", []) if x][:6]}],
        "assumptions": ["file contents enter the model as parse outcomes (ok+identifier / fail) decided by the generator and confirmed by the real ParseData through the load result",
                        "unreadable (permission-denied) directories are not generated: the sandbox runs as root"],
    }
