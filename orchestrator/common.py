"""Shared machinery of ./check: builds, runners, evidence, verdicts (Python 3 stdlib only)."""
import fcntl, json, os, re, subprocess, sys, time, hashlib, shutil

VERIF = os.path.dirname(os.path.dirname(os.path.abspath(__file__)))
REPO = os.environ.get("VERIF_REPO", "/repo")
LEAN = os.path.join(VERIF, "lean")
BUILD = os.path.join(VERIF, "build")
WORK = os.path.join(VERIF, "work")
EVID = os.path.join(VERIF, "evidence")
DRIVER = os.path.join(LEAN, ".lake", "build", "bin", "hidi-driver")

GOENV = dict(os.environ, GOFLAGS="-mod=mod", GOPROXY="off", GOSUMDB="off", GOTOOLCHAIN="local",
             CGO_ENABLED=os.environ.get("CGO_ENABLED", "1"))

ALLOWED_AXIOMS = {"propext", "Classical.choice", "Quot.sound"}

TRUSTED_BASE = [
    "Lean 4.33.0 kernel; axioms limited to propext, Classical.choice, Quot.sound (audited with #print axioms on every run)",
    "the Lean compiler/runtime executing the model definitions in hidi-driver",
    "tools/extract (Go AST fact/table extractor) and the hand-written expectations on its output; its Go-to-Lean body translators "
    "(golite.go, multinote.go, ledframe.go, findcfg.go, notes.go) and the primitives of Hidi/GoLite.lean / Hidi/Led.lean they target "
    "(map accesses, look-ups, sends, sort.Ints, closures of the LED loop are modelled; control flow and arithmetic are translated)",
    "the overlay-injected Go runners under /verif/harness and this orchestrator's diff/canonicalisation",
]


def log(*a):
    print(*a, file=sys.stderr, flush=True)


class Lock:
    def __init__(self, name):
        os.makedirs(BUILD, exist_ok=True)
        self.path = os.path.join(BUILD, name + ".lock")

    def __enter__(self):
        self.f = open(self.path, "w")
        fcntl.flock(self.f, fcntl.LOCK_EX)
        return self

    def __exit__(self, *a):
        fcntl.flock(self.f, fcntl.LOCK_UN)
        self.f.close()


def run(cmd, cwd=None, env=None, timeout=None, stdin=None, check=False):
    p = subprocess.run(cmd, cwd=cwd, env=env, timeout=timeout, input=stdin,
                       stdout=subprocess.PIPE, stderr=subprocess.STDOUT, text=True)
    if check and p.returncode != 0:
        raise RuntimeError("command failed: %s\n%s" % (cmd, p.stdout[-4000:]))
    return p.returncode, p.stdout


# ---------------------------------------------------------------- overlay + go builds

OVERLAY_FILES = {
    "internal/pkg/input/zz_verif_hooks.go": "harness/input/hooks.go",
    "internal/pkg/midi/device/zz_verif_runner_test.go": "harness/device/runner_test.go",
    "internal/pkg/midi/device/zz_verif_led_test.go": "harness/device/led_test.go",
    "internal/pkg/midi/device/zz_verif_life_test.go": "harness/device/life_test.go",
    "internal/pkg/midi/device/config/zz_verif_runner_test.go": "harness/config/runner_test.go",
    "internal/pkg/midi/device/config/zz_verif_watch_test.go": "harness/config/watch_test.go",
    "internal/pkg/midi/device/config/zz_verif_parse_test.go": "harness/config/parse_test.go",
    "internal/pkg/input/zz_verif_runner_test.go": "harness/input/runner_test.go",
    "internal/pkg/utils/zz_verif_runner_test.go": "harness/utils/runner_test.go",
    "internal/pkg/midi/zz_verif_runner_test.go": "harness/midi/runner_test.go",
    "cmd/hidi/zz_verif_runner_test.go": "harness/hidi/runner_test.go",
    "cmd/hidi/zz_verif_template_test.go": "harness/hidi/template_test.go",
    # the cgo ALSA driver cannot compile here (no asoundlib.h); nothing under test lives in it
    "internal/pkg/midi/driver/alsa/alsa.go": "harness/alsa/alsa.go",
}


def write_overlay():
    os.makedirs(BUILD, exist_ok=True)
    rep = {}
    for dst, src in OVERLAY_FILES.items():
        s = os.path.join(VERIF, src)
        if os.path.exists(s):
            rep[os.path.join(REPO, dst)] = s
    path = os.path.join(BUILD, "overlay.json")
    with open(path, "w") as f:
        json.dump({"Replace": rep}, f, indent=1)
    return path


GO_PKGS = {
    "device": "./internal/pkg/midi/device",
    "config": "./internal/pkg/midi/device/config",
    "input": "./internal/pkg/input",
    "utils": "./internal/pkg/utils",
    "midi": "./internal/pkg/midi",
    "hidi": "./cmd/hidi",
}


def go_build(name, race=False):
    """(re)build the test binary of one package from /repo's working tree with the harness overlaid"""
    with Lock("go-" + name):
        ov = write_overlay()
        # one binary per check process: another check running in parallel may be executing its own copy right now, and a
        # running binary cannot be overwritten
        out = os.path.join(BUILD, "%s%s.%d.test" % (name, ".race" if race else "", os.getpid()))
        import atexit
        atexit.register(lambda p=out: os.path.exists(p) and os.remove(p))
        cmd = ["go", "test", "-c", "-tags", "verif", "-vet=off", "-overlay", ov, "-o", out]
        if race:
            cmd.append("-race")
        cmd.append(GO_PKGS[name])
        t0 = time.time()
        rc, o = run(cmd, cwd=REPO, env=GOENV, timeout=600)
        if rc != 0:
            return None, o
        log("[build] go %s%s: %.1fs" % (name, " (race)" if race else "", time.time() - t0))
        return out, o


# ---------------------------------------------------------------- lean builds + audit

def lean_gen():
    """regenerate Hidi/Gen from the working tree (tools/extract); returns (ok, log)"""
    ext = os.path.join(VERIF, "tools", "extract")
    if not os.path.isdir(ext):
        return True, ""
    with Lock("gen"):
        gen_dir = os.path.join(LEAN, "Hidi", "Gen")
        os.makedirs(gen_dir, exist_ok=True)
        tmp = os.path.join(BUILD, "gen.tmp")
        shutil.rmtree(tmp, ignore_errors=True)
        os.makedirs(tmp)
        rc, o = run(["go", "run", ".", "-repo", REPO, "-out", tmp], cwd=ext, env=GOENV, timeout=300)
        if rc != 0:
            return False, o
        # only touch files whose content changed (keeps lake incremental)
        for fn in sorted(os.listdir(tmp)):
            new = open(os.path.join(tmp, fn)).read()
            dst = os.path.join(gen_dir, fn)
            old = open(dst).read() if os.path.exists(dst) else None
            if old != new:
                with open(dst, "w") as f:
                    f.write(new)
        for fn in os.listdir(gen_dir):
            if fn not in os.listdir(tmp):
                os.remove(os.path.join(gen_dir, fn))
        return True, o


def lake_build(targets):
    with Lock("lake"):
        t0 = time.time()
        rc, o = run(["lake", "build"] + list(targets), cwd=LEAN, timeout=3600)
        log("[build] lake %s: %.1fs rc=%d" % (" ".join(targets), time.time() - t0, rc))
        return rc == 0, o


def strip_comments(src):
    # remove /- ... -/ (nested not handled beyond one level of care) and -- comments
    out, i, depth = [], 0, 0
    while i < len(src):
        if src.startswith("/-", i):
            depth += 1
            i += 2
        elif depth and src.startswith("-/", i):
            depth -= 1
            i += 2
        elif depth:
            i += 1
        elif src.startswith("--", i):
            j = src.find("\n", i)
            i = len(src) if j < 0 else j
        else:
            out.append(src[i])
            i += 1
    return "".join(out)


FORBIDDEN = re.compile(r"\bsorry\b|\badmit\b|^\s*axiom\s|native_decide|bv_decide|implemented_by|\bunsafe\s|maxHeartbeats\s+0\b", re.M)


def source_audit():
    """grep model and proof sources for forbidden constructs (comments stripped)"""
    hits = []
    for root in ("Hidi", "HidiProofs"):
        for dp, _, fns in os.walk(os.path.join(LEAN, root)):
            for fn in fns:
                if fn.endswith(".lean"):
                    p = os.path.join(dp, fn)
                    src = strip_comments(open(p).read())
                    for m in FORBIDDEN.finditer(src):
                        hits.append("%s: %s" % (os.path.relpath(p, LEAN), m.group(0).strip()))
    for fn in ("Driver.lean",):
        src = strip_comments(open(os.path.join(LEAN, fn)).read())
        for m in FORBIDDEN.finditer(src):
            hits.append("%s: %s" % (fn, m.group(0).strip()))
    return hits


# properties decided on the key path of package device: their proof obligations include the tie between the function
# bodies regenerated from device.go / events.go (Hidi/Gen/Bodies.lean) and the model (HidiProofs/Props/GenTie.lean)
GENTIE_PROPS = {"C01", "C02", "C03", "C04", "C13", "C14"}
# properties decided on the axis path: handleABSEvent / processEvent regenerated and proved equal to the model (GenTieAbs.lean)
GENTIE_ABS_PROPS = {"C01", "C05", "C06", "C07", "C08"}


def prop_modules(prop):
    """proof modules of a property: HidiProofs/Props/<prop>.lean and <prop>*.lean (e.g. C05full.lean)"""
    import glob as _g
    files = sorted(_g.glob(os.path.join(LEAN, "HidiProofs", "Props", prop + "*.lean")))
    mods = [os.path.basename(f)[:-5] for f in files]
    if prop in GENTIE_PROPS and os.path.exists(os.path.join(LEAN, "HidiProofs", "Props", "GenTie.lean")):
        mods.append("GenTie")
    if prop in GENTIE_ABS_PROPS and os.path.exists(os.path.join(LEAN, "HidiProofs", "Props", "GenTieAbs.lean")):
        mods.append("GenTieAbs")
    # whole histories through the regenerated event path (keys, axes, SYN, MIDI input) = the model's run
    if prop in ("C01", "C05") and os.path.exists(os.path.join(LEAN, "HidiProofs", "Props", "GenTieRun.lean")):
        mods.append("GenTieRun")
    return mods


def prop_theorems(prop):
    """names of the theorems in the property's proof modules (fully qualified)"""
    names = []
    for mod in prop_modules(prop):
        p = os.path.join(LEAN, "HidiProofs", "Props", mod + ".lean")
        src = strip_comments(open(p).read())
        ns = []
        for line in src.split("\n"):
            m = re.match(r"\s*namespace\s+(\S+)", line)
            if m:
                ns.append(m.group(1))
                continue
            m = re.match(r"\s*end\s+(\S+)", line)
            if m and ns and ns[-1].split(".")[-1] == m.group(1).split(".")[-1]:
                ns.pop()
                continue
            m = re.match(r"\s*(?:private\s+|protected\s+)?theorem\s+(\S+)", line)
            if m:
                names.append(".".join(ns + [m.group(1)]))
    return names


def axiom_audit(prop):
    """build the property's proof module and #print axioms on each of its theorems.
    returns dict: ok, theorems:[{name, axioms, ok}], log"""
    names = prop_theorems(prop)
    res = {"ok": True, "theorems": [], "log": ""}
    if not names:
        res["ok"] = False
        res["log"] = "no theorems found for " + prop
        return res
    ok, o = lake_build(["Hidi", "hidi-driver"] + ["HidiProofs.Props." + m for m in prop_modules(prop)])
    if not ok:
        res["ok"] = False
        res["log"] = o[-6000:]
        res["build_failed"] = True
        return res
    os.makedirs(WORK, exist_ok=True)
    audit = os.path.join(WORK, "Audit_%s.lean" % prop)
    with open(audit, "w") as f:
        for m in prop_modules(prop):
            f.write("import HidiProofs.Props.%s\n" % m)
        for n in names:
            f.write("#print axioms %s\n" % n)
    rc, o = run(["lake", "env", "lean", audit], cwd=LEAN, timeout=1800)
    res["log"] = o[-6000:]
    # parse: "'name' depends on axioms: [a, b]" or "'name' does not depend on any axioms"
    found = {}
    for m in re.finditer(r"'([^']+)' depends on axioms: \[([^\]]*)\]", o):
        found[m.group(1)] = [a.strip() for a in m.group(2).replace("\n", " ").split(",") if a.strip()]
    for m in re.finditer(r"'([^']+)' does not depend on any axioms", o):
        found[m.group(1)] = []
    for n in names:
        ax = found.get(n)
        good = ax is not None and set(ax) <= ALLOWED_AXIOMS
        res["theorems"].append({"name": n, "axioms": ax, "ok": good})
        if not good:
            res["ok"] = False
    if rc != 0:
        res["ok"] = False
    return res


# ---------------------------------------------------------------- known findings, evidence, verdicts

def known_findings():
    p = os.path.join(VERIF, "known_findings.json")
    if not os.path.exists(p):
        return []
    return json.load(open(p)).get("findings", [])


def finding_matches(entry, prop, sig):
    """an entry suppresses a violation only when it is status=finding, same property, and every key of
    its signature equals the violation's signature"""
    if entry.get("status") != "finding" or entry.get("property") != prop:
        return False
    es = entry.get("signature", {})
    return all(sig.get(k) == v for k, v in es.items())


def write_replay(prop, payload):
    d = os.path.join(WORK, "replays")
    os.makedirs(d, exist_ok=True)
    h = hashlib.sha1(json.dumps(payload, sort_keys=True, default=str).encode()).hexdigest()[:10]
    p = os.path.join(d, "%s-%s.json" % (prop, h))
    with open(p, "w") as f:
        json.dump(payload, f, indent=1, default=str)
    return p


def write_evidence(prop, tier, seed, coverage, assumptions, wall_s, violations, extra=None):
    os.makedirs(EVID, exist_ok=True)
    ev = {"property_id": prop, "tier": tier, "seed": seed, "level": "proof", "coverage": coverage,
          "assumptions": assumptions, "wall_s": round(wall_s, 2), "violations": violations}
    if extra:
        ev.update(extra)
    with open(os.path.join(EVID, prop + ".json"), "w") as f:
        json.dump(ev, f, indent=1, default=str)


class Verdict:
    """collects violations; prints the VIOLATION / KNOWN-FINDING lines; decides the exit code"""

    def __init__(self, prop):
        self.prop = prop
        self.violations = []   # (sig, replay_payload, found_input)
        self.known = []

    def violation(self, sig, payload, found_input=True):
        for e in known_findings():
            if finding_matches(e, self.prop, sig):
                if e.get("text") not in [k for k in self.known]:
                    self.known.append(e.get("text"))
                return
        self.violations.append((sig, payload, found_input))

    def finish(self):
        for k in self.known:
            print("KNOWN-FINDING: property=%s %s" % (self.prop, k))
        seen = set()
        for sig, payload, found in self.violations:
            key = json.dumps(sig, sort_keys=True, default=str)
            if key in seen:
                continue
            seen.add(key)
            payload = dict(payload)
            payload["property"] = self.prop
            payload["signature"] = sig
            payload.setdefault("seed", int(os.environ.get("VERIF_SEED", "1")))
            payload.setdefault("tier", getattr(self, "tier", os.environ.get("VERIF_TIER", "quick")))
            payload.setdefault("how_to_replay", "./check %s --replay <this file>" % self.prop)
            path = write_replay(self.prop, payload)
            print("VIOLATION property=%s replay=%s%s" % (self.prop, path, "" if found else " no-failing-input-found"))
            if len(seen) >= 12:
                break
        sys.stdout.flush()
        return 1 if self.violations else 0
