"""C19: configuration changes are noticed (config.DetectDeviceConfigChanges).

The real watcher runs in a temporary working directory with the four configuration directories (inotify works in the
sandbox).  Scripts of in-place modifications, consumer reads and cancellation are executed with real-time gaps that let
the goroutine settle; the model (Hidi/Watch.lean, a transition system whose two source-dependent parameters — the
suffix literal and whether the hand-off is selected against ctx.Done() — are regenerated from monitor.go) executes the
same script.  The property's clauses are evaluated independently on the implementation's answers:
  notify : a drain after an in-place modification of a *.toml file (any case) sees a notification;
  silent : a drain after modifications of other files only sees none;
  stops  : after cancel the watcher goroutine returns without anybody reading, whatever was pending;
  closed : after cancel a reader sees the stream end."""
import os, random, time, concurrent.futures
from common import *
import dev

TOML_NAMES = ["a.toml", "0_default.toml", "My Pad.TOML", "x.Toml", "k.toml", "8BitDo.SN30.toml", "generic.v2.TOML", ".hidden.toml",
              "a.toml.toml", "pad-1.2.3.toml", "ö.toml"]
OTHER_NAMES = ["notes.txt", "a.toml.bak", "xtoml", "README", "atoml", "cfg.tom", "backup.toml~", "mytoml", "x.toml.orig", ".toml.swp",
               "toml", "a.toml.d"]


def hx(s):
    return s.encode().hex() if s else "-"


def gen_script(rng, cid, kind=None):
    """returns (ops, expectations) ; expectations: list of (op index in outputs, clause, expected set)"""
    ops = ["case %s" % cid, "w.reset"]
    files = []
    for d in range(4):
        for nm in rng.sample(TOML_NAMES, 2) + rng.sample(OTHER_NAMES, 3):
            files.append((d, nm))
            ops.append("w.file %d %s" % (d, hx(nm)))
    if rng.random() < 0.15:
        # one of the four directories is missing at start-up: the other three are watched all the same
        gone = rng.randrange(4)
        files = [f for f in files if f[0] != gone]
        ops = [o for o in ops if not o.startswith("w.file %d " % gone)]
        ops.append("w.nodir %d" % gone)
    ops.append("w.start")
    exp = [("start", {"started"})]
    kind = kind or rng.choice(["mods", "mods", "mods", "cancel-idle", "cancel-pending", "cancel-pending", "burst"])
    toml = [f for f in files if f[1].lower().endswith(".toml")]
    other = [f for f in files if not f[1].lower().endswith(".toml")]
    nsteps = rng.choice([1, 2, 3])
    for _ in range(nsteps if kind in ("mods", "burst") else rng.choice([0, 1])):
        relevant = rng.random() < 0.55
        group = []
        nmods = rng.choice([1, 1, 2, 5]) if kind == "burst" else 1
        for _ in range(nmods):
            if relevant:
                d, nm = rng.choice(toml)
                mode = rng.choice(["a", "a", "t", "e"])
            else:
                d, nm = rng.choice(other)
                mode = rng.choice(["a", "t", "m", "e"])
            ops.append("w.mod %d %s %s" % (d, hx(nm), mode))
            group.append((nm, mode))
        if relevant and rng.random() < 0.4:
            # the TOML modification is followed (the notification possibly not yet taken) by events that are none: an
            # editor's swap / backup file, a chmod of the file itself
            for _ in range(rng.choice([1, 2, 4])):
                if rng.random() < 0.7:
                    d2, nm2 = rng.choice(other)
                    md2 = rng.choice(["a", "t", "m", "e"])
                else:
                    d2, nm2 = rng.choice(toml)
                    md2 = "m"
                ops.append("w.mod %d %s %s" % (d2, hx(nm2), md2))
                group.append((nm2, md2))
        if not relevant and rng.random() < 0.3:
            # metadata change of a TOML file: not a modification of its content
            d, nm = rng.choice(toml)
            ops.append("w.mod %d %s m" % (d, hx(nm)))
            group.append((nm, "m"))
        if rng.random() < 0.4:
            # late consumer; very late (a reload of many devices takes seconds) in one script of sixteen
            ops.append("w.sleep %d" % (1300 if relevant and cid % 16 == 5 else rng.choice([30, 150, 400])))
        ops.append("w.drain 500" if relevant else "w.drain 300")
        exp.append(("notify" if relevant else "silent", {"some"} if relevant else {"zero"}, group))
    if kind == "cancel-idle" or (kind in ("mods", "burst") and rng.random() < 0.5):
        ops.append("w.cancel")
        ops.append("w.stopped 1000")
        exp.append(("stops", {"stopped"}, "cancel with nothing pending"))
        ops.append("w.closed 1000")
        exp.append(("closed", {"closed"}, "cancel with nothing pending"))
    elif kind == "cancel-pending":
        d, nm = rng.choice(toml)
        ops.append("w.mod %d %s a" % (d, hx(nm)))
        ops.append("w.sleep %d" % rng.choice([100, 250]))            # the goroutine is now in the hand-off
        ops.append("w.cancel")
        ops.append("w.stopped 1000")
        exp.append(("stops", {"stopped"}, "cancel while a notification is offered and nobody reads"))
        ops.append("w.closed 1000")
        exp.append(("closed", {"closed"}, "cancel while a notification is offered"))
    ops.append("w.end")
    return ops, exp, kind


def run_shard(args):
    binary, text, workdir, tag = args
    return dev.run_go(binary, text, workdir, tag, timeout=900, test="TestVerifWatch")


def run(prop, tier, seed, verdict):
    t0 = time.time()
    binary, blog = go_build("config")
    if binary is None:
        verdict.violation({"clause": "harness-build"}, {"log": blog[-3000:]}, False)
        return {"evaluations": 0, "distinct_nontrivial": 0}
    workdir = os.path.join(WORK, prop)
    os.makedirs(os.path.join(workdir, "tmp"), exist_ok=True)
    os.environ["VERIF_TMP"] = os.path.join(workdir, "tmp")
    rng = random.Random(seed * 389 + 19)
    n = 160 if tier == "quick" else 1600
    fixed = ["mods", "cancel-idle", "cancel-pending", "burst"]
    scripts = [gen_script(rng, i, fixed[i] if i < len(fixed) else None) for i in range(n)]
    shards = 16
    jobs = []
    for s in range(shards):
        text = "\n".join(l for i, (ops, _, _) in enumerate(scripts) if i % shards == s for l in ops) + "\n"
        jobs.append((binary, text, workdir, "w%d" % s))
    G = {}
    with concurrent.futures.ThreadPoolExecutor(max_workers=shards) as ex:
        for rc, out, glog in ex.map(run_shard, jobs):
            G.update(dev.parse_outputs(out))
    # the watcher cannot be created at all (descriptor limit reached): evaluated on the implementation alone, in a process
    # of its own (the limit is per process) — nothing is notified and the stream still ends after cancellation
    rc_n, out_n, _ = dev.run_go(binary, "case nofd\nw.reset\nw.nofd\n", workdir, "wnofd", timeout=120, test="TestVerifWatch")
    nofd = [x for x in dev.parse_outputs(out_n).get("nofd", []) if x]
    nofd_res = nofd[-1] if nofd else "crash"
    if nofd_res not in ("quiet closed", "skip"):
        verdict.violation({"clause": "closed-without-watcher", "detail": nofd_res},
                          {"ops": ["w.nofd"], "what": "with no file descriptor left the file-system watcher cannot be created; the notification stream must "
                           "stay silent and still end when the application shuts down", "observed": nofd_res, "expected": ["quiet closed"]}, True)
    mtext = "\n".join(l for ops, _, _ in scripts for l in ops) + "\n"
    rc2, mout, merr = dev.run_driver(mtext)
    M = dev.parse_outputs(mout)
    counts = {"notify": 0, "silent": 0, "stops": 0, "closed": 0, "closed-without-watcher": 0 if nofd_res == "skip" else 1}
    kinds = {}
    disag = 0
    first_disag = None
    for i, (ops, exp, kind) in enumerate(scripts):
        kinds[kind] = kinds.get(kind, 0) + 1
        gl = [x for x in G.get(str(i), []) if x != ""]
        ml = [x for x in M.get(str(i), []) if x != ""]
        if len(gl) != len(exp):
            verdict.violation({"clause": "runner-crash"}, {"ops": ops, "got": gl}, False)
            continue
        for (clause, want, *info), got in zip(exp, gl):
            if clause == "start":
                continue
            counts[clause] += 1
            if got not in want:
                what = {"notify": "no notification after an in-place modification of a .toml file",
                        "silent": "a notification although only non-TOML files (or metadata) were modified",
                        "stops": "1 s after cancellation the watcher goroutine is still running, or (observed = leaked) it returned but the file-system "
                                 "watcher was never closed: its reader goroutine / inotify descriptor is still there",
                        "closed": "the notification stream did not end within 1 s after cancellation"}[clause]
                if clause in ("notify", "silent"):
                    names = sorted({nm for nm, _ in info[0]})
                    if clause == "silent" and any(nm.lower().endswith("toml") and not nm.lower().endswith(".toml") for nm in names):
                        detail = "name-ending-in-toml-without-dot"
                    else:
                        detail = ",".join(sorted({"%s:%s" % (os.path.splitext(nm)[1].lower() or nm, md) for nm, md in info[0]}))
                else:
                    detail = info[0]
                verdict.violation({"clause": clause, "detail": detail},
                                  {"ops": ops, "what": what, "observed": got, "expected": sorted(want), "implementation_output": gl,
                                   "model_output": ml}, True)
        if gl != ml:
            disag += 1
            first_disag = first_disag or (ops, gl, ml)
    if first_disag and not verdict.violations:
        ops, gl, ml = first_disag
        verdict.violation({"clause": "correspondence"},
                          {"correspondence": "Hidi.Watch (lean/Hidi/Watch.lean, parameters from Gen.watchSuffix / Gen.watchHandoffSelectsCtx) vs config.DetectDeviceConfigChanges",
                           "ops": ops, "implementation": gl, "model": ml}, False)
    return {
        "evaluations": sum(counts.values()), "distinct_nontrivial": len({tuple(o) for o, _, _ in scripts}),
        "rule": "scripts over a temporary tree with the four watched directories holding TOML files (.toml/.TOML/.Toml) and other files (incl. names "
                "ending in 'toml' without the dot): in-place append / truncate-and-rewrite / emptying / chmod, single and in bursts, a TOML modification followed by non-TOML events before the consumer reads, consumer reading at once or "
                "after 30-400 ms, cancellation with nothing pending or while a notification is offered and nobody reads; one run with the descriptor "
                "limit at 0 so that the watcher cannot be created (stream silent, ends after cancellation); distinct = distinct scripts",
        "traces_validated_against_impl": len(scripts), "clause_evaluations": counts, "script_kinds": kinds, "disagreements": disag,
        "samples": [{"ops": scripts[0][0], "implementation": G.get("0", [])}],
        "exec_wall_s": round(time.time() - t0, 1),
        "assumptions": ["the kernel reports an in-place modification as IN_MODIFY and fsnotify v1.5 maps it to exactly fsnotify.Write (observed on every run, not proved)",
                        "timing is sampled: 500 ms to see a notification, 1 s for shutdown"],
        "trusted_extra": ["inotify / fsnotify event delivery", "real-time gaps in the scripts let the goroutine settle (the model's settle function)"],
    }
