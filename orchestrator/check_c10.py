"""C10: accepted configurations say what the file says; invalid values are rejected.
Structured descriptions -> TOML text -> real ParseData; (a) the dump of an accepted configuration must equal an
expectation built independently from the description, (b) every single-field invalidation must be rejected,
(c) the model's convert (Hidi/Parser.lean), run on the structure the real decoder produced, must agree."""
import os, random, time, json
from common import *
import dev, parsegen


def run_batch(binary, workdir, files, tag):
    """files: list of bytes. returns list of (go_result, t_ops or None/'decode-err'/'decode-panic')"""
    ops = ["case b"] + ["raw " + (f.hex() if f else "-") for f in files]
    rc, gout, glog = dev.run_go(binary, "\n".join(ops) + "\n", workdir, tag, timeout=1200)
    lines = gout.split("\n")[1:]
    res = []
    for i in range(len(files)):
        if i >= len(lines) or " ;;; " not in lines[i]:
            res.append(("crash", None))
            continue
        a, _, b = lines[i].partition(" ;;; ")
        res.append((a, b))
    return res, glog


def run_model(results):
    """model dumps for every file that decoded; None where the decoder failed"""
    text = ["case m"]
    idx = []
    for i, (a, ser) in enumerate(results):
        if ser and ser.startswith("t.begin"):
            # skip structures with non-finite floats (outside the model: Rat)
            skip = False
            for op in ser.split(" ;; "):
                t = op.split()
                if t[0] in ("t.analog", "t.dz"):
                    bits = int(t[-1])
                    if (bits >> 52) & 0x7ff == 0x7ff:
                        skip = True
            if skip:
                continue
            idx.append(i)
            text.extend(ser.split(" ;; "))
    rc, mout, merr = dev.run_driver("\n".join(text) + "\n")
    ml = mout.split("\n")[1:]
    out = {}
    for k, i in enumerate(idx):
        out[i] = ml[k] if k < len(ml) else "<missing>"
    return out


def first_diff(a, b):
    fa, fb = a.split(" "), b.split(" ")
    for x, y in zip(fa, fb):
        if x != y:
            return x[:300], y[:300]
    return a[:200], b[:200]


def run(prop, tier, seed, verdict):
    t0 = time.time()
    binary, blog = go_build("config")
    if binary is None:
        verdict.violation({"clause": "harness-build"}, {"log": blog[-3000:]}, False)
        return {"evaluations": 0, "distinct_nontrivial": 0}
    KEY, ABS = parsegen.evdev_tables()
    rng = random.Random(seed * 31 + 10)
    n = 1500 if tier == "quick" else 30000
    workdir = os.path.join(WORK, prop)
    # processed in chunks of 1500 descriptions so that the thorough tier does not hold a million files in memory
    import hashlib
    nvalid = ninvalid = 0
    kinds = {}
    disag = []
    total_files, distinct, nmodel = 0, set(), 0
    first_sample = None
    crashed = False
    for c0 in range(0, n, 1500):
        files, meta = [], []
        for i in range(c0, min(n, c0 + 1500)):
            d = parsegen.gen_desc(rng, KEY, ABS)
            files.append(parsegen.render(d).encode())
            meta.append(("valid", d, None))
            for kind, dd, extra in parsegen.invalidations(d, rng):
                files.append(parsegen.render(dd, extra).encode())
                meta.append((kind, dd, extra))
        results, glog = run_batch(binary, workdir, files, "c10")
        model = run_model(results)
        nmodel += len(model)
        total_files += len(files)
        for f in files:
            distinct.add(hashlib.sha1(f).digest()[:10])
        if first_sample is None and files:
            first_sample = {"file": files[0].decode()[:1500], "implementation": results[0][0][:600]}
        for i, ((res, ser), (kind, d, extra)) in enumerate(zip(results, meta)):
            if res == "crash":
                verdict.violation({"clause": "runner-crash"}, {"log": glog[-2000:], "file": files[i].decode("utf8", "replace")}, False)
                crashed = True
                break
            if kind == "valid":
                nvalid += 1
                exp = parsegen.expect(d)
                if res != exp:
                    a, b = first_diff(res, exp)
                    field = a.split("=")[0] if "=" in a else a[:20]
                    verdict.violation({"clause": "unfaithful", "field": field if res.startswith("ok") else res},
                                      {"file": files[i].decode(), "implementation": res[:3000], "expected_from_description": exp[:3000],
                                       "first_difference": {"implementation": a, "expected": b}}, True)
            else:
                ninvalid += 1
                kinds[kind] = kinds.get(kind, 0) + 1
                if res != "err":
                    verdict.violation({"clause": "accepted-invalid", "kind": kind},
                                      {"file": files[i].decode(), "implementation": res[:2000], "invalidation": kind}, True)
            if i in model and model[i] != res:
                if len(disag) < 50:
                    disag.append((files[i], res, model[i], meta[i][0]))
                else:
                    disag.append(None)
        if crashed:
            break
    if disag and not verdict.violations:
        f, res, mo, kind0 = disag[0]
        a, b = first_diff(res, mo)
        verdict.violation({"clause": "correspondence", "kind": kind0},
                          {"correspondence": "Hidi.convert (lean/Hidi/Parser.lean) vs config.ParseData after decoding",
                           "file": f.decode(), "implementation": res[:2000], "model": mo[:2000],
                           "first_difference": {"implementation": a, "model": b}, "disagreements": len(disag)}, False)
    return {
        "evaluations": total_files, "distinct_nontrivial": len(distinct),
        "rule": "structured descriptions (0-4 mappings, 0-3 key sub-tables, 0-2 analog sub-tables, keys by name or xHEX, notes by number or "
                "name in any case, every analog type with optional fields present/absent) rendered to TOML; for each, all applicable "
                "single-field invalidations (%d kinds); distinct = distinct file texts (every file has at least one mapping, so all are non-trivial)" % len(kinds),
        "valid_descriptions": nvalid, "invalidations": ninvalid, "invalidation_kinds": kinds,
        "traces_validated_against_impl": nmodel, "disagreements": len(disag),
        "samples": [first_sample] if first_sample else [],
        "assumptions": ["the TOML decoder (go-toml v2, third party) is not modelled: the model's convert starts from the structure the real decoder produced",
                        "duplicate spellings of one code inside one table (Go map iteration order) are not generated"],
    }
