"""Structured device-configuration descriptions: generator, TOML renderer, independent expectation,
single-field invalidations (C10), and file mutations (C09)."""
import os, random, re, struct
from common import *

PITCH = ["C", "C#", "D", "D#", "E", "F", "F#", "G", "G#", "A", "A#", "B"]
ACTIONS = ["mapping_up", "mapping_down", "mapping", "octave_up", "octave_down", "semitone_up", "semitone_down",
           "channel_up", "channel_down", "channel", "multinote", "panic", "cc_learning", "exit"]
MODES = ["off", "no_repeat", "interrupt", "retrigger"]


def evdev_tables():
    """name -> code tables as generated from the go-evdev module (Hidi/Gen/Evdev.lean)"""
    src = open(os.path.join(LEAN, "Hidi", "Gen", "Evdev.lean")).read()
    tabs = {}
    for name in ("kEYFromString", "aBSFromString"):
        body = src[src.index("def " + name):]
        body = body[:body.index("]\n")]
        tabs[name] = {m.group(1): int(m.group(2)) for m in re.finditer(r'\("([^"]+)", (\d+)\)', body)}
    return tabs["kEYFromString"], tabs["aBSFromString"]


def f64bits(x):
    return struct.unpack("<Q", struct.pack("<d", x))[0]


def ratstr(x):
    from fractions import Fraction
    f = Fraction(x)
    return "%d/%d" % (f.numerator, f.denominator)


def hexs(s):
    b = s.encode() if isinstance(s, str) else s
    return b.hex() if b else "-"


def note_name(n, rng):
    s = PITCH[n % 12] + str(n // 12 - 2)
    return "".join(c.lower() if rng.random() < 0.5 else c for c in s)


# ---------------------------------------------------------------- description generator

def bnd(rng, n):
    """a value in [0, n): the two ends are drawn as often as everything in between (0 and n-1 are where presence flags
    derived from values, off-by-one range checks and sentinel values go wrong)"""
    return rng.choice([0, n - 1, rng.randrange(n), rng.randrange(n)])


def gen_desc(rng, KEY, ABS):
    """a valid description; every reference (default mapping etc.) resolves; no duplicate codes inside one table"""
    keynames = sorted(KEY)
    absnames = sorted(ABS)

    def pick_keys(n, table, names):
        # distinct codes (aliases excluded), by name or by xHEX
        out, used = [], set()
        for _ in range(n * 3):
            if len(out) >= n:
                break
            nm = rng.choice(names)
            code = table[nm]
            if code in used:
                continue
            used.add(code)
            r = rng.random()
            if r < 0.25:
                spell = "x%x" % code
            elif r < 0.3:
                spell = "x%04X" % code
            elif r < 0.33:
                code = rng.randrange(0x300, 0xffff)
                if code in used:
                    continue
                used.add(code)
                spell = "x%x" % code
            else:
                spell = nm
            out.append((spell, code))
        return out

    d = {"mode": rng.choice(MODES), "id": [rng.randrange(0, 65536) if rng.random() < 0.7 else 0 for _ in range(4)],
         "uniq": rng.choice(["", "", "ab:cd", "x y"]),
         "defaults": {"octave": rng.choice([0, 0, 1, -2, 10, -10, 127, -128, 300, 9223372036854775807, -9223372036854775808]),
                      "semitone": rng.choice([0, 0, 3, -3, 11, -200, 4294967296, 9223372036854775807, -9223372036854775808]),
                      "channel": rng.choice([1, 1, 2, 8, 16]), "velocity": rng.choice([0, 64, 1, 127, rng.randint(0, 127)])},
         "colors": [rng.choice([0, 0xffffff, 0x7f0000, rng.randrange(1 << 24)]) for _ in range(7)],
         "mappings": []}
    nm = rng.choice([1, 1, 2, 3, 4])
    names = rng.sample(["Piano", "Chromatic", "Control", "Drums", "A B", "ż", "m4"], nm)
    if nm >= 2 and rng.random() < 0.1:
        names[1] = names[0]        # duplicate mapping name: the last one is the default
    for name in names:
        m = {"name": name, "keys": [], "analog": []}
        for _ in range(rng.choice([0, 1, 1, 2, 3])):
            sub = rng.choice(["", "", "Keyboard", "Consumer Control", "s1"])
            if any(k["sub"] == sub for k in m["keys"]) and rng.random() < 0.8:
                continue
            entries = []
            for spell, code in pick_keys(rng.choice([0, 1, 3, 8, 20]), KEY, keynames):
                n = bnd(rng, 128)
                off = bnd(rng, 16)
                r = rng.random()
                note = str(n) if r < 0.4 else note_name(n, rng)
                if rng.random() < 0.05:
                    note = "+" + str(n) if note.isdigit() else note
                val = note if rng.random() < 0.5 else "%s,%d" % (note, off)
                if "," not in val:
                    off = 0
                entries.append((spell, code, val, n, off))
            m["keys"].append({"sub": sub, "map": entries})
        for _ in range(rng.choice([0, 0, 1, 1, 2])):
            sub = rng.choice(["", "", "Touchpad", "Motion Sensors", "s1"])
            if any(k["sub"] == sub for k in m["analog"]) and rng.random() < 0.8:
                continue
            a = {"sub": sub, "default_deadzone": rng.choice([None, 0.0, 0.1, 0.05, 0.5, 0.25]), "map": [], "deadzones": []}
            for spell, code in pick_keys(rng.choice([0, 1, 2, 5]), ABS, absnames):
                typ = rng.choice(["cc", "cc", "pitch_bend", "key", "action"])
                e = {"type": typ, "flip_axis": rng.choice([None, True, False]), "deadzone_at_center": rng.choice([None, None, True, False]),
                     "channel_offset": rng.choice([None, None, 0, 1, 15, rng.randrange(16)]),
                     "channel_offset_negative": rng.choice([None, None, 0, 2, 15])}
                if typ == "cc":
                    e["cc"] = bnd(rng, 120)
                    if rng.random() < 0.5:
                        e["cc_negative"] = bnd(rng, 120)
                elif typ == "key":
                    e["note"] = bnd(rng, 128)
                    if rng.random() < 0.5:
                        e["note_negative"] = bnd(rng, 128)
                elif typ == "action":
                    e["action"] = rng.choice(ACTIONS)
                    if rng.random() < 0.6:
                        e["action_negative"] = rng.choice(ACTIONS)
                # irrelevant optional fields may be present too (they are ignored for other types)
                if rng.random() < 0.1 and typ != "cc":
                    e["cc"] = rng.randrange(120)
                if rng.random() < 0.1 and typ != "key":
                    e["note"] = rng.randrange(128)
                # … including the negative-side target of another type (seed C10-11: `bidirectional` derived from any
                # negative field instead of the one of the entry's own type) and a stray action
                if rng.random() < 0.08 and typ != "cc":
                    e["cc_negative"] = rng.randrange(120)
                if rng.random() < 0.08 and typ != "key":
                    e["note_negative"] = rng.randrange(128)
                if rng.random() < 0.08 and typ != "action":
                    e["action_negative"] = rng.choice(ACTIONS)
                if rng.random() < 0.05 and typ != "action":
                    e["action"] = rng.choice(ACTIONS)
                a["map"].append((spell, code, e))
            for spell, code in pick_keys(rng.choice([0, 0, 1, 2]), ABS, absnames):
                a["deadzones"].append((spell, code, rng.choice([0.0, 0.1, 0.05, 0.13, 0.5, 0.91])))
            m["analog"].append(a)
        d["mappings"].append(m)
    d["defaults"]["mapping"] = rng.choice(names)
    d["actions"] = [(spell, code, rng.choice(ACTIONS)) for spell, code in pick_keys(rng.choice([0, 2, 5, 11]), KEY, keynames)]
    d["exit"] = [(spell, code) for spell, code in pick_keys(rng.choice([0, 0, 1, 2, 3]), KEY, keynames)]
    return d


# ---------------------------------------------------------------- TOML rendering

def tstr(s):
    out = '"'
    for ch in s:
        if ch == '"':
            out += '\\"'
        elif ch == "\\":
            out += "\\\\"
        elif ch == "\n":
            out += "\\n"
        elif ord(ch) < 32:
            out += "\\u%04x" % ord(ch)
        else:
            out += ch
    return out + '"'


def tkey(k):
    return k if re.fullmatch(r"[A-Za-z0-9_-]+", k) else tstr(k)


def tval(v):
    if isinstance(v, bool):
        return "true" if v else "false"
    if isinstance(v, int):
        return str(v)
    if isinstance(v, float):
        return repr(v)
    if isinstance(v, str):
        return tstr(v)
    if isinstance(v, Raw):
        return v.text
    raise TypeError(v)


class Raw:
    """a literal TOML value text (used by invalidations and retyping)"""
    def __init__(self, text):
        self.text = text


def render(d, extra=None):
    """TOML text of a description. `extra` : dict of injection points -> list of raw lines"""
    extra = extra or {}
    L = []
    def inj(point):
        L.extend(extra.get(point, []))
    L.append("collision_mode = %s" % tval(d["mode"]))
    if d["exit"] is not None:
        L.append("exit_sequence = [%s]" % ", ".join(tval(x[0]) for x in d["exit"]))
    inj("top")
    L.append("[identifier]")
    for k, v in zip(["bus", "vendor", "product", "version"], d["id"]):
        L.append("%s = %s" % (k, tval(v)))
    if d["uniq"] != "":
        L.append("uniq = %s" % tval(d["uniq"]))
    L.append("[defaults]")
    for k in ["octave", "semitone", "channel", "mapping", "velocity"]:
        if d["defaults"].get(k) is not None:
            L.append("%s = %s" % (k, tval(d["defaults"][k])))
    inj("defaults")
    L.append("[action_mapping]")
    for spell, code, a in d["actions"]:
        L.append("%s = %s" % (tkey(spell), tval(a)))
    L.append("[open_rgb]")
    for k, v in zip(["white", "black", "c", "unavailable", "other", "active", "active_external"], d["colors"]):
        L.append("%s = %s" % (k, tval(v)))
    for m in d["mappings"]:
        L.append("[[mapping]]")
        L.append("name = %s" % tval(m["name"]))
        for k in m["keys"]:
            L.append("[[mapping.keys]]")
            L.append("subhandler = %s" % tval(k["sub"]))
            L.append("[mapping.keys.map]")
            for spell, code, val, n, off in k["map"]:
                L.append("%s = %s" % (tkey(spell), tval(val)))
        for a in m["analog"]:
            L.append("[[mapping.analog]]")
            L.append("subhandler = %s" % tval(a["sub"]))
            if a["default_deadzone"] is not None:
                L.append("default_deadzone = %s" % tval(a["default_deadzone"]))
            if a["map"]:
                L.append("[mapping.analog.map]")
                for spell, code, e in a["map"]:
                    fields = ", ".join("%s = %s" % (k, tval(v)) for k, v in e.items() if v is not None)
                    L.append("%s = {%s}" % (tkey(spell), fields))
            if a["deadzones"]:
                L.append("[mapping.analog.deadzones]")
                for spell, code, z in a["deadzones"]:
                    L.append("%s = %s" % (tkey(spell), tval(z)))
    return "\n".join(L) + "\n"


# ---------------------------------------------------------------- independent expectation (C10 "Faithful")

def expect(d):
    """canonical dump the parser must produce for a valid description (same format as the runner's dump)"""
    maps = []
    for m in d["mappings"]:
        midi, ana, dz, dd = {}, {}, {}, {}
        for k in m["keys"]:
            if k["map"]:
                # a later non-empty table for the same sub-handler replaces the earlier one
                for key in [x for x in midi if x[0] == k["sub"]]:
                    del midi[key]
                for spell, code, val, n, off in k["map"]:
                    midi[(k["sub"], code)] = (n, off)
        for a in m["analog"]:
            for key in [x for x in ana if x[0] == a["sub"]]:
                del ana[key]
            for key in [x for x in dz if x[0] == a["sub"]]:
                del dz[key]
            for spell, code, e in a["map"]:
                typ = e["type"]
                off = e.get("channel_offset") or 0
                offn = e.get("channel_offset_negative") or 0
                rec = dict(kind=typ, cc=0, ccn=0, note=0, noten=0, off=0, offn=0, act="-", actn="-",
                           flip=int(bool(e.get("flip_axis"))), bidir=0, dzc=int(bool(e.get("deadzone_at_center"))))
                if typ == "cc":
                    rec.update(cc=e["cc"], off=off, offn=offn)
                    if e.get("cc_negative") is not None:
                        rec.update(ccn=e["cc_negative"], bidir=1)
                elif typ == "pitch_bend":
                    rec.update(off=off)
                elif typ == "key":
                    rec.update(note=e["note"], off=off, offn=offn)
                    if e.get("note_negative") is not None:
                        rec.update(noten=e["note_negative"], bidir=1)
                elif typ == "action":
                    rec.update(act=e["action"])
                    if e.get("action_negative") is not None:
                        rec.update(actn=e["action_negative"], bidir=1)
                ana[(a["sub"], code)] = rec
            for spell, code, z in a["deadzones"]:
                dz[(a["sub"], code)] = z
            dd[a["sub"]] = a["default_deadzone"] or 0.0
        smidi = sorted("%s/%d:%d/%d" % (hexs(s), c, v[0], v[1]) for (s, c), v in midi.items())
        sana = sorted("%s/%d:%s/%d/%d/%d/%d/%d/%d/%s/%s/%d/%d/%d" % (hexs(s), c, r["kind"], r["cc"], r["ccn"], r["note"], r["noten"],
                                                                      r["off"], r["offn"], r["act"], r["actn"], r["flip"], r["bidir"], r["dzc"])
                      for (s, c), r in ana.items())
        sdz = sorted("%s/%d:%s" % (hexs(s), c, ratstr(z)) for (s, c), z in dz.items())
        sdd = sorted("%s:%s" % (hexs(s), ratstr(z)) for s, z in dd.items())
        maps.append("%s{midi=%s;analog=%s;dz=%s;defdz=%s}" % (hexs(m["name"]), ",".join(smidi), ",".join(sana), ",".join(sdz), ",".join(sdd)))
    idx = max(i for i, m in enumerate(d["mappings"]) if m["name"] == d["defaults"]["mapping"])
    vel = d["defaults"]["velocity"] or 64
    acts = {}
    for spell, code, a in d["actions"]:
        acts[code] = a
    cols = ",".join("%d.%d.%d" % ((v >> 16) & 255, (v >> 8) & 255, v & 255) for v in d["colors"])
    return "ok id=%d:%d:%d:%d uniq=%s mode=%s exit=%s def=%d,%d,%d,%d,%d colors=%s actions=%s maps=%s" % (
        d["id"][0], d["id"][1], d["id"][2], d["id"][3], hexs(d["uniq"]), d["mode"], ",".join(str(c) for _, c in (d["exit"] or [])),
        d["defaults"]["octave"] or 0, d["defaults"]["semitone"] or 0, d["defaults"]["channel"], idx, vel, cols,
        ",".join(sorted("%d:%s" % (c, a) for c, a in acts.items())), "|".join(maps))


# ---------------------------------------------------------------- single-field invalidations

import copy


def invalidations(d, rng):
    """list of (kind, description') — each differs from the valid `d` in one field that must be rejected;
    or (kind, None, extra) for raw injections"""
    out = []
    def mut(kind, f):
        dd = copy.deepcopy(d)
        if f(dd) is not False:
            out.append((kind, dd, None))
    mut("collision-mode", lambda x: x.__setitem__("mode", rng.choice(["on", "", "Off", "norepeat"])))
    mut("default-mapping", lambda x: x["defaults"].__setitem__("mapping", "No Such Mapping"))
    mut("velocity-high", lambda x: x["defaults"].__setitem__("velocity", rng.choice([128, 1000])))
    mut("velocity-far", lambda x: x["defaults"].__setitem__("velocity", rng.choice([256 + 64, 65536 + 100, 1 << 40])))
    mut("channel-far", lambda x: x["defaults"].__setitem__("channel", rng.choice([256 + 1, 65536 + 16, (1 << 32) + 2])))
    mut("velocity-negative", lambda x: x["defaults"].__setitem__("velocity", -1))
    mut("channel-zero", lambda x: x["defaults"].__setitem__("channel", 0))
    mut("channel-high", lambda x: x["defaults"].__setitem__("channel", rng.choice([17, 256])))
    mut("channel-negative", lambda x: x["defaults"].__setitem__("channel", -3))
    out.append(("unknown-top-field", copy.deepcopy(d), {"top": ["colision_mode = \"off\""]}))
    out.append(("unknown-defaults-field", copy.deepcopy(d), {"defaults": ["octav = 1"]}))
    def exit_bad(x):
        x["exit"] = (x["exit"] or []) + [("KEY_NOPE", 0)]
    mut("exit-unknown-key", exit_bad)
    def act_key(x):
        x["actions"].append(("KEY_NOPE", 0, "panic"))
    mut("action-unknown-key", act_key)
    def act_val(x):
        x["actions"].append(("KEY_F24", 194, rng.choice(["octave_upp", "", "Panic"])))
    mut("action-unknown-action", act_val)
    def act_hex(x):
        x["actions"].append((rng.choice(["xZZ", "x", "x10000", "x-1"]), 0, "panic"))
    mut("action-bad-hex", act_hex)
    # empty / blank key names where an evdev name is expected
    mut("exit-empty-key", lambda x: x.__setitem__("exit", (x["exit"] or []) + [(rng.choice(["", " "]), 0)]))
    mut("action-empty-key", lambda x: x["actions"].append((rng.choice(["", " "]), 0, "panic")))
    # key tables
    ks = [(mi, ki) for mi, m in enumerate(d["mappings"]) for ki, k in enumerate(m["keys"])]
    if ks:
        mi, ki = rng.choice(ks)
        def key_mut(val):
            def f(x):
                x["mappings"][mi]["keys"][ki]["map"].append(("KEY_F23", 193, val, 0, 0))
            return f
        mut("key-note-high", key_mut("128"))
        mut("key-note-negative", key_mut("-1"))
        mut("key-note-name-unknown", key_mut(rng.choice(["H3", "E#1", "c9", "C-3", "G#8", "Cb1", "C 1", "c-0"])))
        mut("key-note-name-minus-zero", key_mut(rng.choice(["c-0", "F#-0", "a-0,3", "G-0,0", "d#-0"])))
        # names with a multi-digit octave: none of the 128 names (uint8 wrap-around would map some of them into range)
        mut("key-note-name-long-octave", key_mut(rng.choice(["c20", "c03", "C-00", "a41", "c62", "c-22", "C21", "c128", "d#10"])))
        mut("key-note-far", key_mut(str(rng.choice([256, 300, 511, 65536 + 60]))))
        mut("key-offset-far", key_mut("60,%d" % rng.choice([256, 257, 271, 65536])))
        mut("key-offset-high", key_mut("60,16"))
        # the same invalid offsets on a key whose note is spelled by name
        mut("key-offset-high-named", key_mut(rng.choice(["d0,16", "C3,16", "c#3,17", "g8,255"])))
        mut("key-offset-negative-named", key_mut(rng.choice(["d0,-1", "c3,-5"])))
        mut("key-offset-far-named", key_mut(rng.choice(["d0,300", "c3,256", "a#2,65536"])))
        mut("key-offset-text-named", key_mut("c3,x"))
        mut("key-three-fields-named", key_mut("c3,1,2"))
        mut("key-offset-negative", key_mut("60,-1"))
        mut("key-offset-text", key_mut("60,x"))
        mut("key-three-fields", key_mut("60,1,2"))
        def key_name(x):
            x["mappings"][mi]["keys"][ki]["map"].append(("KEY_NOPE", 0, "60", 60, 0))
        mut("key-unknown-name", key_name)
        def key_empty(x):
            x["mappings"][mi]["keys"][ki]["map"].append((rng.choice(["", " "]), 0, "60", 60, 0))
        mut("key-empty-name", key_empty)
    # analog tables
    an = [(mi, ai) for mi, m in enumerate(d["mappings"]) for ai, a in enumerate(m["analog"])]
    if an:
        mi, ai = rng.choice(an)
        def an_mut(e, spell="ABS_MISC"):
            def f(x):
                x["mappings"][mi]["analog"][ai]["map"].append((spell, 0x28, e))
            return f
        mut("analog-type-unknown", an_mut({"type": rng.choice(["ccc", "", "CC", "note"])}))
        mut("analog-cc-missing", an_mut({"type": "cc"}))
        mut("analog-cc-high", an_mut({"type": "cc", "cc": rng.choice([120, 127, 128])}))
        mut("analog-cc-negative", an_mut({"type": "cc", "cc": -1}))
        mut("analog-ccneg-high", an_mut({"type": "cc", "cc": 1, "cc_negative": 120}))
        mut("analog-ccneg-negative", an_mut({"type": "cc", "cc": 1, "cc_negative": -2}))
        mut("analog-note-missing", an_mut({"type": "key"}))
        mut("analog-note-high", an_mut({"type": "key", "note": 128}))
        mut("analog-noteneg-high", an_mut({"type": "key", "note": 1, "note_negative": 128}))
        mut("analog-noteneg-negative", an_mut({"type": "key", "note": 1, "note_negative": -1}))
        mut("analog-action-missing", an_mut({"type": "action"}))
        mut("analog-action-unknown", an_mut({"type": "action", "action": "nope"}))
        mut("analog-actionneg-unknown", an_mut({"type": "action", "action": "panic", "action_negative": "bogus"}))
        for typ, req in (("cc", {"cc": 1}), ("pitch_bend", {}), ("key", {"note": 1})):
            mut("analog-offset-high-" + typ, an_mut(dict({"type": typ, "channel_offset": rng.choice([16, 300])}, **req)))
            mut("analog-offset-negative-" + typ, an_mut(dict({"type": typ, "channel_offset": -1}, **req)))
        mut("analog-offsetneg-high", an_mut({"type": "cc", "cc": 1, "cc_negative": 2, "channel_offset_negative": 16}))
        mut("analog-unknown-axis", an_mut({"type": "pitch_bend"}, spell="ABS_NOPE"))
        mut("analog-unknown-field", an_mut({"type": "pitch_bend", "flipaxis": True}))
        def dz_name(x):
            x["mappings"][mi]["analog"][ai]["deadzones"].append(("ABS_NOPE", 0, 0.1))
        mut("deadzone-unknown-axis", dz_name)
        mut("analog-empty-axis", an_mut({"type": "pitch_bend"}, spell=""))
        def dz_empty(x):
            x["mappings"][mi]["analog"][ai]["deadzones"].append(("", 0, 0.1))
        mut("deadzone-empty-axis", dz_empty)
        # far outside the range: values whose low byte is a valid number again (a conversion to byte before the check)
        far = lambda: rng.choice([256, 300, 375, 512, -256, -200, -137, 1 << 40, 65536 + 5])
        mut("analog-cc-far", an_mut({"type": "cc", "cc": far()}))
        mut("analog-ccneg-far", an_mut({"type": "cc", "cc": 1, "cc_negative": far()}))
        mut("analog-note-far", an_mut({"type": "key", "note": far()}))
        mut("analog-noteneg-far", an_mut({"type": "key", "note": 1, "note_negative": far()}))
        mut("analog-offset-far", an_mut({"type": "cc", "cc": 1, "channel_offset": far()}))
        mut("analog-offsetneg-far", an_mut({"type": "cc", "cc": 1, "cc_negative": 2, "channel_offset_negative": far()}))
    return out


# ---------------------------------------------------------------- file mutations (C09)

RETYPES = ["1979-05-27", "1979-05-27T07:32:00Z", "07:32:00", "1.5", "true", "\"text\"", "[1, 2]", "{a = 1}", "[]", "{}",
           "9223372036854775808", "-9223372036854775809", "0x10", "1e400", "nan", "inf", "''", "[[1]]", "99999999999999999999"]


ODD_STRINGS = [b'"c1, 2"', b'"c1 ,2"', b'" c1"', b'"c1 "', b'"c1,\\t2"', b'"c1,\\u00a02"', b'"c1\\n"', b'"c1,\\r2"', b'"60,\xc2\xa01"', b'"60\xe3\x80\x801"',
               b'"c1,,2"', b'","', b'""', b'" "', b'"\\u2028"', b'"c1\\u0000"', b'"60,1,2"', b'"c 1"', b'"\xe2\x80\x8b60"', b"'c1,\t2'", b'"""c1\n"""']


def mutate_file(text, rng):
    """one syntactic/semantic mutation of a TOML file (bytes in, bytes out)"""
    lines = text.split(b"\n")
    r = rng.random()
    if r < 0.15 and lines:
        i = rng.randrange(len(lines))
        del lines[i]
    elif r < 0.25 and lines:
        i = rng.randrange(len(lines))
        lines.insert(i, lines[rng.randrange(len(lines))])
    elif r < 0.55:
        # retype a value
        idx = [i for i, l in enumerate(lines) if b"=" in l and not l.strip().startswith(b"#")]
        if idx:
            i = rng.choice(idx)
            k, _, v = lines[i].partition(b"=")
            if rng.random() < 0.2:
                # a string value with odd white space and separators (TOML escapes and raw UTF-8): "note, offset" written by hand
                lines[i] = k + b"= " + rng.choice(ODD_STRINGS)
            else:
                lines[i] = k + b"= " + rng.choice(RETYPES).encode()
    elif r < 0.60:
        # an odd key name: empty quoted key, spaces, quotes, very long, non-ASCII (the error paths quote the key back)
        idx = [i for i, l in enumerate(lines) if re.match(rb"^\s*[\"A-Za-z0-9_-]+\s*=", l)]
        odd = rng.choice([b'""', b'""', b'" "', b'"KEY_A "', b"''", b'"\\u0000"', b'"' + b"K" * 300 + b'"', b'"KEY_\xc3\x84"', b'"x"', b'"-"'])
        if idx and rng.random() < 0.8:
            i = rng.choice(idx)
            k, _, v = lines[i].partition(b"=")
            lines[i] = odd + b" =" + v
        else:
            # … or as an element of the exit sequence
            idx = [i for i, l in enumerate(lines) if l.strip().startswith(b"exit_sequence")]
            if idx:
                i = rng.choice(idx)
                lines[i] = lines[i].replace(b"[", b"[" + odd + b", ", 1)
    elif r < 0.65:
        # dotted key / header variation
        idx = [i for i, l in enumerate(lines) if b"=" in l and not l.strip().startswith(b"#")]
        if idx:
            i = rng.choice(idx)
            k, _, v = lines[i].partition(b"=")
            lines[i] = k.strip() + rng.choice([b".x", b".a.b", b".\"\""]) + b" =" + v
    elif r < 0.75:
        # inline field retype inside an inline table
        idx = [i for i, l in enumerate(lines) if b"{" in l and b"=" in l]
        if idx:
            i = rng.choice(idx)
            l = lines[i]
            ms = list(re.finditer(rb"(\w+)\s*=\s*([^,}]+)", l[l.index(b"{"):]))
            if ms:
                m = rng.choice(ms)
                off = l.index(b"{")
                lines[i] = l[:off + m.start(2)] + rng.choice(RETYPES).encode() + l[off + m.end(2):]
    elif r < 0.85:
        data = bytearray(b"\n".join(lines))
        for _ in range(rng.randint(1, 4)):
            if data:
                p = rng.randrange(len(data))
                op = rng.random()
                if op < 0.4:
                    data[p] = rng.randrange(256)
                elif op < 0.7:
                    del data[p]
                else:
                    data.insert(p, rng.randrange(256))
        return bytes(data)
    elif r < 0.92:
        data = b"\n".join(lines)
        return data[:rng.randrange(len(data) + 1)]
    else:
        i = rng.randrange(len(lines) + 1)
        lines.insert(i, rng.choice([b"[[mapping]]", b"[mapping]", b"[[mapping.keys]]", b"[mapping.keys.map]", b"[defaults]",
                                    b"[[mapping.analog]]", b"[mapping.analog.map]", b"[identifier]", b"[HIDI]", b"[a.b.c]"]))
    return b"\n".join(lines)
