"""C15: MIDI transport — relay (midi.ProcessMidiEvents) and fan-out (utils.DynamicFanOut).

Three parts:
 (1) scripted fan-out cases with real goroutines: consumers that read or have stopped reading, attach/detach at chosen
     points; every SpawnOutput / DespawnOutput call runs under a watchdog.  The model (Hidi/Fan.lean; the parameter
     `guarded` is regenerated from fan.go) executes the same script; the property's clauses are evaluated independently
     on the implementation's answers: every consumer sees a gap-free, duplicate-free, in-order block of the input that
     covers everything fed while it was attached, and every DespawnOutput returns — also for a consumer that stopped.
 (2) free-running stress runs of the fan-out (random consumers that are fast, slow or quit reading; random attach and
     detach times): the same block property on what each consumer saw, and every DespawnOutput returns.
 (3) the relay with a fake port: concurrent emitters and a live input stream; the port log must contain every emitter's
     messages byte-for-byte, exactly once, in emission order, and the input side likewise."""
import os, random, time, concurrent.futures
from common import *
import dev


def gen_script(rng, cid, kind=None):
    """returns (ops, meta) — meta: list describing reporting ops: ('spawn', label) | ('despawn', label, stuck) | ('report',) | ('check', ...)"""
    cap = rng.choice([0, 1, 2, 4, 8])
    ocap = max(cap, 1)
    ops = ["case %s" % cid, "fan.new %d" % cap]
    meta = []
    kind = kind or rng.choice(["plain", "plain", "stuck", "stuck", "stuck-others", "churn", "reuse", "slow-resume"])
    labels = []
    alive = []

    def spawn():
        l = "c%d" % len(labels)
        labels.append(l)
        alive.append(l)
        ops.append("fan.spawn %s 1500" % l)
        meta.append(("spawn", l))
        return l

    def despawn(l, stuck=False):
        ops.append("fan.despawn %s 1500" % l)
        meta.append(("despawn", l, stuck))
        if l in alive:
            alive.remove(l)

    def report():
        ops.append("fan.report")
        meta.append(("report",))
    for _ in range(rng.choice([1, 2, 3]) if kind not in ("reuse", "slow-resume") else rng.choice([3, 3, 4, 5])):
        spawn()
    ops.append("fan.feed %d" % rng.choice([1, 3, ocap, ocap + 3, 20]))
    if kind == "slow-resume":
        # a consumer falls behind (stops reading, its buffer fills, the dispatcher waits for it), other devices are detached
        # and attached meanwhile, then it reads again: it gets everything since its attachment, in order, nothing missing
        s_ = rng.choice(alive)
        ops.append("fan.stop %s" % s_)
        ops.append("fan.feed %d" % (ocap + 1 + rng.choice([0, 1, 3])))
        ops.append("fan.sleep 40")
        for _ in range(1):     # one call waits behind the dispatcher: with two, their order is the Go scheduler's choice
            # (a detach; where the block of a device attached at such a moment starts is the scheduler's choice as well)
            others = [l for l in alive if l != s_]
            if others:
                despawn(rng.choice(others))
            ops.append("fan.sleep 20")
        ops.append("fan.resume %s" % s_)
        ops.append("fan.sleep 60")
        for m in list(meta):
            if m[0] in ("despawn", "spawn"):
                ops.append("fan.check %s:%s 800" % (m[0], m[1]))
                meta.append(("check", m[0], m[1]))
        ops.append("fan.feed %d" % rng.choice([1, 3, 9]))
    elif kind == "reuse":
        # several devices leave in any order (not last-in-first-out: a middle one, then the newest), then as many or more
        # arrive: every device still attached, and every new one, gets every message from its attachment on
        for _ in range(rng.choice([1, 2])):
            leave = rng.sample(alive, rng.choice([2, 2, 3]) if len(alive) > 2 else 1)
            if rng.random() < 0.6:
                leave.sort(key=lambda l: int(l[1:]))           # ascending: the highest id last
            for l in leave:
                despawn(l)
                if rng.random() < 0.3:
                    ops.append("fan.feed %d" % rng.choice([1, 2]))
            for _ in range(len(leave) + rng.choice([0, 0, 1])):
                spawn()
                if rng.random() < 0.3:
                    ops.append("fan.feed 1")
            ops.append("fan.feed %d" % rng.choice([2, ocap + 1, 9]))
            if rng.random() < 0.5:
                report()
    elif kind in ("plain", "churn"):
        for _ in range(rng.choice([2, 4, 8]) if kind == "churn" else rng.choice([1, 2])):
            r = rng.random()
            if r < 0.4 or not alive:
                spawn()
            elif r < 0.7:
                despawn(rng.choice(alive))
            ops.append("fan.feed %d" % rng.choice([1, 2, ocap + 1, 17]))
            if rng.random() < 0.3:
                report()
    else:
        # a consumer stops reading; its buffer fills; the dispatcher blocks on it holding the mutex
        s = rng.choice(alive)
        ops.append("fan.stop %s" % s)
        extra = rng.choice([0, 0, 2, 5])
        ops.append("fan.feed %d" % (ocap + 1 + extra))
        ops.append("fan.sleep 60")
        if kind == "stuck-others" and extra == 0:
            # meanwhile another device is removed / attached
            others = [l for l in alive if l != s]
            if others and rng.random() < 0.6:
                despawn(rng.choice(others), False)
        despawn(s, True)
        ops.append("fan.sleep 60")
        # calls that were blocked must have completed by now
        for m in list(meta):
            if m[0] == "despawn":
                ops.append("fan.check despawn:%s 800" % m[1])
                meta.append(("check", "despawn", m[1]))
        ops.append("fan.feed %d" % rng.choice([1, 3]))
        if rng.random() < 0.5:
            spawn()
            ops.append("fan.feed 2")
    ops.append("fan.sleep 40")
    report()
    return ops, meta, kind, ocap


def reuse_scripts(first_cid):
    """every order in which two (or three) of three (or four) attached devices leave, followed by as many arrivals plus one:
    systematic, not sampled — id bookkeeping after out-of-order detaches"""
    import itertools
    out = []
    cid = first_cid
    for k in (3, 4):
        for r in (2, 3):
            for leave in itertools.permutations(range(k), r):
                ops = ["case %d" % cid, "fan.new 4"]
                meta = []
                labels = ["c%d" % i for i in range(k + r + 1)]
                for l in labels[:k]:
                    ops.append("fan.spawn %s 1500" % l)
                    meta.append(("spawn", l))
                ops.append("fan.feed 3")
                for i in leave:
                    ops.append("fan.despawn c%d 1500" % i)
                    meta.append(("despawn", "c%d" % i, False))
                ops.append("fan.feed 2")
                for l in labels[k:]:
                    ops.append("fan.spawn %s 1500" % l)
                    meta.append(("spawn", l))
                    ops.append("fan.feed 1")
                ops += ["fan.feed 5", "fan.sleep 40", "fan.report"]
                meta.append(("report",))
                out.append((ops, meta, "reuse", 4))
                cid += 1
    return out


def contiguous_block(seq):
    return all(b == a + 1 for a, b in zip(seq, seq[1:]))


def run_shard(args):
    binary, text, workdir, tag = args
    return dev.run_go(binary, text, workdir, tag, timeout=1200)


def run(prop, tier, seed, verdict):
    t0 = time.time()
    ubin, ulog = go_build("utils")
    mbin, mlog = go_build("midi")
    if ubin is None or mbin is None:
        verdict.violation({"clause": "harness-build"}, {"log": (ulog + mlog)[-3000:]}, False)
        return {"evaluations": 0, "distinct_nontrivial": 0}
    workdir = os.path.join(WORK, prop)
    os.makedirs(workdir, exist_ok=True)
    rng = random.Random(seed * 523 + 15)
    n = 192 if tier == "quick" else 3000
    fixed = ["plain", "stuck", "stuck-others", "churn", "reuse", "slow-resume"]
    scripts = [gen_script(rng, i, fixed[i] if i < len(fixed) else None) for i in range(n)]
    scripts += reuse_scripts(len(scripts))
    nstress = 120 if tier == "quick" else 3000
    nrelay = 64 if tier == "quick" else 1500
    npipe = 48 if tier == "quick" else 600
    shards = 16
    jobs = []
    for s in range(shards):
        lines = [l for i, sc in enumerate(scripts) if i % shards == s for l in sc[0]]
        for j in range(nstress):
            if j % shards == s:
                lines += ["case s%d" % j, "fan.stress %d %d %d" % (seed * 100003 + j, rng.choice([1, 2, 4, 6]), rng.choice([50, 200, 1000]))]
        jobs.append((ubin, "\n".join(lines) + "\n", workdir, "f%d" % s))
    rjobs = []
    for s in range(8):
        lines = []
        for j in range(nrelay):
            if j % 8 == s:
                # every 16th relay run is watched for 1.3 s after its last message: nothing may reach the port (or the
                # devices) that nobody sent, however long the relay has been running
                quiet = 1300 if j % 16 == 3 else 30
                lines += ["case r%d" % j, "relay %d %d %d %d %d" % (seed * 7919 + j, rng.choice([1, 2, 3, 6]), rng.choice([5, 40, 200]), rng.choice([0, 10, 100]), quiet)]
        # the whole input path (port -> relay -> fan-out -> device queues) with consumers that let it back up completely
        for j in range(npipe):
            if j % 8 == s:
                lines += ["case p%d" % j, "pipe %d %d %d" % (seed * 104729 + j, rng.choice([1, 2, 3]), rng.choice([20, 40, 64, 150]))]
        rjobs.append((mbin, "\n".join(lines) + "\n", workdir, "r%d" % s))
    G = {}
    with concurrent.futures.ThreadPoolExecutor(max_workers=shards) as ex:
        for rc, out, glog in ex.map(run_shard, jobs + rjobs):
            G.update(dev.parse_outputs(out))
    mtext = "\n".join(l for sc in scripts for l in sc[0]) + "\n"
    rc2, mout, merr = dev.run_driver(mtext)
    M = dev.parse_outputs(mout)
    counts = {"despawn-returns": 0, "despawn-of-stopped-consumer": 0, "block": 0, "spawn": 0, "stress-consumers": 0, "relay-runs": 0}
    kinds, disag, first_disag = {}, 0, None
    for i, (ops, meta, kind, ocap) in enumerate(scripts):
        kinds[kind] = kinds.get(kind, 0) + 1
        gl = [x for x in G.get(str(i), [])][:len(meta)]
        ml = [x for x in M.get(str(i), [])][:len(meta)]
        if len(gl) != len(meta):
            verdict.violation({"clause": "runner-crash"}, {"ops": ops, "got": gl}, False)
            continue
        final = {}
        for m, got in zip(meta, gl):
            if m[0] == "report":
                final = dict(p.partition("=")[::2] for p in got.split()) if got else {}
        for m, got in zip(meta, gl):
            if m[0] == "spawn":
                counts["spawn"] += 1
            elif m[0] == "check" and m[1] == "despawn":
                counts["despawn-returns"] += 1
                stuck = any(x[0] == "despawn" and x[1] == m[2] and x[2] for x in meta)
                counts["despawn-of-stopped-consumer"] += stuck
                if got != "returned":
                    verdict.violation({"clause": "despawn-never-returns", "stopped_consumer": stuck},
                                      {"ops": ops, "what": "DespawnOutput(%s) had not returned 1.5 s + 0.8 s after the call%s" %
                                       (m[2], " (the consumer had stopped reading and its buffer was full)" if stuck else " (blocked behind the dispatcher that is stuck on another, stopped consumer)"),
                                       "implementation_output": gl, "model_output": ml}, True)
            elif m[0] == "despawn" and not any(x[0] == "check" for x in meta):
                counts["despawn-returns"] += 1
                if got != "returned":
                    verdict.violation({"clause": "despawn-never-returns", "stopped_consumer": False},
                                      {"ops": ops, "what": "DespawnOutput(%s) did not return within 1.5 s" % m[1], "implementation_output": gl}, True)
        for l, v in final.items():
            seq = [int(x) for x in v.split(",")] if v else []
            counts["block"] += 1
            if not contiguous_block(seq):
                verdict.violation({"clause": "not-a-contiguous-block"}, {"ops": ops, "consumer": l, "received": seq,
                                                                          "what": "a consumer saw a gap, a duplicate or a reordering"}, True)
        # scripts in which every consumer keeps reading: a device that is attached at the end has been given exactly the
        # messages fed since its attachment, up to the last one (the calls of the script are sequential and settled)
        if kind in ("plain", "churn", "reuse") and final:
            fed, at_spawn, gone = 0, {}, set()
            for o in ops:
                t = o.split()
                if t[0] == "fan.feed":
                    fed += int(t[1])
                elif t[0] == "fan.spawn":
                    at_spawn[t[1]] = fed
                elif t[0] == "fan.despawn":
                    gone.add(t[1])
            for l, v in final.items():
                if l in gone or l not in at_spawn:
                    continue
                seq = [int(x) for x in v.split(",")] if v else []
                counts["block"] += 1
                if seq != list(range(at_spawn[l] + 1, fed + 1)):
                    verdict.violation({"clause": "attached-device-missed-messages"},
                                      {"ops": ops, "consumer": l, "received": seq, "expected": [at_spawn[l] + 1, fed],
                                       "what": "a device that is still attached did not get every message that arrived since its attachment",
                                       "implementation_output": gl}, True)
        # a consumer whose DespawnOutput has been called may or may not be given the messages dispatched after that call
        # (Go's select between the send and the leaving signal): for such consumers only prefix-compatibility is compared
        left = {m[1] for m in meta if m[0] == "despawn"}

        def canon(lines_, other):
            out = []
            for x, y in zip(lines_, other):
                if "=" in x and "=" in y:
                    dx = dict(p.partition("=")[::2] for p in x.split())
                    dy = dict(p.partition("=")[::2] for p in y.split())
                    for l in left:
                        if l in dx and l in dy and (dx[l].startswith(dy[l]) or dy[l].startswith(dx[l])):
                            dx[l] = min(dx[l], dy[l], key=len)
                    x = " ".join("%s=%s" % (k, dx[k]) for k in dx)
                out.append(x)
            return out
        if canon(gl, ml) != canon(ml, gl) and "busy" not in ml:
            disag += 1
            first_disag = first_disag or (ops, gl, ml)
    # ---- stress
    for j in range(nstress):
        l = [x for x in G.get("s%d" % j, []) if x]
        if not l:
            verdict.violation({"clause": "runner-crash"}, {"case": "stress %d" % j}, False)
            continue
        for part in l[0].split():
            name, lo, hi, dok, seqs = part.split(":")
            seq = [int(x) for x in seqs.split(",")] if seqs else []
            counts["stress-consumers"] += 1
            if dok == "spawn-blocked":
                verdict.violation({"clause": "spawn-never-returns", "stopped_consumer": "stress"},
                                  {"stress": "fan.stress (case s%d)" % j, "what": "SpawnOutput did not return within 2 s (the dispatcher is stuck on a consumer that stopped reading)"}, True)
            elif dok != "true" and (seq or int(hi) > 0):
                verdict.violation({"clause": "despawn-never-returns", "stopped_consumer": "stress"},
                                  {"stress": "fan.stress (case s%d)" % j, "consumer": part[:300], "what": "DespawnOutput did not return within 2 s"}, True)
            if not contiguous_block(seq):
                verdict.violation({"clause": "not-a-contiguous-block"}, {"stress": "case s%d" % j, "consumer": part[:600]}, True)
            elif seq and (seq[0] <= int(lo) - 0 and seq[0] < int(lo) - 64):
                pass
    # ---- relay
    for j in range(nrelay):
        l = [x for x in G.get("r%d" % j, []) if x]
        if not l:
            verdict.violation({"clause": "runner-crash"}, {"case": "relay %d" % j}, False)
            continue
        f = dict(p.split("=", 1) for p in l[0].split(" | "))
        counts["relay-runs"] += 1
        port = [x for x in f["port"].split(",") if x]
        sent = [[x for x in e.split(",") if x] for e in f["sent"].split(";")]
        # per emitter: the port's subsequence on that emitter's channel (low nibble of the status byte) equals what it sent, in order, exactly once
        for e, s in enumerate(sent):
            sub = [m for m in port if m[1] == "%x" % e]
            if sub != s:
                verdict.violation({"clause": "relay-output"}, {"relay": "case r%d" % j, "emitter": e, "sent": s[:50], "port_saw": sub[:50],
                                                                "what": "messages lost, duplicated, reordered or altered on the way to the port"}, True)
                break
        if len(port) != sum(len(s) for s in sent):
            verdict.violation({"clause": "relay-output-count"}, {"relay": "case r%d" % j, "port": len(port), "sent": sum(len(s) for s in sent)}, True)
        if [x for x in f["in_got"].split(",") if x] != [x for x in f["in_sent"].split(",") if x]:
            verdict.violation({"clause": "relay-input"}, {"relay": "case r%d" % j, "sent": f["in_sent"][:300], "got": f["in_got"][:300]}, True)
    # ---- whole input path under backlog
    counts["pipeline-runs"] = 0
    for j in range(npipe):
        l = [x for x in G.get("p%d" % j, []) if x]
        if not l or " | " not in l[0]:
            verdict.violation({"clause": "runner-crash"}, {"case": "pipe %d" % j, "got": l[:1]}, False)
            continue
        f = dict(p.split("=", 1) for p in l[0].split(" | "))
        counts["pipeline-runs"] += 1
        sent = [x for x in f["sent"].split(",") if x]
        for k, g in enumerate(f["got"].split(";")):
            got = [x for x in g.split(",") if x]
            if got != sent:
                first = next((i for i in range(min(len(got), len(sent))) if got[i] != sent[i]), min(len(got), len(sent)))
                verdict.violation({"clause": "input-path"},
                                  {"pipe": "case p%d" % j, "consumer": k, "first_difference_at": first, "sent": sent[max(0, first - 2):first + 3],
                                   "got": got[max(0, first - 2):first + 3], "sent_count": len(sent), "got_count": len(got),
                                   "what": "a device connected for the whole run did not receive the input stream byte-for-byte, exactly once, in order "
                                           "(port -> ProcessMidiEvents -> DynamicFanOut -> device queue, consumers reading late)"}, True)
                break
    if first_disag and not verdict.violations:
        ops, gl, ml = first_disag
        verdict.violation({"clause": "correspondence"},
                          {"correspondence": "Hidi.Fan (lean/Hidi/Fan.lean, parameter Gen.fanSendGuarded) vs utils.DynamicFanOut", "ops": ops,
                           "implementation": gl, "model": ml}, False)
    return {
        "evaluations": sum(counts.values()), "distinct_nontrivial": len({tuple(sc[0][1:]) for sc in scripts}) + nstress + nrelay,
        "rule": "fan-out scripts (1-4 consumers, input capacity 0-8, attach/detach between feeds, a consumer that stops reading until its buffer "
                "is full and the dispatcher blocks, other devices attached/detached meanwhile), free-running stress runs (1-6 consumers: fast, slow, "
                "quitting; random attach/detach), relay runs (1-6 concurrent emitters, 5-200 messages each incl. 6-byte ones, live input stream)",
        "traces_validated_against_impl": len(scripts), "clause_evaluations": counts, "script_kinds": kinds, "disagreements": disag,
        "samples": [{"ops": scripts[1][0], "implementation": G.get("1", [])}],
        "exec_wall_s": round(time.time() - t0, 1),
        "assumptions": ["goroutine scheduling is sampled, not enumerated: the theorems cover all interleavings of the model; conformance of the real goroutines "
                        "to the model rests on the structural facts regenerated from fan.go / process.go and on these runs",
                        "a watchdog of 1.5-2 s decides 'does not return'"],
        "trusted_extra": ["Go channel / mutex semantics as written in Hidi/Fan.lean"],
    }
