"""C16: device lifecycle — prompt termination, no leftovers, no races, no cross-talk.

The runner (harness/device/led_test.go, op life.run) drives 1-8 devices concurrently through the real ProcessEvents —
event loop, LED loop against a fake OpenRGB server (for three quarters of the devices; the others never find their
controller), MIDI-input traffic — with random pauses, and disconnects each device at a random moment, possibly with keys
held.  The binary is built with the race detector.  Clauses evaluated on the implementation:
  returns   : every ProcessEvents returned within 2 s of its stream closing (and how long the slowest took);
  leftovers : no goroutine of package device is left afterwards;
  races     : the race detector reports nothing;
  crosstalk : each device's MIDI output under concurrency equals its output when the same script is run alone.
The lock discipline behind 'no races' is also stated as regenerated source facts (Props/C16.lean)."""
import os, random, re, time, concurrent.futures
from common import *
import dev


def run_shard(args):
    binary, text, workdir, tag = args
    inp = os.path.join(workdir, tag + ".ops")
    outp = os.path.join(workdir, tag + ".go.out")
    open(inp, "w").write(text)
    if os.path.exists(outp):
        os.remove(outp)
    env = dict(os.environ, VERIF_OUT=outp, VERIF_IN=inp, GOMEMLIMIT="3GiB", GORACE="halt_on_error=0 history_size=2")
    cmd = ["unshare", "-m", "sh", "-c", "mount -t tmpfs tmpfs /sys/class/hidraw && exec \"$0\" -test.run '^TestVerifLed$' -test.timeout 2400s", binary]
    try:
        p = subprocess.run(cmd, env=env, stdout=subprocess.PIPE, stderr=subprocess.STDOUT, text=True, timeout=2500, cwd=workdir)
        log_ = p.stdout
    except subprocess.TimeoutExpired:
        log_ = "timeout"
    return (open(outp).read() if os.path.exists(outp) else ""), log_


def run(prop, tier, seed, verdict):
    t0 = time.time()
    binary, blog = go_build("device", race=True)
    if binary is None:
        verdict.violation({"clause": "harness-build"}, {"log": blog[-3000:]}, False)
        return {"evaluations": 0, "distinct_nontrivial": 0}
    workdir = os.path.join(WORK, prop)
    os.makedirs(workdir, exist_ok=True)
    rng = random.Random(seed * 613 + 16)
    n = 96 if tier == "quick" else 2500
    runs = [(seed * 100000 + i, rng.choice([1, 2, 3, 4, 8])) for i in range(n)]
    shards = 8
    jobs = []
    for s in range(shards):
        lines = []
        for i, (sd, nd) in enumerate(runs):
            if i % shards == s:
                lines += ["case %d" % i, "life.run %d %d" % (sd, nd)]
        jobs.append((binary, "\n".join(lines) + "\n", workdir, "life%d" % s))
    G, logs = {}, []
    with concurrent.futures.ThreadPoolExecutor(max_workers=shards) as ex:
        for out, log_ in ex.map(run_shard, jobs):
            G.update(dev.parse_outputs(out))
            logs.append(log_)
    # the same scripts, each alone, in separate processes
    ajobs = []
    for s in range(shards):
        lines = []
        for i, (sd, nd) in enumerate(runs):
            if i % shards == s:
                lines += ["case %d" % i, "life.alone %d %d" % (sd, nd)]
        ajobs.append((binary, "\n".join(lines) + "\n", workdir, "alone%d" % s))
    GA = {}
    with concurrent.futures.ThreadPoolExecutor(max_workers=shards) as ex:
        for out, log_ in ex.map(run_shard, ajobs):
            GA.update(dev.parse_outputs(out))
    cross_checked = 0
    devices = 0
    slowest = 0
    for i, (sd, nd) in enumerate(runs):
        l = [x for x in G.get(str(i), []) if x]
        replay = "life.run %d %d   (harness/device/led_test.go, race-enabled test binary inside `unshare -m` with tmpfs on /sys/class/hidraw)" % (sd, nd)
        if not l:
            verdict.violation({"clause": "runner-crash"}, {"run": replay, "log": "\n".join(logs)[-3000:]}, False)
            continue
        f = dict(p.split("=", 1) for p in l[0].split(" ", 5))
        devices += nd
        slowest = max(slowest, int(f.get("slowest_ms", "0")))
        if f.get("panic") != "false":
            verdict.violation({"clause": "panic"}, {"run": replay, "outcome": l[0][:300]}, True)
        if f.get("returned") != "true":
            verdict.violation({"clause": "does-not-terminate"}, {"run": replay, "outcome": l[0][:300],
                                                                   "what": "ProcessEvents had not returned 2 s after its event stream ended"}, True)
        elif int(f.get("slowest_ms", "0")) > 1000:
            verdict.violation({"clause": "slow-termination"}, {"run": replay, "outcome": l[0][:300]}, True)
        if f.get("leftover") != "0":
            verdict.violation({"clause": "leftover-goroutines"}, {"run": replay, "outcome": l[0][:300]}, True)
        if f.get("output") != "same":
            verdict.violation({"clause": "cross-talk"}, {"run": replay, "outcome": l[0][:1200]}, True)
        # the same scripts run alone in another process (life.alone): state shared through the package rather than through
        # the Device would make the in-process comparison above blind
        al = [x for x in GA.get(str(i), []) if x]
        if al and al[0].startswith("alone="):
            alone = al[0][6:].split(";")
            conc_o = f.get("conc", "").split(";")
            for di, (a_, c_) in enumerate(zip(alone, conc_o)):
                a_l, c_l = [x for x in a_.split(",") if x], [x for x in c_.split(",") if x]
                k = 0
                while k < len(a_l) and k < len(c_l) and a_l[k] == c_l[k]:
                    k += 1
                if sorted(a_l[k:]) != sorted(c_l[k:]):
                    verdict.violation({"clause": "cross-talk-across-processes"},
                                      {"run": replay, "device": di, "first_difference_at": k, "concurrent": c_l[max(0, k - 2):k + 4],
                                       "alone_in_fresh_process": a_l[max(0, k - 2):k + 4],
                                       "what": "a device's MIDI output while other devices are active differs from its output when it runs alone"}, True)
                    break
            cross_checked += 1
    races = []
    for lg in logs:
        for m in re.finditer(r"WARNING: DATA RACE\n(.*?)\n==================", lg, re.S):
            races.append(m.group(1))
    sigs = set()
    for r in races:
        fr = re.findall(r"(?:device|utils|midi)\.\(?\*?\w*\)?\.?(\w+)\(\)\n\s+(/repo/\S+?):(\d+)", r)
        frames = sorted({"%s %s:%s" % (a, os.path.relpath(b, "/repo"), c) for a, b, c in fr})[:4]
        key = tuple(frames)
        if key in sigs:
            continue
        sigs.add(key)
        verdict.violation({"clause": "data-race", "where": [x.rsplit(":", 1)[0] for x in frames]},
                          {"what": "the race detector reported unsynchronised concurrent access", "frames": frames, "report": r[:2500],
                           "run": "any life.run of this check (./check C16 quick); the report is from the race-enabled runner"}, True)
    return {
        "evaluations": n, "distinct_nontrivial": n,
        "rule": "life.run(seed, n): n in {1,2,3,4,8} devices with random configurations (4 collision modes), 10-70 key/action events each with "
                "random pauses, 0-40 MIDI-input messages, LED loop connected for 3 of 4 devices (started 0-600 ms before the events), disconnect "
                "right after the last event (keys possibly held); half of the devices also have an axis mapped to a controller with a deadzone that differs "
                "from device to device; every fourth LED device talks to a server that needs 400 ms for its first answer and is used once its LED loop "
                "runs; each script re-run alone in the same process and again in a separate process for the cross-talk comparison",
        "traces_validated_against_impl": n, "devices_run": devices, "runs_compared_with_fresh_process": cross_checked, "slowest_termination_ms": slowest, "race_reports": len(races),
        "samples": [{"run": "life.run %d %d" % runs[0], "implementation": G.get("0", [])[:1]}],
        "exec_wall_s": round(time.time() - t0, 1),
        "assumptions": ["schedules are sampled under the race detector, not enumerated", "the fake OpenRGB server answers promptly; a peer that never answers "
                        "would hold UpdateLEDs (and with it eventProcessMutex) as long as TCP does — not modelled",
                        "termination limit: 2 s hard, 1 s reported as slow"],
        "trusted_extra": ["Go race detector", "goroutine dump (runtime.Stack) for the leftover count"],
    }
