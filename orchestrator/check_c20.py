"""C20: device discovery groups handlers into devices independently of order.
Synthetic handler lists go through the real input.Normalize / HandlerType in several permutations (all permutations for
<= 5 handlers); the property's predicates (partition by physical location, type rule, order independence) are evaluated
on the implementation's answers, and the model (Hidi/Normalize.lean, table generated from the HandlerType switch) must agree."""
import itertools, os, random, time
from common import *
import dev

EV = {"SYN": 0, "KEY": 1, "REL": 2, "ABS": 3, "MSC": 4, "SW": 5, "LED": 17, "SND": 18, "REP": 20, "FF": 21}
ROWS = [  # capability sets of interest: the exact-match rows, near misses, joystick-like sets
    ["SYN", "KEY", "MSC", "LED", "REP"], ["SYN", "KEY", "REL", "ABS", "MSC", "LED", "REP"], ["SYN", "KEY", "MSC", "REP"],
    ["SYN", "KEY", "REL", "MSC"], ["SYN", "KEY", "MSC"], ["SYN", "KEY", "REL", "ABS", "MSC"],
    ["SYN", "KEY", "ABS"], ["SYN", "KEY", "ABS", "FF"], ["SYN", "KEY", "FF"], ["SYN", "ABS"], ["SYN", "KEY", "ABS", "MSC"],
    ["SYN", "KEY"], ["SYN"], [], ["SYN", "KEY", "MSC", "LED"], ["SYN", "KEY", "MSC", "LED", "REP", "SW"], ["SYN", "SW"],
    ["SYN", "KEY", "REL"], ["KEY", "MSC", "LED", "REP"],
]
PHYS = ["usb-0000:00:14.0-1/input0", "usb-0000:00:14.0-1/input1", "usb-0000:00:14.0-2/input0", "", "bt-aa:bb", "usb-0000:00:14.0-1/input0 "]


def hx(s):
    return s.encode().hex() if s else "-"


def gen_handlers(rng):
    n = rng.choice([0, 1, 2, 3, 4, 5, 6, 8, 12])
    nphys = rng.randint(1, 5)
    phys = rng.sample(PHYS, min(nphys, len(PHYS)))
    if rng.random() < 0.1:
        # a machine full of devices: many handlers at many physical locations, each location revisited late in the list
        # (seed C20-11: a grouping that keeps pointers into a slice loses handlers once the slice grows past its capacity)
        n = rng.choice([12, 20, 33, 48, 70])
        nphys = rng.randint(6, n)
        phys = (PHYS + ["usb-0000:00:1a.0-1.%d/input%d" % (k // 2, k % 2) for k in range(n)])[:nphys]
    hs = []
    for i in range(n):
        caps = list(rng.choice(ROWS))
        r = rng.random()
        if r < 0.2:
            rng.shuffle(caps)
        if r < 0.1 and caps:
            caps.append(rng.choice(caps))          # duplicate capability entries
        same_id = rng.random() < 0.7
        ident = (3, 0x46d, 0xc31c, 0x110) if same_id else (rng.randrange(6), rng.randrange(65536), rng.randrange(65536), rng.randrange(65536))
        # the unique id (bluetooth address, serial) may be empty, shared, or differ between handlers of one location
        uniq = rng.choice(["", "", "", "aa:bb:cc", "aa:bb:cc", "dd:ee"])
        hs.append({"phys": rng.choice(phys), "id": ident, "name": "h%d" % i, "caps": [EV[c] for c in caps], "uniq": uniq})
    if hs and rng.random() < 0.08:
        # the same handler reported twice by one discovery (a node that vanished and came back during the stabilisation
        # period): the list is a multiset — both copies end up in the device of their location
        k = rng.randrange(len(hs))
        hs.insert(rng.randrange(len(hs) + 1), dict(hs[k], dup=k))
    return hs


def ops_for(hs):
    out = ["h.reset"]
    # event node names: by position, as the kernel numbers them; a handler reported twice has one node
    ev = {}
    for i, h in enumerate(hs):
        ev.setdefault(h["name"], "event%d" % i)
    for h in hs:
        out.append("h %s %d %d %d %d %s %s %s %s" % ((hx(h["phys"]),) + tuple(h["id"]) + (hx(h["name"]), ",".join(map(str, h["caps"])) or "-", hx(h.get("uniq", "")), ev[h["name"]])))
    out.append("norm")
    return out


def handler_type(caps):
    s = set(caps)
    def ex(*n):
        return s == {EV[x] for x in n}
    if ex("SYN", "KEY", "MSC", "LED", "REP") or ex("SYN", "KEY", "REL", "ABS", "MSC", "LED", "REP"):
        return "STD_KBD"
    if ex("SYN", "KEY", "MSC", "REP"):
        return "NKRO_KBD"
    if ex("SYN", "KEY", "REL", "MSC"):
        return "MOUSE"
    if ex("SYN", "KEY", "MSC"):
        return "SYSTEM"
    if ex("SYN", "KEY", "REL", "ABS", "MSC"):
        return "MULTIMEDIA"
    if EV["FF"] in s or EV["ABS"] in s:
        return "JOYSTICK"
    return "UNKNOWN"


def parse_groups(line):
    body, _, hts = line.partition(" | ")
    groups = []
    for item in body.split():
        f = dict(x.split("=", 1) for x in item.split(";"))
        groups.append({"phys": f["phys"], "type": int(f["type"]), "id": f["id"], "members": [m for m in f["members"].split(",") if m]})
    return groups, hts.split()


def run(prop, tier, seed, verdict):
    binary, blog = go_build("input")
    if binary is None:
        verdict.violation({"clause": "harness-build"}, {"log": blog[-3000:]}, False)
        return {"evaluations": 0, "distinct_nontrivial": 0}
    rng = random.Random(seed * 7 + 20)
    n = 4000 if tier == "quick" else 60000
    cases = []
    for i in range(n):
        hs = gen_handlers(rng)
        if len(hs) <= 5 and tier != "quick" or len(hs) <= 4:
            perms = [list(p) for p in itertools.permutations(hs)]
        else:
            perms = [hs] + [rng.sample(hs, len(hs)) for _ in range(4)]
        cases.append((hs, perms))
    ops = []
    index = []
    for i, (hs, perms) in enumerate(cases):
        for j, p in enumerate(perms):
            ops.append("case %d.%d" % (i, j))
            ops.extend(ops_for(p))
            index.append((i, j))
    workdir = os.path.join(WORK, prop)
    rc, gout, glog = dev.run_go(binary, "\n".join(ops) + "\n", workdir, "c20", timeout=1800)
    rc2, mout, merr = dev.run_driver("\n".join(ops) + "\n")
    G, M = dev.parse_outputs(gout), dev.parse_outputs(mout)
    disag = 0
    multi = set()
    alone_memo = {}

    def alone(p, key):
        """the same list given to a fresh process: does the answer depend on what the process has seen before?"""
        if len(alone_memo) >= 5:
            return {}
        if key not in alone_memo:
            _, o, _ = dev.run_go(binary, "\n".join(["case a"] + ops_for(p)) + "\n", workdir, "c20alone", timeout=120)
            a = dev.parse_outputs(o).get("a", [""])[:1]
            same = a == G.get(key, [])[:1]
            alone_memo[key] = {"in_a_fresh_process": a[0] if a else None, "depends_on_history": not same}
            if not same:
                alone_memo[key]["history"] = "case %s of %s (all cases before it run in the same process)" % (key, os.path.join(workdir, "c20.ops"))
        return alone_memo[key]
    for i, (hs, perms) in enumerate(cases):
        ref = None
        for j, p in enumerate(perms):
            key = "%d.%d" % (i, j)
            gl = [x for x in G.get(key, []) if x.strip() != "" or True][:1]
            ml = M.get(key, [""])[:1]
            if not gl or gl[0] == "panic":
                verdict.violation({"clause": "normalize-crash"}, {"handlers": p, "log": glog[-1500:]}, True)
                continue
            groups, hts = parse_groups(gl[0])
            # (a) partition by physical location
            seen = {}
            for g in groups:
                for m in g["members"]:
                    seen.setdefault(m, []).append(g["phys"])
            byname = {hx(h["name"]): h for h in p}
            mult = {}
            for h in p:
                mult[hx(h["name"])] = mult.get(hx(h["name"]), 0) + 1
            bad = [m for m in byname if len(seen.get(m, [])) != mult[m] or set(seen[m]) != {hx(byname[m]["phys"])}]
            if bad or len({g["phys"] for g in groups}) != len(groups):
                verdict.violation({"clause": "partition"}, {"handlers": p, "implementation": gl[0]}, True)
            # (b) handler types and device type rule
            for pos, (h, ht) in enumerate(zip(p, hts)):
                if ht != "DI_TYPE_" + handler_type(h["caps"]):
                    verdict.violation({"clause": "handler-type", "caps": sorted(set(h["caps"]))},
                                      dict({"handler": h, "event_node": "event%d" % pos, "implementation": ht, "expected": handler_type(h["caps"]),
                                            "handlers": p}, **alone(p, key)), True)
            for g in groups:
                tys = [handler_type(byname[m]["caps"]) for m in g["members"]]
                exp = 3 if "JOYSTICK" in tys else 1 if "STD_KBD" in tys else 2 if tys == ["MOUSE"] else 0
                if g["type"] != exp:
                    verdict.violation({"clause": "device-type", "handler_types": sorted(tys)},
                                      dict({"handlers": p, "group": g, "expected_type": exp}, **alone(p, key)), True)
            # (c) order independence: same devices (location, type, member set); ids when all members agree
            canon = sorted((g["phys"], g["type"], tuple(sorted(g["members"])),
                            g["id"] if len({byname[m]["id"] for m in g["members"]}) == 1 else "*") for g in groups)
            if ref is None:
                ref = canon
            elif canon != ref:
                verdict.violation({"clause": "order-dependence"}, {"handlers_order_a": perms[0], "handlers_order_b": p,
                                                                     "devices_a": ref, "devices_b": canon}, True)
            if len(groups) >= 2:
                multi.add(tuple(canon))
            if gl[:1] != ml[:1]:
                disag += 1
                if not verdict.violations:
                    verdict.violation({"clause": "correspondence"},
                                      {"correspondence": "Hidi.normalize/handlerType (lean/Hidi/Normalize.lean, rows generated from info.go) vs input.Normalize/HandlerType",
                                       "handlers": p, "implementation": gl[0], "model": ml[0] if ml else None}, False)
    return {
        "evaluations": len(index), "distinct_nontrivial": len(multi),
        "rule": "handler lists of 0-12 handlers over 1-5 physical locations (incl. the empty string and a near-duplicate with trailing space), capability sets from "
                "the exact-match rows of HandlerType, near misses, duplicates and shuffles; every list in all permutations (<= 4 handlers; <= 5 in thorough) or 5 random "
                "orders; distinct_nontrivial = distinct results with at least two devices",
        "handler_lists": n, "traces_validated_against_impl": len(index), "disagreements": disag,
        "samples": [{"handlers": cases[3][0], "implementation": G.get("3.0", [""])[0][:400]}],
        "assumptions": ["evdev.Open fails for synthetic handlers (no /dev/input nodes): device name, uniq and AbsInfos stay empty; grouping and types do not depend on them",
                        "the device identifier is taken from the first handler of a group: compared across orders only when all handlers of the location share it"],
    }
