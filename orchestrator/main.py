#!/usr/bin/env python3
"""./check <Cxx> [quick|thorough] [--replay file]"""
import sys, os, time, json
sys.path.insert(0, os.path.dirname(os.path.abspath(__file__)))
from common import *

DEV_PROPS = {"C01", "C02", "C03", "C04", "C05", "C06", "C07", "C08", "C13", "C14"}


def main():
    args = [a for a in sys.argv[1:] if not a.startswith("--")]
    prop = args[0]
    tier = args[1] if len(args) > 1 else os.environ.get("VERIF_TIER", "quick")
    seed = int(os.environ.get("VERIF_SEED", "1"))
    replay = None
    if "--replay" in sys.argv:
        replay = sys.argv[sys.argv.index("--replay") + 1]
    t0 = time.time()
    verdict = Verdict(prop)
    os.makedirs(WORK, exist_ok=True)
    import glob
    for old in glob.glob(os.path.join(WORK, "replays", prop + "-*.json")):
        if replay and os.path.abspath(old) == os.path.abspath(replay):
            continue
        os.remove(old)

    # 1. regenerate Gen, build model + driver + this property's proofs, audit axioms
    ok, glog = lean_gen()
    if not ok:
        verdict.violation({"clause": "extractor"}, {"what": "tools/extract failed on the working tree", "log": glog[-3000:]}, False)
    audit = axiom_audit(prop)
    hits = source_audit()
    obligations = len(audit["theorems"])
    discharged = sum(1 for t in audit["theorems"] if t["ok"])
    if hits:
        verdict.violation({"clause": "source-audit"}, {"what": "forbidden construct in Lean sources", "hits": hits}, False)
    proof_broken = not audit["ok"]
    # thorough tier: the compiled proof modules are re-checked by Lean's independent checker (replays every declaration
    # of the .olean files through the kernel)
    lc = None
    if tier == "thorough" and not audit.get("build_failed"):
        mods = ["HidiProofs.Props." + m for m in prop_modules(prop)]
        rc_lc, o_lc = run(["lake", "env", "leanchecker"] + mods, cwd=LEAN, timeout=3600)
        lc = {"modules": mods, "ok": rc_lc == 0, "log": o_lc[-600:]}
        if rc_lc != 0:
            proof_broken = True
            audit.setdefault("log", "")
            audit["log"] += "\nleanchecker: " + o_lc[-2000:]

    # 2. correspondence + monitors
    cov = {}
    if replay:
        import replaymod
        cov = replaymod.run(prop, replay, verdict)
    elif prop in DEV_PROPS:
        import devcheck
        cov = devcheck.run(prop, tier, seed, verdict, widen=proof_broken)
    else:
        import importlib
        mod = importlib.import_module("check_" + prop.lower())
        cov = mod.run(prop, tier, seed, verdict)

    if proof_broken:
        bad = [t["name"] for t in audit["theorems"] if not t["ok"]]
        # a broken proof obligation: the correspondence run above already searched for a failing input
        if not verdict.violations:
            verdict.violation({"clause": "proof-obligation", "theorems": bad},
                              {"what": "theorem(s) no longer check" if not audit.get("build_failed") else "proof module no longer builds",
                               "theorems": bad, "log": audit["log"][-3000:]}, False)

    cov.update({
        "obligations": max(obligations, 1), "discharged": discharged,
        "checker_cmd": "cd /verif/lean && lake build Hidi hidi-driver HidiProofs.Props.%s && lake env lean ../work/Audit_%s.lean  (#print axioms per theorem)" % (prop, prop),
        "trusted_base": TRUSTED_BASE + cov.pop("trusted_extra", []),
        "theorems": audit["theorems"],
    })
    if lc is not None:
        cov["leanchecker"] = lc
    rc = verdict.finish()
    write_evidence(prop, tier, seed, cov, cov.pop("assumptions", []), time.time() - t0, len(verdict.violations),
                   {"known_findings_reported": verdict.known})
    sys.exit(rc)


if __name__ == "__main__":
    main()
