"""C17: LED feedback shows the device's actual state.

The real handleOpenrgb loop runs (inside the real ProcessEvents) against a fake OpenRGB server on loopback, in a mount
namespace that provides /sys/class/hidraw (so the unmodified resolveHidraw / findController run).  After every group of
operations the runner waits two refresh periods and reports the last frame the server received.  The model
(Hidi/Led.lean: painting order of the source, byte arithmetic, channel colours computed exactly; the three class colours
after the third-party HSV round trip are taken from the real shiftColor on every run) must produce the same frame.  The
property's clauses are evaluated independently, from the user's point of view, on the implementation's frames:
what each LED must show given State() (octave, semitone, channel, mapping), the pitches sounding according to the device's
own MIDI output, and the MIDI-input notes sent by the script."""
import os, random, re, time, concurrent.futures
from common import *
import dev

ACTIONS = ["octave_up", "octave_down", "semitone_up", "semitone_down", "channel_up", "channel_down", "mapping_up", "mapping_down",
           "multinote", "panic"]


def led_table():
    src = open(os.path.join(LEAN, "Hidi", "Gen", "Evdev.lean")).read()
    body = src[src.index("def keyToLedName"):]
    body = body[:body.index("]\n")]
    return [(int(a), b.replace('\\\\', '\\').replace('\\"', '"')) for a, b in re.findall(r'\((\d+), "((?:[^"\\]|\\.)*)"\)', body)]


def hx(s):
    b = s.encode() if isinstance(s, str) else s
    return b.hex() if b else "-"


def chan_color(ch):
    # colorful.Hsv(45*ch+30 mod 360, 1, 1) with byte(c*255); independent of the Lean model: straight HSV formula in floats
    h = (45.0 * ch + 30.0) % 360.0
    hp = h / 60.0
    x = 1 - abs(hp % 2 - 1)
    r, g, b = [(1, x, 0), (x, 1, 0), (0, 1, x), (0, x, 1), (x, 0, 1), (1, 0, x)][int(hp) % 6]
    return (int(r * 255), int(g * 255), int(b * 255))


def gen_case(rng, cid, table, force=None):
    names = [n for _, n in table]
    code_of = {n: c for c, n in table}
    kind = force or rng.choice(["full", "full", "partial", "partial", "tiny", "empty", "unknown-names"])
    if kind == "full":
        leds = names[:]
        rng.shuffle(leds)
    elif kind == "partial":
        leds = rng.sample(names, rng.randrange(8, 50))
    elif kind == "tiny":
        leds = rng.sample(names, rng.randrange(1, 4))
    elif kind == "empty":
        leds = []
    else:
        leds = rng.sample(names, rng.randrange(5, 30)) + ["Logo", "Key: Fn", "Underglow 1"]
        rng.shuffle(leds)
    devname = rng.choice(["fake", "fake", "HyperX Alloy Elite 2 (HP)"])
    if devname.startswith("HyperX") and leds:
        leds = leds + ["RGB Strip %d" % i for i in rng.sample(range(1, 19), rng.choice([0, 5, 18]))]
    ops = ["case %s" % cid, "led.layout %s %d %s" % (hx(devname), len(leds), " ".join(hx(n) for n in leds))]
    nmaps = rng.choice([1, 2, 3])
    mapnames = ["Piano", "Chromatic", "Control"][:nmaps]
    if rng.random() < 0.3:
        rng.shuffle(mapnames)
    defo, defs = rng.choice([0, 0, 1, -1, 2, -3, 5]), rng.choice([0, 0, 1, -1, 3])
    if rng.random() < 0.12:
        # far transpositions (eleven and more presses of an octave key, or configured): no key, or only a few, has a pitch
        defo, defs = rng.choice([11, -11, 12, -13, -14, 17, 21, -21, 22, 10, -10]), rng.choice([0, 0, 4, -4, 100, -100])
    defch = rng.choice([1, 1, 2, 9, 16])
    ops.append("cfg.begin %s %d %d %d %d 64" % (rng.choice(["off", "no_repeat", "interrupt", "retrigger"]), defo, defs, defch, rng.randrange(nmaps)))
    led_codes = [code_of[n] for n in leds if n in code_of]
    all_codes = [c for c, _ in table]
    pool = list(dict.fromkeys(led_codes + rng.sample(all_codes, 10)))
    rng.shuffle(pool)
    nact = rng.choice([len(ACTIONS), len(ACTIONS), len(ACTIONS) - 1, len(ACTIONS) - 3, 2])
    acts = rng.sample(ACTIONS, nact)
    act_keys = {}
    for a in acts:
        if pool:
            act_keys[a] = pool.pop()
    keymaps = []
    for mi, mn in enumerate(mapnames):
        ops.append("cfg.map %d %s" % (mi, mn))
        km = {}
        cands = [c for c in pool]
        for c in rng.sample(cands, min(len(cands), rng.randrange(3, 25))):
            km[c] = rng.choice([0, 12, 36, 48, 59, 60, 61, 72, 100, 120, 127, rng.randrange(128)])
            ops.append("cfg.key %d - %d %d %d" % (mi, c, km[c], rng.choice([0, 0, 1, 5])))
        # a key of another sub-handler must not show up
        if cands and rng.random() < 0.3:
            ops.append("cfg.key %d s1 %d %d 0" % (mi, rng.choice(cands), 60))
        keymaps.append(km)
    for a, c in act_keys.items():
        ops.append("cfg.action %d %s" % (c, a))
    cols = [rng.randrange(1 << 24) for _ in range(6)]
    if rng.random() < 0.5:
        cols = [0xffffff, 0x202020, 0x00ff00, 0x000030, 0xff00ff, 0x00ffff]
    ops.append("cfg.colors %s" % " ".join(str(c) for c in cols))
    ops.append("cfg.end")
    body = []
    held = {}
    # directed opening: a MIDI-input note exactly on the pitch of a lit key (any channel incl. 16), frame, panic, frame
    dm = int(ops[2].split()[5]) if False else None
    defmap = int([o for o in ops if o.startswith("cfg.begin")][0].split()[5])
    off0 = defs + 12 * defo
    lit = [c for c in keymaps[defmap] if c in led_codes and 0 <= keymaps[defmap][c] + off0 <= 127] if defmap < len(keymaps) else []
    if lit and rng.random() < 0.5:
        c = rng.choice(lit)
        chx = rng.choice([0, defch - 1, 15, 15, rng.randrange(16)])
        body += ["midiin %02x%02x40" % (0x90 | chx, keymaps[defmap][c] + off0), "led.state", "led.frame"]
        if "panic" in act_keys and rng.random() < 0.7:
            body += ["key - %d 1" % act_keys["panic"], "key - %d 0" % act_keys["panic"], "led.state", "led.frame"]
        elif rng.random() < 0.5:
            body += ["midiin %02x%02x00" % (0x90 | chx, keymaps[defmap][c] + off0), "led.state", "led.frame"]
    if abs(off0) > 127 and defmap < len(keymaps) and rng.random() < 0.8:
        # a MIDI-input note that is a key's pitch only modulo 256: that key has no pitch, nothing may light up
        cands = [c for c in keymaps[defmap] if c in led_codes and (keymaps[defmap][c] + off0) % 256 <= 127]
        for c in rng.sample(cands, min(len(cands), 2)):
            chx = rng.choice([defch - 1, defch - 1, rng.randrange(16)])
            body += ["midiin %02x%02x40" % (0x90 | chx, (keymaps[defmap][c] + off0) % 256), "led.state", "led.frame"]
    if lit and rng.random() < 0.35:
        # the same note switched on twice (two keyboards merged into one MIDI stream, a retriggered pad), then off once:
        # the note is off
        c = rng.choice(lit)
        chx = rng.choice([defch - 1, defch - 1, rng.randrange(16)])
        pn = keymaps[defmap][c] + off0
        body += ["midiin %02x%02x40" % (0x90 | chx, pn)] * rng.choice([2, 2, 3]) + ["led.state", "led.frame"]
        body += [rng.choice(["midiin %02x%02x40" % (0x80 | chx, pn), "midiin %02x%02x00" % (0x90 | chx, pn)]), "led.state", "led.frame"]
    if lit and rng.random() < 0.4:
        # the same pitch sounding on several MIDI-input channels at once: the current one, a lower and a higher one, in a
        # random order of arrival — the current channel's external colour must win, else the lowest other channel's colour
        c = rng.choice(lit)
        cur = defch - 1
        chans = [cur] if rng.random() < 0.8 else []
        if cur >= 1:
            chans.append(rng.randrange(cur))
        if cur <= 14:
            chans.append(rng.randrange(cur + 1, 16))
        if rng.random() < 0.5:
            chans.append(rng.randrange(16))
        rng.shuffle(chans)
        for chx in chans:
            body.append("midiin %02x%02x40" % (0x90 | chx, keymaps[defmap][c] + off0))
        body += ["led.state", "led.frame"]
        if chans and rng.random() < 0.5:
            body += ["midiin %02x%02x40" % (0x80 | rng.choice(chans), keymaps[defmap][c] + off0), "led.state", "led.frame"]
    n_ops = rng.randrange(3, 14)
    for _ in range(n_ops):
        r = rng.random()
        if r < 0.35 and act_keys:
            a = rng.choice(list(act_keys))
            body.append("key - %d 1" % act_keys[a])
            body.append("key - %d 0" % act_keys[a])
        elif r < 0.65 and any(keymaps):
            km = rng.choice([k for k in keymaps if k])
            c = rng.choice(list(km))
            v = 0 if held.get(c) else 1
            held[c] = v == 1
            body.append("key - %d %d" % (c, v))
        else:
            ch = rng.choice([0, 0, defch - 1, 5, 15])
            note = rng.choice([48, 59, 60, 61, 72, 100, rng.randrange(128)])
            t = rng.random()
            if t < 0.55:
                body.append("midiin %02x%02x%02x" % (0x90 | ch, note, rng.choice([1, 64, 127])))
            elif t < 0.8:
                body.append("midiin %02x%02x00" % (0x90 | ch, note))       # Note On with velocity 0
            else:
                body.append("midiin %02x%02x40" % (0x80 | ch, note))
        if rng.random() < 0.5:
            body += ["led.state", "led.frame"]
    body += ["led.state", "led.frame", "led.disconnect"]
    meta = {"leds": leds, "devname": devname, "mapnames": mapnames, "keymaps": keymaps, "act_keys": act_keys, "cols": cols,
            "defch": defch, "kind": kind, "code_of": code_of}
    return ops, body, meta


def rgb(v):
    return ((v >> 16) & 255, (v >> 8) & 255, v & 255)


def near(a, b, tol=1):
    return all(abs(x - y) <= tol for x, y in zip(a, b))


def expected_led(meta, name, st, sounding, ext, shifted):
    """what LED `name` must show, or None when the property says nothing about it. returns (colour, tolerance, rule)"""
    o, s, ch, mp = st
    code = meta["code_of"].get(name)
    cols = [rgb(c) for c in meta["cols"]]
    white, black, ccol, unavail, active, active_ext = cols
    offset = s + 12 * o
    if code is None:
        return None
    km = meta["keymaps"][mp] if mp < len(meta["keymaps"]) else {}
    act = next((a for a, c in meta["act_keys"].items() if c == code), None)
    if code in km:
        pitch = km[code] + offset
        if 0 <= pitch <= 127:
            if pitch in sounding:
                return (active, 0, "active")
            if (ch, pitch) in ext:
                return (active_ext, 0, "external-current-channel")
            others = sorted(c for c, n in ext if n == pitch)
            if others:
                return (chan_color(others[0]), 0, "external-channel-colour")
            if meta["mapnames"][mp] == "Control":
                return (rgb(shifted[0]), 0, "class-colour")
            pc = pitch % 12
            base = shifted[2] if pc == 0 else shifted[1] if pc in (1, 3, 6, 8, 10) else shifted[0]
            return (rgb(base), 0, "class-colour")
        # out of range: unavailable — unless the key is also an action key (then the action rule below applies)
        if act is None:
            # (no pitch that is sounding anywhere can be this key's: it has none)
            return (unavail, 0, "unavailable")
    if act is not None and code not in km or (act is not None and not (0 <= km.get(code, 0) + offset <= 127)):
        w1, w2, w3 = (27,) * 3, (100,) * 3, (255,) * 3
        if act == "octave_up":
            return ((w1 if o <= 0 else w2 if o == 1 else w3), 0, "octave-key")
        if act == "octave_down":
            return ((w1 if o >= 0 else w2 if o == -1 else w3), 0, "octave-key")
        if act == "semitone_up":
            return ((w1 if s <= 0 else w2 if s == 1 else w3), 0, "semitone-key")
        if act == "semitone_down":
            return ((w1 if s >= 0 else w2 if s == -1 else w3), 0, "semitone-key")
        if act == "mapping_up":
            return ((w1 if mp == len(meta["mapnames"]) - 1 else w3), 0, "mapping-key")
        if act == "mapping_down":
            return ((w1 if mp == 0 else w3), 0, "mapping-key")
        cc = chan_color(ch)
        dim = tuple(x // 3 for x in cc)
        if act == "channel_up":
            return ((dim if ch == 15 else cc), 0, "channel-key")
        if act == "channel_down":
            return ((dim if ch == 0 else cc), 0, "channel-key")
    return None


def run_shard(args):
    binary, text, workdir, tag = args
    os.makedirs(workdir, exist_ok=True)
    inp = os.path.join(workdir, tag + ".ops")
    outp = os.path.join(workdir, tag + ".go.out")
    open(inp, "w").write(text)
    if os.path.exists(outp):
        os.remove(outp)
    env = dict(os.environ, VERIF_OUT=outp, VERIF_IN=inp, GOMEMLIMIT="2GiB")
    cmd = ["unshare", "-m", "sh", "-c", "mount -t tmpfs tmpfs /sys/class/hidraw && exec \"$0\" -test.run '^TestVerifLed$' -test.timeout 1500s", binary]
    try:
        p = subprocess.run(cmd, env=env, stdout=subprocess.PIPE, stderr=subprocess.STDOUT, text=True, timeout=1600, cwd=workdir)
        log_ = p.stdout
    except subprocess.TimeoutExpired:
        log_ = "timeout"
    return (open(outp).read() if os.path.exists(outp) else ""), log_


def run(prop, tier, seed, verdict):
    t0 = time.time()
    binary, blog = go_build("device")
    if binary is None:
        verdict.violation({"clause": "harness-build"}, {"log": blog[-3000:]}, False)
        return {"evaluations": 0, "distinct_nontrivial": 0}
    workdir = os.path.join(WORK, prop)
    os.makedirs(workdir, exist_ok=True)
    rng = random.Random(seed * 271 + 17)
    table = led_table()
    n = 320 if tier == "quick" else 5000
    forced = ["full", "partial", "tiny", "empty", "unknown-names"]
    cases = [gen_case(rng, i, table, forced[i] if i < len(forced) else None) for i in range(n)]
    # pre-pass: the real shiftColor(c, 0) of the three class colours of every case
    q = ["case q"] + ["led.shiftq %d %d %d" % tuple(m["cols"][:3]) for _, _, m in cases]
    out, qlog = run_shard((binary, "\n".join(q) + "\n", workdir, "q"))
    ql = [x for x in dev.parse_outputs(out).get("q", []) if x]
    if len(ql) != len(cases):
        verdict.violation({"clause": "runner-crash"}, {"log": qlog[-3000:]}, False)
        return {"evaluations": 0, "distinct_nontrivial": 0}
    shift_dev = 0
    for (ops, body, m), l in zip(cases, ql):
        m["shifted"] = [int(x) for x in l.split()]
        for a, b in zip(m["cols"][:3], m["shifted"]):
            if not near(rgb(a), rgb(b), 1):
                verdict.violation({"clause": "class-colour-round-trip"}, {"colour": "%06x" % a, "shiftColor(c,0)": "%06x" % b,
                                                                           "what": "the HSV round trip moved a class colour by more than 1/255"}, True)
            shift_dev += a != b
    shards = 16
    jobs = []
    for s in range(shards):
        lines = []
        for i, (ops, body, m) in enumerate(cases):
            if i % shards == s:
                lines += ops + ["led.start"] + body
        jobs.append((binary, "\n".join(lines) + "\n", workdir, "l%d" % s))
    G = {}
    logs = []
    with concurrent.futures.ThreadPoolExecutor(max_workers=shards) as ex:
        for out, log_ in ex.map(run_shard, jobs):
            G.update(dev.parse_outputs(out))
            logs.append(log_)
    mlines = []
    for ops, body, m in cases:
        mlines += ops[:-1] + ["led.shift %d %d %d" % tuple(m["shifted"]), "cfg.end", "led.start"] + body
    rc2, mout, merr = dev.run_driver("\n".join(mlines) + "\n")
    M = dev.parse_outputs(mout)
    counts, kinds = {}, {}
    disag, first_disag, frames_checked, leds_checked = 0, None, 0, 0
    for i, (ops, body, m) in enumerate(cases):
        kinds[m["kind"]] = kinds.get(m["kind"], 0) + 1
        gl = G.get(str(i), [])
        ml = M.get(str(i), [])
        nrep = 1 + sum(1 for b in body)          # led.start + every body op reports a line
        gl, ml = gl[:nrep], ml[:nrep]
        full_ops = ops + ["led.start"] + body
        if len(gl) < nrep or "PANIC" in gl or "stuck" in gl or gl[0] != "started":
            if len(m["leds"]) == 0 or "PANIC" in gl or "stuck" in gl or (gl and gl[0] == "noframes"):
                verdict.violation({"clause": "led-loop-crash", "leds": min(len(m["leds"]), 1)},
                                  {"ops": full_ops, "what": "the LED loop crashed the device (Go panic in handleOpenrgb) or produced no frame",
                                   "led_count": len(m["leds"]), "implementation_output": gl[:6], "log": "\n".join(logs)[-1500:] if len(gl) < nrep else ""}, True)
            else:
                verdict.violation({"clause": "runner-crash"}, {"ops": full_ops, "got": gl[:5]}, False)
            continue
        # ---- replay the script for the independent expectation
        # which keys are held, and at which pitch each of them sounds: the pitch is what the device announced (Note On) when
        # the key went down.  A press that announced nothing (out of range, suppressed by the collision mode, not a note key)
        # leaves that key's pitch unknown.  Held keys — not the receiver's view — are what "sounding from the keyboard" means
        # for the LEDs: with collision mode off, two keys on one pitch and one of them released, the other key is still held.
        sounding, ext, held = set(), set(), {}
        unknown_held = False
        act_codes = set(m["act_keys"].values())
        st = None
        for op, got in zip(["led.start"] + body, gl):
            t = op.split()
            if t[0] == "key":
                toks_ = got.split()
                code, val = int(t[2]), int(t[3])
                if any(len(x) == 6 and int(x[0:2], 16) >> 4 == 11 and int(x[2:4], 16) == 123 for x in toks_):
                    ext.clear()              # the panic action clears the MIDI-input highlight; held keys stay held
                    toks_ = []
                if code not in act_codes:
                    if val == 1:
                        on = [(int(x[0:2], 16) & 15, int(x[2:4], 16)) for x in toks_
                              if len(x) == 6 and int(x[0:2], 16) >> 4 == 9 and int(x[4:6], 16) > 0]
                        held[code] = on[0] if on else None
                    elif val == 0:
                        held.pop(code, None)
                sounding = {v[1] for v in held.values() if v}
                unknown_held = any(v is None for v in held.values())
            elif t[0] == "midiin":
                a, b, c = int(t[1][0:2], 16), int(t[1][2:4], 16), int(t[1][4:6], 16)
                if a >> 4 == 9 and c > 0:
                    ext.add((a & 15, b))
                elif a >> 4 == 8 or (a >> 4 == 9 and c == 0):
                    ext.discard((a & 15, b))
            elif t[0] == "led.state":
                st = tuple(int(x) for x in got.split())
            elif t[0] == "led.frame" and st is not None:
                fr = [tuple(bytes.fromhex(x)) for x in got.split(",")] if got and got != "noframe" else []
                frames_checked += 1
                if len(fr) != len(m["leds"]):
                    verdict.violation({"clause": "frame-length"}, {"ops": full_ops, "frame": got[:300], "leds": len(m["leds"])}, True)
                    continue
                for name, colr in zip(m["leds"], fr):
                    e = expected_led(m, name, st, sounding, ext, m["shifted"])
                    if e is None:
                        continue
                    want, tol, rule = e
                    if rule != "active" and unknown_held and near(colr, rgb(m["cols"][4]), 0) and not near(colr, want, tol):
                        continue             # a held key of unknown pitch may be the one lighting this LED: nothing claimed
                    leds_checked += 1
                    counts[rule] = counts.get(rule, 0) + 1
                    if not near(colr, want, tol):
                        verdict.violation({"clause": rule},
                                          {"ops": full_ops, "led": name, "shows": "%02x%02x%02x" % colr, "expected": "%02x%02x%02x" % tuple(want),
                                           "state(octave,semitone,channel,mapping)": st, "sounding": sorted(sounding), "midi_in_notes": sorted(ext),
                                           "at_op": op, "frame": got[:400]}, True)
            elif t[0] == "led.disconnect":
                parts = got.split(" | ")
                counts["disconnect"] = counts.get("disconnect", 0) + 1
                if not got.startswith("returned"):
                    verdict.violation({"clause": "disconnect"}, {"ops": full_ops, "outcome": got[:300]}, True)
                elif len(parts) == 3 and parts[2] != "noframe" and any(x != "ff0000" for x in parts[2].split(",") if x):
                    verdict.violation({"clause": "disconnect-not-red"}, {"ops": full_ops, "last_frame": parts[2][:300]}, True)
        if gl != ml:
            disag += 1
            if first_disag is None:
                k = next(j for j in range(nrep) if j >= len(ml) or gl[j] != ml[j])
                first_disag = (full_ops, k, gl[k], ml[k] if k < len(ml) else None)
    if first_disag and not verdict.violations:
        ops_, k, a, b = first_disag
        verdict.violation({"clause": "correspondence"},
                          {"correspondence": "Hidi.Led.frame (lean/Hidi/Led.lean; Gen.keyToLedName, Gen.ledUncheckedWrites, Gen.midiInVelocityZeroIsOff) vs handleOpenrgb / handleInputEvents",
                           "ops": ops_, "output_index": k, "implementation": a[:600], "model": (b or "")[:600]}, False)
    return {
        "evaluations": leds_checked + frames_checked, "distinct_nontrivial": len({tuple(o + b) for o, b, _ in cases}),
        "rule": "LED layouts: all %d known LED names permuted, random subsets (8-50, 1-3), no LEDs at all, unknown names mixed in, strip LEDs; "
                "configs with 1-3 mappings (incl. 'Control'), 3-25 keys with and without LEDs, 2-10 action keys (so some actions are unbound); "
                "histories of action presses, held keys, MIDI-input Note On / Note On velocity 0 / Note Off on several channels; frames compared "
                "after quiescence; distinct = distinct (layout, config, history)" % len(table),
        "traces_validated_against_impl": len(cases), "frames_checked": frames_checked, "led_rule_evaluations": counts, "layout_kinds": kinds,
        "disagreements": disag, "class_colours_moved_by_round_trip": shift_dev,
        "samples": [{"ops": (cases[1][0] + cases[1][1])[:20], "implementation": G.get("1", [])[:6]}],
        "exec_wall_s": round(time.time() - t0, 1),
        "assumptions": ["frames are sampled after 45 ms of quiescence (two refresh periods)",
                        "the class colours after the HSV round trip of go-colorful are taken from the real shiftColor (measured: at most 1/255 per component)",
                        "one LED per key name, len(Colors) = len(LEDs), each action bound to at most one key"],
        "trusted_extra": ["openrgb-go wire encoding (the fake server decodes what the real client sends)", "go-colorful HSV conversion"],
    }
