"""C18: start-up upkeep (updateHIDIConfiguration, cmd/hidi/config.go).

Tie: the embedded template is dumped from the real embed.FS on every run (and compared with the files on disk that the
go:embed patterns select); generated hidi-config trees are materialised and the real function runs on them, once and twice;
the model (Hidi/Upkeep.lean) must produce the same tree.  The property's clauses are evaluated independently (Python) on the
implementation's result.  Crash points three ways: (i) every intermediate tree of the model's run is materialised (the
in-flight file cut at some byte) and the real function runs on it; (ii) the real function runs in a child process with
RLIMIT_FSIZE = k, so the kernel kills it inside the first write that passes k bytes; (iii) the child runs under strace with
ENOSPC injected into its k-th mkdir/openat/write.  For (ii)/(iii) the tree left behind must be one of the model's crash
states, and a later real run must restore the factory files and leave everything else as the crash left it."""
import hashlib
import os, random, time, glob, fnmatch
from common import *
import dev

CONFIG = "hidi-config"
FACTORY = CONFIG + "/factory"
BLACKLIST = CONFIG + "/device blacklist.txt"


def hx(s):
    b = s.encode() if isinstance(s, str) else s
    return b.hex() if b else "-"


def unhx(h):
    return b"" if h == "-" else bytes.fromhex(h)


def parse_tree(text):
    """'hexpath/ hexpath:hex ...' -> {path: None | bytes}"""
    t = {}
    for tok in text.split():
        if tok.endswith("/"):
            t[unhx(tok[:-1]).decode()] = None
        else:
            p, _, c = tok.partition(":")
            t[unhx(p).decode()] = unhx(c)
    return t


def tree_ops(tree):
    """fs.* lines for a tree dict (None = absent root)"""
    if tree is None:
        return ["fs.none"]
    ops = ["fs.reset"]
    for p in sorted(tree, key=lambda q: (q.count("/"), q)):
        if p == CONFIG:
            continue
        if tree[p] is None:
            ops.append("fs.dir %s" % hx(p))
        else:
            ops.append("fs.file %s %s" % (hx(p), hx(tree[p])))
    return ops


def under(d, p):
    return p == d or p.startswith(d + "/")


def embed_selection():
    """the files the go:embed patterns of cmd/hidi/config.go select, read from disk (independent of the harness dump)"""
    src = open(os.path.join(REPO, "cmd/hidi/config.go")).read()
    pats = re.findall(r'^//go:embed\s+(?:"([^"]+)"|(\S+))\s*$', src, re.M)
    pats = [a or b for a, b in pats]
    base = os.path.join(REPO, "cmd/hidi")
    files = {}
    for pat in pats:
        for m in glob.glob(os.path.join(base, pat), include_hidden=True):
            rel = os.path.relpath(m, base)
            if os.path.isdir(m):
                # embedding a directory takes all files below it except those starting with . or _
                for dp, dns, fns in os.walk(m):
                    dns[:] = [d for d in dns if not d.startswith((".", "_"))]
                    for fn in fns:
                        if not fn.startswith((".", "_")):
                            files[os.path.relpath(os.path.join(dp, fn), base)] = open(os.path.join(dp, fn), "rb").read()
            else:
                files[rel] = open(m, "rb").read()
    return pats, files


def mutate_content(rng, data):
    k = rng.random()
    if k < 0.35 and len(data) > 0:
        return data[:rng.randrange(0, len(data))]            # truncated at any byte
    if k < 0.6 and len(data) > 0:
        i = rng.randrange(len(data))
        return data[:i] + bytes([data[i] ^ 0x20]) + data[i + 1:]   # one byte modified, same length
    if k < 0.8:
        return data + rng.choice([b"\n", b"# local edit\n", b"x"])  # longer than the template
    if k < 0.9:
        return b""
    return bytes(rng.randrange(256) for _ in range(rng.choice([1, 7, 64])))


def gen_tree(rng, tpl, regular=True):
    """returns tree dict or None (absent root)"""
    if rng.random() < 0.08:
        return None, {"absent-root"}
    tags = set()
    t = {}
    tdirs = [p for p, c in tpl if c is None]
    for p, c in tpl:
        t[p] = c
    # factory directories absent (with everything below)
    for d in tdirs:
        if under(FACTORY, d) and rng.random() < 0.12:
            for p in list(t):
                if under(d, p):
                    del t[p]
            tags.add("factory-dir-absent")
    for p, c in tpl:
        if c is None or p not in t:
            continue
        if under(FACTORY, p):
            k = rng.random()
            if k < 0.45:
                pass
            elif k < 0.65:
                del t[p]; tags.add("factory-file-absent")
            else:
                t[p] = mutate_content(rng, c); tags.add("factory-file-changed")
        else:
            k = rng.random()
            if k < 0.5:
                pass
            elif k < 0.7:
                del t[p]; tags.add("user-file-absent" if p != BLACKLIST else "blacklist-absent")
            else:
                t[p] = mutate_content(rng, c); tags.add("user-file-changed")
    # user directories absent
    for d in tdirs:
        if under(CONFIG + "/user", d) and rng.random() < 0.1:
            for p in list(t):
                if under(d, p):
                    del t[p]
            tags.add("user-dir-absent")
    # extra files and directories
    extras = ["user/keyboard/my keyboard.toml", "user/gamepad/pad.toml", "user/notes.txt", "user/deep/er/x.toml",
              "factory/keyboard/custom.toml", "factory/extra/file.toml", "factory/README.local", "notes.txt", "backup/hidi.toml"]
    for e in rng.sample(extras, rng.choice([0, 1, 2, 4])):
        full = CONFIG + "/" + e
        parts = full.split("/")
        okp = True
        for i in range(1, len(parts)):
            par = "/".join(parts[:i])
            if par in t and t[par] is not None:
                okp = False
            t.setdefault(par, None) if okp else None
        if okp:
            t[full] = bytes(rng.randrange(32, 127) for _ in range(rng.choice([0, 5, 40])))
            tags.add("extra-file")
    # extra files right next to factory files, named after them: what an interrupted "write to a temporary file, then
    # rename" or an editor leaves behind (`x.toml.tmp`, `x.toml~`, `.x.toml.swp`)
    ffiles = [p for p, c in tpl if c is not None and under(FACTORY, p)]
    for p in rng.sample(ffiles, min(len(ffiles), rng.choice([0, 0, 1, 2]))):
        d, b = os.path.split(p)
        sib = rng.choice([p + ".tmp", p + "~", p + ".bak", p + ".new", d + "/." + b + ".swp", p + ".tmp"])
        if d in t and t[d] is None and sib not in t:
            t[sib] = bytes(rng.randrange(32, 127) for _ in range(rng.choice([0, 7, 60])))
            tags.add("extra-file-next-to-factory-file")
    if rng.random() < 0.1:
        t[CONFIG + "/user/emptydir"] = None
        t.setdefault(CONFIG + "/user", None)
    if not regular:
        # type swaps (outside the property's quantifier; correspondence and "no crash" only)
        k = rng.random()
        cands = [p for p, c in tpl if under(FACTORY, p) and p != FACTORY]
        p = rng.choice(cands)
        for q in list(t):
            if under(p, q):
                del t[q]
        par = os.path.dirname(p)
        if par in t or par == CONFIG:
            if dict(tpl)[p] is None:
                t[p] = b"i am a file"        # file where a directory is expected
            else:
                t[p] = None                   # directory where a file is expected
            tags.add("type-swap")
    # parents of everything must exist as directories
    for p in list(t):
        parts = p.split("/")
        for i in range(1, len(parts)):
            par = "/".join(parts[:i])
            if par not in t:
                t[par] = None
    t[CONFIG] = None
    return t, tags


def check_result(tpl, before, res, after, verdict, ops, what):
    """the property's clauses on one run of the real function; returns True when all hold"""
    # ---- the template the theorems are instantiated with (Gen.templateShape, regenerated by tools/extract from the embed
    # patterns and the files on disk) must be the tree the real embed.FS contains, in WalkDir order
    def fnv64a(b):
        h = 0xcbf29ce484222325
        for x in b:
            h = ((h ^ x) * 0x100000001b3) & 0xffffffffffffffff
        return h
    gsrc = open(os.path.join(LEAN, "Hidi", "Gen", "Tables.lean")).read()
    gi = gsrc.find("def templateShape")
    gshape = re.findall(r'\("((?:[^"\\]|\\.)*)", (true|false), "([^"]*)"\)', gsrc[gi:gsrc.find("]\n", gi)]) if gi >= 0 else []
    want = [(p_, "true" if c is None else "false", "" if c is None else "%d:%016x" % (len(c), fnv64a(c))) for p_, c in tpl]
    if [tuple(x) for x in gshape] != want:
        verdict.violation({"clause": "template-shape"},
                          {"what": "Gen.templateShape (tools/extract) differs from the tree in the real embed.FS (harness dump)",
                           "gen": gshape[:30], "embedded": want[:30]}, False)
    tplmap = dict(tpl)
    ok = True

    def bad(clause, **kw):
        nonlocal ok
        ok = False
        verdict.violation({"clause": clause, "path": kw.get("path")},
                          dict(kw, ops=ops, run=what, outcome=res), True)
    if res != "ok":
        bad("upkeep-failed", note="updateHIDIConfiguration returned %s on a regular tree" % res)
        return False
    if before is None:
        if after != tplmap:
            diff = sorted(set(after) ^ set(tplmap)) or [p for p in tplmap if after.get(p) != tplmap[p]]
            bad("fresh-tree-incomplete", path=diff[0] if diff else None)
        return ok
    facpaths = {p for p in tplmap if under(FACTORY, p)}
    for p, c in before.items():
        if p in facpaths:
            continue
        if p not in after or after[p] != c:
            bad("user-file-touched", path=p, before=(c.hex() if c is not None else "dir"),
                after=(after[p].hex() if after.get(p) is not None else ("dir" if p in after else "absent")))
            break
    for p in facpaths:
        if p not in after or after[p] != tplmap[p]:
            bad("factory-file-not-restored", path=p)
            break
    if BLACKLIST not in before:
        if after.get(BLACKLIST) != tplmap.get(BLACKLIST):
            bad("blacklist-not-created", path=BLACKLIST)
    for p in after:
        if p not in before and p not in facpaths and p != BLACKLIST:
            bad("unexpected-new-file", path=p)
            break
    return ok


def run(prop, tier, seed, verdict):
    t0 = time.time()
    binary, blog = go_build("hidi")
    if binary is None:
        verdict.violation({"clause": "harness-build"}, {"log": blog[-3000:]}, False)
        return {"evaluations": 0, "distinct_nontrivial": 0}
    workdir = os.path.join(WORK, prop)
    os.makedirs(os.path.join(workdir, "tmp"), exist_ok=True)
    os.environ["VERIF_TMP"] = os.path.join(workdir, "tmp")
    rng = random.Random(seed * 977 + 18)
    # ---- the template: dumped from the real embed.FS, compared with the files the patterns select on disk
    rc, out, glog = dev.run_go(binary, "case T\ntemplate\n", workdir, "tpl")
    lines = dev.parse_outputs(out).get("T", [])
    if not lines or not lines[0]:
        verdict.violation({"clause": "runner-crash"}, {"log": glog[-3000:]}, False)
        return {"evaluations": 0, "distinct_nontrivial": 0}
    tpl = []
    for tok in lines[0].split():
        if tok.endswith("/"):
            tpl.append((unhx(tok[:-1]).decode(), None))
        else:
            p, _, c = tok.partition(":")
            tpl.append((unhx(p).decode(), unhx(c)))
    pats, disk = embed_selection()
    tplfiles = {p: c for p, c in tpl if c is not None}
    if tplfiles != disk:
        verdict.violation({"clause": "template-dump"},
                          {"what": "the embedded template differs from the files selected by the go:embed patterns",
                           "only_embedded": sorted(set(tplfiles) - set(disk)), "only_on_disk": sorted(set(disk) - set(tplfiles))}, False)
    tplmap = dict(tpl)
    tpl_lines = ["tpl.reset"] + [("tpl.dir %s" % hx(p)) if c is None else ("tpl.file %s %s" % (hx(p), hx(c))) for p, c in tpl]

    n = 400 if tier == "quick" else 6000
    n_irreg = n // 8
    trees = [gen_tree(rng, tpl) + (True,) for _ in range(n)] + [gen_tree(rng, tpl, regular=False) + (False,) for _ in range(n_irreg)]
    # corpus: the complete template tree, the absent root, an empty root
    trees = [(dict(tplmap), {"intact"}, True), (None, {"absent-root"}, True), ({CONFIG: None}, {"empty-root"}, True)] + trees
    go_ops, mo_ops = [], list(tpl_lines)
    for i, (t, tags, reg) in enumerate(trees):
        ops = tree_ops(t)
        for dst in (go_ops, mo_ops):
            dst.append("case %d" % i)
            dst.extend(ops)
            dst.append("upkeep")
            dst.append("upkeep 2")
        mo_ops.append("crashstates")
    rc, gout, glog = dev.run_go(binary, "\n".join(go_ops) + "\n", workdir, "main", timeout=3000)
    rc2, mout, merr = dev.run_driver("\n".join(mo_ops) + "\n")
    G, M = dev.parse_outputs(gout), dev.parse_outputs(mout)
    disag, tagcount, nontrivial = 0, {}, set()
    crash_jobs = []          # (tree index, crash state dict with in-flight path)
    crash_budget = 1500 if tier == "quick" else 40000
    for i, (t, tags, reg) in enumerate(trees):
        for tg in tags:
            tagcount[tg] = tagcount.get(tg, 0) + 1
        gl = [x for x in G.get(str(i), []) if x != ""]
        ml = [x for x in M.get(str(i), [])]
        if len(gl) != 2:
            verdict.violation({"clause": "runner-crash"}, {"ops": tree_ops(t)[:30], "log": glog[-2000:]}, False)
            break
        ops = tree_ops(t)
        res1, _, tr1 = gl[0].partition(" ")
        res2, _, tr2 = gl[1].partition(" ")
        if "panic" in (res1, res2):
            verdict.violation({"clause": "upkeep-panic"}, {"ops": ops, "outcome": gl[0][:200]}, True)
            continue
        if reg:
            after1 = parse_tree(tr1)
            if check_result(tpl, t, res1, after1, verdict, ops, "first run"):
                if res2 != "ok" or tr2 != tr1:
                    verdict.violation({"clause": "not-idempotent"}, {"ops": ops, "first": gl[0][:400], "second": gl[1][:400]}, True)
            if tags & {"factory-file-changed", "factory-file-absent", "factory-dir-absent"} and tags & {"user-file-changed", "extra-file"}:
                nontrivial.add(hashlib.sha1((tr1 + "|" + " ".join(ops)).encode()).digest())
        if gl != [x for x in ml[:2]]:
            disag += 1
            if not verdict.violations:
                k = 0 if gl[0] != ml[0] else 1
                verdict.violation({"clause": "correspondence"},
                                  {"correspondence": "Hidi.upkeep (lean/Hidi/Upkeep.lean) vs updateHIDIConfiguration", "ops": ops,
                                   "implementation": gl[k][:600], "model": (ml[k] if k < len(ml) else "")[:600], "regular": reg}, False)
        if reg and len(ml) >= 3 and i % (1 if tier == "thorough" else 6) == 0 and crash_budget > 0:
            # crash states are whole trees: keep only as many as will be replayed (memory)
            states = [parse_tree(s) for s in ml[2].split(" || ")] if ml[2].strip() else []
            crash_budget -= len(states)
            crash_jobs.append((i, states))
    # ---- (i) model crash states materialised, real function on each
    cs_ops_go, cs_ops_mo, cs_meta = [], list(tpl_lines), []
    limit = 1500 if tier == "quick" else 40000   # = the initial crash_budget
    for i, states in crash_jobs:
        t = trees[i][0]
        final_target = dict(tplmap) if t is None else None
        for si, st in enumerate(states):
            if len(cs_meta) >= limit:
                break
            st = dict(st)
            # the in-flight file is the one whose content is the placeholder "-" (empty) while the template's is not
            for p, c in list(st.items()):
                if c == b"" and tplmap.get(p) not in (None, b"") and (t is None or t.get(p) != b""):
                    data = tplmap[p]
                    st[p] = data[:rng.choice([0, 1, len(data) // 2, len(data) - 1, rng.randrange(len(data))])]
            cid = "cs%d-%d" % (i, si)
            ops = tree_ops(st)
            for dst in (cs_ops_go, cs_ops_mo):
                dst.append("case %s" % cid)
                dst.extend(ops)
                dst.append("upkeep")
            cs_meta.append((cid, i, st, ops))
    crash_checked = 0
    if cs_meta:
        rc, gout, glog = dev.run_go(binary, "\n".join(cs_ops_go) + "\n", workdir, "crash", timeout=3000)
        rc2, mout, merr = dev.run_driver("\n".join(cs_ops_mo) + "\n")
        G2, M2 = dev.parse_outputs(gout), dev.parse_outputs(mout)
        for cid, i, st, ops in cs_meta:
            gl = [x for x in G2.get(cid, []) if x != ""]
            ml = M2.get(cid, [])
            if len(gl) != 1:
                verdict.violation({"clause": "runner-crash"}, {"ops": ops[:30], "log": glog[-2000:]}, False)
                break
            res, _, tr = gl[0].partition(" ")
            crash_checked += 1
            check_result(tpl, st, res, parse_tree(tr), verdict, ops, "run after a crash of an earlier run (model crash state %s of tree %d)" % (cid, i))
            if ml[:1] != gl and not verdict.violations:
                verdict.violation({"clause": "correspondence"}, {"ops": ops, "implementation": gl[0][:600], "model": (ml[0] if ml else "")[:600],
                                                                  "note": "on a crash state"}, False)
    # ---- (ii)/(iii) real interrupted runs
    real_runs, real_killed, real_inj = 0, 0, 0
    sizes = sorted({len(c) for c in tplfiles.values()})
    picks = [j for j, (t, tags, reg) in enumerate(trees) if reg][: (12 if tier == "quick" else 150)]
    cr_ops, cr_meta = [], []
    for i in picks:
        t = trees[i][0]
        ks = [("fsize", k) for k in rng.sample([0, 1, 2, 50] + [s - 1 for s in sizes if s > 1] + [s // 2 for s in sizes], 4)]
        ks += [("strace", k) for k in (rng.sample(range(1, 50), 10) if tier == "quick" else range(1, 50))]
        for mode, k in ks:
            cid = "cr%d-%s-%d" % (i, mode, k)
            cr_ops.append("case %s" % cid)
            cr_ops.extend(tree_ops(t))
            cr_ops.append("crashrun %s %d" % (mode, k))
            cr_meta.append((cid, i, mode, k))
    second_ops, second_meta = [], []
    if cr_meta:
        rc, gout, glog = dev.run_go(binary, "\n".join(cr_ops) + "\n", workdir, "real", timeout=3000)
        G3 = dev.parse_outputs(gout)
        states_of = dict(crash_jobs)
        # states for picked trees that were not in crash_jobs: ask the model
        need = [i for i in picks if i not in states_of]
        if need:
            mo = list(tpl_lines)
            for i in need:
                mo.append("case %d" % i)
                mo.extend(tree_ops(trees[i][0]))
                mo.append("crashstates")
            _, mo_out, _ = dev.run_driver("\n".join(mo) + "\n")
            MM = dev.parse_outputs(mo_out)
            for i in need:
                l = MM.get(str(i), [""])
                states_of[i] = [parse_tree(s) for s in l[0].split(" || ")] if l and l[0].strip() else []
        for cid, i, mode, k in cr_meta:
            gl = [x for x in G3.get(cid, []) if x != ""]
            if len(gl) != 1:
                verdict.violation({"clause": "runner-crash"}, {"case": cid, "log": glog[-2000:]}, False)
                break
            status, inj, tr = (gl[0].split(" ", 2) + ["", ""])[:3]
            obs = parse_tree(tr)
            real_runs += 1
            real_killed += (mode == "fsize" and status in ("killed", "err"))
            real_inj += inj == "inj"
            t = trees[i][0]
            start = {} if t is None else t
            cands = [start] + states_of.get(i, [])

            def matches(st):
                if set(st) != set(obs):
                    return False
                for p in st:
                    if st[p] == obs[p]:
                        continue
                    # an in-flight write: the observed content is a prefix of the template's
                    if st[p] == b"" and obs[p] is not None and tplmap.get(p) is not None and tplmap[p].startswith(obs[p]):
                        continue
                    return False
                return True
            if not any(matches(st) for st in cands):
                verdict.violation({"clause": "crash-state-unknown-to-model", "mode": mode},
                                  {"ops": tree_ops(t), "crashrun": "%s %d" % (mode, k), "status": status, "observed_tree": tr[:1500],
                                   "note": "the tree left by the interrupted real run is not one of the model's crash states"}, False)
            second_ops.append("case %s" % cid)
            second_ops.extend(tree_ops(obs if obs else None) if obs else ["fs.none"])
            second_ops.append("upkeep")
            second_meta.append((cid, obs if obs else None, "%s %d" % (mode, k), i))
    if second_meta:
        rc, gout, glog = dev.run_go(binary, "\n".join(second_ops) + "\n", workdir, "real2", timeout=3000)
        G4 = dev.parse_outputs(gout)
        for cid, obs, how, i in second_meta:
            gl = [x for x in G4.get(cid, []) if x != ""]
            if len(gl) != 1:
                continue
            res, _, tr = gl[0].partition(" ")
            ops = tree_ops(trees[i][0]) + ["crashrun " + how, "# then a normal run on what was left"]
            check_result(tpl, obs, res, parse_tree(tr), verdict, ops, "run after a really interrupted run (%s)" % how)
    return {
        "evaluations": len(trees) * 2 + crash_checked + real_runs * 2,
        "distinct_nontrivial": len(nontrivial),
        "rule": "hidi-config trees derived from the embedded template: every factory file intact / absent / truncated at a random byte / "
                "modified / longer, factory and user directories absent, hidi.toml / blacklist / user files intact, absent or modified, extra "
                "files under user/, factory/ and the root, absent root, empty root; plus type-swapped trees (correspondence only). "
                "distinct_nontrivial = distinct regular trees with at least one damaged factory entry and at least one modified or extra user file",
        "traces_validated_against_impl": len(trees) + crash_checked,
        "trees": len(trees), "irregular_trees": n_irreg, "tags": tagcount, "disagreements": disag,
        "model_crash_states_replayed_on_impl": crash_checked,
        "real_interrupted_runs": real_runs, "interrupted_by_RLIMIT_FSIZE": real_killed, "strace_injections_hit": real_inj,
        "template_entries": len(tpl), "embed_patterns": pats,
        "samples": [{"ops": tree_ops(trees[3][0])[:12], "implementation": [x[:300] for x in G.get("3", []) if x][:2]}],
        "exec_wall_s": round(time.time() - t0, 1),
        "assumptions": ["file permissions are not varied (the sandbox runs as root)",
                        "atomicity and durability of a single write(2) are the kernel's; a crash inside a write is modelled as an arbitrary prefix",
                        "type-swapped trees (a directory where a factory file is expected, ...) are outside the quantifier: compared with the model, no clause claimed"],
        "trusted_extra": ["the template dump (harness walkTemplate over the real embed.FS), cross-checked against the files on disk selected by the go:embed patterns",
                          "strace fault injection and RLIMIT_FSIZE as stand-ins for an interruption"],
    }
