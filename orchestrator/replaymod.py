"""./check <Cxx> --replay <file>: run a recorded failing input again.

Device properties (C01-C08, C13, C14): the replay file carries the shrunk case (configuration lines, events, sink mode); it is
executed on the implementation and on the model, the property's monitors are evaluated on the implementation's trace and the two
outputs are compared.  Other properties: the generators are deterministic functions of the seed, so the replay re-runs the
generating check at the recorded seed and tier and reports whether a violation with the recorded signature occurs again (the
history that led to a failure — earlier files of the same process, earlier cases of a script — is part of the input there)."""
import json, os
from common import *

DEV_PROPS = {"C01", "C02", "C03", "C04", "C05", "C06", "C07", "C08", "C13", "C14"}


def run(prop, path, verdict):
    j = json.load(open(path))
    want = j.get("signature")
    if prop in DEV_PROPS and "case" in j:
        import dev, devcheck
        binary, blog = go_build("device")
        if binary is None:
            verdict.violation({"clause": "harness-build"}, {"log": blog[-3000:]}, False)
            return {"evaluations": 0, "distinct_nontrivial": 0}
        c = dev.Case.from_json(j["case"])
        c.cid = "replay"
        workdir = os.path.join(WORK, prop)
        r = dev.execute([c], binary, workdir, tag="replay", jobs=1)[str(c.cid)]
        viol, disag, mfails = devcheck.analyze(prop, [c], {str(c.cid): r})
        for _, fails in viol:
            verdict.violation({"clause": fails[0][2], "events": c.events, "cfg": c.cfg},
                              {"case": c.to_json(), "failing_clause": fails[0][2], "step": fails[0][1],
                               "implementation_output": r["go"], "model_output": r["model"], "replay_of": path}, True)
        if not viol:
            for _, info in disag:
                verdict.violation({"clause": "correspondence", "events": c.events, "cfg": c.cfg},
                                  {"case": c.to_json(), "detail": info, "implementation_output": r["go"], "model_output": r["model"],
                                   "replay_of": path}, False)
        print("REPLAY property=%s case=%s implementation=%s" % (prop, path, json.dumps(r["go"])[:600]))
        return {"evaluations": 1, "distinct_nontrivial": 1, "rule": "one recorded case replayed", "traces_validated_against_impl": 1,
                "samples": [{"case": c.to_json(), "implementation_output": r["go"][:20], "model_output": r["model"][:20]}]}
    seed = int(j.get("seed", os.environ.get("VERIF_SEED", "1")))
    tier = j.get("tier", "quick")
    os.environ["VERIF_SEED"] = str(seed)
    if prop in DEV_PROPS:
        import devcheck
        cov = devcheck.run(prop, tier, seed, verdict)
    else:
        import importlib
        cov = importlib.import_module("check_" + prop.lower()).run(prop, tier, seed, verdict)
    again = [s for s, _, _ in verdict.violations if want is not None and json.dumps(s, sort_keys=True, default=str) == json.dumps(want, sort_keys=True, default=str)]
    print("REPLAY property=%s seed=%d tier=%s recorded-signature-%s" % (prop, seed, tier, "recurs" if again else "does-not-recur"))
    return cov
