"""C09: configuration parsing is total. Files (shipped configurations, generated descriptions, and syntactic /
type-level mutations of them, random bytes) go through the real ParseData and LoadHIDIConfig; a panic, a crash of
the runner or a time-out is the violation. The model's convert / loadHidi run on the structures the real decoder
produced and must agree (correspondence); facts pinned by the extractor: the decode call is guarded by recover."""
import glob, os, random, re, time, json
from common import *
import dev, parsegen, check_c10


def shipped():
    out = []
    for p in sorted(glob.glob(os.path.join(REPO, "cmd/hidi/hidi-config/**/*.toml"), recursive=True)):
        out.append(open(p, "rb").read())
    return out


def corpus_files(prop):
    out = []
    for p in sorted(glob.glob(os.path.join(VERIF, "corpus", prop, "*.toml"))):
        out.append(open(p, "rb").read())
    return out


def minimise(binary, workdir, data, is_bad, tag):
    """line-wise then byte-wise reduction of a crashing file"""
    cur = data
    for _ in range(30):
        lines = cur.split(b"\n")
        cands = [b"\n".join(lines[:i] + lines[i + 1:]) for i in range(len(lines))]
        if not cands:
            break
        res, _ = check_c10.run_batch(binary, workdir, cands, tag)
        ok = [c for c, r in zip(cands, res) if is_bad(r[0])]
        if not ok:
            break
        cur = min(ok, key=len)
    return cur


def ambiguous_aliases(data, KEY, ABS):
    """True when one table of the file names the same event code twice under different spellings (KEY_3 and x4, x4 and
    x004): the parser ranges over a Go map of the decoded table, so which entry wins is not determined by the file."""
    try:
        text = data.decode("utf8")
    except UnicodeDecodeError:
        return False
    seen = {}
    for line in text.split("\n"):
        ls = line.strip()
        if ls.startswith("["):
            seen = {}
            continue
        m = re.match(r'^"?([A-Za-z0-9_]+)"?\s*=', ls)
        if not m:
            continue
        nm = m.group(1)
        if nm in KEY:
            codes = {("k", KEY[nm])}
        elif nm in ABS:
            codes = {("a", ABS[nm])}
        elif re.match(r"^x[0-9a-fA-F]+$", nm):
            v = int(nm[1:], 16)
            codes = {("k", v), ("a", v)}
        else:
            continue
        for c in codes:
            if c in seen and seen[c] != nm:
                return True
        for c in codes:
            seen.setdefault(c, nm)
    return False


def run(prop, tier, seed, verdict):
    t0 = time.time()
    binary, blog = go_build("config")
    hbin, hlog = go_build("hidi")
    if binary is None or hbin is None:
        verdict.violation({"clause": "harness-build"}, {"log": (blog + hlog)[-3000:]}, False)
        return {"evaluations": 0, "distinct_nontrivial": 0}
    KEY, ABS = parsegen.evdev_tables()
    rng = random.Random(seed * 17 + 9)
    workdir = os.path.join(WORK, prop)
    n = 5000 if tier == "quick" else 300000
    base = shipped() + [parsegen.render(parsegen.gen_desc(rng, KEY, ABS)).encode() for _ in range(40)]
    files = corpus_files(prop) + list(base)
    kinds = {"shipped+generated": len(base), "corpus": len(files) - len(base)}
    # every rejection path of the parser, each followed by further reads in the same process (state left behind by a
    # rejected file must not stop the next read): the field-by-field invalidations of C10
    for _ in range(60 if tier == "quick" else 2000):
        d = parsegen.gen_desc(rng, KEY, ABS)
        for kind, dd, extra in parsegen.invalidations(d, rng):
            files.append(parsegen.render(dd, extra).encode())
            kinds["one-field-invalid"] = kinds.get("one-field-invalid", 0) + 1
        files.append(parsegen.render(d).encode())
    n += len(files)
    while len(files) < n:
        r = rng.random()
        if r < 0.8:
            f = rng.choice(base)
            for _ in range(rng.choice([1, 1, 1, 2, 3])):
                f = parsegen.mutate_file(f, rng)
            files.append(f)
            kinds["mutated"] = kinds.get("mutated", 0) + 1
        elif r < 0.9:
            files.append(bytes(rng.randrange(256) for _ in range(rng.choice([0, 1, 10, 100, 1000, 65536]))))
            kinds["random-bytes"] = kinds.get("random-bytes", 0) + 1
        else:
            # small hand-shaped TOML with odd types
            k = rng.choice(["collision_mode", "exit_sequence", "defaults.octave", "identifier.bus", "mapping", "action_mapping.KEY_A",
                            "open_rgb.white", "defaults", "HIDI.pool_rate", "HIDI"])
            files.append(("%s = %s\n" % (k, rng.choice(parsegen.RETYPES))).encode())
            kinds["one-liner"] = kinds.get("one-liner", 0) + 1
    results, glog = check_c10.run_batch(binary, workdir, files, "c09")
    bad = [(i, r) for i, r in enumerate(results) if r[0] in ("panic", "crash", "hang")]
    sigs = set()
    for i, r in bad[:6]:
        small = minimise(binary, workdir, files[i], lambda x, want=r[0]: x == want, "min") if r[0] == "panic" else files[i]
        text = small.decode("utf8", "replace")
        key = text.strip()[:200]
        if key in sigs:
            continue
        sigs.add(key)
        verdict.violation({"clause": "parse-device-config-" + r[0], "file": text[:400]},
                          {"file_hex": small.hex(), "file": text, "outcome": r[0], "function": "config.ParseData", "log": glog[-1500:] if r[0] == "crash" else ""}, True)
    # ---- the same through the file loader (readDeviceConfig / LoadDeviceConfigs): files on disk, 25 per tree; the load
    # runs under a time limit and must end with a result or an error
    lfiles = files[:len(base) + kinds["corpus"]] + [f for f in files[len(base) + kinds["corpus"]:] if f and b"\x00" not in f[:1]][:500]
    # files cut off in the middle of a construct (a save in progress, a full disk)
    for f in base[:12]:
        for _ in range(8):
            lfiles.append(f[:rng.randrange(1, max(2, len(f)))].rstrip(b"\n"))
    os.environ["VERIF_TMP"] = os.path.join(workdir, "tmp")
    os.makedirs(os.environ["VERIF_TMP"], exist_ok=True)

    def load_groups(groups, tag):
        ops = []
        for gi, grp in enumerate(groups):
            ops += ["case g%d" % gi, "tree.reset"] + ["tree.file %d %s %s" % (k % 4, ("f%04d.toml" % k).encode().hex(), f.hex() if f else "-") for k, f in enumerate(grp)] + ["tree.load"]
        rc_, out_, log_ = dev.run_go(binary, "\n".join(ops) + "\n", workdir, tag, timeout=900)
        G_ = dev.parse_outputs(out_)
        return [([x for x in G_.get("g%d" % gi, []) if x] or ["crash"])[0].split()[0] for gi in range(len(groups))]
    groups = [lfiles[k:k + 25] for k in range(0, len(lfiles), 25)]
    lres = load_groups(groups, "c09load")
    kinds["through-the-file-loader"] = len(lfiles)
    nbadl = 0
    for grp, r in zip(groups, lres):
        if r in ("ok", "err"):
            continue
        # which file: each alone
        single = load_groups([[f] for f in grp], "c09load1")
        for f, r1 in zip(grp, single):
            if r1 not in ("ok", "err") and nbadl < 3:
                nbadl += 1
                verdict.violation({"clause": "load-device-config-" + r1, "file": f.decode("utf8", "replace")[:400]},
                                  {"file_hex": f.hex(), "file": f.decode("utf8", "replace"), "outcome": r1,
                                   "function": "config.LoadDeviceConfigs / readDeviceConfig (the file as the only *.toml of a tree)"}, True)
        if nbadl == 0:
            verdict.violation({"clause": "load-device-config-" + r}, {"files": [f.decode("utf8", "replace")[:300] for f in grp], "outcome": r,
                               "function": "config.LoadDeviceConfigs on these files together (each alone loads)"}, True)
        break
    # model correspondence on everything that decoded
    model = check_c10.run_model(results)
    disag = [(i, results[i][0], model[i]) for i in model if model[i] != results[i][0] and results[i][0] not in ("panic", "crash", "hang")]
    # a table naming one code under two spellings has no determined meaning (Go map iteration order): not compared
    n_amb = sum(1 for i, _, _ in disag if ambiguous_aliases(files[i], KEY, ABS))
    disag = [d for d in disag if not ambiguous_aliases(files[d[0]], KEY, ABS)]
    # ---- hidi.toml
    hfiles = [open(os.path.join(REPO, "cmd/hidi/hidi-config/hidi.toml"), "rb").read()]
    hb = hfiles[0]
    for _ in range(600 if tier == "quick" else 20000):
        r = rng.random()
        if r < 0.6:
            hfiles.append(parsegen.mutate_file(hb, rng))
        elif r < 0.8:
            vals = [rng.choice(["0", "1", "-1", "120", "9223372036854775807", "1.5", "\"x\"", "true", "1979-05-27", "[1]", "{a=1}"]) for _ in range(3)]
            keys = rng.sample(["pool_rate", "discovery_rate", "stabilization_period", "log_view_rate", "log_buffer_size"], 3)
            hfiles.append(("[HIDI]\n" + "".join("%s = %s\n" % (k, v) for k, v in zip(keys, vals))).encode())
        elif r < 0.9:
            hfiles.append(rng.choice([b"", b"[HIDI]\n", b"[HIDI]\npool_rate = 0\ndiscovery_rate = 1\n", b"HIDI = 1\n", b"[hidi]\npool_rate=1\n",
                                      b"[HIDI]\npool_rate = 1\ndiscovery_rate = 0\n", b"HIDI.pool_rate = 1979-05-27\n", b"[[HIDI]]\npool_rate=1\n"]))
        else:
            hfiles.append(bytes(rng.randrange(256) for _ in range(rng.choice([1, 10, 100]))))
    ops = ["case h"] + ["hidiraw " + (f.hex() if f else "-") for f in hfiles]
    rc, hout, hlog2 = dev.run_go(hbin, "\n".join(ops) + "\n", workdir, "c09h", timeout=600)
    hl = hout.split("\n")[1:]
    hres = []
    for i in range(len(hfiles)):
        if i >= len(hl) or " ;;; " not in hl[i]:
            hres.append(("crash", None))
        else:
            a, _, b = hl[i].partition(" ;;; ")
            hres.append((a, b))
    hsigs = set()
    for i, (a, b) in enumerate(hres):
        if a in ("panic", "crash"):
            text = hfiles[i].decode("utf8", "replace")
            key = (a, b)
            if key in hsigs:
                continue
            hsigs.add(key)
            verdict.violation({"clause": "load-hidi-config-" + a, "decoded": b},
                              {"file_hex": hfiles[i].hex(), "file": text, "outcome": a, "function": "main.LoadHIDIConfig", "decoded": b}, True)
    rc2, mout, merr = dev.run_driver("\n".join(["case m"] + [b for a, b in hres if b]) + "\n")
    ml = mout.split("\n")[1:]
    k = 0
    hdis = []
    for i, (a, b) in enumerate(hres):
        if b:
            mo = ml[k] if k < len(ml) else "<missing>"
            k += 1
            if mo != a and a not in ("panic", "crash"):
                hdis.append((hfiles[i], a, mo, b))
    if (disag or hdis) and not verdict.violations:
        if disag:
            i, res, mo = disag[0]
            verdict.violation({"clause": "correspondence"},
                              {"correspondence": "Hidi.convert vs config.ParseData", "file": files[i].decode("utf8", "replace"),
                               "implementation": res[:1500], "model": mo[:1500]}, False)
        else:
            f, a, mo, b = hdis[0]
            verdict.violation({"clause": "correspondence-hidi"},
                              {"correspondence": "Hidi.loadHidi vs main.LoadHIDIConfig", "file": f.decode("utf8", "replace"),
                               "implementation": a, "model": mo, "decoded": b}, False)
    outcomes = {}
    for r in results:
        k = r[0] if r[0] in ("err", "panic", "crash") else "ok"
        outcomes[k] = outcomes.get(k, 0) + 1
    houtcomes = {}
    for a, b in hres:
        k = a.split()[0]
        houtcomes[k] = houtcomes.get(k, 0) + 1
    decoded = sum(1 for r in results if r[1] and r[1].startswith("t.begin"))
    return {
        "evaluations": len(files) + len(hfiles), "distinct_nontrivial": len(set(files)) + len(set(hfiles)),
        "rule": "device configurations: the shipped files and 40 generated valid descriptions, each mutated 1-3 times (line deletion/duplication, "
                "value retyping incl. dates, arrays, inline tables, huge numbers; dotted keys; byte flips; truncation; stray headers), random bytes up to 64 KiB, "
                "one-line files with odd types; generated descriptions with exactly one invalid field (every rejection path), each followed by more reads in the same process; hidi.toml likewise. distinct = distinct file contents; non-trivial: all (every file is a different input to the parser)",
        "kinds": kinds, "outcomes_device_config": outcomes, "outcomes_hidi_config": houtcomes,
        "decoded_and_compared_with_model": decoded, "traces_validated_against_impl": decoded + sum(1 for a, b in hres if b),
        "disagreements": len(disag) + len(hdis), "not_compared_ambiguous_alias_tables": n_amb,
        "samples": [{"file": files[len(base) + 3].decode("utf8", "replace")[:600], "outcome": results[len(base) + 3][0][:100]}],
        "assumptions": ["hanging is only covered by the run-time limit of the batch (the outcome model has no notion of non-termination)",
                        "go-toml's decoder is third-party code: the theorem quantifies over its outcome (ok / error / panic) and needs the recover guard"],
    }
