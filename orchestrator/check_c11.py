"""C11: note names. Exhaustive comparison of the model (Hidi.stringToNote) with config.StringToNote on all
strings up to length 3 (quick) / 4 (thorough) over the property's alphabet, plus sampled longer and non-ASCII
strings; the property's predicate (bijection with the 128 canonical names, everything else rejected) is
evaluated on the implementation's answers."""
import itertools, os, random, time
from common import *
import dev

ALPHA = [chr(c) for c in range(ord('a'), ord('z') + 1)] + [chr(c) for c in range(ord('A'), ord('Z') + 1)] + \
        [chr(c) for c in range(ord('0'), ord('9') + 1)] + ['#', '-', ' ']
PITCH = ["C", "C#", "D", "D#", "E", "F", "F#", "G", "G#", "A", "A#", "B"]


def canonical():
    return {PITCH[n % 12] + str(n // 12 - 2): n for n in range(128)}


def hexs(b):
    return b.hex() if b else "-"


def run(prop, tier, seed, verdict):
    t0 = time.time()
    binary, blog = go_build("config")
    if binary is None:
        verdict.violation({"clause": "harness-build"}, {"log": blog[-3000:]}, False)
        return {"evaluations": 0, "distinct_nontrivial": 0}
    rng = random.Random(seed)
    maxlen = 3 if tier == "quick" else 4
    strings = [b""]
    for L in range(1, maxlen + 1):
        for t in itertools.product(ALPHA, repeat=L):
            strings.append("".join(t).encode())
    exhaustive_n = len(strings)
    # sampled longer / non-ASCII / near-miss strings
    names = list(canonical().keys())
    for _ in range(10000 if tier == "quick" else 100000):
        r = rng.random()
        base = rng.choice(names)
        if r < 0.3:
            s = "".join(c.lower() if rng.random() < 0.5 else c for c in base) + rng.choice(["", " ", "0", "\n", "x", "#"])
        elif r < 0.5:
            s = rng.choice(["", " ", "\n", "-", "x"]) + base
        elif r < 0.7:
            s = "".join(rng.choice(ALPHA) for _ in range(rng.randint(5, 9)))
        elif r < 0.85:
            s = base.replace("#", rng.choice(["♯", "b", "##"])) + rng.choice(["", "é", "٠", "１"])
        else:
            bs = bytes(rng.randrange(256) for _ in range(rng.randint(1, 6)))
            strings.append(bs)
            continue
        strings.append(s.encode())
    # "extra characters": every canonical name (both letter cases) with one printable ASCII character inserted at every
    # position, or one character replaced by it — systematic, not sampled
    # … and replaced by every other byte value (control bytes, DEL, bytes ≥ 0x80 — as raw bytes, not as UTF-8)
    PRINT = [chr(c) for c in range(32, 127)]
    seen = set(strings)
    for base in names:
        for nm in (base, base.lower()):
            for i in range(len(nm)):
                for c in list(range(0, 32)) + list(range(127, 256)):
                    bs = nm[:i].encode() + bytes([c]) + nm[i + 1:].encode()
                    if bs not in seen:
                        seen.add(bs)
                        strings.append(bs)
    for base in names:
        for nm in (base, base.lower()):
            for i in range(len(nm) + 1):
                for ch in PRINT:
                    for s_ in (nm[:i] + ch + nm[i:], (nm[:i] + ch + nm[i + 1:]) if i < len(nm) else None):
                        if s_ is not None and s_.encode() not in seen:
                            seen.add(s_.encode())
                            strings.append(s_.encode())
    ops = ["case notes"] + ["s2n " + hexs(s) for s in strings] + ["n2s %d" % n for n in range(256)]
    workdir = os.path.join(WORK, prop)
    rc, gout, glog = dev.run_go(binary, "\n".join(ops) + "\n", workdir, "c11")
    rc2, mout, merr = dev.run_driver("\n".join(ops) + "\n")
    g = gout.split("\n")[1:1 + len(ops) - 1]
    m = mout.split("\n")[1:1 + len(ops) - 1]
    disag = []
    if len(g) != len(ops) - 1:
        verdict.violation({"clause": "runner-crash"}, {"log": glog[-2000:]}, False)
        return {"evaluations": len(ops), "distinct_nontrivial": 0}
    for i, (a, b) in enumerate(zip(g, m)):
        if a != b:
            disag.append((ops[i + 1], a, b))
    # ---- the property's predicate on the implementation's answers
    canon = canonical()
    accepted = 0
    viol = []
    for s, a in zip(strings, g[:len(strings)]):
        try:
            u = s.decode("ascii").upper()
        except UnicodeDecodeError:
            u = None
        if a != "err":
            accepted += 1
            if u is None or canon.get(u) != int(a):
                viol.append((s, a, "accepted-non-name" if (u is None or u not in canon) else "wrong-number"))
        else:
            if u is not None and u in canon:
                viol.append((s, a, "rejected-name"))
    for n in range(128):
        want = "%s %d" % (PITCH[n % 12].encode().hex(), n // 12 - 2)
        if g[len(strings) + n] != want:
            viol.append((("n2s %d" % n).encode(), g[len(strings) + n], "number-to-name"))
    by_clause = {}
    for s, a, cl in viol:
        by_clause.setdefault(cl, []).append((s, a))
    for cl, items in by_clause.items():
        items.sort(key=lambda x: (len(x[0]), x[0]))
        s, a = items[0]
        verdict.violation({"clause": cl, "input": s.decode("latin1")},
                          {"input_hex": s.hex(), "input": s.decode("latin1"), "implementation": a,
                           "count_in_this_run": len(items), "more": [x[0].decode("latin1") for x in items[1:8]]}, True)
    if disag and not viol:
        op, a, b = disag[0]
        verdict.violation({"clause": "correspondence", "op": op},
                          {"correspondence": "Hidi.stringToNote / noteToPitch / noteToOctave vs config.StringToNote / NoteToPitch / NoteToOctave",
                           "op": op, "implementation": a, "model": b, "disagreements": len(disag)}, False)
    return {
        "evaluations": len(ops) - 1, "distinct_nontrivial": accepted + sum(1 for s in set(strings) if 2 <= len(s) <= 4),
        "rule": "every string of length <= %d over the 65-character alphabet a-zA-Z0-9#-space (exhaustive), %d sampled longer/non-ASCII/raw-byte strings and all one-character insertions / replacements (printable ASCII; replacements also by every other byte value) of the 128 names in both letter cases, all 256 byte values for the reverse direction; non-trivial = accepted strings plus distinct strings of length 2-4 (the lengths that can match the pattern)" % (maxlen, len(strings) - exhaustive_n),
        "exhaustive": True, "exhaustive_strings": exhaustive_n, "accepted_by_implementation": accepted,
        "traces_validated_against_impl": len(ops) - 1, "disagreements": len(disag),
        "samples": [{"op": ops[1 + exhaustive_n // 3], "implementation": g[exhaustive_n // 3], "model": m[exhaustive_n // 3]},
                    {"op": "s2n " + b"c#3".hex(), "implementation": g[strings.index(b"c#3")], "model": m[strings.index(b"c#3")]}],
        "assumptions": ["Go regexp (RE2) semantics of the pinned pattern text, strings.ToUpper and strconv.Atoi on ASCII are modelled by hand (matchNote); non-ASCII input is only sampled"],
    }
