"""Checks of the device-engine properties (C01-C05, C13, C14; C06-C08 reuse the machinery)."""
import os, random, time, json, glob
from common import *
import dev

PROFILES = {
    # keys only, lots of collisions and state changes
    "C01": dict(axes=True, akinds=["key", "key", "cc"], naxes=[0, 0, 1, 2], abs_p=0.2, max_events=60, disconnect_p=0.7,
                release_all_p=0.6, no_learning=True),
    # a quarter of the devices also have axes (never bound to actions): the state-changing keys stay silent whatever the
    # axes did while they were held
    "C02": dict(axes=True, axes_p=0.25, akinds=["cc", "cc", "pitch_bend", "key"], naxes=[1, 2], abs_p=0.15, learn_axis_p=0.6,
                max_events=60, action_p=0.4, nmaps=[2, 3, 3], disconnect_p=0.2),
    "C03": dict(axes=False, max_events=60, max_keys=6, action_p=0.25, disconnect_p=0.2),
    "C04": dict(axes=False, max_events=70, action_p=0.5, nactions=[2, 4, 6], extra_oct=[10, -10, 11, -11, 126, 127, -127, -128, 128, 200, -300], extra_semi=[127, -128, 126, 130, -200],
                disconnect_p=0.1),
    "C05": dict(axes=True, max_events=50, unaccepted_p=0.0, abs_p=0.35, sweep_p=0.12,
                want_actions=["panic", "cc_learning"], nactions=[1, 2, 4]),
    "C06": dict(axes=True, akinds=["cc", "cc", "pitch_bend"], naxes=[1, 2, 3], abs_p=0.85, max_events=50, nactions=[0, 0, 1, 2],
                max_keys=3, sweep_p=0.25, unaccepted_p=0.0, disconnect_p=0.1),
    "C07": dict(axes=True, akinds=["cc"], bidir_p=0.9, naxes=[1, 2, 3], abs_p=0.7, max_events=60, want_actions=["cc_learning"],
                nactions=[1, 1, 2], action_p=0.5, max_keys=3, unaccepted_p=0.0, disconnect_p=0.1, no_pairs=True, sweep_p=0.1),
    "C08": dict(axes=True, akinds=["key"], naxes=[1, 2, 3], abs_p=0.6, max_events=60, nactions=[0, 2, 4], action_p=0.4,
                max_keys=3, unaccepted_p=0.0, no_learning=True, axis_unmapped_p=0.1),
    # a third of the devices have key-emulating axes (and controllers): panic with such an axis deflected
    "C13": dict(axes=True, axes_p=0.3, akinds=["key", "key", "cc"], naxes=[1, 2], abs_p=0.15, max_events=50, want_actions=["panic"],
                nactions=[1, 2, 3, 5, 6], action_p=0.4, panic_across_held_p=0.35),
    "C14": dict(axes=False, max_events=50, nexit=[0, 1, 2, 2, 3, 3], action_p=0.3),
}
SHRINK_DEADLINE = None
SIZES = {"quick": 8000, "thorough": 120000}


def load_corpus(prop):
    cases = []
    for p in sorted(glob.glob(os.path.join(VERIF, "corpus", prop, "*.json"))):
        j = json.load(open(p))
        c = dev.Case.from_json(j["case"] if "case" in j else j)
        c.cid = "corpus-" + os.path.basename(p)[:-5]
        cases.append(c)
    return cases


def nontrivial(case, goLines):
    """distinct-nontrivial rule for key histories: at least one note sounded and at least one state
    action or collision-relevant event happened"""
    has_on = any(tok[0:1] == "9" for l in goLines for tok in l.partition("|")[0].split() if len(tok) == 6)
    return has_on and len(case.events) >= 4


def shrink(case, binary, workdir, still_fails):
    """delta-debugging over events and config lines while `still_fails(case, result)` holds"""
    cur = case.clone("shrink")

    def removable_cfg(l):
        return l.startswith(("cfg.key", "cfg.action", "cfg.abs", "cfg.exit", "cfg.dz"))

    def build(base, drop_ev, drop_cfg, cid):
        c = base.clone(cid)
        c.events = [e for i, e in enumerate(base.events) if i not in drop_ev]
        c.cfg = [l for i, l in enumerate(base.cfg) if i not in drop_cfg]
        return c

    def fails(cands):
        res = dev.execute(cands, binary, workdir, tag="shrink", jobs=8)
        return [still_fails(c, res[str(c.cid)]) for c in cands]

    # shrinking is a convenience for the reader of the replay: it gets two minutes (long sweeps against the slow sink take
    # a second per candidate), after that the case is reported as far as it has been reduced
    global SHRINK_DEADLINE
    if SHRINK_DEADLINE is None:
        SHRINK_DEADLINE = time.time() + 150       # for all reports of one run together
    deadline = SHRINK_DEADLINE
    # long histories first lose whole chunks (halves, quarters, … down to 8 events), all candidates of one size at once
    size = len(cur.events) // 2
    while size >= 8 and time.time() < deadline:
        starts = list(range(0, len(cur.events), size))
        cands = [build(cur, set(range(st, min(len(cur.events), st + size))), set(), "k%d" % n) for n, st in enumerate(starts)]
        ok = fails(cands)
        hit = [st for st, f in zip(starts, ok) if f]
        if hit:
            # drop every chunk that can be dropped on its own, if they can be dropped together; else the first one
            allc = build(cur, {i for st in hit for i in range(st, min(len(cur.events), st + size))}, set(), "ka")
            if len(hit) > 1 and fails([allc])[0]:
                cur = allc.clone("shrink")
            else:
                cur = build(cur, set(range(hit[0], min(len(cur.events), hit[0] + size))), set(), "shrink")
            size = min(size, len(cur.events) // 2)
        else:
            size //= 2
    for _ in range(40):
        if time.time() > deadline:
            break
        items = [("e", i) for i in range(len(cur.events))] + [("c", i) for i, l in enumerate(cur.cfg) if removable_cfg(l)]
        if cur.disconnect:
            c = cur.clone("d")
            c.disconnect = False
            if fails([c])[0]:
                cur = c.clone("shrink")
        if not items:
            break
        singles = [build(cur, {i} if k == "e" else set(), {i} if k == "c" else set(), "s%d" % n) for n, (k, i) in enumerate(items)]
        ok = fails(singles)
        good = [it for it, f in zip(items, ok) if f]
        if not good:
            break
        # try to drop all individually-removable items at once, then halves, else one
        progressed = False
        group = good
        while group:
            c = build(cur, {i for k, i in group if k == "e"}, {i for k, i in group if k == "c"}, "g")
            if fails([c])[0]:
                cur = c.clone("shrink")
                progressed = True
                break
            if len(group) == 1:
                break
            group = group[:len(group) // 2]
        if not progressed:
            k, i = good[0]
            cur = build(cur, {i} if k == "e" else set(), {i} if k == "c" else set(), "shrink")
    return cur


def analyze(prop, cases, results):
    """returns (violations, disagreements, model_fails, stats)"""
    viol, disag, mfails = [], [], []
    for c in cases:
        r = results[str(c.cid)]
        impl, model, odiff = dev.parse_mon(r.get("mon", ""))
        if r.get("crash"):
            disag.append((c, {"kind": "runner-crash", "log": r.get("golog", "")[-1500:]}))
            continue
        pi = [f for f in impl if f[0] == prop]
        pm = [f for f in model if f[0] == prop]
        if pm:
            mfails.append((c, pm))
        if pi:
            viol.append((c, pi))
            continue
        if prop in odiff:
            # first op line that differs at all, for the report
            k = next((i for i in range(max(len(r["go"]), len(r["model"])))
                      if (r["go"][i] if i < len(r["go"]) else None) != (r["model"][i] if i < len(r["model"]) else None)), 0)
            disag.append((c, {"kind": "model-vs-implementation", "observation_index": odiff[prop], "op_index": k,
                              "implementation": r["go"][k] if k < len(r["go"]) else None,
                              "model": r["model"][k] if k < len(r["model"]) else None}))
    return viol, disag, mfails


def run(prop, tier, seed, verdict, profile=None, n=None, widen=False):
    t0 = time.time()
    workdir = os.path.join(WORK, prop)
    os.makedirs(workdir, exist_ok=True)
    for old in glob.glob(os.path.join(WORK, "replays", prop + "-*.json")):
        os.remove(old)
    binary, blog = go_build("device")
    if binary is None:
        verdict.violation({"clause": "harness-build"}, {"what": "the device runner no longer builds against /repo", "log": blog[-3000:]}, False)
        return {"evaluations": 0, "distinct_nontrivial": 0}
    prof = dict(PROFILES.get(prop, {}))
    if profile:
        prof.update(profile)
    n = n or SIZES[tier]
    rng = random.Random(seed * 1000003 + hash(prop) % 1000 if False else seed * 1000003 + int(prop[1:]))
    corpus = load_corpus(prop)
    cases = corpus + [dev.gen_case(rng, i, prof) for i in range(n)]
    results = dev.execute(cases, binary, workdir, tag="main", jobs=12)
    viol, disag, mfails = analyze(prop, cases, results)
    extra_searched = 0
    if (disag or widen) and not viol:
        # the correspondence broke but no monitor failed, or a proof obligation of this property broke (a regenerated body
        # is no longer the one the tie was proved for): widen the search for a failing input — more cases, and the rarer
        # situations (slow or stalled sink, directed patterns, twin axes, sweeps, creeping axes) made common
        rng2 = random.Random(seed * 7919 + 17)
        prof2 = dict(prof)
        if widen:
            prof2.update(slow_sink_p=0.5, directed_p=0.5, creep_p=0.3, twin_axis_p=0.6,
                         learn_axis_p=max(0.5, prof.get("learn_axis_p", 0.25)), panic_across_held_p=max(0.5, prof.get("panic_across_held_p", 0.0)),
                         sweep_p=min(0.4, 2 * prof.get("sweep_p", 0.0)))
        more = [dev.gen_case(rng2, "x%d" % i, prof2 if i % 2 else prof) for i in range(min(n * 2, 40000))]
        # neighbourhood of the disagreeing cases: same config, new histories
        for c, _ in disag[:20]:
            if getattr(c, "info", None) is None:
                continue
            for j in range(20):
                m = c.clone("nb%s-%d" % (c.cid, j))
                dev.gen_history(rng2, m, prof)
                more.append(m)
        res2 = dev.execute(more, binary, workdir, tag="search", jobs=12)
        v2, _, _ = analyze(prop, more, res2)
        extra_searched = len(more)
        if v2:
            viol = v2
            results.update(res2)
    # ---- C13, "later presses behave exactly as if panic had not happened": the same history without the panic key
    # events, on the implementation alone; every other operation must produce the same messages and the same state
    twin_checked = 0
    if prop == "C13" and not viol:
        twins = []
        for c in cases:
            acts = {l.split()[1]: l.split()[2] for l in c.cfg if l.startswith("cfg.action ")}
            pk = {k for k, a in acts.items() if a == "panic"}
            exitk = {t for l in c.cfg if l.startswith("cfg.exit") for t in l.split()[1:]}
            if not pk or pk & exitk:
                continue
            def is_panic(e):
                t = e.split()
                return t[0] == "key" and t[2] in pk
            if not any(is_panic(e) for e in c.events):
                continue
            tw = c.clone("tw%s" % c.cid)
            tw.events = [e for e in c.events if not is_panic(e)]
            keep = [i for i, e in enumerate(c.events) if not is_panic(e)]
            twins.append((c, tw, keep))
        if twins:
            rt = dev.execute([t for _, t, _ in twins], binary, workdir, tag="twin", jobs=12)
            for c, tw, keep in twins:
                a, b = results[str(c.cid)], rt[str(tw.cid)]
                if a.get("crash") or b.get("crash"):
                    continue
                twin_checked += 1
                # line 0 answers cfg.end; events follow; a trailing line answers the disconnect
                la = [a["go"][0]] + [a["go"][1 + i] for i in keep if 1 + i < len(a["go"])] + a["go"][1 + len(c.events):]
                lb = b["go"]
                if la != lb:
                    k = next((i for i in range(min(len(la), len(lb))) if la[i] != lb[i]), min(len(la), len(lb)))
                    ops_b = ["cfg.end"] + tw.events + (["disconnect"] if tw.disconnect else [])
                    verdict.violation({"clause": "as-if-panic-had-not-happened", "events": c.events, "cfg": c.cfg},
                                      {"case": c.to_json(), "same_history_without_panic_keys": tw.to_json(),
                                       "first_differing_operation": ops_b[k] if k < len(ops_b) else None,
                                       "with_panic": la[k] if k < len(la) else None, "without_panic": lb[k] if k < len(lb) else None,
                                       "what": "an operation other than the panic key itself behaves differently because a panic happened earlier"}, True)
                    break
    # ---- C05 speaks about every configuration *the parser accepts*: the generated configurations above are inside the ranges
    # the parser is proved to enforce (C10_in_range on the parser model). The real parser is given configurations that are
    # outside them in exactly one field; if it accepts one, that field goes into a status or data byte as it is
    gate_checked = 0
    if prop == "C05":
        import parsegen, check_c10
        cbin, _ = go_build("config")
        if cbin is not None:
            KEY, ABS = parsegen.evdev_tables()
            rng3 = random.Random(seed * 31 + 5)
            files, metas = [], []
            # only values that no message can carry (a controller 120-127 or an offset of 16 is the parser's business, C10)
            rangey = ("velocity", "default-channel", "channel-zero", "channel-high", "channel-negative", "channel-far", "note-high", "note-negative",
                      "note-far", "cc-negative", "cc-far", "ccneg-negative", "ccneg-far", "noteneg")
            for _ in range(150 if tier == "quick" else 3000):
                d = parsegen.gen_desc(rng3, KEY, ABS)
                for kind, dd, extra in parsegen.invalidations(d, rng3):
                    if any(k in kind for k in rangey) and "text" not in kind and "three" not in kind and "offset" not in kind:
                        files.append(parsegen.render(dd, extra).encode())
                        metas.append(kind)
            res, _ = check_c10.run_batch(cbin, workdir, files, "c05gate")
            gate_checked = len(files)
            seen_k = set()
            for f, kind, (r, _) in zip(files, metas, res):
                if r.startswith("ok") and kind not in seen_k:
                    seen_k.add(kind)
                    verdict.violation({"clause": "parser-accepts-a-value-the-messages-cannot-carry", "field": kind},
                                      {"file": f.decode("utf8", "replace"), "field": kind, "parser_result": r[:1500],
                                       "what": "ParseData accepts a configuration with a note / controller / velocity / channel / offset outside the MIDI "
                                               "ranges; the device puts the value into a status or data byte unchanged (or truncated to 8 bits)"}, True)
                    if len(seen_k) >= 3:
                        break
    # ---- report
    for c, fails in viol[:3]:
        f0 = fails[0]
        def still(cc, rr, clause=f0[2]):
            impl, _, _ = dev.parse_mon(rr.get("mon", ""))
            return any(f[0] == prop and f[2] == clause for f in impl)
        small = shrink(c, binary, workdir, still)
        rs = dev.execute([small], binary, workdir, tag="final", jobs=1)[str(small.cid)]
        impl, _, _ = dev.parse_mon(rs.get("mon", ""))
        fl = [f for f in impl if f[0] == prop] or fails
        sig = {"clause": fl[0][2], "events": small.events, "cfg": small.cfg}
        verdict.violation(sig, {"case": small.to_json(), "failing_clause": fl[0][2], "step": fl[0][1],
                                "implementation_output": rs["go"], "model_output": rs["model"], "seed": seed,
                                "how_to_replay": "./check %s --replay <this file>" % prop}, True)
    if not viol:
        for c, info in disag[:1]:
            def still2(cc, rr):
                if rr.get("crash"):
                    return True
                return prop in dev.parse_mon(rr.get("mon", ""))[2]
            small = shrink(c, binary, workdir, still2)
            rs = dev.execute([small], binary, workdir, tag="final", jobs=1)[str(small.cid)]
            verdict.violation({"clause": "correspondence", "events": small.events, "cfg": small.cfg},
                              {"case": small.to_json(), "correspondence": "Hidi.Dev.step (lean/Hidi/Engine.lean) vs device.processEvent, projection of " + prop,
                               "detail": info, "implementation_output": rs["go"], "model_output": rs["model"],
                               "searched_for_failing_input": extra_searched, "seed": seed}, False)
    for c, pm in mfails[:1]:
        verdict.violation({"clause": "model-fails-own-spec", "fails": pm[:3]},
                          {"case": c.to_json(), "what": "the model's trace does not satisfy the specification predicate; the theorem for this clause cannot hold"}, False)
    # ---- coverage
    distinct = set()
    nt = 0
    kinds = {}
    for c in cases:
        key = (tuple(c.cfg), tuple(c.events), c.disconnect)
        if key in distinct:
            continue
        distinct.add(key)
        r = results.get(str(c.cid), {})
        if nontrivial(c, r.get("go", [])):
            nt += 1
        for e in c.events:
            k = e.split()[0]
            kinds[k] = kinds.get(k, 0) + 1
    sample = cases[len(corpus)] if len(cases) > len(corpus) else cases[0]
    cov = {
        "evaluations": len(cases) + extra_searched,
        "distinct_nontrivial": nt,
        "rule": "random device configurations (1-3 mappings, colliding note keys, action keys incl. pairs, exit sequences) with key "
                "histories of up to %d events from generator profile %s; distinct = distinct (config, history, disconnect) triples; "
                "non-trivial = at least 4 events and at least one Note On emitted by the implementation; axes (where the profile has them) incl. "
                "twin axes on two handlers with equal or different ranges, full sweeps, creeping across the thresholds, the learning key held "
                "across axis movement; directed key patterns (held across a mapping switch, same pitch on two channels, held across a panic); "
                "one case in ten against the slow or stalled 8-slot MIDI sink and single-slot signal channel" % (prof.get("max_events", 60), prop),
        "traces_validated_against_impl": len(cases),
        "samples": [{"case": sample.to_json(), "implementation_output": results[str(sample.cid)]["go"][:12]}],
        "event_kinds": kinds,
        "modes": {m: sum(1 for c in cases if c.meta.get("mode") == m) for m in dev.MODES},
        "with_disconnect": sum(1 for c in cases if c.disconnect),
        "against_slow_sink": sum(1 for c in cases if c.meta.get("sink") == "slow"), "against_stalled_sink": sum(1 for c in cases if c.meta.get("sink") == "stall"),
        "full_sweeps": sum(1 for c in cases if c.meta.get("sweep")), "cases_with_axes": sum(1 for c in cases if any(l.startswith("cfg.axis") for l in c.cfg)),
        "corpus_cases": len(corpus),
        "disagreements": len(disag), "monitor_failures": len(viol), "extra_search_cases": extra_searched,
        "panic_twin_histories_compared": twin_checked,
        "out_of_range_configurations_offered_to_the_parser": gate_checked,
        "exec_wall_s": round(time.time() - t0, 1),
    }
    return cov
