#!/usr/bin/env python3
"""round-6 queue in N lanes: confirm each seed in its own worktree, run the checks in a lane's copy of /verif against the lane's
worktree, keep as /verif/seeded/<prop>-<9|10> (C17: 10|11)"""
import json, os, re, shutil, subprocess, sys
from concurrent.futures import ThreadPoolExecutor
LANES = int(sys.argv[1])
props_all = sys.argv[2:] or ["C%02d" % i for i in range(1, 21)]
env = dict(os.environ, GOFLAGS="-mod=mod", GOPROXY="off", GOSUMDB="off", GOTOOLCHAIN="local")
def sh(cmd, cwd=None):
    p = subprocess.run(cmd, shell=True, cwd=cwd, env=env, stdout=subprocess.PIPE, stderr=subprocess.STDOUT, text=True)
    return p.returncode, p.stdout
head = sh("git -C /repo rev-parse HEAD")[1].strip()
def related(p):
    if p in ("C01", "C02", "C03", "C04", "C13", "C14"):
        l = [p, "C01", "C02", "C03", "C05"]
    elif p in ("C05", "C06", "C07", "C08"):
        l = [p, "C05", "C06", "C07", "C01"]
    elif p in ("C09", "C10", "C11"):
        l = [p, "C09", "C10"]
    else:
        l = [p]
    return list(dict.fromkeys(l))
jobs = []
for p in props_all:
    for i in (1, 2):
        base = 9 if p == "C17" else 8
        jobs.append((p, i, "%s-%d" % (p, base + i)))
def nswrap(cmd):
    return "unshare -m sh -c 'mount -t tmpfs tmpfs /sys/class/hidraw && %s'" % cmd.replace("'", "'\\''")
def one(lane, p, i, name):
    wt = "/tmp/wt6-%s" % p
    out = os.path.join(wt, "_out")
    patch, demo = os.path.join(out, "patch%d.diff" % i), os.path.join(out, "demo%d_test.go" % i)
    if not os.path.exists(patch):
        return "%s: no patch" % name
    meta = json.load(open(os.path.join(out, "meta%d.json" % i)))
    first = open(demo).readline()
    m = re.search(r"dir:\s*(\S+)", first)
    demodir = m.group(1) if m else meta.get("demo_dir")
    sh("git checkout -- . && git clean -fdq -e _out", wt)
    dst = os.path.join(wt, demodir, "zz_demo_test.go")
    shutil.copy(demo, dst)
    tests = re.findall(r"^func (Test\w+)\(", open(demo).read(), re.M)
    ovflag = ""
    if demodir.rstrip("/") == "cmd/hidi":
        ovp = os.path.join(out, "try_overlay.json")
        json.dump({"Replace": {os.path.join(wt, "internal/pkg/midi/driver/alsa/alsa.go"): "/verif/harness/alsa/alsa.go"}}, open(ovp, "w"))
        ovflag = "-overlay %s " % ovp
    race = "-race " if meta.get("race") else ""
    runpat = "^(" + "|".join(tests) + ")$"
    rc0, o0 = sh(nswrap("go test %s%s-vet=off -count=1 -run '%s' ./%s" % (ovflag, race, runpat, demodir)), wt)
    rca, oa = sh("git apply %s" % patch, wt)
    rc1, o1 = sh(nswrap("go test %s%s-vet=off -count=1 -run '%s' ./%s" % (ovflag, race, runpat, demodir)), wt)
    os.remove(dst)
    rcb, ob = sh("VERIF_REPO=%s /verif/tools/baseline.sh" % wt, wt)
    sh("git checkout -- . && git clean -fdq -e _out", wt)
    conf = {"applies": rca == 0, "demo_passes_without": rc0 == 0, "demo_fails_with": rc1 != 0, "baseline_with_patch": ob.strip().split("\n")[0]}
    if not (rca == 0 and rc0 == 0 and rc1 != 0 and rcb == 0):
        return "%s NOT CONFIRMED %s\n%s\n%s" % (name, conf, o0[-400:], o1[-400:])
    v, w = "/tmp/v6lane%d" % lane, "/tmp/w6lane%d" % lane
    sh("git -C %s reset -q --hard && git -C %s clean -fdq" % (w, w))
    rc, o = sh("git -C %s apply %s" % (w, patch))
    assert rc == 0, o
    ran = {}
    for q in related(p):
        rc, o = sh("cd %s && VERIF_REPO=%s ./check %s quick" % (v, w, q))
        lines = [l.replace(v, "/verif") for l in o.split("\n") if l.startswith(("VIOLATION", "KNOWN"))]
        ran[q] = {"rc": rc, "lines": lines[:3]}
    sh("git -C %s reset -q --hard && git -C %s clean -fdq" % (w, w))
    d = os.path.join("/verif/seeded", name)
    os.makedirs(d, exist_ok=True)
    shutil.copy(patch, os.path.join(d, "patch.diff"))
    shutil.copy(demo, os.path.join(d, "demo_test.go"))
    json.dump({"property": meta.get("property"), "summary": meta.get("summary"), "needs": meta.get("needs"), "demo_dir": demodir,
               "race_demo": bool(meta.get("race")), "confirmed": conf, "checks_run": ran}, open(os.path.join(d, "meta.json"), "w"), indent=1)
    def tag(r):
        if not r["lines"]:
            return "MISS"
        return "obl" if all("no-failing-input-found" in l for l in r["lines"]) else "INPUT"
    return "%s %s" % (name, {q: tag(r) for q, r in ran.items()})
def lane(k):
    v, w = "/tmp/v6lane%d" % k, "/tmp/w6lane%d" % k
    sh("rsync -a --delete --exclude work --exclude .git --exclude 'build/*.test' --exclude 'build/*.lock' --exclude evidence /verif/ %s/" % v)
    if not os.path.isdir(w):
        sh("git -C /repo worktree add -f --detach %s %s" % (w, head))
    # one property (= one seed worktree) is handled by one lane only
    for n, p in enumerate(props_all):
        if n % LANES != k:
            continue
        for (pp, i, name) in jobs:
            if pp == p:
                try:
                    print(one(k, pp, i, name), flush=True)
                except Exception as e:
                    print(name, "ERROR", repr(e)[:300], flush=True)
with ThreadPoolExecutor(LANES) as ex:
    list(ex.map(lane, range(LANES)))
print("QUEUE6-DONE")
