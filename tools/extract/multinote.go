package main

// Translator for `(*Device).Multinote` (device.go): integer slices built from the note tracker, sorted, differenced.
//
// The subset: `var x []int`; `for _, v := range d.noteTracker { x = append(x, <int expr of v[0]>) }` (a fold — the order of a
// map range is unspecified, the slice is sorted before it is used for anything but its length); `if len(x) == K { …;
// d.multiNote = []int{}; return }`; `sort.Ints(x)` (primitive `sortInts`: ascending); `m := x[0]`; `for i, v := range x { if
// i == 0 { continue }; y = append(y, <int expr>) }` (a fold over the slice without its first element); `d.multiNote = y`;
// logging is dropped.  Anything else fails, and the tie `Multinote_eq` is then reported as broken.

import (
	"fmt"
	"go/ast"
	"go/token"
	"go/types"
	"strings"
)

func (c *glCtx) translateMultinote(dev *ast.File) (text string, err string) {
	defer func() {
		if r := recover(); r != nil {
			if g, ok := r.(glFail); ok {
				err = g.msg
				return
			}
			panic(r)
		}
	}()
	fd := findFunc(dev, "Multinote")
	if fd == nil || fd.Recv == nil {
		glfail("Multinote not found")
	}
	var b strings.Builder
	line := func(ind int, f string, a ...interface{}) {
		b.WriteString(strings.Repeat("  ", ind) + fmt.Sprintf(f, a...) + "\n")
	}
	slices := map[string]bool{}
	saved := c.locals
	c.locals = map[string]string{}
	defer func() { c.locals = saved }()
	intExpr := func(e ast.Expr) string {
		s, t := c.expr(e)
		if t != tInt && t != tUntyped {
			glfail("Multinote: %s has type %s", types.ExprString(e), t)
		}
		return s
	}
	// x = append(x, e)
	appendOf := func(st ast.Stmt) (string, ast.Expr) {
		as, ok := st.(*ast.AssignStmt)
		if !ok || as.Tok != token.ASSIGN || len(as.Lhs) != 1 || len(as.Rhs) != 1 {
			glfail("Multinote: %s", stmtText(st))
		}
		call := isCall(as.Rhs[0], "append", 2)
		name := types.ExprString(as.Lhs[0])
		if call == nil || types.ExprString(call.Args[0]) != name || !slices[name] {
			glfail("Multinote: %s", stmtText(st))
		}
		return name, call.Args[1]
	}
	lenCond := func(e ast.Expr) string {
		be, ok := e.(*ast.BinaryExpr)
		if !ok || be.Op != token.EQL {
			glfail("Multinote: condition %s", types.ExprString(e))
		}
		call := isCall(be.X, "len", 1)
		if call == nil || !slices[types.ExprString(call.Args[0])] {
			glfail("Multinote: condition %s", types.ExprString(e))
		}
		k := intExpr(be.Y)
		return fmt.Sprintf("((%s.length : Int) == %s)", types.ExprString(call.Args[0]), k)
	}
	isLog := func(st ast.Stmt) bool {
		if ifs, ok := st.(*ast.IfStmt); ok && isLogOnlyIf(ifs) {
			return true
		}
		if es, ok := st.(*ast.ExprStmt); ok {
			if call, ok := es.X.(*ast.CallExpr); ok {
				if sel, ok := call.Fun.(*ast.SelectorExpr); ok {
					if id, ok := sel.X.(*ast.Ident); ok && id.Name == "log" {
						return true
					}
				}
			}
		}
		return false
	}
	// d.multiNote = <slice local | []int{}>
	setMulti := func(st ast.Stmt) (string, bool) {
		as, ok := st.(*ast.AssignStmt)
		if !ok || as.Tok != token.ASSIGN || len(as.Lhs) != 1 || !isSel(as.Lhs[0], "d", "multiNote") {
			return "", false
		}
		r := types.ExprString(as.Rhs[0])
		if r == "[]int{}" {
			return "[]", true
		}
		if slices[r] {
			return r, true
		}
		glfail("Multinote: %s", stmtText(st))
		return "", false
	}
	line(0, "def Multinote (d0 : GSt) : GSt := Id.run do")
	line(1, "let mut d := d0")
	for _, st := range fd.Body.List {
		if isLog(st) {
			continue
		}
		switch s := st.(type) {
		case *ast.DeclStmt:
			gd := s.Decl.(*ast.GenDecl)
			for _, sp := range gd.Specs {
				vs := sp.(*ast.ValueSpec)
				if types.ExprString(vs.Type) != "[]int" || len(vs.Values) != 0 {
					glfail("Multinote: declaration %s", stmtText(st))
				}
				for _, n := range vs.Names {
					slices[n.Name] = true
					line(1, "let mut %s : List Int := []", n.Name)
				}
			}
		case *ast.RangeStmt:
			if isSel(s.X, "d", "noteTracker") {
				// for _, v := range d.noteTracker { x = append(x, int(v[0])) }
				if id, ok := s.Key.(*ast.Ident); !ok || id.Name != "_" || s.Value == nil || len(s.Body.List) != 1 {
					glfail("Multinote: tracker loop")
				}
				v := types.ExprString(s.Value)
				body := rewriteIndex0(s.Body.List, v, "note0")
				c.locals["note0"] = tU8
				x, e := appendOf(body[0])
				val := intExpr(e)
				delete(c.locals, "note0")
				line(1, "%s := d.noteTr.foldl (fun (%s : List Int) (p : Code × (Nat × Nat)) =>", x, x)
				line(2, "let note0 : Int := ((p.2.1 : Nat) : Int)")
				line(2, "%s ++ [%s]) %s", x, val, x)
				continue
			}
			src := types.ExprString(s.X)
			if !slices[src] || s.Key == nil || s.Value == nil || len(s.Body.List) != 2 {
				glfail("Multinote: loop over %s", src)
			}
			i, v := types.ExprString(s.Key), types.ExprString(s.Value)
			// if i == 0 { continue }
			ifs, ok := s.Body.List[0].(*ast.IfStmt)
			if !ok || types.ExprString(ifs.Cond) != i+" == 0" || len(ifs.Body.List) != 1 || ifs.Else != nil {
				glfail("Multinote: loop body %s", stmtText(s.Body.List[0]))
			}
			if br, ok := ifs.Body.List[0].(*ast.BranchStmt); !ok || br.Tok != token.CONTINUE {
				glfail("Multinote: loop body %s", stmtText(s.Body.List[0]))
			}
			c.locals[v] = tInt
			y, e := appendOf(s.Body.List[1])
			val := intExpr(e)
			delete(c.locals, v)
			if strings.Contains(val, " "+i+" ") || strings.Contains(val, "("+i+")") {
				glfail("Multinote: the index is used in %s", val)
			}
			line(1, "%s := (%s.drop 1).foldl (fun (%s : List Int) (%s : Int) => %s ++ [%s]) %s", y, src, y, v, y, val, y)
		case *ast.IfStmt:
			if s.Init != nil || s.Else != nil {
				glfail("Multinote: %s", stmtText(st))
			}
			line(1, "if %s then", lenCond(s.Cond))
			returned := false
			for _, bs := range s.Body.List {
				if isLog(bs) {
					continue
				}
				if v, ok := setMulti(bs); ok {
					line(2, "d := d.setMulti %s", v)
					continue
				}
				if rs, ok := bs.(*ast.ReturnStmt); ok && len(rs.Results) == 0 {
					line(2, "return d")
					returned = true
					continue
				}
				glfail("Multinote: %s", stmtText(bs))
			}
			if !returned {
				glfail("Multinote: branch without return")
			}
		case *ast.ExprStmt:
			call, ok := s.X.(*ast.CallExpr)
			if ok && types.ExprString(call.Fun) == "sort.Ints" && len(call.Args) == 1 && slices[types.ExprString(call.Args[0])] {
				x := types.ExprString(call.Args[0])
				line(1, "%s := sortInts %s", x, x)
				continue
			}
			glfail("Multinote: %s", stmtText(st))
		case *ast.AssignStmt:
			if v, ok := setMulti(st); ok {
				line(1, "d := d.setMulti %s", v)
				continue
			}
			// m := x[0]
			if s.Tok == token.DEFINE && len(s.Lhs) == 1 {
				if ix, ok := s.Rhs[0].(*ast.IndexExpr); ok && slices[types.ExprString(ix.X)] {
					k := intExpr(ix.Index)
					name := types.ExprString(s.Lhs[0])
					c.locals[name] = tInt
					// an index out of range is a Go panic
					line(1, "let some %s := %s[(%s).toNat]? | return d.goPanic", name, types.ExprString(ix.X), k)
					continue
				}
			}
			glfail("Multinote: %s", stmtText(st))
		default:
			glfail("Multinote: statement %T", st)
		}
	}
	line(1, "return d")
	return b.String(), ""
}
