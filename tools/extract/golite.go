package main

// golite: a translator from the Go subset used by the event path of *Device (device.go, events.go) to Lean 4 functions
// over `Hidi.GoLite.GSt` (lean/Hidi/GoLite.lean).  The output, `Hidi/Gen/Bodies.lean`, is regenerated on every run;
// `HidiProofs/Bodies*.lean` and `HidiProofs/Props/GenTie*.lean` prove that each generated function equals the hand-written
// model function it corresponds to, so a change to one of these Go bodies changes the generated definition and the proof
// obligation.
//
// What is translated: statements (assignment, ++/--, if/else with block scoping and shadowing, switch with and without
// tag, `break` out of a case — also from nested ifs, through a flag —, return, counted for-loops with constant bounds
// and `range` over a tracker map as folds, the `range` over the exit sequence), integer / boolean expressions with Go's
// typed wrap-around (uint8 arithmetic is reduced mod 256 after every operation), float64 expressions (one correctly
// rounded operation of Hidi/Float.lean per Go operation; literals are rnd53 of their decimal value), conversions, calls
// of other translated methods (also as `if` conditions).  Long methods (glSegmented) are emitted as a chain of segment
// definitions.  What is a primitive (mapped by a fixed table to a function of GoLite.lean, i.e. modelled, not
// translated): map reads / writes / deletes of the Device trackers, the configuration look-ups, AbsInfos, channel
// sends, the MIDI event constructors and accessors, fmt.Sprintf of the analog tracker identifiers, Multinote().
// Log-only blocks and mutex calls are dropped (locking is C16's subject).  A construct outside the subset makes the
// translation of that function fail; no definition is emitted for it (the reason is left in a comment), and the
// theorems about it no longer compile.

import (
	"fmt"
	"go/ast"
	"go/constant"
	"go/token"
	"go/types"
	"strings"
)

type glFail struct{ msg string }

func glfail(format string, a ...interface{}) { panic(glFail{fmt.Sprintf(format, a...)}) }

// Go type names used by the translator
const (
	tInt     = "int"
	tU8      = "uint8"
	tBool    = "bool"
	tUntyped = "untyped"
	tKey     = "key"
	tEvent   = "event"
	tAction  = "action"
	tMode    = "mode"
	tPair    = "pair"
	tExt     = "extmap"
	tString  = "string"
	tCode    = "code"
	tSub     = "sub"
	tMidiEv  = "midiev"
	tFloat   = "float64"
	tAnalog  = "analog"
	tAKind   = "akind"
	tAbsInfo = "absinfo"
)

type glFunc struct {
	name    string // Go name
	lean    string // Lean name
	params  []string
	ptypes  []string
	ret     string // "" or tBool
	evParam string // name of the *input.InputEvent parameter, if any
}

type glCtx struct {
	fset    *token.FileSet
	funcs   map[string]*glFunc
	fields  map[string]string // Device field -> Go type
	cur     *glFunc
	locals  map[string]string
	actions map[string]string // Go const name -> Lean Action constructor
	consts  map[string]string // package level integer constants (EV_KEY_PRESS …)
	tmp     int
	order   []string          // top-level locals of the current function in declaration order (Go names)
	scopes  []map[string]bool // names declared in each open block
	rename  map[string]string // Go local -> Lean name (shadowing locals get fresh names)
	pre     []string          // hoisted statements of the expression being translated (calls with side effects)
	brk     []string          // names of the break flags of the enclosing switches
	brkUsed map[string]bool
}

var glDeviceFields = map[string][2]string{ // Go field -> (Lean field, type)
	"octave":     {"octave", tInt},
	"semitone":   {"semitone", tInt},
	"mapping":    {"mapping", tInt},
	"channel":    {"channel", tU8},
	"velocity":   {"velocity", tU8},
	"ccLearning": {"learning", tBool},
}

var glActionNames = map[string]string{
	"MappingUp": "mappingUp", "MappingDown": "mappingDown", "Mapping": "mapping", "OctaveUp": "octaveUp",
	"OctaveDown": "octaveDown", "SemitoneUp": "semitoneUp", "SemitoneDown": "semitoneDown", "ChannelUp": "channelUp",
	"ChannelDown": "channelDown", "Channel": "channel", "Multinote": "multinote", "Panic": "panic", "Learning": "learning",
	"Exit": "exit",
}

var glModeNames = map[string]string{
	"CollisionOff": "off", "CollisionNoRepeat": "noRepeat", "CollisionInterrupt": "interrupt", "CollisionRetrigger": "retrigger",
}

var glMidiConsts = map[string]string{
	"NoteOff": "stNoteOff", "NoteOn": "stNoteOn", "ControlChange": "stCC", "AllNotesOff": "ccAllNotesOff",
}

func (c *glCtx) wrap(t, e string) string {
	switch t {
	case tInt:
		return "(wrapInt (" + e + "))"
	case tU8:
		return "(wrapU8 (" + e + "))"
	}
	glfail("wrap of type %s", t)
	return ""
}

func isSel(e ast.Expr, path ...string) bool {
	// d.a.b.c  ->  path d, a, b, c
	for i := len(path) - 1; i >= 1; i-- {
		s, ok := e.(*ast.SelectorExpr)
		if !ok || s.Sel.Name != path[i] {
			return false
		}
		e = s.X
	}
	id, ok := e.(*ast.Ident)
	return ok && id.Name == path[0]
}

func (c *glCtx) isEvSel(e ast.Expr, a, b string) bool {
	return c.cur.evParam != "" && isSel(e, c.cur.evParam, a, b)
}

// expr translates an expression; returns Lean text and Go type
func (c *glCtx) expr(e ast.Expr) (string, string) {
	switch x := e.(type) {
	case *ast.ParenExpr:
		s, t := c.expr(x.X)
		return "(" + s + ")", t
	case *ast.BasicLit:
		if x.Kind == token.INT {
			return "(" + x.Value + " : Int)", tUntyped
		}
		if x.Kind == token.FLOAT {
			return glFloatLit(x.Value), tFloat
		}
		if x.Kind == token.STRING && x.Value == `""` {
			return `("" : Sub)`, tSub
		}
		glfail("literal %s", x.Value)
	case *ast.Ident:
		switch x.Name {
		case "true", "false":
			return x.Name, tBool
		}
		if t, ok := c.locals[x.Name]; ok {
			return c.lname(x.Name), t
		}
		if v, ok := c.consts[x.Name]; ok {
			return "(" + v + " : Int)", tUntyped
		}
		glfail("identifier %s", x.Name)
	case *ast.SelectorExpr:
		if id, ok := x.X.(*ast.Ident); ok {
			if id.Name == "d" {
				if f, ok := glDeviceFields[x.Sel.Name]; ok {
					if got := c.fields[x.Sel.Name]; got != f[1] && !(got == "byte" && f[1] == tU8) {
						glfail("field %s has type %s, expected %s", x.Sel.Name, got, f[1])
					}
					return "d." + f[0], f[1]
				}
			}
			if id.Name == "config" {
				if a, ok := glActionNames[x.Sel.Name]; ok {
					return "Action." + a, tAction
				}
				if m, ok := glModeNames[x.Sel.Name]; ok {
					return "Collision." + m, tMode
				}
			}
			if id.Name == "midi" {
				if m, ok := glMidiConsts[x.Sel.Name]; ok {
					return "(" + m + " : Int)", tU8
				}
			}
			if id.Name == "evdev" {
				if v, ok := map[string]string{"EV_SYN": "0", "EV_KEY": "1", "EV_ABS": "3"}[x.Sel.Name]; ok {
					return "(" + v + " : Int)", tUntyped
				}
			}
			if id.Name == "config" {
				if k, ok := map[string]string{"AnalogCC": "cc", "AnalogPitchBend": "pitchBend", "AnalogKeySim": "key", "AnalogActionSim": "action"}[x.Sel.Name]; ok {
					return "AKind." + k, tAKind
				}
			}
			if t, ok := c.locals[id.Name]; ok && t == tAnalog {
				n := c.lname(id.Name)
				switch x.Sel.Name {
				case "MappingType":
					return n + ".kind", tAKind
				case "DeadzoneAtCenter":
					return n + ".dzCenter", tBool
				case "FlipAxis":
					return n + ".flip", tBool
				case "Bidirectional":
					return n + ".bidir", tBool
				case "CC":
					return "(" + n + ".cc : Int)", tU8
				case "CCNeg":
					return "(" + n + ".ccNeg : Int)", tU8
				case "Note":
					return "(" + n + ".note : Int)", tU8
				case "NoteNeg":
					return "(" + n + ".noteNeg : Int)", tU8
				case "ChannelOffset":
					return "(" + n + ".chOff : Int)", tU8
				case "ChannelOffsetNeg":
					return "(" + n + ".chOffNeg : Int)", tU8
				case "Action":
					return n + ".act", tAction
				case "ActionNeg":
					return n + ".actNeg", tAction
				}
			}
			if t, ok := c.locals[id.Name]; ok && t == tAbsInfo {
				switch x.Sel.Name {
				case "Minimum":
					return c.lname(id.Name) + ".1", tInt
				case "Maximum":
					return c.lname(id.Name) + ".2", tInt
				}
			}
			if t, ok := c.locals[id.Name]; ok && t == tKey {
				switch x.Sel.Name {
				case "Note":
					return "(" + c.lname(id.Name) + ".note : Int)", tU8
				case "ChannelOffset":
					return "(" + c.lname(id.Name) + ".chOff : Int)", tU8
				}
			}
		}
		if isSel(x, "d", "config", "CollisionMode") {
			return "d.cfg.mode", tMode
		}
		if c.isEvSel(x, "Event", "Value") {
			return "ev_value", tInt
		}
		if c.isEvSel(x, "Event", "Type") {
			return "ev_type", tInt
		}
		if c.isEvSel(x, "Event", "Code") {
			return "ev_code", tCode
		}
		if c.isEvSel(x, "Source", "Name") {
			return "ev_sub", tSub
		}
		if isSel(x, "d", "ccLearning") {
			return "d.learning", tBool
		}
		glfail("selector %s", types.ExprString(x))
	case *ast.UnaryExpr:
		if x.Op == token.NOT {
			s, t := c.expr(x.X)
			if t != tBool {
				glfail("! of %s", t)
			}
			return "(!" + s + ")", tBool
		}
		if x.Op == token.SUB {
			s, t := c.expr(x.X)
			if t == tFloat {
				return "(-" + s + ")", tFloat
			}
			if t == tUntyped {
				return "(-" + s + ")", tUntyped
			}
			glfail("unary minus of %s", t)
		}
		glfail("unary %s", x.Op)
	case *ast.BinaryExpr:
		return c.binary(x)
	case *ast.CallExpr:
		return c.call(x)
	case *ast.IndexExpr:
		if isSel(x.X, "d", "ccZeroed") {
			return "(d.ccZeroed.contains (" + c.asU8(x.Index) + ").toNat)", tBool
		}
		if in, ok := x.X.(*ast.IndexExpr); ok && isSel(in.X, "d", "lastAnalogValue") {
			sub, t1 := c.expr(in.Index)
			code, t2 := c.expr(x.Index)
			if t1 != tSub || t2 != tCode {
				glfail("lastAnalogValue index types %s %s", t1, t2)
			}
			return "(d.lastAnaGet " + sub + " " + code + ")", tFloat
		}
		if in, ok := x.X.(*ast.IndexExpr); ok && isSel(in.X, "d", "InputDevice", "AbsInfos") {
			if call, ok := in.Index.(*ast.CallExpr); ok && len(call.Args) == 0 {
				if sel, ok := call.Fun.(*ast.SelectorExpr); ok && sel.Sel.Name == "Event" && c.isEvSel(sel.X, "Source", "DeviceInfo") {
					code, t2 := c.expr(x.Index)
					if t2 != tCode {
						glfail("AbsInfos index type %s", t2)
					}
					return "(d.absInfo ev_node " + code + ")", tAbsInfo
				}
			}
		}
		// d.actionTracker[config.X]
		if isSel(x.X, "d", "actionTracker") {
			a, t := c.expr(x.Index)
			if t != tAction {
				glfail("actionTracker index of type %s", t)
			}
			return "(d.actTr.contains " + a + ")", tBool
		}
		// d.activeNotesCounter[ch][note]
		if in, ok := x.X.(*ast.IndexExpr); ok && isSel(in.X, "d", "activeNotesCounter") {
			ch, t1 := c.expr(in.Index)
			n, t2 := c.expr(x.Index)
			if t1 != tU8 || t2 != tU8 {
				glfail("counter index types %s %s", t1, t2)
			}
			return "(d.count " + ch + " " + n + ")", tInt
		}
		// ev[2]
		if id, ok := x.X.(*ast.Ident); ok && c.locals[id.Name] == tMidiEv {
			if lit, ok := x.Index.(*ast.BasicLit); ok {
				switch lit.Value {
				case "0":
					return id.Name + "_a", tU8
				case "1":
					return id.Name + "_b", tU8
				case "2":
					return id.Name + "_c", tU8
				}
			}
		}
		// pair[0], pair[1]
		if id, ok := x.X.(*ast.Ident); ok && c.locals[id.Name] == tPair {
			if lit, ok := x.Index.(*ast.BasicLit); ok {
				switch lit.Value {
				case "0":
					return "(" + c.lname(id.Name) + ".1 : Int)", tU8
				case "1":
					return "(" + c.lname(id.Name) + ".2 : Int)", tU8
				}
			}
		}
		glfail("index %s", types.ExprString(x))
	}
	glfail("expression %s", types.ExprString(e))
	return "", ""
}

func (c *glCtx) unify(t1, t2 string) string {
	if t1 == tUntyped {
		return t2
	}
	if t2 == tUntyped || t1 == t2 {
		return t1
	}
	glfail("mismatched operand types %s and %s", t1, t2)
	return ""
}

func (c *glCtx) binary(x *ast.BinaryExpr) (string, string) {
	l, tl := c.expr(x.X)
	r, tr := c.expr(x.Y)
	// an untyped constant next to a float64 operand is a float64 constant
	if tl == tFloat && tr == tUntyped {
		r, tr = "("+r+" : Rat)", tFloat
	}
	if tr == tFloat && tl == tUntyped {
		l, tl = "("+l+" : Rat)", tFloat
	}
	if tl == tFloat && tr == tFloat {
		switch x.Op {
		case token.ADD:
			return "(fadd " + l + " " + r + ")", tFloat
		case token.SUB:
			return "(fsub " + l + " " + r + ")", tFloat
		case token.MUL:
			return "(fmul " + l + " " + r + ")", tFloat
		case token.QUO:
			return "(fdiv " + l + " " + r + ")", tFloat
		case token.EQL:
			return "(" + l + " == " + r + ")", tBool
		case token.NEQ:
			return "(" + l + " != " + r + ")", tBool
		case token.LSS, token.GTR, token.LEQ, token.GEQ:
			return "(decide (" + l + " " + x.Op.String() + " " + r + "))", tBool
		}
		glfail("float operator %s", x.Op)
	}
	switch x.Op {
	case token.LAND, token.LOR:
		if tl != tBool || tr != tBool {
			glfail("logical operator on %s, %s", tl, tr)
		}
		op := "&&"
		if x.Op == token.LOR {
			op = "||"
		}
		return "(" + l + " " + op + " " + r + ")", tBool
	case token.EQL, token.NEQ:
		t := c.unify(tl, tr)
		_ = t
		op := "=="
		if x.Op == token.NEQ {
			op = "!="
		}
		return "(" + l + " " + op + " " + r + ")", tBool
	case token.LSS, token.GTR, token.LEQ, token.GEQ:
		t := c.unify(tl, tr)
		if t != tInt && t != tU8 && t != tUntyped {
			glfail("comparison of %s", t)
		}
		return "(decide (" + l + " " + x.Op.String() + " " + r + "))", tBool
	case token.ADD, token.SUB, token.MUL, token.REM:
		t := c.unify(tl, tr)
		if t == tUntyped {
			return "(" + l + " " + x.Op.String() + " " + r + ")", tUntyped
		}
		if t != tInt && t != tU8 {
			glfail("arithmetic on %s", t)
		}
		if x.Op == token.REM {
			// Go's % truncates toward zero: Int.tmod; for uint8 operands (non-negative) that is Lean's %
			if t != tU8 {
				return "(Int.tmod " + l + " " + r + ")", t
			}
			return c.wrap(t, l+" % "+r), t
		}
		return c.wrap(t, l+" "+x.Op.String()+" "+r), t
	}
	glfail("binary operator %s", x.Op)
	return "", ""
}

func (c *glCtx) asU8(e ast.Expr) string {
	s, t := c.expr(e)
	if t == tUntyped {
		return s
	}
	if t != tU8 {
		glfail("uint8 argument of type %s: %s", t, types.ExprString(e))
	}
	return s
}

func (c *glCtx) call(x *ast.CallExpr) (string, string) {
	if id, ok := x.Fun.(*ast.Ident); ok {
		switch id.Name {
		case "float64":
			if len(x.Args) != 1 {
				glfail("conversion arity")
			}
			s, t := c.expr(x.Args[0])
			if t != tInt && t != tU8 && t != tUntyped {
				glfail("float64 of %s", t)
			}
			// exact for |x| < 2^53 (evdev values are int32)
			return "((" + s + " : Int) : Rat)", tFloat
		case "int", "uint8", "byte":
			if len(x.Args) != 1 {
				glfail("conversion arity")
			}
			s, t := c.expr(x.Args[0])
			if t == tFloat {
				if id.Name != "int" {
					glfail("%s of a float64", id.Name)
				}
				return "(ftrunc " + s + ")", tInt
			}
			if t != tInt && t != tU8 && t != tUntyped {
				glfail("conversion of %s", t)
			}
			if id.Name == "int" {
				return c.wrap(tInt, s), tInt
			}
			return c.wrap(tU8, s), tU8
		case "len":
			if id, ok := x.Args[0].(*ast.Ident); ok && c.locals[id.Name] == tMidiEv {
				return "(3 : Int)", tInt // MIDI-input messages are modelled as three bytes
			}
			if isSel(x.Args[0], "d", "actionTracker") {
				return "(d.actTr.length : Int)", tInt
			}
			if isSel(x.Args[0], "d", "config", "KeyMappings") {
				return "d.nMaps", tInt
			}
			if isSel(x.Args[0], "d", "config", "ExitSequence") {
				return "(d.cfg.exitSeq.length : Int)", tInt
			}
		}
	}
	if s, ok := x.Fun.(*ast.SelectorExpr); ok {
		if id, ok := s.X.(*ast.Ident); ok && c.locals[id.Name] == tMidiEv && len(x.Args) == 0 {
			switch s.Sel.Name {
			case "Type":
				return "(evType " + id.Name + "_a)", tU8
			case "Channel":
				return "(evChannel " + id.Name + "_a)", tU8
			case "Note":
				return id.Name + "_b", tU8
			}
		}
		if id, ok := s.X.(*ast.Ident); ok && id.Name == "math" && s.Sel.Name == "Abs" && len(x.Args) == 1 {
			a, t := c.expr(x.Args[0])
			if t != tFloat {
				glfail("math.Abs of %s", t)
			}
			return "(rabs " + a + ")", tFloat
		}
		if id, ok := s.X.(*ast.Ident); ok && id.Name == "fmt" && s.Sel.Name == "Sprintf" && len(x.Args) == 2 {
			// the identifiers of the analog note tracker: "%d" / "%d_neg" of the axis code
			if lit, ok := x.Args[0].(*ast.BasicLit); ok {
				k, t := c.expr(x.Args[1])
				if t == tCode {
					switch lit.Value {
					case `"%d"`:
						return "(" + k + ", false)", tString
					case `"%d_neg"`:
						return "(" + k + ", true)", tString
					}
				}
			}
		}
		if id, ok := s.X.(*ast.Ident); ok && id.Name == "midi" && s.Sel.Name == "PitchBendEvent" && len(x.Args) == 2 {
			v, t := c.expr(x.Args[1])
			if t != tFloat {
				glfail("PitchBendEvent value of %s", t)
			}
			return fmt.Sprintf("(pbEv %s %s)", c.asU8(x.Args[0]), v), tEvent
		}
		if id, ok := s.X.(*ast.Ident); ok && id.Name == "midi" {
			switch s.Sel.Name {
			case "NoteEvent":
				if len(x.Args) != 4 {
					glfail("NoteEvent arity")
				}
				return fmt.Sprintf("(noteEv %s %s %s %s)", c.asU8(x.Args[0]), c.asU8(x.Args[1]), c.asU8(x.Args[2]), c.asU8(x.Args[3])), tEvent
			case "ControlChangeEvent":
				if len(x.Args) != 3 {
					glfail("ControlChangeEvent arity")
				}
				return fmt.Sprintf("(ccEv %s %s %s)", c.asU8(x.Args[0]), c.asU8(x.Args[1]), c.asU8(x.Args[2])), tEvent
			}
		}
		// call of a translated method with a result: d.checkDoubleActions()
		if id, ok := s.X.(*ast.Ident); ok && id.Name == "d" {
			if f, ok := c.funcs[s.Sel.Name]; ok && f.ret != "" {
				if len(x.Args) != 0 {
					glfail("call of %s inside an expression: arguments", f.name)
				}
				c.tmp++
				c.pre = append(c.pre, fmt.Sprintf("let r%d := %s d", c.tmp, f.lean), fmt.Sprintf("d := r%d.1", c.tmp))
				return fmt.Sprintf("r%d.2", c.tmp), f.ret
			}
		}
	}
	glfail("call %s", types.ExprString(x))
	return "", ""
}

// ---------------------------------------------------------------- statements

type glOut struct {
	b      strings.Builder
	indent int
}

func (o *glOut) line(format string, a ...interface{}) {
	o.b.WriteString(strings.Repeat("  ", o.indent))
	fmt.Fprintf(&o.b, format, a...)
	o.b.WriteString("\n")
}

func isLogOnlyIf(s *ast.IfStmt) bool {
	if s.Else != nil || s.Init != nil || len(s.Body.List) == 0 {
		return false
	}
	// the condition must be free of side effects: no calls other than len()
	pure := true
	ast.Inspect(s.Cond, func(n ast.Node) bool {
		if call, ok := n.(*ast.CallExpr); ok {
			if id, ok := call.Fun.(*ast.Ident); !ok || id.Name != "len" {
				pure = false
			}
		}
		return true
	})
	if !pure {
		return false
	}
	for _, st := range s.Body.List {
		es, ok := st.(*ast.ExprStmt)
		if !ok {
			return false
		}
		call, ok := es.X.(*ast.CallExpr)
		if !ok {
			return false
		}
		sel, ok := call.Fun.(*ast.SelectorExpr)
		if !ok {
			return false
		}
		id, ok := sel.X.(*ast.Ident)
		if !ok || id.Name != "log" {
			return false
		}
	}
	return true
}

func (c *glCtx) retStmt(o *glOut, val string) {
	if c.cur.ret == "" {
		if val != "" {
			glfail("return with a value in a procedure")
		}
		o.line("return d")
	} else {
		if val == "" {
			glfail("return without value")
		}
		o.line("return (d, %s)", val)
	}
}

func endsWithBreak(b *ast.BlockStmt) bool {
	if len(b.List) == 0 {
		return false
	}
	br, ok := b.List[len(b.List)-1].(*ast.BranchStmt)
	return ok && br.Tok == token.BREAK && br.Label == nil
}

// containsBreak: does the statement contain a `break` that leaves the enclosing switch (not one nested in an inner
// switch / loop)
func containsBreak(s ast.Stmt) bool {
	found := false
	var walk func(n ast.Stmt)
	walkList := func(l []ast.Stmt) {
		for _, x := range l {
			walk(x)
		}
	}
	walk = func(n ast.Stmt) {
		switch x := n.(type) {
		case *ast.BranchStmt:
			if x.Tok == token.BREAK && x.Label == nil {
				found = true
			}
		case *ast.BlockStmt:
			walkList(x.List)
		case *ast.IfStmt:
			walkList(x.Body.List)
			if x.Else != nil {
				walk(x.Else)
			}
		}
	}
	walk(s)
	return found
}

// block translates a statement list.  inSwitch: the list is (part of) a case body.  A `break` as the last statement
// of an if body directly in the list means "skip the rest of this list": the rest goes into the else branch.  Breaks
// nested deeper set the break flag of the switch, and the rest of the list is guarded by it.
func (c *glCtx) block(o *glOut, list []ast.Stmt, sw int) {
	nested := sw
	if nested > 1 {
		nested = 1
	}
	saved := map[string]string{}
	for k, v := range c.locals {
		saved[k] = v
	}
	savedRen := map[string]string{}
	for k, v := range c.rename {
		savedRen[k] = v
	}
	c.scopes = append(c.scopes, map[string]bool{})
	defer func() { c.locals = saved; c.rename = savedRen; c.scopes = c.scopes[:len(c.scopes)-1] }()
	if len(list) == 0 {
		o.line("pure ()")
		return
	}
	emitted := false
	for i, s := range list {
		if ifs, ok := s.(*ast.IfStmt); ok && sw == 2 && ifs.Else == nil && ifs.Init == nil && endsWithBreak(ifs.Body) {
			inner := false
			for _, b := range ifs.Body.List[:len(ifs.Body.List)-1] {
				if containsBreak(b) {
					inner = true
				}
			}
			if !inner {
				cond, t := c.expr(ifs.Cond)
				if t != tBool {
					glfail("condition of type %s", t)
				}
				c.noPre()
				o.line("if %s then", cond)
				o.indent++
				c.block(o, ifs.Body.List[:len(ifs.Body.List)-1], nested)
				o.indent--
				o.line("else")
				o.indent++
				c.block(o, list[i+1:], sw)
				o.indent--
				return
			}
		}
		if br, ok := s.(*ast.BranchStmt); ok && sw >= 1 && br.Tok == token.BREAK && br.Label == nil {
			if i != len(list)-1 {
				glfail("statements after break")
			}
			if len(c.brk) == 0 {
				glfail("break outside switch")
			}
			if sw == 2 {
				// the end of the case body anyway
				if !emitted {
					o.line("pure ()")
				}
				return
			}
			flag := c.brk[len(c.brk)-1]
			c.brkUsed[flag] = true
			o.line("%s := true", flag)
			return
		}
		if c.stmt(o, s, nested) {
			emitted = true
		}
		if sw >= 1 && containsBreak(s) && i != len(list)-1 {
			flag := c.brk[len(c.brk)-1]
			c.brkUsed[flag] = true
			o.line("if !%s then", flag)
			o.indent++
			c.block(o, list[i+1:], sw)
			o.indent--
			return
		}
	}
	if !emitted {
		o.line("pure ()")
	}
}

func (c *glCtx) noPre() {
	if len(c.pre) != 0 {
		glfail("call with side effects inside this expression")
	}
}

func (c *glCtx) flushPre(o *glOut) {
	for _, l := range c.pre {
		o.line("%s", l)
	}
	c.pre = nil
}

func (c *glCtx) evArgs() string { return "ev_sub ev_node ev_code ev_value ev_type" }

// callStmt: d.Method(args…) as a statement
func (c *glCtx) methodCall(o *glOut, call *ast.CallExpr, resultVar string) bool {
	sel, ok := call.Fun.(*ast.SelectorExpr)
	if !ok {
		return false
	}
	id, ok := sel.X.(*ast.Ident)
	if !ok || id.Name != "d" {
		return false
	}
	f, ok := c.funcs[sel.Sel.Name]
	if !ok {
		return false
	}
	if len(call.Args) != len(f.params) {
		glfail("call of %s: arity", f.name)
	}
	var args []string
	for i, a := range call.Args {
		if f.ptypes[i] == "ev" {
			if u, ok := a.(*ast.UnaryExpr); ok && u.Op == token.AND {
				if cl, ok := u.X.(*ast.CompositeLit); ok && types.ExprString(cl.Type) == "input.InputEvent" {
					args = append(args, c.eventLiteral(cl))
					continue
				}
			}
			aid, ok := a.(*ast.Ident)
			if !ok || aid.Name != c.cur.evParam || c.cur.evParam == "" {
				glfail("call of %s: event argument", f.name)
			}
			args = append(args, c.evArgs())
			continue
		}
		s, t := c.expr(a)
		if t != f.ptypes[i] && t != tUntyped {
			glfail("call of %s: argument %d has type %s, want %s", f.name, i, t, f.ptypes[i])
		}
		args = append(args, s)
	}
	a := strings.Join(args, " ")
	if a != "" {
		a = " " + a
	}
	if f.ret == "" {
		if resultVar != "" {
			glfail("%s has no result", f.name)
		}
		o.line("d := %s d%s", f.lean, a)
	} else {
		c.tmp++
		o.line("let r%d := %s d%s", c.tmp, f.lean, a)
		o.line("d := r%d.1", c.tmp)
		if resultVar != "" {
			o.line("%s := r%d.2", resultVar, c.tmp)
		}
	}
	return true
}

func (c *glCtx) declare(o *glOut, name, typ, val string) {
	leanT := map[string]string{tInt: "Int", tU8: "Int", tBool: "Bool", tKey: "Key", tEvent: "Out", tAction: "Action",
		tPair: "Nat × Nat", tExt: "List (Nat × Nat)", tCode: "Code", tSub: "Sub", tString: "Code × Bool", tMode: "Collision",
		tFloat: "Rat", tAnalog: "Analog", tAbsInfo: "Int × Int"}[typ]
	if leanT == "" {
		glfail("local of type %s", typ)
	}
	if name == "_" {
		return
	}
	cur := c.scopes[len(c.scopes)-1]
	if cur[name] {
		// `a, ok := …` with `ok` already declared in this block assigns to it
		if c.locals[name] != typ {
			glfail("redeclaration of %s with another type", name)
		}
		o.line("%s := %s", c.lname(name), val)
		return
	}
	lean := name
	if _, shadow := c.locals[name]; shadow {
		c.tmp++
		lean = fmt.Sprintf("%s_%d", name, c.tmp)
	}
	cur[name] = true
	c.locals[name] = typ
	c.rename[name] = lean
	if len(c.scopes) == 1 {
		c.order = append(c.order, name)
	}
	o.line("let mut %s : %s := %s", lean, leanT, val)
}

func (c *glCtx) lname(goName string) string {
	if l, ok := c.rename[goName]; ok {
		return l
	}
	return goName
}

// stmt returns whether something was emitted
func (c *glCtx) stmt(o *glOut, s ast.Stmt, sw int) bool {
	r := c.stmt1(o, s, sw)
	c.noPre()
	return r
}

func (c *glCtx) stmt1(o *glOut, s ast.Stmt, sw int) bool {
	switch x := s.(type) {
	case *ast.IncDecStmt:
		l, t := c.expr(x.X)
		if !strings.HasPrefix(l, "d.") {
			// counter increments
			if ix, ok := x.X.(*ast.IndexExpr); ok {
				if in, ok := ix.X.(*ast.IndexExpr); ok && isSel(in.X, "d", "activeNotesCounter") {
					ch, _ := c.expr(in.Index)
					n, _ := c.expr(ix.Index)
					op := "+"
					if x.Tok == token.DEC {
						op = "-"
					}
					o.line("d := d.setCount %s %s (wrapInt (d.count %s %s %s 1))", ch, n, ch, n, op)
					return true
				}
			}
			glfail("++/-- of %s", types.ExprString(x.X))
		}
		op := "+"
		if x.Tok == token.DEC {
			op = "-"
		}
		o.line("d := d.%s (%s)", glSetter(strings.TrimPrefix(l, "d.")), c.wrap(t, l+" "+op+" 1"))
		return true
	case *ast.AssignStmt:
		return c.assign(o, x)
	case *ast.DeclStmt:
		gd, ok := x.Decl.(*ast.GenDecl)
		if !ok || gd.Tok != token.VAR || len(gd.Specs) != 1 {
			glfail("declaration")
		}
		vs := gd.Specs[0].(*ast.ValueSpec)
		if len(vs.Names) != 1 || len(vs.Values) != 0 {
			glfail("var declaration with values")
		}
		switch types.ExprString(vs.Type) {
		case "midi.Event":
			c.declare(o, vs.Names[0].Name, tEvent, "default")
			return true
		case "float64":
			c.declare(o, vs.Names[0].Name, tFloat, "0")
			return true
		case "bool":
			c.declare(o, vs.Names[0].Name, tBool, "false")
			return true
		}
		glfail("var of type %s", types.ExprString(vs.Type))
	case *ast.ExprStmt:
		call, ok := x.X.(*ast.CallExpr)
		if !ok {
			glfail("expression statement")
		}
		if c.methodCall(o, call, "") {
			return true
		}
		if sel, ok := call.Fun.(*ast.SelectorExpr); ok {
			// logging is dropped
			if id, ok := sel.X.(*ast.Ident); ok && id.Name == "log" {
				return false
			}
			// mutex calls are dropped
			if (sel.Sel.Name == "Lock" || sel.Sel.Name == "Unlock") && (isSel(sel.X, "d", "externalTrackerMutex") || isSel(sel.X, "d", "eventProcessMutex")) {
				return false
			}
			if isSel(sel.X, "d") && sel.Sel.Name == "Multinote" && len(call.Args) == 0 {
				if glMultinoteTranslated {
					o.line("d := Multinote d")
				} else {
					o.line("d := multinoteP d") // the hand-written primitive: the translation of Multinote failed
				}
				return true
			}
			// d.emitKeyEvent(event, ev)
			if isSel(sel.X, "d") && sel.Sel.Name == "emitKeyEvent" && len(call.Args) == 2 {
				e, t := c.expr(call.Args[0])
				if t != tEvent {
					glfail("emitKeyEvent of %s", t)
				}
				o.line("d := d.emit %s", e)
				return true
			}
			// d.invokeActionPress(action) / Release
			if isSel(sel.X, "d") && (sel.Sel.Name == "invokeActionPress" || sel.Sel.Name == "invokeActionRelease") && len(call.Args) == 1 {
				a, t := c.expr(call.Args[0])
				if t != tAction {
					glfail("invokeAction of %s", t)
				}
				o.line("d := %s d %s", lowerFirst(sel.Sel.Name), a)
				return true
			}
		}
		if id, ok := call.Fun.(*ast.Ident); ok {
			if id.Name == "panic" {
				o.line("return %s", c.panicValue())
				return true
			}
			if id.Name == "delete" && len(call.Args) == 2 {
				if isSel(call.Args[0], "d", "noteTracker") {
					k, t := c.expr(call.Args[1])
					if t != tCode {
						glfail("noteTracker key %s", t)
					}
					o.line("d := d.setNoteTr (aerase %s d.noteTr)", k)
					return true
				}
				if isSel(call.Args[0], "d", "analogNoteTracker") {
					k, t := c.expr(call.Args[1])
					if t != tString {
						glfail("analogNoteTracker key %s", t)
					}
					o.line("d := d.setAnaTr (aerase %s d.anaTr)", k)
					return true
				}
				if isSel(call.Args[0], "d", "keyTracker") {
					k, t := c.expr(call.Args[1])
					if t != tCode {
						glfail("keyTracker key %s", t)
					}
					o.line("d := d.setKeyTr (serase %s d.keyTr)", k)
					return true
				}
				if ix, ok := call.Args[0].(*ast.IndexExpr); ok && isSel(ix.X, "d", "externalNoteTracker") {
					ch := c.asU8(ix.Index)
					n := c.asU8(call.Args[1])
					o.line("d := d.setExt (serase ((%s).toNat, (%s).toNat) d.ext)", ch, n)
					return true
				}
				if isSel(call.Args[0], "d", "actionTracker") {
					k, t := c.expr(call.Args[1])
					if t != tAction {
						glfail("actionTracker key %s", t)
					}
					o.line("d := d.setActTr (serase %s d.actTr)", k)
					return true
				}
			}
		}
		glfail("call statement %s", types.ExprString(call))
	case *ast.SendStmt:
		if isSel(x.Chan, "d", "outputEvents") {
			e, t := c.expr(x.Value)
			if t != tEvent {
				glfail("send of %s", t)
			}
			o.line("d := d.emit %s", e)
			return true
		}
		if isSel(x.Chan, "d", "sigs") {
			o.line("d := d.emit Out.sig")
			return true
		}
		glfail("send on %s", types.ExprString(x.Chan))
	case *ast.ReturnStmt:
		if len(x.Results) == 0 {
			c.retStmt(o, "")
		} else if len(x.Results) == 1 {
			v, t := c.expr(x.Results[0])
			if t != c.cur.ret {
				glfail("return of %s", t)
			}
			c.retStmt(o, v)
		} else {
			glfail("multiple results")
		}
		return true
	case *ast.IfStmt:
		if isLogOnlyIf(x) {
			return false
		}
		c.ifStmt(o, x, sw)
		return true
	case *ast.SwitchStmt:
		c.switchStmt(o, x)
		return true
	case *ast.ForStmt:
		c.forStmt(o, x)
		return true
	case *ast.RangeStmt:
		c.rangeStmt(o, x)
		return true
	case *ast.BlockStmt:
		c.block(o, x.List, sw)
		return true
	case *ast.EmptyStmt:
		return false
	}
	glfail("statement %T", s)
	return false
}

func (c *glCtx) panicValue() string {
	if c.cur.ret == "" {
		return "d.goPanic"
	}
	return "(d.goPanic, default)"
}

func (c *glCtx) ifStmt(o *glOut, x *ast.IfStmt, sw int) {
	if x.Init != nil {
		// if _, ok := d.keyTracker[key]; !ok { … }
		as, ok := x.Init.(*ast.AssignStmt)
		if !ok || !c.assign(o, as) {
			glfail("if with init")
		}
	}
	cond, t := c.expr(x.Cond)
	if t != tBool {
		glfail("condition of type %s", t)
	}
	if len(c.pre) != 0 {
		// only `if d.f()` / `if !d.f()`: no short-circuit evaluation is involved
		ce := x.Cond
		if u, ok := ce.(*ast.UnaryExpr); ok && u.Op == token.NOT {
			ce = u.X
		}
		if _, ok := ce.(*ast.CallExpr); !ok {
			glfail("call with side effects inside a compound condition")
		}
		c.flushPre(o)
	}
	o.line("if %s then", cond)
	o.indent++
	c.block(o, x.Body.List, sw)
	o.indent--
	if x.Else != nil {
		o.line("else")
		o.indent++
		switch e := x.Else.(type) {
		case *ast.BlockStmt:
			c.block(o, e.List, sw)
		case *ast.IfStmt:
			c.ifStmt(o, e, sw)
		}
		o.indent--
	}
}

func (c *glCtx) switchStmt(o *glOut, x *ast.SwitchStmt) {
	if x.Init != nil {
		glfail("switch with init")
	}
	var tag, ttag string
	if x.Tag != nil {
		tag, ttag = c.expr(x.Tag)
	}
	c.tmp++
	flag := fmt.Sprintf("brk%d", c.tmp)
	needFlag := false
	for _, cl := range x.Body.List {
		for _, st := range cl.(*ast.CaseClause).Body {
			if containsBreak(st) {
				needFlag = true
			}
		}
	}
	_ = needFlag
	outer := o
	o = &glOut{indent: outer.indent}
	c.brk = append(c.brk, flag)
	defer func() {
		c.brk = c.brk[:len(c.brk)-1]
		if c.brkUsed[flag] {
			outer.line("let mut %s := false", flag)
		}
		outer.b.WriteString(o.b.String())
	}()
	var def *ast.CaseClause
	first := true
	n := 0
	for _, cl := range x.Body.List {
		cc := cl.(*ast.CaseClause)
		if cc.List == nil {
			def = cc
			continue
		}
		var conds []string
		for _, e := range cc.List {
			s, t := c.expr(e)
			if x.Tag != nil {
				c.unify(ttag, t)
				conds = append(conds, "("+tag+" == "+s+")")
			} else {
				if t != tBool {
					glfail("case of type %s", t)
				}
				conds = append(conds, s)
			}
		}
		kw := "if"
		if !first {
			kw = "else if"
		}
		first = false
		o.line("%s %s then", kw, strings.Join(conds, " || "))
		o.indent++
		c.caseBody(o, cc.Body)
		o.indent--
		n++
	}
	if n == 0 {
		if def != nil {
			c.caseBody(o, def.Body)
		}
		return
	}
	if def != nil {
		o.line("else")
		o.indent++
		c.caseBody(o, def.Body)
		o.indent--
	}
}

func (c *glCtx) caseBody(o *glOut, body []ast.Stmt) {
	for _, s := range body {
		if br, ok := s.(*ast.BranchStmt); ok && br.Tok == token.FALLTHROUGH {
			glfail("fallthrough")
		}
	}
	c.block(o, body, 2)
}

// for v := T(a); v < b; v++ { body }  with constant a, b:  a fold over the range
func (c *glCtx) forStmt(o *glOut, x *ast.ForStmt) {
	as, ok := x.Init.(*ast.AssignStmt)
	if !ok || as.Tok != token.DEFINE || len(as.Lhs) != 1 {
		glfail("for init")
	}
	v := as.Lhs[0].(*ast.Ident).Name
	initS, initT := c.expr(as.Rhs[0])
	if initT != tU8 && initT != tInt {
		glfail("loop variable of type %s", initT)
	}
	_ = initS
	var lo int
	{
		e := as.Rhs[0]
		if call, ok := e.(*ast.CallExpr); ok && len(call.Args) == 1 {
			e = call.Args[0]
		}
		lit, ok := e.(*ast.BasicLit)
		if !ok || lit.Kind != token.INT {
			glfail("loop start")
		}
		if _, err := fmt.Sscanf(lit.Value, "%d", &lo); err != nil {
			glfail("loop start %s", lit.Value)
		}
	}
	cond, ok := x.Cond.(*ast.BinaryExpr)
	if !ok || cond.Op != token.LSS {
		glfail("loop condition")
	}
	if id, ok := cond.X.(*ast.Ident); !ok || id.Name != v {
		glfail("loop condition variable")
	}
	lit, ok := cond.Y.(*ast.BasicLit)
	if !ok || lit.Kind != token.INT {
		glfail("loop bound")
	}
	var hi int
	fmt.Sscanf(lit.Value, "%d", &hi)
	if initT == tU8 && hi > 255 {
		glfail("uint8 loop bound %d never reached", hi) // would not terminate in Go
	}
	post, ok := x.Post.(*ast.IncDecStmt)
	if !ok || post.Tok != token.INC {
		glfail("loop post")
	}
	if id, ok := post.X.(*ast.Ident); !ok || id.Name != v {
		glfail("loop post variable")
	}
	// the body may not assign the loop variable, return, break or continue
	ast.Inspect(x.Body, func(n ast.Node) bool {
		switch y := n.(type) {
		case *ast.ReturnStmt, *ast.BranchStmt:
			glfail("control transfer inside a loop")
		case *ast.AssignStmt:
			for _, l := range y.Lhs {
				if id, ok := l.(*ast.Ident); ok && id.Name == v {
					glfail("loop variable assigned")
				}
			}
		case *ast.IncDecStmt:
			if id, ok := y.X.(*ast.Ident); ok && id.Name == v {
				glfail("loop variable assigned")
			}
		}
		return true
	})
	// loop-carried state: d and every local assigned in the body (only `d` and ext-map locals are supported)
	carried := []string{"d"}
	ast.Inspect(x.Body, func(n ast.Node) bool {
		if y, ok := n.(*ast.AssignStmt); ok {
			for _, l := range y.Lhs {
				if ix, ok := l.(*ast.IndexExpr); ok {
					if id, ok := ix.X.(*ast.Ident); ok && c.locals[id.Name] == tExt {
						carried = append(carried, id.Name)
					}
				} else if id, ok := l.(*ast.Ident); ok && y.Tok == token.ASSIGN {
					glfail("assignment to %s inside a loop", id.Name)
				}
			}
		}
		return true
	})
	if len(carried) > 2 {
		glfail("loop carries %v", carried)
	}
	c.locals[v] = initT
	if len(carried) == 1 {
		o.line("d := (List.range' %d (%d - %d)).foldl (fun (d : GSt) (%s_ : Nat) => Id.run do", lo, hi, lo, v)
		o.indent++
		o.line("let mut d := d")
		o.line("let %s : Int := (%s_ : Int)", v, v)
		c.block(o, x.Body.List, 0)
		o.line("return d) d")
		o.indent--
	} else {
		w := carried[1]
		o.line("%s := (List.range' %d (%d - %d)).foldl (fun (%s : List (Nat × Nat)) (%s_ : Nat) => Id.run do", w, lo, hi, lo, w, v)
		o.indent++
		o.line("let mut %s := %s", w, w)
		o.line("let %s : Int := (%s_ : Int)", v, v)
		c.block(o, x.Body.List, 0)
		o.line("return %s) %s", w, w)
		o.indent--
	}
	delete(c.locals, v)
}

// for _, key := range d.config.ExitSequence { if _, ok := d.keyTracker[key]; !ok { return false } }
func (c *glCtx) rangeStmt(o *glOut, x *ast.RangeStmt) {
	if (isSel(x.X, "d", "noteTracker") || isSel(x.X, "d", "analogNoteTracker")) && x.Tok == token.DEFINE && x.Value == nil {
		// for k := range d.tracker { … } : a fold over the keys present when the loop starts.  Go visits every entry that
		// is not deleted before it is reached, in unspecified order; the bodies supported here delete only the entry
		// they are visiting, so every key is visited once (the order is the model's list order; C01_cleanup_any_order
		// covers the others).
		k, ok := x.Key.(*ast.Ident)
		if !ok {
			glfail("range key")
		}
		ast.Inspect(x.Body, func(n ast.Node) bool {
			switch n.(type) {
			case *ast.ReturnStmt, *ast.BranchStmt:
				glfail("control transfer inside a range loop")
			}
			return true
		})
		field, typ, lt := "noteTr", tCode, "Code"
		if isSel(x.X, "d", "analogNoteTracker") {
			field, typ, lt = "anaTr", tString, "Code × Bool"
		}
		if _, dup := c.locals[k.Name]; dup {
			glfail("range variable shadows %s", k.Name)
		}
		c.locals[k.Name] = typ
		o.line("d := (akeys d.%s).foldl (fun (d : GSt) (%s : %s) => Id.run do", field, k.Name, lt)
		o.indent++
		o.line("let mut d := d")
		c.block(o, x.Body.List, 0)
		o.line("return d) d")
		o.indent--
		delete(c.locals, k.Name)
		return
	}
	if !isSel(x.X, "d", "config", "ExitSequence") || x.Tok != token.DEFINE {
		glfail("range over %s", types.ExprString(x.X))
	}
	if id, ok := x.Key.(*ast.Ident); !ok || id.Name != "_" {
		glfail("range key")
	}
	v := x.Value.(*ast.Ident).Name
	// the only supported shape: the body is a single `if <cond on key> { return <const> }` — an early exit on the first
	// key satisfying the condition
	if len(x.Body.List) != 1 {
		glfail("range body")
	}
	ifs, ok := x.Body.List[0].(*ast.IfStmt)
	if !ok || ifs.Else != nil || len(ifs.Body.List) != 1 {
		glfail("range body shape")
	}
	ret, ok := ifs.Body.List[0].(*ast.ReturnStmt)
	if !ok {
		glfail("range body shape")
	}
	c.locals[v] = tCode
	sub := &glOut{indent: 0}
	var cond string
	if ifs.Init != nil {
		as := ifs.Init.(*ast.AssignStmt)
		// _, ok := d.keyTracker[key]
		if len(as.Lhs) != 2 || len(as.Rhs) != 1 {
			glfail("range init")
		}
		ix, ok := as.Rhs[0].(*ast.IndexExpr)
		if !ok || !isSel(ix.X, "d", "keyTracker") {
			glfail("range init")
		}
		k, _ := c.expr(ix.Index)
		okName := as.Lhs[1].(*ast.Ident).Name
		c.locals[okName] = tBool
		cnd, t := c.expr(ifs.Cond)
		if t != tBool {
			glfail("range condition")
		}
		cond = fmt.Sprintf("let %s := d.keyTr.contains %s; %s", okName, k, cnd)
		delete(c.locals, okName)
	} else {
		cnd, t := c.expr(ifs.Cond)
		if t != tBool {
			glfail("range condition")
		}
		cond = cnd
	}
	_ = sub
	delete(c.locals, v)
	o.line("if d.cfg.exitSeq.any (fun %s => %s) then", v, cond)
	o.indent++
	if len(ret.Results) == 0 {
		c.retStmt(o, "")
	} else {
		rv, t := c.expr(ret.Results[0])
		if t != c.cur.ret {
			glfail("return of %s", t)
		}
		c.retStmt(o, rv)
	}
	o.indent--
}

func (c *glCtx) setLocal(o *glOut, define bool, name, typ, val string) {
	if name == "_" {
		return
	}
	if define {
		c.declare(o, name, typ, val)
		return
	}
	t, ok := c.locals[name]
	if !ok {
		glfail("assignment to unknown %s", name)
	}
	if t != typ && typ != tUntyped {
		glfail("assignment of %s to %s of type %s", typ, name, t)
	}
	o.line("%s := %s", c.lname(name), val)
}

func (c *glCtx) assign(o *glOut, x *ast.AssignStmt) bool {
	define := x.Tok == token.DEFINE
	if x.Tok != token.DEFINE && x.Tok != token.ASSIGN {
		glfail("assignment operator %s", x.Tok)
	}
	// comma-ok forms
	if len(x.Lhs) == 2 && len(x.Rhs) == 1 {
		name := func(e ast.Expr) string {
			id, ok := e.(*ast.Ident)
			if !ok {
				glfail("comma-ok target")
			}
			return id.Name
		}
		v, okv := name(x.Lhs[0]), name(x.Lhs[1])
		// note, channel := pair[0], pair[1] is len(Rhs)==2, not here
		ix, ok := x.Rhs[0].(*ast.IndexExpr)
		if !ok {
			glfail("two-value assignment")
		}
		// d.config.KeyMappings[i].DefaultDeadzone[sub]
		if sel, ok := ix.X.(*ast.SelectorExpr); ok && sel.Sel.Name == "DefaultDeadzone" {
			if km, ok := sel.X.(*ast.IndexExpr); ok && isSel(km.X, "d", "config", "KeyMappings") {
				mi, t := c.expr(km.Index)
				sub, t1 := c.expr(ix.Index)
				if t != tInt || t1 != tSub {
					glfail("DefaultDeadzone index types %s %s", t, t1)
				}
				o.line("if !(d.mapIndexOk %s) then return %s", mi, c.panicValue())
				c.tmp++
				o.line("let r%d := d.defDzLookup %s %s", c.tmp, mi, sub)
				c.setLocal(o, define, v, tFloat, fmt.Sprintf("r%d.1", c.tmp))
				c.setLocal(o, define, okv, tBool, fmt.Sprintf("r%d.2", c.tmp))
				return true
			}
		}
		// d.config.KeyMappings[i].Analog[sub][code] / .Deadzones[sub][code]
		if in, ok := ix.X.(*ast.IndexExpr); ok {
			if sel, ok := in.X.(*ast.SelectorExpr); ok && (sel.Sel.Name == "Analog" || sel.Sel.Name == "Deadzones") {
				if km, ok := sel.X.(*ast.IndexExpr); ok && isSel(km.X, "d", "config", "KeyMappings") {
					mi, t := c.expr(km.Index)
					if t != tInt {
						glfail("KeyMappings index of type %s", t)
					}
					sub, t1 := c.expr(in.Index)
					code, t2 := c.expr(ix.Index)
					if t1 != tSub || t2 != tCode {
						glfail("%s index types %s %s", sel.Sel.Name, t1, t2)
					}
					o.line("if !(d.mapIndexOk %s) then return %s", mi, c.panicValue())
					c.tmp++
					if sel.Sel.Name == "Analog" {
						o.line("let r%d := d.analogLookup %s %s %s", c.tmp, mi, sub, code)
						c.setLocal(o, define, v, tAnalog, fmt.Sprintf("r%d.1", c.tmp))
					} else {
						o.line("let r%d := d.dzLookup %s %s %s", c.tmp, mi, sub, code)
						c.setLocal(o, define, v, tFloat, fmt.Sprintf("r%d.1", c.tmp))
					}
					c.setLocal(o, define, okv, tBool, fmt.Sprintf("r%d.2", c.tmp))
					return true
				}
			}
		}
		// d.config.KeyMappings[d.mapping].Midi[sub][code]
		if in, ok := ix.X.(*ast.IndexExpr); ok {
			if sel, ok := in.X.(*ast.SelectorExpr); ok && sel.Sel.Name == "Midi" {
				if km, ok := sel.X.(*ast.IndexExpr); ok && isSel(km.X, "d", "config", "KeyMappings") {
					mi, t := c.expr(km.Index)
					if t != tInt {
						glfail("KeyMappings index of type %s", t)
					}
					sub, t1 := c.expr(in.Index)
					code, t2 := c.expr(ix.Index)
					if t1 != tSub || t2 != tCode {
						glfail("Midi index types %s %s", t1, t2)
					}
					o.line("if !(d.mapIndexOk %s) then return %s", mi, c.panicValue())
					c.tmp++
					o.line("let r%d := d.keyLookup %s %s %s", c.tmp, mi, sub, code)
					c.setLocal(o, define, v, tKey, fmt.Sprintf("r%d.1", c.tmp))
					c.setLocal(o, define, okv, tBool, fmt.Sprintf("r%d.2", c.tmp))
					return true
				}
			}
		}
		if isSel(ix.X, "d", "config", "ActionMapping") {
			k, t := c.expr(ix.Index)
			if t != tCode {
				glfail("ActionMapping key %s", t)
			}
			c.tmp++
			o.line("let r%d := d.actionLookup %s", c.tmp, k)
			c.setLocal(o, define, v, tAction, fmt.Sprintf("r%d.1", c.tmp))
			c.setLocal(o, define, okv, tBool, fmt.Sprintf("r%d.2", c.tmp))
			return true
		}
		if isSel(ix.X, "d", "noteTracker") {
			k, t := c.expr(ix.Index)
			if t != tCode {
				glfail("noteTracker key %s", t)
			}
			c.tmp++
			o.line("let r%d := d.noteTrLookup %s", c.tmp, k)
			c.setLocal(o, define, v, tPair, fmt.Sprintf("r%d.1", c.tmp))
			c.setLocal(o, define, okv, tBool, fmt.Sprintf("r%d.2", c.tmp))
			return true
		}
		if isSel(ix.X, "d", "analogNoteTracker") {
			k, t := c.expr(ix.Index)
			if t != tString {
				glfail("analogNoteTracker key %s", t)
			}
			c.tmp++
			o.line("let r%d := d.anaTrLookup %s", c.tmp, k)
			c.setLocal(o, define, v, tPair, fmt.Sprintf("r%d.1", c.tmp))
			c.setLocal(o, define, okv, tBool, fmt.Sprintf("r%d.2", c.tmp))
			return true
		}
		if isSel(ix.X, "d", "keyTracker") {
			k, t := c.expr(ix.Index)
			if t != tCode {
				glfail("keyTracker key %s", t)
			}
			if v != "_" {
				glfail("keyTracker value used")
			}
			c.setLocal(o, define, okv, tBool, "d.keyTr.contains "+k)
			return true
		}
		glfail("comma-ok on %s", types.ExprString(ix))
	}
	if len(x.Lhs) == 2 && len(x.Rhs) == 2 {
		for i := range x.Lhs {
			id, ok := x.Lhs[i].(*ast.Ident)
			if !ok {
				glfail("parallel assignment target")
			}
			s, t := c.expr(x.Rhs[i])
			c.setLocal(o, define, id.Name, t, s)
		}
		return true
	}
	if len(x.Lhs) != 1 || len(x.Rhs) != 1 {
		glfail("assignment shape")
	}
	switch l := x.Lhs[0].(type) {
	case *ast.Ident:
		// ok := d.checkDoubleActions()
		if call, ok := x.Rhs[0].(*ast.CallExpr); ok {
			if sel, ok := call.Fun.(*ast.SelectorExpr); ok && isSel(sel.X, "d") {
				if f, ok := c.funcs[sel.Sel.Name]; ok && f.ret != "" {
					if define {
						c.declare(o, l.Name, f.ret, "default")
					}
					c.methodCall(o, call, l.Name)
					return true
				}
			}
			// inmap := make(map[byte]map[byte]bool)
			if id, ok := call.Fun.(*ast.Ident); ok && id.Name == "make" && len(call.Args) == 1 && types.ExprString(call.Args[0]) == "map[byte]map[byte]bool" {
				c.setLocal(o, define, l.Name, tExt, "[]")
				return true
			}
		}
		s, t := c.expr(x.Rhs[0])
		if t == tUntyped {
			if !define && c.locals[l.Name] == tFloat {
				s, t = "("+s+" : Rat)", tFloat
			} else {
				t = tInt
			}
		}
		c.setLocal(o, define, l.Name, t, s)
		return true
	case *ast.SelectorExpr:
		if isSel(l, "d", "externalNoteTracker") {
			id, ok := x.Rhs[0].(*ast.Ident)
			if !ok || c.locals[id.Name] != tExt {
				glfail("externalNoteTracker assignment")
			}
			o.line("d := d.setExt (%s)", id.Name)
			return true
		}
		lhs, t := c.expr(l)
		if !strings.HasPrefix(lhs, "d.") {
			glfail("assignment to %s", types.ExprString(l))
		}
		r, tr := c.expr(x.Rhs[0])
		if tr == tUntyped && (t == tInt || t == tU8) {
			r = c.wrap(t, r)
		} else if tr != t {
			glfail("assignment of %s to field of type %s", tr, t)
		}
		o.line("d := d.%s (%s)", glSetter(strings.TrimPrefix(lhs, "d.")), r)
		return true
	case *ast.IndexExpr:
		// d.noteTracker[code] = [2]byte{note, channel}
		pair := func() string {
			cl, ok := x.Rhs[0].(*ast.CompositeLit)
			if !ok || types.ExprString(cl.Type) != "[2]byte" || len(cl.Elts) != 2 {
				glfail("tracker value")
			}
			return fmt.Sprintf("((%s).toNat, (%s).toNat)", c.asU8(cl.Elts[0]), c.asU8(cl.Elts[1]))
		}
		if isSel(l.X, "d", "noteTracker") {
			k, t := c.expr(l.Index)
			if t != tCode {
				glfail("noteTracker key %s", t)
			}
			o.line("d := d.setNoteTr (ainsert %s %s d.noteTr)", k, pair())
			return true
		}
		if isSel(l.X, "d", "analogNoteTracker") {
			k, t := c.expr(l.Index)
			if t != tString {
				glfail("analogNoteTracker key %s", t)
			}
			o.line("d := d.setAnaTr (ainsert %s %s d.anaTr)", k, pair())
			return true
		}
		if isSel(l.X, "d", "keyTracker") {
			k, t := c.expr(l.Index)
			if t != tCode {
				glfail("keyTracker key %s", t)
			}
			if types.ExprString(x.Rhs[0]) != "struct{}{}" {
				glfail("keyTracker value")
			}
			o.line("d := d.setKeyTr (sinsert %s d.keyTr)", k)
			return true
		}
		if isSel(l.X, "d", "actionTracker") {
			k, t := c.expr(l.Index)
			if t != tAction {
				glfail("actionTracker key %s", t)
			}
			if types.ExprString(x.Rhs[0]) != "true" {
				glfail("actionTracker value") // a false entry would still count in len()
			}
			o.line("d := d.setActTr (sinsert %s d.actTr)", k)
			return true
		}
		if isSel(l.X, "d", "ccZeroed") {
			v := types.ExprString(x.Rhs[0])
			if v != "true" && v != "false" {
				glfail("ccZeroed value")
			}
			o.line("d := d.setZeroedG (%s) %s", c.asU8(l.Index), v)
			return true
		}
		if in, ok := l.X.(*ast.IndexExpr); ok && isSel(in.X, "d", "lastAnalogValue") {
			sub, t1 := c.expr(in.Index)
			code, t2 := c.expr(l.Index)
			v, t3 := c.expr(x.Rhs[0])
			if t1 != tSub || t2 != tCode || t3 != tFloat {
				glfail("lastAnalogValue assignment types")
			}
			o.line("d := d.setLastAna %s %s %s", sub, code, v)
			return true
		}
		if in, ok := l.X.(*ast.IndexExpr); ok && isSel(in.X, "d", "externalNoteTracker") {
			if types.ExprString(x.Rhs[0]) != "true" {
				glfail("externalNoteTracker value")
			}
			o.line("d := d.setExt (sinsert ((%s).toNat, (%s).toNat) d.ext)", c.asU8(in.Index), c.asU8(l.Index))
			return true
		}
		// inmap[i] = make(map[byte]bool)
		if id, ok := l.X.(*ast.Ident); ok && c.locals[id.Name] == tExt {
			if types.ExprString(x.Rhs[0]) != "make(map[byte]bool)" {
				glfail("ext map value")
			}
			k := c.asU8(l.Index)
			o.line("%s := extClearCh %s %s", c.lname(id.Name), c.lname(id.Name), k)
			return true
		}
	}
	glfail("assignment %s", types.ExprString(x.Lhs[0]))
	return false
}

// ---------------------------------------------------------------- driver

func genBodies() {
	fset := token.NewFileSet()
	_ = fset
	_, dev := parse("internal/pkg/midi/device/device.go")
	_, evs := parse("internal/pkg/midi/device/events.go")
	c := &glCtx{funcs: map[string]*glFunc{}, fields: map[string]string{}, consts: map[string]string{}}
	for _, f := range []*ast.File{dev, evs} {
		if f == nil {
			continue
		}
		for k, v := range fileConsts(f) {
			if v != nil && v.Kind() == constant.Int {
				c.consts[k] = v.ExactString()
			}
		}
		ast.Inspect(f, func(n ast.Node) bool {
			ts, ok := n.(*ast.TypeSpec)
			if !ok || ts.Name.Name != "Device" {
				return true
			}
			if st, ok := ts.Type.(*ast.StructType); ok {
				for _, fl := range st.Fields.List {
					for _, nm := range fl.Names {
						c.fields[nm.Name] = types.ExprString(fl.Type)
					}
				}
			}
			return false
		})
	}
	order := []struct {
		file *ast.File
		name string
	}{
		{dev, "OctaveDown"}, {dev, "OctaveUp"}, {dev, "OctaveReset"}, {dev, "SemitoneDown"}, {dev, "SemitoneUp"}, {dev, "SemitoneReset"},
		{dev, "MappingDown"}, {dev, "MappingUp"}, {dev, "MappingReset"}, {dev, "ChannelDown"}, {dev, "ChannelUp"}, {dev, "ChannelReset"},
		{dev, "CCLearningOn"}, {dev, "CCLearningOff"}, {dev, "Panic"}, {dev, "checkDoubleActions"},
		{dev, "NoteOn"}, {dev, "NoteOff"}, {dev, "AnalogNoteOn"}, {dev, "AnalogNoteOff"},
		{evs, "checkExitSequence"}, {evs, "handleKEYEvent"}, {evs, "handleABSEvent"}, {evs, "processEvent"},
	}
	emit("/- GENERATED by /verif/tools/extract (golite.go) from internal/pkg/midi/device/{device,events}.go on every run.\n")
	emit("   Each definition is the translation of the Go method of the same name.  Do not edit. -/\n")
	emit("import Hidi.GoLite\nset_option linter.unusedVariables false\nnamespace Hidi.Gen.Body\nopen Hidi Hidi.GoLite\n\n")
	var okNames, failed []string
	// Multinote first: the key handler calls it
	if txt, err := c.translateMultinote(dev); err != "" {
		emit("-- Multinote: not translated: %s\n\n", strings.ReplaceAll(err, "\n", " "))
		failed = append(failed, "Multinote")
	} else {
		emit("%s\n", txt)
		okNames = append(okNames, "Multinote")
		glMultinoteTranslated = true
	}
	for _, it := range order {
		if it.file == nil {
			continue
		}
		fd := findFunc(it.file, it.name)
		if fd == nil || fd.Recv == nil {
			emit("-- %s: not found\n\n", it.name)
			failed = append(failed, it.name)
			continue
		}
		if it.name == "handleKEYEvent" {
			c.dispatch(dev, "actionsPress", "invokeActionPress")
			c.dispatch(dev, "actionsRelease", "invokeActionRelease")
		}
		text, err := c.translate(fd)
		if err != "" {
			emit("-- %s: not translated: %s\n\n", it.name, strings.ReplaceAll(err, "\n", " "))
			failed = append(failed, it.name)
			continue
		}
		emit("%s\n", text)
		okNames = append(okNames, it.name)
	}
	if txt, err := c.translateNewDevice(dev); err != "" {
		emit("-- NewDevice: not translated: %s\n\n", strings.ReplaceAll(err, "\n", " "))
		failed = append(failed, "NewDevice")
	} else {
		emit("%s\n", txt)
		okNames = append(okNames, "NewDevice")
	}
	if txt, err := c.translateCleanup(evs); err != "" {
		emit("-- ProcessEvents (clean-up): not translated: %s\n\n", strings.ReplaceAll(err, "\n", " "))
		failed = append(failed, "ProcessEvents.cleanup")
	} else {
		emit("%s\n", txt)
		okNames = append(okNames, "ProcessEvents.cleanup")
	}
	if txt, err := c.translateMidiIn(evs); err != "" {
		emit("-- handleInputEvents: not translated: %s\n\n", strings.ReplaceAll(err, "\n", " "))
		failed = append(failed, "handleInputEvents")
	} else {
		emit("%s\n", txt)
		okNames = append(okNames, "handleInputEvents")
	}
	var q []string
	for _, n := range okNames {
		q = append(q, leanStr(n))
	}
	emit("def translated : List String := [%s]\n", strings.Join(q, ", "))
	q = nil
	for _, n := range failed {
		q = append(q, leanStr(n))
	}
	emit("def notTranslated : List String := [%s]\n\n", strings.Join(q, ", "))
	emit("end Hidi.Gen.Body\n")
}

func (c *glCtx) translate(fd *ast.FuncDecl) (text string, err string) {
	defer func() {
		if r := recover(); r != nil {
			if f, ok := r.(glFail); ok {
				err = f.msg
				return
			}
			panic(r)
		}
	}()
	if len(fd.Recv.List) != 1 || len(fd.Recv.List[0].Names) != 1 || fd.Recv.List[0].Names[0].Name != "d" ||
		types.ExprString(fd.Recv.List[0].Type) != "*Device" {
		glfail("receiver")
	}
	f := &glFunc{name: fd.Name.Name, lean: glLeanName(fd.Name.Name)}
	c.cur = f
	c.locals = map[string]string{}
	c.rename = map[string]string{}
	c.scopes = []map[string]bool{{}}
	c.order = nil
	c.tmp = 0
	c.pre = nil
	c.brk = nil
	c.brkUsed = map[string]bool{}
	var sig []string
	for _, p := range fd.Type.Params.List {
		ts := types.ExprString(p.Type)
		for _, nm := range p.Names {
			switch ts {
			case "*input.InputEvent":
				if f.evParam != "" {
					glfail("two event parameters")
				}
				f.evParam = nm.Name
				f.params = append(f.params, nm.Name)
				f.ptypes = append(f.ptypes, "ev")
				sig = append(sig, "(ev_sub : Sub) (ev_node : String) (ev_code : Code) (ev_value : Int) (ev_type : Int)")
			case "byte", "uint8":
				f.params = append(f.params, nm.Name)
				f.ptypes = append(f.ptypes, tU8)
				// parameters are assignable in Go: shadow them with a mutable local
				sig = append(sig, fmt.Sprintf("(%s_0 : Int)", nm.Name))
			case "string":
				f.params = append(f.params, nm.Name)
				f.ptypes = append(f.ptypes, tString)
				c.locals[nm.Name] = tString
				sig = append(sig, fmt.Sprintf("(%s : Code × Bool)", nm.Name))
			default:
				glfail("parameter of type %s", ts)
			}
		}
	}
	if fd.Type.Results != nil {
		if len(fd.Type.Results.List) != 1 || types.ExprString(fd.Type.Results.List[0].Type) != "bool" {
			glfail("result type")
		}
		f.ret = tBool
	}
	retT := "GSt"
	if f.ret == tBool {
		retT = "GSt × Bool"
	}
	sg := ""
	if len(sig) > 0 {
		sg = " " + strings.Join(sig, " ")
	}
	if glSegmented[f.name] {
		return c.translateSegmented(fd, f, sg, retT), ""
	}
	o := &glOut{indent: 1}
	o.line("let mut d := d0")
	for i, p := range f.params {
		if f.ptypes[i] == tU8 {
			c.locals[p] = tU8
			o.line("let mut %s : Int := %s_0", p, p)
		}
	}
	c.block(o, fd.Body.List, 0)
	// falling off the end
	if f.ret == "" {
		if _, ok := fd.Body.List[len(fd.Body.List)-1].(*ast.ReturnStmt); !ok {
			o.line("return d")
		}
	} else {
		last := fd.Body.List[len(fd.Body.List)-1]
		if _, ok := last.(*ast.ReturnStmt); !ok {
			glfail("missing final return")
		}
	}
	c.funcs[f.name] = f
	return fmt.Sprintf("def %s (d0 : GSt)%s : %s := Id.run do\n%s", f.lean, sg, retT, o.b.String()), ""
}

// long methods are emitted as a chain of segments, one Lean definition each: a segment ends after every top-level
// compound statement (if / switch); it receives the state and the locals declared so far and tail-calls the next one.
// This keeps the terms the tie proofs work on small (no exponentially shared join points).
var glSegmented = map[string]bool{"handleABSEvent": true}

func (c *glCtx) leanType(typ string) string {
	t := map[string]string{tInt: "Int", tU8: "Int", tBool: "Bool", tKey: "Key", tEvent: "Out", tAction: "Action",
		tPair: "Nat × Nat", tExt: "List (Nat × Nat)", tCode: "Code", tSub: "Sub", tString: "Code × Bool", tMode: "Collision",
		tFloat: "Rat", tAnalog: "Analog", tAbsInfo: "Int × Int"}[typ]
	if t == "" {
		glfail("local of type %s", typ)
	}
	return t
}

func (c *glCtx) translateSegmented(fd *ast.FuncDecl, f *glFunc, sg, retT string) string {
	if f.ret != "" {
		glfail("segmented function with a result")
	}
	for _, t := range f.ptypes {
		if t != "ev" {
			glfail("segmented function with parameters")
		}
	}
	evArgs := ""
	if f.evParam != "" {
		evArgs = " " + c.evArgs()
	}
	type seg struct {
		params []string // Go names of the locals at the start
		body   string
	}
	var segs []seg
	cur := &glOut{indent: 1}
	start := append([]string(nil), c.order...)
	emitted := false
	closeSeg := func() {
		segs = append(segs, seg{start, cur.b.String()})
		cur = &glOut{indent: 1}
		start = append([]string(nil), c.order...)
		emitted = false
	}
	for i, st := range fd.Body.List {
		if c.stmt(cur, st, 0) {
			emitted = true
		}
		compound := false
		switch x := st.(type) {
		case *ast.IfStmt:
			compound = !isLogOnlyIf(x)
		case *ast.SwitchStmt:
			compound = true
		}
		if compound && i != len(fd.Body.List)-1 {
			closeSeg()
		}
	}
	_ = emitted
	segs = append(segs, seg{start, cur.b.String()})
	endLocals := append([]string(nil), c.order...)
	var b strings.Builder
	for k := len(segs) - 1; k >= 0; k-- {
		var ps []string
		var decl strings.Builder
		for _, n := range segs[k].params {
			ps = append(ps, fmt.Sprintf("(%s_0 : %s)", c.lname(n), c.leanType(c.locals[n])))
			fmt.Fprintf(&decl, "  let mut %s : %s := %s_0\n", c.lname(n), c.leanType(c.locals[n]), c.lname(n))
		}
		p := ""
		if len(ps) > 0 {
			p = " " + strings.Join(ps, " ")
		}
		var tail string
		if k == len(segs)-1 {
			tail = "  return d\n"
		} else {
			var as []string
			for _, n := range segs[k+1].params {
				as = append(as, c.lname(n))
			}
			a := ""
			if len(as) > 0 {
				a = " " + strings.Join(as, " ")
			}
			tail = fmt.Sprintf("  return %s_s%d d%s%s\n", f.lean, k+1, evArgs, a)
		}
		fmt.Fprintf(&b, "def %s_s%d (d0 : GSt)%s%s : %s := Id.run do\n  let mut d := d0\n%s%s%s\n", f.lean, k, sg, p, retT,
			decl.String(), segs[k].body, tail)
	}
	_ = endLocals
	fmt.Fprintf(&b, "def %s (d0 : GSt)%s : %s := %s_s0 d0%s\n", f.lean, sg, retT, f.lean, evArgs)
	c.funcs[f.name] = f
	return b.String()
}

// dispatch translates the table `name := map[config.Action]func(*Device){ config.X: (*Device).Method, … }` of NewDevice
// into a match over the action
var glMultinoteTranslated bool

func (c *glCtx) dispatch(dev *ast.File, name, lean string) {
	fd := findFunc(dev, "NewDevice")
	var lit *ast.CompositeLit
	if fd != nil {
		ast.Inspect(fd, func(n ast.Node) bool {
			as, ok := n.(*ast.AssignStmt)
			if !ok || len(as.Lhs) != 1 || len(as.Rhs) != 1 {
				return true
			}
			if id, ok := as.Lhs[0].(*ast.Ident); ok && id.Name == name {
				if cl, ok := as.Rhs[0].(*ast.CompositeLit); ok {
					lit = cl
				}
			}
			return true
		})
	}
	if lit == nil || types.ExprString(lit.Type) != "map[config.Action]func(*Device)" {
		emit("-- %s: table not found\n\n", name)
		return
	}
	var arms []string
	seen := map[string]bool{}
	for _, el := range lit.Elts {
		kv, ok := el.(*ast.KeyValueExpr)
		if !ok {
			emit("-- %s: entry shape\n\n", name)
			return
		}
		ks, ok := kv.Key.(*ast.SelectorExpr)
		if !ok || !isSel(ks.X, "config") || glActionNames[ks.Sel.Name] == "" || seen[ks.Sel.Name] {
			emit("-- %s: key %s\n\n", name, types.ExprString(kv.Key))
			return
		}
		seen[ks.Sel.Name] = true
		switch v := kv.Value.(type) {
		case *ast.SelectorExpr: // (*Device).Method
			if types.ExprString(v.X) != "(*Device)" {
				emit("-- %s: value %s\n\n", name, types.ExprString(v))
				return
			}
			f, ok := c.funcs[v.Sel.Name]
			if !ok || f.ret != "" || len(f.params) != 0 {
				emit("-- %s: method %s is not translated\n\n", name, v.Sel.Name)
				return
			}
			arms = append(arms, fmt.Sprintf("  | .%s => %s d", glActionNames[ks.Sel.Name], f.lean))
		case *ast.FuncLit:
			if len(v.Body.List) != 0 {
				emit("-- %s: function literal with a body\n\n", name)
				return
			}
			arms = append(arms, fmt.Sprintf("  | .%s => d", glActionNames[ks.Sel.Name]))
		default:
			emit("-- %s: value %s\n\n", name, types.ExprString(kv.Value))
			return
		}
	}
	emit("def %s (d : GSt) (a : Action) : GSt :=\n  match a with\n%s\n  | _ => d\n\n", lean, strings.Join(arms, "\n"))
}

func glLeanName(goName string) string {
	if goName == "Panic" {
		return "panicAction" // `panic` is a Lean function
	}
	return lowerFirst(goName)
}

func glSetter(field string) string { return "set" + strings.ToUpper(field[:1]) + field[1:] }

// translateMidiIn: the body of `case ev := <-d.midiIn:` in the select loop of handleInputEvents, as a function of the
// three bytes of the message
func (c *glCtx) translateMidiIn(evs *ast.File) (text string, err string) {
	defer func() {
		if r := recover(); r != nil {
			if f, ok := r.(glFail); ok {
				err = f.msg
				return
			}
			panic(r)
		}
	}()
	fd := findFunc(evs, "handleInputEvents")
	if fd == nil {
		glfail("not found")
	}
	var clause *ast.CommClause
	var loops, selects int
	ast.Inspect(fd.Body, func(n ast.Node) bool {
		switch x := n.(type) {
		case *ast.ForStmt:
			loops++
		case *ast.SelectStmt:
			selects++
		case *ast.CommClause:
			if as, ok := x.Comm.(*ast.AssignStmt); ok && len(as.Lhs) == 1 && len(as.Rhs) == 1 {
				if u, ok := as.Rhs[0].(*ast.UnaryExpr); ok && u.Op == token.ARROW && isSel(u.X, "d", "midiIn") {
					if clause != nil {
						glfail("two receive clauses on midiIn")
					}
					clause = x
				}
			}
		}
		return true
	})
	if clause == nil || loops != 1 || selects != 1 {
		glfail("shape: %d loops, %d selects, receive clause found: %v", loops, selects, clause != nil)
	}
	ev := clause.Comm.(*ast.AssignStmt).Lhs[0].(*ast.Ident).Name
	f := &glFunc{name: "handleInputEvents", lean: "midiInBody"}
	c.cur = f
	c.locals = map[string]string{ev: tMidiEv}
	c.rename = map[string]string{}
	c.scopes = []map[string]bool{{}}
	c.tmp = 0
	c.pre = nil
	c.brk = nil
	c.brkUsed = map[string]bool{}
	o := &glOut{indent: 1}
	o.line("let mut d := d0")
	c.block(o, clause.Body, 0)
	o.line("return d")
	return fmt.Sprintf("def midiInBody (d0 : GSt) (%s_a %s_b %s_c : Int) : GSt := Id.run do\n%s", ev, ev, ev, o.b.String()), ""
}

// glFloatLit: a Go floating-point literal as the nearest binary64, on rationals: rnd53 (num / den)
func glFloatLit(v string) string {
	if strings.ContainsAny(v, "eExXpP_") {
		glfail("float literal %s", v)
	}
	parts := strings.SplitN(v, ".", 2)
	num := parts[0]
	den := "1"
	if len(parts) == 2 {
		num += parts[1]
		den += strings.Repeat("0", len(parts[1]))
	}
	num = strings.TrimLeft(num, "0")
	if num == "" {
		num = "0"
	}
	return "(rnd53 ((" + num + " : Rat) / " + den + "))"
}

// eventLiteral: &input.InputEvent{Source: input.Handler{Name: …}, Event: evdev.InputEvent{Type: …, Code: …, Value: …}}
// as the five event arguments (missing fields are zero values)
func (c *glCtx) eventLiteral(cl *ast.CompositeLit) string {
	sub, code, value, typ := `("" : Sub)`, "(0 : Code)", "(0 : Int)", "(0 : Int)"
	for _, el := range cl.Elts {
		kv, ok := el.(*ast.KeyValueExpr)
		if !ok {
			glfail("event literal")
		}
		inner, ok := kv.Value.(*ast.CompositeLit)
		if !ok {
			glfail("event literal field")
		}
		switch types.ExprString(kv.Key) {
		case "Source":
			for _, e2 := range inner.Elts {
				kv2 := e2.(*ast.KeyValueExpr)
				switch types.ExprString(kv2.Key) {
				case "Name":
					s, t := c.expr(kv2.Value)
					if t != tSub {
						glfail("event literal Name of type %s", t)
					}
					sub = s
				case "DeviceInfo":
					// only used for logging
				default:
					glfail("event literal Source.%s", types.ExprString(kv2.Key))
				}
			}
		case "Event":
			for _, e2 := range inner.Elts {
				kv2 := e2.(*ast.KeyValueExpr)
				switch types.ExprString(kv2.Key) {
				case "Time":
				case "Type":
					s, _ := c.expr(kv2.Value)
					typ = s
				case "Code":
					s, t := c.expr(kv2.Value)
					if t != tCode {
						glfail("event literal Code of type %s", t)
					}
					code = s
				case "Value":
					s, _ := c.expr(kv2.Value)
					value = s
				default:
					glfail("event literal Event.%s", types.ExprString(kv2.Key))
				}
			}
		default:
			glfail("event literal field %s", types.ExprString(kv.Key))
		}
	}
	return fmt.Sprintf("%s \"\" %s %s %s", sub, code, value, typ)
}

// translateCleanup: the statements of ProcessEvents between `d.eventProcessMutex.Lock()` and `.Unlock()` after the
// event loop — the disconnect clean-up
func (c *glCtx) translateCleanup(evs *ast.File) (text string, err string) {
	defer func() {
		if r := recover(); r != nil {
			if f, ok := r.(glFail); ok {
				err = f.msg
				return
			}
			panic(r)
		}
	}()
	fd := findFunc(evs, "ProcessEvents")
	if fd == nil {
		glfail("not found")
	}
	isMutex := func(s ast.Stmt, name string) bool {
		es, ok := s.(*ast.ExprStmt)
		if !ok {
			return false
		}
		call, ok := es.X.(*ast.CallExpr)
		if !ok {
			return false
		}
		sel, ok := call.Fun.(*ast.SelectorExpr)
		return ok && sel.Sel.Name == name && isSel(sel.X, "d", "eventProcessMutex")
	}
	// after the `for ie := range inputEvents` loop
	start, lock, unlock := -1, -1, -1
	for i, st := range fd.Body.List {
		if rs, ok := st.(*ast.RangeStmt); ok && types.ExprString(rs.X) == "inputEvents" {
			start = i
		}
		if start >= 0 && lock < 0 && isMutex(st, "Lock") {
			lock = i
		}
		if lock >= 0 && unlock < 0 && isMutex(st, "Unlock") {
			unlock = i
		}
	}
	if start < 0 || lock < 0 || unlock < 0 {
		glfail("shape: event loop %d, Lock %d, Unlock %d", start, lock, unlock)
	}
	// nothing but cancel() and logging between the loop and the lock
	for _, st := range fd.Body.List[start+1 : lock] {
		es, ok := st.(*ast.ExprStmt)
		if !ok {
			glfail("statement between the event loop and the clean-up")
		}
		txt := types.ExprString(es.X)
		if txt != "cancel()" && !strings.HasPrefix(txt, "log.") {
			glfail("statement between the event loop and the clean-up: %s", txt)
		}
	}
	f := &glFunc{name: "ProcessEvents.cleanup", lean: "cleanupBody"}
	c.cur = f
	c.locals = map[string]string{}
	c.rename = map[string]string{}
	c.scopes = []map[string]bool{{}}
	c.order = nil
	c.tmp = 0
	c.pre = nil
	c.brk = nil
	c.brkUsed = map[string]bool{}
	o := &glOut{indent: 1}
	o.line("let mut d := d0")
	c.block(o, fd.Body.List[lock+1:unlock], 0)
	o.line("return d")
	return fmt.Sprintf("def cleanupBody (d0 : GSt) : GSt := Id.run do\n%s", o.b.String()), ""
}

// translateNewDevice: the initial state built by NewDevice.  The scalar fields of the `Device{…}` literal are translated
// (defaults from the configuration, with their conversions); every map-valued field must be initialised to an empty map —
// `make(…)` directly or a local that is built from `make(…)` and filled only with zero values / empty maps — which is the
// empty tracker of GSt (a missing counter reads as 0).
func (c *glCtx) translateNewDevice(dev *ast.File) (text string, err string) {
	defer func() {
		if r := recover(); r != nil {
			if f, ok := r.(glFail); ok {
				err = f.msg
				return
			}
			panic(r)
		}
	}()
	fd := findFunc(dev, "NewDevice")
	if fd == nil {
		glfail("not found")
	}
	cfgName := ""
	for _, p := range fd.Type.Params.List {
		if types.ExprString(p.Type) == "config.DeviceConfig" && len(p.Names) == 1 {
			cfgName = p.Names[0].Name
		}
	}
	if cfgName == "" {
		glfail("configuration parameter")
	}
	// locals that are empty maps: declared from make(…) and only ever assigned zero values / empty maps / `true` set marks
	emptyMaps := map[string]bool{}
	ast.Inspect(fd.Body, func(n ast.Node) bool {
		switch x := n.(type) {
		case *ast.AssignStmt:
			if len(x.Lhs) == 1 && len(x.Rhs) == 1 {
				if id, ok := x.Lhs[0].(*ast.Ident); ok && x.Tok == token.DEFINE {
					if call, ok := x.Rhs[0].(*ast.CallExpr); ok {
						if f, ok := call.Fun.(*ast.Ident); ok && f.Name == "make" && strings.HasPrefix(types.ExprString(call.Args[0]), "map[") {
							emptyMaps[id.Name] = true
						}
					}
				}
			}
		case *ast.ValueSpec:
			if len(x.Names) == 1 && len(x.Values) == 1 {
				if call, ok := x.Values[0].(*ast.CallExpr); ok {
					if f, ok := call.Fun.(*ast.Ident); ok && f.Name == "make" && strings.HasPrefix(types.ExprString(call.Args[0]), "map[") {
						emptyMaps[x.Names[0].Name] = true
					}
				}
			}
		}
		return true
	})
	// what is stored into those maps
	ast.Inspect(fd.Body, func(n ast.Node) bool {
		as, ok := n.(*ast.AssignStmt)
		if !ok || len(as.Lhs) != 1 || len(as.Rhs) != 1 {
			return true
		}
		ix, ok := as.Lhs[0].(*ast.IndexExpr)
		if !ok {
			return true
		}
		base, ok := ix.X.(*ast.Ident)
		if !ok || !emptyMaps[base.Name] {
			return true
		}
		v := types.ExprString(as.Rhs[0])
		if id, ok := as.Rhs[0].(*ast.Ident); ok && emptyMaps[id.Name] {
			return true
		}
		if v == "0" || strings.HasPrefix(v, "make(map[") {
			return true
		}
		if base.Name == "subhandlers" && v == "true" {
			return true // a set of names used only to size lastAnalogValue
		}
		glfail("%s[…] = %s: a tracker does not start empty", base.Name, v)
		return true
	})
	var lit *ast.CompositeLit
	ast.Inspect(fd.Body, func(n ast.Node) bool {
		if cl, ok := n.(*ast.CompositeLit); ok && types.ExprString(cl.Type) == "Device" {
			if lit != nil {
				glfail("two Device literals")
			}
			lit = cl
		}
		return true
	})
	if lit == nil {
		glfail("Device literal")
	}
	defaults := map[string]string{"Octave": "cfg.defOct", "Semitone": "cfg.defSemi", "Channel": "cfg.defCh", "Mapping": "(cfg.defMap : Int)", "Velocity": "cfg.vel"}
	var ex func(e ast.Expr) (string, string)
	ex = func(e ast.Expr) (string, string) {
		switch x := e.(type) {
		case *ast.ParenExpr:
			return ex(x.X)
		case *ast.BasicLit:
			if x.Kind == token.INT {
				return "(" + x.Value + " : Int)", tUntyped
			}
		case *ast.Ident:
			if x.Name == "true" || x.Name == "false" {
				return x.Name, tBool
			}
		case *ast.SelectorExpr:
			if isSel(x.X, cfgName, "Config", "Defaults") {
				if d, ok := defaults[x.Sel.Name]; ok {
					return d, tInt
				}
			}
		case *ast.BinaryExpr:
			l, tl := ex(x.X)
			r, tr := ex(x.Y)
			t := c.unify(tl, tr)
			if (x.Op == token.ADD || x.Op == token.SUB) && (t == tInt || t == tU8) {
				return c.wrap(t, l+" "+x.Op.String()+" "+r), t
			}
		case *ast.CallExpr:
			if id, ok := x.Fun.(*ast.Ident); ok && len(x.Args) == 1 {
				s, t := ex(x.Args[0])
				if t == tInt || t == tU8 || t == tUntyped {
					switch id.Name {
					case "uint8", "byte":
						return c.wrap(tU8, s), tU8
					case "int":
						return c.wrap(tInt, s), tInt
					}
				}
			}
		}
		glfail("initial value %s", types.ExprString(e))
		return "", ""
	}
	want := map[string][2]string{"octave": {"octave", tInt}, "semitone": {"semitone", tInt}, "channel": {"channel", tU8}, "velocity": {"velocity", tU8},
		"mapping": {"mapping", tInt}, "ccLearning": {"learning", tBool}}
	vals := map[string]string{}
	for _, el := range lit.Elts {
		kv, ok := el.(*ast.KeyValueExpr)
		if !ok {
			glfail("positional Device literal")
		}
		name := types.ExprString(kv.Key)
		if w, ok := want[name]; ok {
			s, t := ex(kv.Value)
			if t == tUntyped {
				t = w[1]
				s = c.wrap(t, s)
			}
			if t != w[1] || c.fields[name] != map[string]string{tInt: "int", tU8: "uint8", tBool: "bool"}[w[1]] {
				glfail("field %s: value of type %s, field type %s", name, t, c.fields[name])
			}
			vals[w[0]] = s
			continue
		}
		switch name {
		case "noteTracker", "keyTracker", "analogNoteTracker", "actionTracker", "ccZeroed", "activeNotesCounter", "externalNoteTracker", "lastAnalogValue":
			v := kv.Value
			if id, ok := v.(*ast.Ident); ok && emptyMaps[id.Name] {
				continue
			}
			if call, ok := v.(*ast.CallExpr); ok {
				if f, ok := call.Fun.(*ast.Ident); ok && f.Name == "make" && strings.HasPrefix(types.ExprString(call.Args[0]), "map[") {
					continue
				}
			}
			glfail("field %s is not initialised to an empty map: %s", name, types.ExprString(v))
		case "multiNote":
			if types.ExprString(kv.Value) != "[]int{}" {
				glfail("multiNote initial value")
			}
		}
	}
	for _, w := range want {
		if _, ok := vals[w[0]]; !ok {
			// an omitted field is the zero value
			if w[1] == tBool {
				vals[w[0]] = "false"
			} else {
				vals[w[0]] = c.wrap(w[1], "(0 : Int)")
			}
		}
	}
	return fmt.Sprintf("def newDevice (cfg : Config) : GSt :=\n  { cfg := cfg, octave := %s, semitone := %s, channel := %s, velocity := %s,\n    mapping := %s, learning := %s,\n"+
		"    multi := [], noteTr := [], anaTr := [], counter := [], actTr := [], keyTr := [], ext := [], lastAna := [], ccZeroed := [], out := [], dead := false }\n",
		vals["octave"], vals["semitone"], vals["channel"], vals["velocity"], vals["mapping"], vals["learning"]), ""
}
