package main

// A dedicated translator for the message constructors of internal/pkg/midi/event.go (`NoteEvent`, `ControlChangeEvent`,
// `PitchBendEvent`): straight-line code over `uint8`, `int` and `float64` ending in `return Event{a, b, c}`.
//   uint8 values are Lean `Nat`s (< 256 by construction: parameters are bytes, `|` and `&` of bytes are bytes,
//   `uint8(x)` is `u8 x` = x mod 256), `int` is `Int` (`x >> k` = floor division by 2^k, `x & (2^k-1)` = Euclidean
//   remainder by 2^k — both exact for negative x in two's complement), `float64` is the softfloat of `Hidi/Float.lean`
//   (`fadd`, `fsub`, `fmul`, `fdiv`, `int(math.Round(x))` = `fround x`), constant expressions are folded with go/constant.
// Anything else is a translation failure, not a guess.
// Output: `Hidi/Gen/MidiEv.lean`; `HidiProofs/Props/C05midiev.lean` proves each equal to the model's constructor
// (`Hidi.noteEvent`, `ccEvent`, `pitchBendEvent` of `Hidi/Engine.lean`), which until now was a modelled primitive.

import (
	"fmt"
	"go/ast"
	"go/constant"
	"go/token"
	"go/types"
	"strings"
)

type mvVal struct {
	lean string
	typ  string         // "u8", "int", "f64", "const"
	c    constant.Value // for typ == "const"
}

type mvCtx struct {
	consts map[string]constant.Value
	vars   map[string]string
}

func mvConstLean(v constant.Value, typ string) string {
	switch typ {
	case "u8":
		return fmt.Sprintf("(%s : Nat)", v.ExactString())
	case "int":
		return fmt.Sprintf("(%s : Int)", v.ExactString())
	case "f64":
		n, d := constant.Num(v), constant.Denom(v)
		if d.ExactString() == "1" {
			return fmt.Sprintf("(%s : Rat)", n.ExactString())
		}
		return fmt.Sprintf("((%s : Rat) / %s)", n.ExactString(), d.ExactString())
	}
	glfail("constant of type %s", typ)
	return ""
}

// coerce a value to the wanted type (only constants change representation)
func (c *mvCtx) as(v mvVal, typ string) string {
	if v.typ == typ {
		return v.lean
	}
	if v.typ == "const" {
		if typ == "u8" {
			if i, ok := constant.Int64Val(constant.ToInt(v.c)); !ok || i < 0 || i > 255 {
				glfail("constant %s is not a byte", v.c.ExactString())
			}
		}
		if typ != "f64" && constant.ToInt(v.c).Kind() != constant.Int {
			glfail("constant %s is not an integer", v.c.ExactString())
		}
		return mvConstLean(v.c, typ)
	}
	glfail("value of type %s where %s is needed", v.typ, typ)
	return ""
}

func mvPow2(v constant.Value) (int64, bool) { // v = 2^k - 1 ?  returns 2^k
	i, ok := constant.Int64Val(constant.ToInt(v))
	if !ok || i <= 0 {
		return 0, false
	}
	if (i+1)&i != 0 {
		return 0, false
	}
	return i + 1, true
}

func (c *mvCtx) expr(e ast.Expr) mvVal {
	switch x := e.(type) {
	case *ast.ParenExpr:
		return c.expr(x.X)
	case *ast.BasicLit:
		if x.Kind != token.INT && x.Kind != token.FLOAT {
			glfail("literal %s", x.Value)
		}
		return mvVal{typ: "const", c: constant.MakeFromLiteral(x.Value, x.Kind, 0)}
	case *ast.Ident:
		if t, ok := c.vars[x.Name]; ok {
			return mvVal{lean: "«" + x.Name + "»", typ: t}
		}
		if v, ok := c.consts[x.Name]; ok && v != nil && (v.Kind() == constant.Int || v.Kind() == constant.Float) {
			return mvVal{typ: "const", c: v}
		}
		glfail("identifier %s", x.Name)
	case *ast.BinaryExpr:
		a, b := c.expr(x.X), c.expr(x.Y)
		if a.typ == "const" && b.typ == "const" {
			if x.Op == token.SHL || x.Op == token.SHR {
				s, ok := constant.Uint64Val(constant.ToInt(b.c))
				if !ok || s > 62 {
					glfail("shift count")
				}
				return mvVal{typ: "const", c: constant.Shift(constant.ToInt(a.c), x.Op, uint(s))}
			}
			op := x.Op
			if op == token.QUO && a.c.Kind() == constant.Int && b.c.Kind() == constant.Int {
				op = token.QUO_ASSIGN // integer division of constants
			}
			return mvVal{typ: "const", c: constant.BinaryOp(a.c, op, b.c)}
		}
		typ := a.typ
		if typ == "const" {
			typ = b.typ
		}
		if (a.typ != "const" && a.typ != typ) || (b.typ != "const" && b.typ != typ) {
			glfail("operands of types %s and %s", a.typ, b.typ)
		}
		switch typ {
		case "f64":
			fn := map[token.Token]string{token.ADD: "fadd", token.SUB: "fsub", token.MUL: "fmul", token.QUO: "fdiv"}[x.Op]
			if fn == "" {
				glfail("float operator %s", x.Op)
			}
			return mvVal{lean: fmt.Sprintf("(%s %s %s)", fn, c.as(a, "f64"), c.as(b, "f64")), typ: "f64"}
		case "u8":
			op := map[token.Token]string{token.OR: "|||", token.AND: "&&&"}[x.Op]
			if op == "" {
				glfail("byte operator %s (may wrap)", x.Op)
			}
			return mvVal{lean: fmt.Sprintf("(%s %s %s)", c.as(a, "u8"), op, c.as(b, "u8")), typ: "u8"}
		case "int":
			switch x.Op {
			case token.ADD, token.SUB, token.MUL:
				return mvVal{lean: fmt.Sprintf("(%s %s %s)", c.as(a, "int"), x.Op, c.as(b, "int")), typ: "int"}
			case token.SHR:
				if b.typ != "const" {
					glfail("variable shift")
				}
				s, ok := constant.Uint64Val(constant.ToInt(b.c))
				if !ok || s > 62 {
					glfail("shift count")
				}
				return mvVal{lean: fmt.Sprintf("(%s / (%d : Int))", c.as(a, "int"), int64(1)<<s), typ: "int"}
			case token.AND:
				if b.typ != "const" {
					a, b = b, a
				}
				if b.typ != "const" {
					glfail("& of two variables")
				}
				m, ok := mvPow2(b.c)
				if !ok {
					glfail("mask %s is not 2^k-1", b.c.ExactString())
				}
				return mvVal{lean: fmt.Sprintf("(%s %% (%d : Int))", c.as(a, "int"), m), typ: "int"}
			}
			glfail("int operator %s", x.Op)
		}
		glfail("operator %s on %s", x.Op, typ)
	case *ast.CallExpr:
		fn := types.ExprString(x.Fun)
		if len(x.Args) != 1 {
			glfail("call %s", fn)
		}
		switch fn {
		case "uint8", "byte":
			a := c.expr(x.Args[0])
			switch a.typ {
			case "u8":
				return a
			case "int":
				return mvVal{lean: fmt.Sprintf("(u8 %s)", a.lean), typ: "u8"}
			case "const":
				return mvVal{lean: c.as(a, "u8"), typ: "u8"}
			}
			glfail("uint8 of %s", a.typ)
		case "int":
			if call, ok := x.Args[0].(*ast.CallExpr); ok && types.ExprString(call.Fun) == "math.Round" && len(call.Args) == 1 {
				a := c.expr(call.Args[0])
				return mvVal{lean: fmt.Sprintf("(fround %s)", c.as(a, "f64")), typ: "int"}
			}
			a := c.expr(x.Args[0])
			switch a.typ {
			case "u8":
				return mvVal{lean: fmt.Sprintf("((%s : Nat) : Int)", a.lean), typ: "int"}
			case "int":
				return a
			case "const":
				return mvVal{lean: c.as(a, "int"), typ: "int"}
			}
			glfail("int of %s (truncation of a float is not translated)", a.typ)
		case "float64":
			a := c.expr(x.Args[0])
			switch a.typ {
			case "const":
				return mvVal{lean: c.as(a, "f64"), typ: "f64"}
			case "f64":
				return a
			}
			glfail("float64 of %s", a.typ)
		}
		glfail("call %s", fn)
	}
	glfail("expression %s", types.ExprString(e))
	return mvVal{}
}

func translateMidiCtor(f *ast.File, name string) (text string, err string) {
	defer func() {
		if r := recover(); r != nil {
			if g, ok := r.(glFail); ok {
				err = g.msg
				return
			}
			panic(r)
		}
	}()
	fd := findFunc(f, name)
	if fd == nil || fd.Recv != nil || fd.Body == nil {
		glfail("not found")
	}
	if fd.Type.Results == nil || len(fd.Type.Results.List) != 1 || types.ExprString(fd.Type.Results.List[0].Type) != "Event" {
		glfail("result type")
	}
	c := &mvCtx{consts: fileConsts(f), vars: map[string]string{}}
	var params []string
	for _, fl := range fd.Type.Params.List {
		t := map[string]string{"uint8": "u8", "byte": "u8", "float64": "f64", "int": "int"}[types.ExprString(fl.Type)]
		if t == "" {
			glfail("parameter type %s", types.ExprString(fl.Type))
		}
		lt := map[string]string{"u8": "Nat", "f64": "Rat", "int": "Int"}[t]
		for _, n := range fl.Names {
			c.vars[n.Name] = t
			params = append(params, fmt.Sprintf("(«%s» : %s)", n.Name, lt))
		}
	}
	var b strings.Builder
	returned := false
	for _, st := range fd.Body.List {
		if returned {
			glfail("statement after return")
		}
		switch x := st.(type) {
		case *ast.AssignStmt:
			if x.Tok != token.DEFINE || len(x.Lhs) != 1 || len(x.Rhs) != 1 {
				glfail("assignment shape")
			}
			id, ok := x.Lhs[0].(*ast.Ident)
			if !ok {
				glfail("assignment target")
			}
			if _, dup := c.vars[id.Name]; dup {
				glfail("%s redefined", id.Name)
			}
			v := c.expr(x.Rhs[0])
			t := v.typ
			if t == "const" { // an untyped constant becomes int (or float64)
				t = "int"
				if constant.ToInt(v.c).Kind() != constant.Int {
					t = "f64"
				}
			}
			lt := map[string]string{"u8": "Nat", "f64": "Rat", "int": "Int"}[t]
			fmt.Fprintf(&b, "  let «%s» : %s := %s\n", id.Name, lt, c.as(v, t))
			c.vars[id.Name] = t
		case *ast.ReturnStmt:
			if len(x.Results) != 1 {
				glfail("return shape")
			}
			cl, ok := x.Results[0].(*ast.CompositeLit)
			if !ok || types.ExprString(cl.Type) != "Event" {
				glfail("returned value is not an Event literal")
			}
			var elems []string
			for _, el := range cl.Elts {
				if _, kv := el.(*ast.KeyValueExpr); kv {
					glfail("keyed literal")
				}
				elems = append(elems, c.as(c.expr(el), "u8"))
			}
			fmt.Fprintf(&b, "  [%s]\n", strings.Join(elems, ", "))
			returned = true
		default:
			glfail("statement %T", st)
		}
	}
	if !returned {
		glfail("no return")
	}
	return fmt.Sprintf("/-- `%s` of internal/pkg/midi/event.go -/\ndef %s %s : List Nat :=\n%s", name, name, strings.Join(params, " "), b.String()), ""
}

func genMidiEv() {
	emit("/- GENERATED by /verif/tools/extract (midiev.go) from internal/pkg/midi/event.go on every run. Do not edit. -/\n")
	emit("import Hidi.Basic\nimport Hidi.Float\nset_option linter.unusedVariables false\nnamespace Hidi.Gen.MidiEv\nopen Hidi\n\n")
	_, f := parse("internal/pkg/midi/event.go")
	all := true
	for _, fn := range []string{"NoteEvent", "ControlChangeEvent", "PitchBendEvent"} {
		text, err := translateMidiCtor(f, fn)
		if err != "" {
			all = false
			emit("-- %s: not translated: %s\n\n", fn, strings.ReplaceAll(err, "\n", " "))
			continue
		}
		emit("%s\n", text)
	}
	emit("def midiCtorsTranslated : Bool := %v\n\nend Hidi.Gen.MidiEv\n", all)
}
