#!/usr/bin/env python3
"""parallel re-run of all seeds (own property) and refactors (their listed checks) in N lanes, each with its own copy of
/verif and its own worktree of /repo; results to /tmp/prerun/<name>.json"""
import json, os, subprocess, sys, glob
from concurrent.futures import ThreadPoolExecutor
LANES = int(sys.argv[1]) if len(sys.argv) > 1 else 4
only = sys.argv[2:] 
os.makedirs("/tmp/prerun", exist_ok=True)
def sh(c, **kw):
    p = subprocess.run(c, shell=True, stdout=subprocess.PIPE, stderr=subprocess.STDOUT, text=True, **kw)
    return p.returncode, p.stdout
head = sh("git -C /repo rev-parse HEAD")[1].strip()
jobs = []
for d in sorted(glob.glob("/verif/seeded/*/")):
    n = os.path.basename(d.rstrip("/"))
    jobs.append(("seeded", n, [n.split("-")[0]]))
for d in sorted(glob.glob("/verif/refactors/*/")):
    n = os.path.basename(d.rstrip("/"))
    m = json.load(open(d + "meta.json"))
    jobs.append(("refactors", n, sorted(m.get("checks", {}).keys())))
if only:
    jobs = [j for j in jobs if j[1] in only]
jobs = [j for j in jobs if not os.path.exists("/tmp/prerun/%s.json" % j[1])]
def lane(i):
    v, w = "/tmp/vlane%d" % i, "/tmp/wlane%d" % i
    sh("rsync -a --delete --exclude work --exclude .git --exclude 'build/*.test' --exclude 'build/*.lock' --exclude evidence /verif/ %s/" % v)
    if not os.path.isdir(w):
        sh("git -C /repo worktree add -f --detach %s %s" % (w, head))
    sh("git -C %s checkout -q --detach %s" % (w, head))
    for k, (kind, n, props) in enumerate(jobs):
        if k % LANES != i:
            continue
        sh("git -C %s reset -q --hard && git -C %s clean -fdq" % (w, w))
        rc, o = sh("git -C %s apply /verif/%s/%s/patch.diff" % (w, kind, n))
        res = {}
        if rc != 0:
            res = {"_apply": o[-300:]}
        else:
            for p in props:
                rc, o = sh("cd %s && VERIF_REPO=%s ./check %s quick" % (v, w, p))
                lines = [l for l in o.split("\n") if l.startswith(("VIOLATION", "KNOWN"))]
                res[p] = {"rc": rc, "lines": [l.replace(v, "/verif") for l in lines[:3]],
                          "with_input": any("no-failing-input-found" not in l for l in lines if l.startswith("VIOLATION"))}
        json.dump(res, open("/tmp/prerun/%s.json" % n, "w"))
        print(n, {p: (r.get("rc"), r.get("with_input")) if isinstance(r, dict) else r for p, r in res.items()}, flush=True)
    sh("git -C %s reset -q --hard && git -C %s clean -fdq" % (w, w))
with ThreadPoolExecutor(LANES) as ex:
    list(ex.map(lane, range(LANES)))
print("PRERUN-DONE")
