#!/usr/bin/env python3
"""seed_table.py [suffixes...] : markdown rows for /verif/seeded/<id>/meta.json (default: all)"""
import json, os, sys, glob
want = sys.argv[1:]
rows = []
for d in sorted(glob.glob("/verif/seeded/*/meta.json")):
    sid = d.split("/")[-2]
    if want and not any(sid.endswith(w) for w in want):
        continue
    m = json.load(open(d))
    def cell(t, n):
        t = " ".join((t or "").split()).replace("|", "\\|")
        return t[:n] + ("…" if len(t) > n else "")
    with_input, oblig = [], []
    for p, r in sorted(m.get("checks_run", {}).items()):
        ls = r.get("lines", [])
        if not ls:
            continue
        (oblig if all("no-failing-input-found" in l for l in ls) else with_input).append(p)
    later = []
    for p, r in sorted(m.get("checks_rerun", {}).items()):
        if r.get("lines") and p not in with_input:
            # the re-run after strengthening: with a failing input, or still through an obligation only
            wi = r.get("with_input", not all("no-failing-input-found" in l for l in r["lines"]))
            later.append(p if wi else p + " (obligation)")
    rows.append("| %s | %s | %s | %s | %s | %s |" % (sid, cell(m.get("summary"), 150), cell(m.get("needs"), 120),
                                               ", ".join(with_input) or "—", ", ".join(oblig) or "—", ", ".join(later) or "—"))
print("\n".join(rows))
