#!/bin/sh
# ptest.sh <patch-file> <prop> [tier]
rsync -a --delete --exclude work --exclude .git --exclude 'build/*.test' --exclude 'build/*.lock' --exclude evidence /verif/ /tmp/verif2/
cd /tmp/wtx && git reset -q --hard && git clean -fdq && git apply $1 || exit 3
tag=$(echo $1 | tr '/.' '__')
cd /tmp/verif2 && VERIF_REPO=/tmp/wtx ./check $2 ${3:-quick} > /tmp/pt_${tag}_$2.out 2>&1
echo "$1 $2 rc=$? $(grep VIOLATION /tmp/pt_${tag}_$2.out | head -3 | tr '\n' ' ')"
