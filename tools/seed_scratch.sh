#!/bin/sh
# seed_scratch.sh <prop> : confirm the seed in /tmp/wt7_<prop>/_out (demo without/with the patch, baseline with it), then run ./check <prop> quick from the scratch copy /tmp/verif2 (rsync of /verif made beforehand) with VERIF_REPO=<worktree>; neither /repo nor /verif is touched. Not needed by any registered command.
export GOFLAGS=-mod=mod GOPROXY=off GOSUMDB=off GOTOOLCHAIN=local
p=$1; wt=/tmp/wt7_$p; out=$wt/_out
cd $wt && git checkout -q -- . && git clean -fdq -e _out
dir=$(head -1 $out/demo1_test.go | sed -n 's/.*dir:[ ]*\([^ ]*\).*/\1/p')
tests=$(grep -o '^func Test[A-Za-z0-9_]*' $out/demo1_test.go | sed 's/func //' | tr '\n' '|' | sed 's/|$//')
cp $out/demo1_test.go $wt/$dir/zz_demo_test.go
go test -vet=off -count=1 -run "^($tests)\$" ./$dir > $out/without.log 2>&1; r0=$?
git apply $out/patch1.diff; ra=$?
go test -vet=off -count=1 -run "^($tests)\$" ./$dir > $out/with.log 2>&1; r1=$?
rm $wt/$dir/zz_demo_test.go
VERIF_REPO=$wt /verif/tools/baseline.sh > $out/baseline.log 2>&1; rb=$?
echo "$p confirm: applies=$ra demo_without=$r0 demo_with=$r1 baseline=$rb $(head -1 $out/baseline.log)"
rsync -a --delete --exclude work --exclude .git --exclude 'build/*.test' --exclude 'build/*.lock' --exclude evidence /tmp/verif2/ /tmp/verif2_$p/
cd /tmp/verif2_$p && VERIF_REPO=$wt ./check $p quick > $out/check.log 2>&1
echo "$p check rc=$? $(grep -c VIOLATION $out/check.log) $(grep VIOLATION $out/check.log | head -2 | tr '\n' ' ')"
