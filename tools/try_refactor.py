#!/usr/bin/env python3
"""try_refactor.py <worktree> <i> <props,comma> <name> : a behaviour-preserving refactoring (patch<i>.diff in <worktree>/_out):
applies it to /repo, runs the baseline suite and ./check <prop> quick for each prop, restores /repo, and keeps it as
/verif/refactors/<name>/{patch.diff, meta.json} with the outcome: quiet / obligation-only / alarm-with-input."""
import json, os, shutil, subprocess, sys
wt, i, props, name = sys.argv[1], sys.argv[2], sys.argv[3].split(","), sys.argv[4]
out = os.path.join(wt, "_out")
patch = os.path.join(out, "patch%s.diff" % i)
meta = json.load(open(os.path.join(out, "meta%s.json" % i)))
def sh(c):
    p = subprocess.run(c, shell=True, stdout=subprocess.PIPE, stderr=subprocess.STDOUT, text=True)
    return p.returncode, p.stdout
rc, o = sh("git -C /repo status --porcelain")
assert o.strip() == "", "/repo not clean: " + o
rc, o = sh("git -C /repo apply %s" % patch)
if rc != 0:
    print(name, "DOES NOT APPLY", o[:300]); sys.exit(2)
res = {}
try:
    rcb, ob = sh("VERIF_REPO=/repo /verif/tools/baseline.sh")
    base = ob.strip().split("\n")[0] if ob.strip() else ""
    for p in props:
        rc, o = sh("cd /verif && ./check %s quick" % p)
        lines = [l for l in o.split("\n") if l.startswith(("VIOLATION", "KNOWN"))]
        kind = "quiet" if not lines and rc == 0 else ("obligation-only" if lines and all("no-failing-input-found" in l for l in lines) else "alarm-with-input")
        res[p] = {"rc": rc, "outcome": kind, "lines": lines[:3]}
        print(name, p, kind, lines[:2])
finally:
    sh("git -C /repo checkout -- .")
d = os.path.join("/verif/refactors", name)
os.makedirs(d, exist_ok=True)
shutil.copy(patch, os.path.join(d, "patch.diff"))
json.dump({"file": meta.get("file"), "summary": meta.get("summary"), "why_equivalent": meta.get("why_equivalent"),
           "baseline_with_patch": base, "checks": res}, open(os.path.join(d, "meta.json"), "w"), indent=1)
