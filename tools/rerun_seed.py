#!/usr/bin/env python3
"""rerun_seed.py <seeded-name> <prop,...> : applies /verif/seeded/<name>/patch.diff to /repo, runs ./check <prop> quick for each, restores
/repo, and records the result in meta.json under "checks_rerun"."""
import json, os, subprocess, sys
name, props = sys.argv[1], sys.argv[2].split(",")
d = os.path.join("/verif/seeded", name)
def sh(c):
    p = subprocess.run(c, shell=True, stdout=subprocess.PIPE, stderr=subprocess.STDOUT, text=True)
    return p.returncode, p.stdout
rc, o = sh("git -C /repo status --porcelain")
assert o.strip() == "", "/repo not clean"
rc, o = sh("git -C /repo apply %s/patch.diff" % d)
assert rc == 0, o
res = {}
try:
    for p in props:
        rc, o = sh("cd /verif && ./check %s quick" % p)
        res[p] = {"rc": rc, "lines": [l for l in o.split("\n") if l.startswith(("VIOLATION", "KNOWN"))][:3]}
        print(name, p, rc, res[p]["lines"][:2])
finally:
    sh("git -C /repo checkout -- .")
m = json.load(open(os.path.join(d, "meta.json")))
m.setdefault("checks_rerun", {}).update(res)
json.dump(m, open(os.path.join(d, "meta.json"), "w"), indent=1)
