#!/usr/bin/env python3
"""Regenerates /verif/MANIFEST.json from the table below (run after adding a check)."""
import json, os

VERIF = os.path.dirname(os.path.dirname(os.path.abspath(__file__)))

GENERIC_NOTE = ("Trusted: Lean 4.33 kernel + propext/Classical.choice/Quot.sound (audited per theorem on every run, no sorry/"
                "native_decide/own axioms); tools/extract, the overlay-injected Go runners and the Python orchestrator; the "
                "correspondence between model and code is sampled (its coverage is in the evidence). ")

# property -> (technique, what the theorems say, extra trusted/partial note)
CHECKS = {
    "C01": ("Lean 4 proof (simulation invariant over all key histories) + differential correspondence",
            "C01_quiescent / C01_disconnect / C01_sounding_explained: for every accepted configuration and every disciplined key history, nothing sounds when no key is down and nothing sounds after the disconnect clean-up (induction with counter = holders, tracker ⊆ keys down, sounding ⊆ tracked); per-event axis theorems from C08; C01_mixed_explained / C01_mixed_quiescent / C01_mixed_disconnect: the same three statements by one induction over histories mixing key, axis, SYN and MIDI-input events (invariant Mixed.MInv: sounding ⊆ key tracker ∪ axis tracker, counter = holders, one axis-tracker entry per deflected axis). Regenerated tie (session 5): tools/extract/golite.go translates the Go bodies of the key path (the 12 up/down/reset methods, CCLearningOn/Off, Panic, checkDoubleActions, NoteOn, NoteOff, AnalogNoteOn/Off, checkExitSequence, the dispatch tables, handleKEYEvent) into Hidi/Gen/Bodies.lean on every run; Props/GenTie.lean proves each generated function equal to the model function for every state, configuration and event (GenTie_handleKEYEvent, GenTie_reachable) and restates C02/C04/C13/C14 theorems about the generated handler. Also the disconnect clean-up of ProcessEvents (Props/C01gentie.lean: C01_gen_cleanup, C01_gen_disconnect) and the axis path (GenTieAbs).",
            "Partial: histories mixing key and axis events are covered per event (C08) and by the differential run, not by one induction."),
    "C02": ("Lean 4 proof (per-step theorems over every invariant state) + differential correspondence",
            "C02_release_pinned, C02_press_records, C02_frame_action_*, C02_actions_silent: the release emits only the Note Off recorded at the press; action keys never touch the tracker and emit nothing. The same theorems in every non-crashed state of histories of all event kinds (C02_all_*, Props/C02mixed.lean): KInvReach.reachable_kinv + AnaIndep.handleKey_split (the key handler neither reads nor writes the analog tracker). Regenerated tie (session 5): tools/extract/golite.go translates the Go bodies of the key path (the 12 up/down/reset methods, CCLearningOn/Off, Panic, checkDoubleActions, NoteOn, NoteOff, AnalogNoteOn/Off, checkExitSequence, the dispatch tables, handleKEYEvent) into Hidi/Gen/Bodies.lean on every run; Props/GenTie.lean proves each generated function equal to the model function for every state, configuration and event (GenTie_handleKEYEvent, GenTie_reachable) and restates C02/C04/C13/C14 theorems about the generated handler.", ""),
    "C03": ("Lean 4 proof (refinement counter = holders) + differential correspondence",
            "C03_counter_is_holders (every reachable state), C03_press / C03_release / C03_last_release_only: exact output per collision mode in terms of holders; C03_all_press / release / last_release_only and C03_all_history for histories mixing keys, axes, SYN and MIDI input (Props/C03mixed.lean). Regenerated tie (session 5): tools/extract/golite.go translates the Go bodies of the key path (the 12 up/down/reset methods, CCLearningOn/Off, Panic, checkDoubleActions, NoteOn, NoteOff, AnalogNoteOn/Off, checkExitSequence, the dispatch tables, handleKEYEvent) into Hidi/Gen/Bodies.lean on every run; Props/GenTie.lean proves each generated function equal to the model function for every state, configuration and event (GenTie_handleKEYEvent, GenTie_reachable) and restates C02/C04/C13/C14 theorems about the generated handler.", ""),
    "C04": ("Lean 4 proof + differential correspondence",
            "C04_press / C04_resolve (note, channel, velocity formula in unbounded integers, silent out of range), C04_pair_reset, C04_bounds, C04_unit_step, C04_init, C04_monitor (no monitor failure on any key-only history), C04_source_facts (octave/semitone are int fields); C04_all_press(_fresh), C04_all_unit_step, C04_all_bounds on histories of all event kinds (Props/C04mixed.lean). Regenerated tie (session 5): tools/extract/golite.go translates the Go bodies of the key path (the 12 up/down/reset methods, CCLearningOn/Off, Panic, checkDoubleActions, NoteOn, NoteOff, AnalogNoteOn/Off, checkExitSequence, the dispatch tables, handleKEYEvent) into Hidi/Gen/Bodies.lean on every run; Props/GenTie.lean proves each generated function equal to the model function for every state, configuration and event (GenTie_handleKEYEvent, GenTie_reachable) and restates C02/C04/C13/C14 theorems about the generated handler.",
            "Go int modelled as unbounded integers."),
    "C05": ("Lean 4 proof (invariant over all events incl. axes) + differential correspondence",
            "C05_run: every message of every run of an accepted configuration with in-range axis events is a well-formed 3-byte channel message; C05_cleanup for the disconnect. Regenerated tie (session 5): handleABSEvent (a chain of 11 segment definitions) and processEvent are translated from events.go into Hidi/Gen/Bodies.lean on every run; Props/GenTieAbs.lean proves them equal to the model's handleAbs / step for every state, configuration, axis and raw value (GenTieAbs_handleABSEvent, GenTieAbs_processEvent_*), with the same Float.lean binary64 operations on both sides, and restates C05 on the generated processEvent (GenTieAbs_C05_wellformed).",
            "Deadzones that are NaN/Inf/≥1 are outside the theorem (in-range hypothesis)."),
    "C06": ("Lean 4 proof over an exact binary64 model (Rat + rnd53) + bit-exact differential correspondence",
            "C06_shape_range/mono, end stops, rest value, CC/pitch-bend range, monotonicity and exact ends, on the softfloat model for every raw value and deadzone in [0,1); accuracy (Props/C06acc.lean): C06_shape_accuracy (the binary64 shaped value is within 2^-17 of the exact rational transfer function Spec.idealShape, for every axis range within 32 bits and every deadzone in [0,1): error propagation through every rounding, with a separate argument for deadzones within 2^-32 of 1), C06_cc_accuracy / C06_pb_accuracy (every transmitted controller / pitch-bend value is within one step of Spec.idealValue, all signed/unsigned x uni/bidirectional x flip cases; absCC_sends ties the value to Dev.absCC). Regenerated tie (session 5): handleABSEvent (a chain of 11 segment definitions) and processEvent are translated from events.go into Hidi/Gen/Bodies.lean on every run; Props/GenTieAbs.lean proves them equal to the model's handleAbs / step for every state, configuration, axis and raw value (GenTieAbs_handleABSEvent, GenTieAbs_processEvent_*), with the same Float.lean binary64 operations on both sides, and restates C05 on the generated processEvent (GenTieAbs_C05_wellformed).",
            "Trusted: Go on amd64 evaluates float64 + - * / with round-to-nearest-even and no FMA (validated bit-exactly on every evaluation of the run). Axis ranges beyond 32 bits (not representable in an evdev event) are outside the accuracy theorem."),
    "C07": ("Lean 4 proof (invariant per bidirectional axis over all event sequences) + differential correspondence",
            "C07_sequence: for any sequence of events of a bidirectional axis with distinct controller numbers at most one side is non-zero at the receiver; C07_explicit_zero, C07_crossing, C07_learning_gate. Regenerated tie (session 5): handleABSEvent (a chain of 11 segment definitions) and processEvent are translated from events.go into Hidi/Gen/Bodies.lean on every run; Props/GenTieAbs.lean proves them equal to the model's handleAbs / step for every state, configuration, axis and raw value (GenTieAbs_handleABSEvent, GenTieAbs_processEvent_*), with the same Float.lean binary64 operations on both sides, and restates C05 on the generated processEvent (GenTieAbs_C05_wellformed).", ""),
    "C08": ("Lean 4 proof (per event, from any state) + differential correspondence",
            "C08_pos/neg/centre/band/silent/pairing/not_both/release_axis: tracker and messages after each event of a key-emulating axis. Regenerated tie (session 5): handleABSEvent (a chain of 11 segment definitions) and processEvent are translated from events.go into Hidi/Gen/Bodies.lean on every run; Props/GenTieAbs.lean proves them equal to the model's handleAbs / step for every state, configuration, axis and raw value (GenTieAbs_handleABSEvent, GenTieAbs_processEvent_*), with the same Float.lean binary64 operations on both sides, and restates C05 on the generated processEvent (GenTieAbs_C05_wellformed).", ""),
    "C09": ("Lean 4 proof (conversion + guard never panic) + differential correspondence + file mutation search (labelled fuzzing)",
            "C09_convert_total (the conversion after decoding returns a configuration or an error for every decoded structure, never a panic), C09_parse_total / C09_hidi_total (with the recover guard, every outcome of the third-party decoder — ok, error, panic — gives a configuration or an error), C09_guard_needed (without the guard a decoder panic escapes: the defect repaired in the repository), C09_source_facts (both entry points defer a recover — regenerated).",
            "go-toml decoding itself is third-party and only exercised (mutation search, labelled as fuzzing); hangs are caught by time-outs only."),
    "C10": ("Lean 4 proof over hand-written parser model + differential correspondence",
            "C10_in_range (every accepted configuration satisfies Accepted: notes, controllers, offsets, velocity, default channel and default mapping in range — the hypothesis of the engine theorems), C10_scalars, C10_key_number / C10_key_name / C10_key_rejects, C10_rejects_mode / channel / velocity / default_mapping / action_table, C10_table_values (every bound value is the conversion of a file entry), C10_table_complete (an accepted table binds exactly the codes the file names, each once; a code named once is bound to the conversion of its own value), C10_mapping_keys_complete / C10_mapping_keys_sound (every key line of a mapping is in the accepted mapping under (sub-handler, code), and nothing else), C10_mapping_axes_complete (the same for axis tables, deadzone tables and default deadzones), C10_table_rejects.",
            "The TOML decoder (go-toml, DisallowUnknownFields) is outside the model: unknown fields are decided by the differential run. Two spellings of one code in one table have no determined meaning (Go map iteration)."),
    "C11": ("Lean 4 proof (all strings) + exhaustive correspondence up to length 3/4",
            "C11_roundtrip, C11_only_names, C11_case, C11_rejects over all character lists.",
            "Go regexp/ToUpper on non-ASCII input is trusted (sampled)."),
    "C12": ("Lean 4 proof over loader model + differential correspondence on generated trees",
            "C12_precedence_keyboard / C12_precedence_joystick (user exact > user default > factory exact > factory default, from the class's own directories), C12_unsupported, C12_user_over_factory, C12_not_found_iff, C12_isolation / C12_bad_entry_irrelevant (a file that fails to parse changes nothing for the others), C12_result_from_good, C12_never_panics, C12_missing_is_error.",
            "File contents enter the model as parse outcomes; directory walking order is filepath.Walk's lexical order (compared differentially on generated trees incl. hidden files, nested directories, directories named *.toml)."),
    "C13": ("Lean 4 proof + differential correspondence",
            "C13_messages, C13_quiet, C13_state, C13_press_release_identity, C13_ext_irrelevant, C13_as_if_not_happened (any continuation produces the same output as without the panic); C13_all_messages / C13_all_trackers in every state of mixed histories (Props/C13mixed.lean). Regenerated tie (session 5): tools/extract/golite.go translates the Go bodies of the key path (the 12 up/down/reset methods, CCLearningOn/Off, Panic, checkDoubleActions, NoteOn, NoteOff, AnalogNoteOn/Off, checkExitSequence, the dispatch tables, handleKEYEvent) into Hidi/Gen/Bodies.lean on every run; Props/GenTie.lean proves each generated function equal to the model function for every state, configuration and event (GenTie_handleKEYEvent, GenTie_reachable) and restates C02/C04/C13/C14 theorems about the generated handler.", ""),
    "C14": ("Lean 4 proof + differential correspondence",
            "C14_signal_iff, C14_completing_press, C14_tracker_is_keys_down, C14_never_when_empty(_history); on histories of every event kind (keys, axes of all types, SYN, MIDI input; Props/C14mixed.lean): C14_all_signal_iff (signal iff a key press completing the sequence; axis / SYN / MIDI-input events never raise it), C14_all_tracker, C14_all_history, C14_all_never_when_empty. Regenerated tie (session 5): tools/extract/golite.go translates the Go bodies of the key path (the 12 up/down/reset methods, CCLearningOn/Off, Panic, checkDoubleActions, NoteOn, NoteOff, AnalogNoteOn/Off, checkExitSequence, the dispatch tables, handleKEYEvent) into Hidi/Gen/Bodies.lean on every run; Props/GenTie.lean proves each generated function equal to the model function for every state, configuration and event (GenTie_handleKEYEvent, GenTie_reachable) and restates C02/C04/C13/C14 theorems about the generated handler.",
            "The blocking send on the signal channel is not modelled."),
    "C15": ("Lean 4 proof over transition-system models of the fan-out and the relay (all interleavings of the model) + source fact regenerated from fan.go + scripted and free-running runs of the real goroutines",
            "C15_fan_exactly_once (for every schedule each connected output has been given exactly the block of the dispatch log since its spawn, in order — HidiProofs/FanLemmas.lean), C15_fan_quiescent, C15_ids_distinct, C15_relay_order / C15_relay_complete (per emitter: exactly once, in emission order), C15_input_relay_order (input direction: the consumer has received a prefix of the arrival sequence, for every schedule), C15_source_facts (send selected against a per-output leaving signal), C15_despawn_blocks_unguarded (witness of the repaired deadlock), C15_despawn_completes_on_wedge, C15_despawn_completes (progress: from every reachable state of the guarded fan-out with a removal pending, at most 2*|outputs|+5 enabled steps of the dispatcher, the remover and consumers that have not been told to leave return the call; never a step of the removed consumer — HidiProofs/FanLive.lean).",
            "Partial by nature: goroutine scheduling belongs to the Go runtime; conformance of the real goroutines to the model is sampled (scripts + stress runs with watchdogs), the theorems cover every interleaving of the model only."),
    "C16": ("Lean 4 source facts + lock-discipline model; race-detector runs of the real goroutines (1-8 devices concurrently, LED loop against a fake OpenRGB server)",
            "C16_table_disciplined (the access table regenerated from package device — every *Device field access of the three goroutines with the mutexes held — has a common mutex for every conflicting pair), C16_no_race (generic lockset theorem: no schedule enables two conflicting accesses), C16_writes_locked, C16_table_complete, C16_no_shared_package_state, C16_independent, C16_source_facts; life-cycle transition system of the three goroutines and the two mutexes (Hidi/Life.lean): C16_life_mutual_exclusion (every schedule, single lock order), C16_life_wait_means_finished, C16_life_terminates (from every reachable state with the input ended at most 973 enabled steps of the goroutines themselves finish all three), C16_life_no_deadlock, C16_life_source_facts (regenerated: every waiting loop watches ctx.Done(), range -> cancel -> clean-up -> wg.Wait, lock nesting table); the decision on the implementation: every ProcessEvents returns promptly, no goroutine is left, the race detector is silent, each device's output equals its output when run alone.",
            "Partial by nature: schedules are sampled under the race detector; a peer that never answers TCP is not modelled."),
    "C17": ("Lean 4 proof over the frame model (painting order, byte arithmetic, exact channel colours) + source facts + frames of the real LED loop captured by a fake OpenRGB server",
            "C17_refinement (every LED of every frame equals the declarative per-LED specification LedSpec.highlight: active > external colour of the current channel > colour of the lowest other MIDI-input channel > base colour; proved via last-write-wins over the write list), C17_pitch_class (base colour of a mapped key = class colour of note + semitone + 12*octave), C17_unavailable (out of MIDI range and bound to no action: unavailable colour), C17_external, C17_other_channel, C17_frame_total (any layout incl. none: one colour per LED, nothing outside the frame written), C17_layout (an action paints at most the LED of its own key), C17_active (LEDs of keys at a held pitch show the active colour whatever was painted before), C17_midi_in_note_off / note_on_zero / note_on / cleared, C17_panic_clears, C17_channel_colours, C17_source_facts, witnesses C17_unchecked_crashes / C17_unchecked_hits_led0; independent per-LED expectation from State(), the device's own MIDI output and the MIDI-input script evaluated on every captured frame. Session 5: C17_action_key (the LED of the key an action is bound to shows the indicator colour of the current octave / semitone / mapping / channel, `indicator`), C17_octave_up_key; Props/C17gentie.lean: the MIDI-input tracker body regenerated from handleInputEvents equals Dev.midiIn for every state and message (C17_gen_midi_in, C17_gen_note_on_zero, C17_gen_note_off, C17_gen_note_on).",
            "Trusted/partial: go-colorful HSV round trip (class colours taken from the real shiftColor each run, measured ±1/255); frames sampled after quiescence; |12·octave+semitone| ≤ 127."),
    "C18": ("Lean 4 proof over a file-tree model + differential correspondence + real interrupted runs (RLIMIT_FSIZE, strace fault injection)",
            "For every template and tree: C18_frame (everything that is not a factory template path is untouched), C18_restores, C18_blacklist_created, C18_idempotent, C18_succeeds (every regular tree), crashStates_similar; instantiated with the repository's embedded template (Gen.templateShape, regenerated and compared with the real embed.FS on every run): C18_template_facts, C18_repo, C18_crash_repo (a later run on whatever an interrupted run left restores the factory files and keeps the user files), C18_fresh_repo (absent directory: complete tree).",
            "Trusted: per-syscall behaviour of the filesystem; a crash inside write(2) is an arbitrary prefix; permissions not varied (root)."),
    "C19": ("Lean 4 proof over a transition-system model of the watcher goroutine + source facts regenerated from monitor.go + differential runs of the real watcher on inotify",
            "C19_accounting / C19_silent (notifications ≤ write events on names with the suffix, any schedule), C19_take_offers / C19_no_take_while_offering, C19_stops (guarded hand-off: the goroutine returns after cancellation without a reader, from every state), C19_watcher_stops (and the fsnotify watcher is closed: closer goroutine, regenerated fact), C19_stuck_unguarded (witness for the repaired defect), C19_source_facts (suffix \".toml\", hand-off selected against ctx.Done(), Op test).",
            "Trusted/partial: the kernel reports in-place modification as IN_MODIFY and fsnotify maps it to Write; timing is sampled (500 ms / 1 s limits); Go channel and select semantics as written in the model."),
    "C20": ("Lean 4 proof over Normalize model + differential correspondence on permuted handler lists",
            "C20_group_spec (the group of a location is exactly the handlers reporting it, in discovery order, and exists iff there is one), C20_keys_nodup (one group per location), C20_member, C20_members_same_phys, C20_partition_count, C20_type_rule (joystick if any member is joystick-like, else keyboard if any is a standard keyboard, else mouse iff a single mouse handler, else not playable), C20_order (any two discovery orders give the same members up to order and the same type, location by location), C20_order_id_partial (the ID is order-independent when the handlers of a location report the same ID), C20_handler_type_set (HandlerType depends only on the set of capability types).",
            "evdev.Open is a parameter (handlers cannot be opened in the sandbox)."),
}

NOT_YET = {}


def main():
    props = [json.loads(l) for l in open(os.path.join(VERIF, "properties.jsonl"))]
    ids = [p["id"] for p in props]
    extra = json.load(open(os.path.join(VERIF, "tools", "manifest_extra.json"))) if os.path.exists(os.path.join(VERIF, "tools", "manifest_extra.json")) else {}
    checks = []
    for pid in ids:
        if pid not in CHECKS:
            continue
        tech, thm, note = CHECKS[pid]
        checks.append({
            "property_id": pid,
            "quick_cmd": "./check %s quick" % pid,
            "thorough_cmd": "./check %s thorough" % pid,
            "evidence_file": "/verif/evidence/%s.json" % pid,
            "replay_cmd_template": "./check %s --replay {path}" % pid,
            "engine": "lean-proof+correspondence",
            "level_claimed": {
                "category": "proof",
                "text": "Lean 4 theorems about an executable model of the code (lean/HidiProofs/Props/%s*.lean): %s The model is tied to /repo on every run by "
                        "(a) tables/facts regenerated from the Go sources (tools/extract -> Hidi/Gen) and (b) a differential run of the compiled model against the "
                        "real functions on generated inputs, with the property's own predicate evaluated on the implementation's answers." % (pid, thm),
                "design_ref": "DESIGN.md section 4, %s" % pid,
            },
            "level_note": GENERIC_NOTE + note,
            "technique": tech,
        })
    na = [{"property_id": pid, "reason": NOT_YET.get(pid, "check not built yet (work in progress; planned per DESIGN.md)")}
          for pid in ids if pid not in CHECKS]
    m = {
        "version": 1,
        "setup_cmd": "./setup.sh",
        "hooks": {
            "guard": "verif",
            "enable": "go test -c -tags verif -overlay /verif/build/overlay.json (harness files are injected by overlay; no file in /repo carries hooks)",
            "baseline_off_cmd": "/verif/tools/baseline.sh",
            "source_commits": [],
            "add_only": True,
        },
        "engines": [{
            "name": "lean-proof+correspondence",
            "path": "/verif/lean, /verif/orchestrator, /verif/harness",
            "serves_properties": [c["property_id"] for c in checks],
            "kind_free_text": "Lean 4 model + theorems; Go runners injected with -overlay; Python orchestrator",
        }],
        "checks": checks,
        "notes": "see DESIGN.md",
        "not_applicable": na,
    }
    with open(os.path.join(VERIF, "MANIFEST.json"), "w") as f:
        json.dump(m, f, indent=1, ensure_ascii=False)
    print("checks:", [c["property_id"] for c in checks], "not_applicable:", [x["property_id"] for x in na])


if __name__ == "__main__":
    main()
