#!/bin/sh
# Runs the repository's pinned test suite (guard OFF: no -tags verif, no overlay) and compares the
# passing tests with the stable baseline list in /root/.vp/BASELINE.json. Exit 0 iff all 307 pass.
export GOFLAGS=-mod=mod GOPROXY=off GOSUMDB=off GOTOOLCHAIN=local
REPO=${VERIF_REPO:-/repo}
OUT=$(mktemp)
(cd "$REPO" && go test -mod=mod -json -vet=off -count=1 -timeout 25m ./... ) > "$OUT" 2>/dev/null
python3 - "$OUT" <<'PY'
import json, sys
base = json.load(open('/root/.vp/BASELINE.json'))
want = set(base['stable_pass'])
passed = set()
for line in open(sys.argv[1]):
    try:
        j = json.loads(line)
    except Exception:
        continue
    if j.get('Action') == 'pass' and j.get('Test'):
        passed.add('%s::%s' % (j['Package'], j['Test']))
missing = sorted(want - passed)
print('baseline: %d/%d stable tests pass' % (len(want & passed), len(want)))
for m in missing[:20]:
    print('  NOT PASSING:', m)
sys.exit(1 if missing else 0)
PY
rc=$?
rm -f "$OUT"
exit $rc
