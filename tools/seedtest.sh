#!/bin/sh
# seedtest.sh <seed-id> <prop> [tier]: run the scratch copy of /verif against a scratch worktree with the seed applied
rsync -a --delete --exclude work --exclude .git --exclude 'build/*.test' --exclude 'build/*.lock' --exclude evidence /verif/ /tmp/verif2/
cd /tmp/wtx && git reset -q --hard && git clean -fdq && git apply /verif/seeded/$1/patch.diff || exit 3
cd /tmp/verif2 && VERIF_REPO=/tmp/wtx ./check $2 ${3:-quick} > /tmp/st_$1_$2.out 2>&1
echo "$1 $2 rc=$? $(grep VIOLATION /tmp/st_$1_$2.out | head -3 | tr '\n' ' ')"
