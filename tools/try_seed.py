#!/usr/bin/env python3
"""try_seed.py <worktree> <i> <props,comma> [--keep <name>]
Confirms a seeded change (patch<i>.diff + demo<i>_test.go in <worktree>/_out): the patch applies, the
existing suite still passes with it, the demo fails with it and passes without; then applies it to /repo,
runs ./check <prop> quick for each prop, and restores /repo. With --keep copies it to /verif/seeded/<name>."""
import json, os, re, shutil, subprocess, sys
wt, i, props = sys.argv[1], sys.argv[2], sys.argv[3].split(",")
keep = sys.argv[sys.argv.index("--keep") + 1] if "--keep" in sys.argv else None
out = os.path.join(wt, "_out")
patch = os.path.join(out, "patch%s.diff" % i)
demo = os.path.join(out, "demo%s_test.go" % i)
meta = json.load(open(os.path.join(out, "meta%s.json" % i)))
env = dict(os.environ, GOFLAGS="-mod=mod", GOPROXY="off", GOSUMDB="off", GOTOOLCHAIN="local")

def sh(cmd, cwd=None, e=env):
    p = subprocess.run(cmd, shell=True, cwd=cwd, env=e, stdout=subprocess.PIPE, stderr=subprocess.STDOUT, text=True)
    return p.returncode, p.stdout

first = open(demo).readline()
m = re.search(r"dir:\s*(\S+)", first)
demodir = m.group(1) if m else meta.get("demo_dir")
res = {"meta": meta}
sh("git checkout -- . && git clean -fdq -e _out", wt)
# demo without the patch
dst = os.path.join(wt, demodir, "zz_demo_test.go")
shutil.copy(demo, dst)
tests = re.findall(r"^func (Test\w+)\(", open(demo).read(), re.M)
ovflag = ""
if demodir.rstrip("/") == "cmd/hidi":
    # cmd/hidi links the cgo ALSA driver: build it with the stub overlaid
    ovp = os.path.join(out, "try_overlay.json")
    json.dump({"Replace": {os.path.join(wt, "internal/pkg/midi/driver/alsa/alsa.go"): "/verif/harness/alsa/alsa.go"}}, open(ovp, "w"))
    ovflag = "-overlay %s " % ovp
runpat = "^(" + "|".join(tests) + ")$"
# demos may need /sys/class/hidraw entries (LED loop): run them in a mount namespace with a tmpfs there  (NSWRAP)
def nswrap(cmd):
    return "unshare -m sh -c 'mount -t tmpfs tmpfs /sys/class/hidraw && %s'" % cmd.replace("'", "'\\''")
rc0, o0 = sh(nswrap("go test %s-vet=off -count=1 -run '%s' ./%s" % (ovflag, runpat, demodir)), wt)
# with the patch
rca, oa = sh("git apply %s" % patch, wt)
rc1, o1 = sh(nswrap("go test %s-vet=off -count=1 -run '%s' ./%s" % (ovflag, runpat, demodir)), wt)
os.remove(dst)
rcb, ob = sh("VERIF_REPO=%s /verif/tools/baseline.sh" % wt, wt)
sh("git checkout -- . && git clean -fdq -e _out", wt)
res.update({"applies": rca == 0, "demo_passes_without": rc0 == 0, "demo_fails_with": rc1 != 0, "baseline_with_patch": ob.strip().split("\n")[0]})
print(json.dumps({k: v for k, v in res.items() if k != "meta"}))
if not (rca == 0 and rc0 == 0 and rc1 != 0 and rcb == 0):
    print("NOT CONFIRMED"); print(o0[-500:]); print(o1[-800:]); print(oa)
    sys.exit(2)
# run the checks against /repo with the patch
rc, o = sh("git -C /repo status --porcelain")
assert o.strip() == "", "/repo not clean: " + o
rc, o = sh("git -C /repo apply %s" % patch)
assert rc == 0, o
ran = {}
try:
    for p in props:
        rc, o = sh("cd /verif && ./check %s quick" % p)
        lines = [l for l in o.split("\n") if l.startswith(("VIOLATION", "KNOWN"))]
        ran[p] = {"rc": rc, "lines": lines[:3]}
        print(p, rc, lines[:2])
finally:
    sh("git -C /repo checkout -- .")
if keep:
    d = os.path.join("/verif/seeded", keep)
    os.makedirs(d, exist_ok=True)
    shutil.copy(patch, os.path.join(d, "patch.diff"))
    shutil.copy(demo, os.path.join(d, "demo_test.go"))
    json.dump({"property": meta.get("property"), "summary": meta.get("summary"), "needs": meta.get("needs"),
               "demo_dir": demodir, "confirmed": {k: v for k, v in res.items() if k != "meta"},
               "checks_run": ran}, open(os.path.join(d, "meta.json"), "w"), indent=1)
