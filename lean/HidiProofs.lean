import HidiProofs.Props.C01
import HidiProofs.Props.C02
import HidiProofs.Props.C03
import HidiProofs.Props.C04
import HidiProofs.Props.C05
import HidiProofs.Props.C13
import HidiProofs.Props.C14
import HidiProofs.Props.C11
