import Hidi.Fan
import Hidi.LoadEngine
import Hidi.Gen.Tables
namespace Hidi
open Fan

/-- script state of one fan-out case -/
structure FanSt where
  s : St := { guarded := Gen.fanSendGuarded, cap := 1 }
  /-- label ↦ output id (once its SpawnOutput returned) -/
  ids : List (String × Nat) := []
  order : List String := []
  /-- labels whose consumer goroutine is reading -/
  auto : List String := []
  pendingSpawn : List String := []
  pendingDespawn : List String := []
  /-- results of calls that have returned -/
  results : List (String × String) := []
  /-- what the consumers of removed outputs had received -/
  final : List (String × List Nat) := []
  deriving Inhabited

def FanSt.idOf (f : FanSt) (l : String) : Option Nat := alookup l f.ids

/-- one quiescence step of the whole system: dispatcher first, then reading consumers, then calls waiting for the mutex -/
def FanSt.quiesceStep (f : FanSt) : Option FanSt :=
  match dispatcherStep f.s with
  | some x => some { f with s := step f.s x }
  | none =>
    -- a reading consumer with something buffered
    match f.auto.findSome? (fun l => match f.idOf l with
        | some id => if enabled f.s (.consume id) then some id else none
        | none => none) with
    | some id => some { f with s := step f.s (.consume id) }
    | none =>
      match f.pendingDespawn.findSome? (fun l => match f.idOf l with
          | some id => if enabled f.s (.despawn id) then some (l, id) else none
          | none => none) with
      | some (l, id) =>
        let rc := match alookup id f.s.outputs with | some o => o.recvd | none => []
        some { f with s := step f.s (.despawn id), pendingDespawn := f.pendingDespawn.filter (· ≠ l),
                      results := ainsert ("despawn:" ++ l) "returned" f.results, auto := f.auto.filter (· ≠ l),
                      ids := aerase l f.ids, final := ainsert l rc f.final }
      | none =>
        match f.pendingSpawn with
        | l :: r =>
          if enabled f.s .spawn then
            let id := freeId f.s.outputs
            some { f with s := step f.s .spawn, pendingSpawn := r, ids := ainsert l id f.ids, auto := f.auto ++ [l],
                          results := ainsert ("spawn:" ++ l) s!"id {id}" f.results }
          else none
        | [] => none

def FanSt.quiesce : Nat → FanSt → FanSt
  | 0, f => f
  | n + 1, f => match f.quiesceStep with | some f' => FanSt.quiesce n f' | none => f

def FanSt.settled (f : FanSt) : FanSt := f.quiesce 100000

def listStr (l : List Nat) : String := ",".intercalate (l.map toString)

def FanSt.recvdOf (f : FanSt) (l : String) : List Nat :=
  match alookup l f.final with
  | some r => r
  | none =>
    match f.idOf l with
    | some id => (match alookup id f.s.outputs with | some o => o.recvd | none => [])
    | none => []

def FanSt.line (f : FanSt) (toks : List String) : FanSt × Option String :=
  match toks with
  | ["fan.new", c] =>
    let cap := if tokNat c = 0 then 1 else tokNat c
    ({ s := { guarded := Gen.fanSendGuarded, cap := cap } }, none)
  | ["fan.spawn", l, _] =>
    let f := ({ f with pendingSpawn := f.pendingSpawn ++ [l], order := f.order ++ [l] }).settled
    (f, some ((alookup ("spawn:" ++ l) f.results).getD "blocked"))
  | ["fan.feed", n] =>
    let k := f.s.log.length + f.s.input.length
    let ms := (List.range (tokNat n)).map (fun i => k + i + 1)
    let f := ({ f with s := ms.foldl (fun s m => step s (.feed m)) f.s }).settled
    (f, none)
  | ["fan.stop", l] => (({ f with auto := f.auto.filter (· ≠ l) }).settled, none)
  | ["fan.resume", l] =>
    -- a consumer that had stopped reading reads again (if it is still attached)
    ((if (f.idOf l).isSome && !f.auto.contains l then { f with auto := f.auto ++ [l] } else f).settled, none)
  | ["fan.despawn", l, _] =>
    match f.idOf l with
    | some id =>
      let s := if enabled f.s (.callDespawn id) then step f.s (.callDespawn id) else f.s
      let f := ({ f with s := s, pendingDespawn := f.pendingDespawn ++ [l] }).settled
      (f, some ((alookup ("despawn:" ++ l) f.results).getD "blocked"))
    | none => (f, some "blocked")
  | ["fan.check", c, _] =>
    let f := f.settled
    (f, some ((alookup c f.results).getD "blocked"))
  | ["fan.sleep", _] => (f.settled, none)
  | ["fan.report"] =>
    let f := f.settled
    if f.s.inflight.isSome then (f, some "busy")
    else (f, some (" ".intercalate (f.order.map (fun l => s!"{l}={listStr (f.recvdOf l)}"))))
  | _ => (f, some "bad-op")

end Hidi
