/-
  Hidi.Life — the life cycle of one device as a transition system (C16, "processing always ends once the event stream
  ends"): the three goroutines of `ProcessEvents` (internal/pkg/midi/device/events.go, open_rgb.go) and the two mutexes
  they share.

    main  : `for ie := range inputEvents { processEvent }` — each event is handled under `eventProcessMutex` (E); the
            panic action additionally takes `externalTrackerMutex` (X) inside — then `cancel()`, the clean-up under E,
            `wg.Wait()`.
    led   : `handleOpenrgb` — connection phase (loops that select on `ctx.Done()`), then the refresh loop: look at
            `ctx.Done()` (non-blocking), sleep, lock E, paint, lock X inside, unlock X, send, unlock E; on cancellation the
            closing frame, `wg.Done()`.
    midi  : `handleInputEvents` — `select { <-ctx.Done(): return; ev := <-midiIn: lock X … unlock X }`.

  Who holds a mutex and whether the context is cancelled are functions of the program counters, so the state is just the
  three program counters and whether the input stream has ended.  The structure of the loops (every waiting loop looks at
  `ctx.Done()`, the order cancel → clean-up → wait, the lock nesting E ⊃ X) is regenerated from the sources
  (`Gen.life*`, `Gen.deviceLockNesting`).
-/
namespace Hidi
namespace Life

inductive MainPC
  | recv            -- waiting in `range inputEvents`
  | wantE (p : Bool) -- an event has been taken; `p`: its handling needs X as well (the panic action)
  | inE (p : Bool)  -- holds E
  | inEX            -- holds E and X
  | cancel          -- input ended: about to call `cancel()`
  | wantEc          -- cancelled, wants E for the clean-up
  | inEc            -- clean-up under E
  | wait            -- `wg.Wait()`
  | done
  deriving DecidableEq, Repr, Inhabited

inductive LedPC
  | connect         -- connection phase: loops selecting on ctx.Done() / a timer
  | loopTop         -- `select { case <-ctx.Done(): break root; default: }`
  | sleep
  | wantE
  | inE             -- holds E (painting)
  | inEX            -- holds E and X (MIDI-input highlights)
  | inE2            -- holds E (own notes, sending the frame)
  | closing         -- after `break root`: the closing frame
  | done            -- `wg.Done()`
  deriving DecidableEq, Repr, Inhabited

inductive MidiPC
  | sel             -- in the select
  | wantX
  | inX
  | done
  deriving DecidableEq, Repr, Inhabited

structure St where
  main : MainPC := .recv
  led : LedPC := .connect
  midi : MidiPC := .sel
  /-- the input stream has ended (the device was unplugged) -/
  closed : Bool := false
  deriving DecidableEq, Repr, Inhabited

/-! ### derived: cancellation and mutex owners -/

def cancelled (s : St) : Bool :=
  match s.main with
  | .wantEc | .inEc | .wait | .done => true
  | _ => false

def mainHoldsE : MainPC → Bool
  | .inE _ | .inEX | .inEc => true
  | _ => false
def ledHoldsE : LedPC → Bool
  | .inE | .inEX | .inE2 => true
  | _ => false
def mainHoldsX : MainPC → Bool
  | .inEX => true
  | _ => false
def ledHoldsX : LedPC → Bool
  | .inEX => true
  | _ => false
def midiHoldsX : MidiPC → Bool
  | .inX => true
  | _ => false

def freeE (s : St) : Bool := !mainHoldsE s.main && !ledHoldsE s.led
def freeX (s : St) : Bool := !mainHoldsX s.main && !ledHoldsX s.led && !midiHoldsX s.midi

inductive Step
  -- environment
  | unplug                 -- the input stream ends
  | midiArrives            -- a message on MIDI input is taken by the tracker goroutine
  -- main
  | mainTake (p : Bool)    -- an input event is taken (needs X too iff `p`)
  | mainSeeClosed          -- the range loop ends
  | mainLockE | mainLockX | mainUnlockX | mainUnlockE
  | mainCancel | mainLockEc | mainUnlockEc | mainWaitDone
  -- LED goroutine
  | ledTick                -- connection phase: timer fires, still not connected
  | ledConnected | ledGiveUp | ledSeeCancel
  | ledCheck               -- the non-blocking look at ctx.Done()
  | ledWake | ledLockE | ledLockX | ledUnlockX | ledUnlockE | ledClose
  -- MIDI-input tracker
  | midiSeeCancel | midiLockX | midiUnlockX
  deriving DecidableEq, Repr, Inhabited

def enabled (s : St) : Step → Bool
  | .unplug => !s.closed
  | .midiArrives => s.midi = .sel
  | .mainTake _ => s.main = .recv && !s.closed
  | .mainSeeClosed => s.main = .recv && s.closed
  | .mainLockE => (match s.main with | .wantE _ => true | _ => false) && freeE s
  | .mainLockX => s.main = .inE true && freeX s
  | .mainUnlockX => s.main = .inEX
  | .mainUnlockE => s.main = .inE false
  | .mainCancel => s.main = .cancel
  | .mainLockEc => s.main = .wantEc && freeE s
  | .mainUnlockEc => s.main = .inEc
  | .mainWaitDone => s.main = .wait && s.led = .done && s.midi = .done
  | .ledTick => s.led = .connect
  | .ledConnected => s.led = .connect
  | .ledGiveUp => s.led = .connect
  | .ledSeeCancel => s.led = .connect && cancelled s
  | .ledCheck => s.led = .loopTop
  | .ledWake => s.led = .sleep
  | .ledLockE => s.led = .wantE && freeE s
  | .ledLockX => s.led = .inE && freeX s
  | .ledUnlockX => s.led = .inEX
  | .ledUnlockE => s.led = .inE2
  | .ledClose => s.led = .closing
  | .midiSeeCancel => s.midi = .sel && cancelled s
  | .midiLockX => s.midi = .wantX && freeX s
  | .midiUnlockX => s.midi = .inX

def step (s : St) : Step → St
  | .unplug => { s with closed := true }
  | .midiArrives => { s with midi := .wantX }
  | .mainTake p => { s with main := .wantE p }
  | .mainSeeClosed => { s with main := .cancel }
  | .mainLockE => (match s.main with | .wantE p => { s with main := .inE p } | _ => s)
  | .mainLockX => { s with main := .inEX }
  | .mainUnlockX => { s with main := .inE false }
  | .mainUnlockE => { s with main := .recv }
  | .mainCancel => { s with main := .wantEc }
  | .mainLockEc => { s with main := .inEc }
  | .mainUnlockEc => { s with main := .wait }
  | .mainWaitDone => { s with main := .done }
  | .ledTick => s
  | .ledConnected => { s with led := .loopTop }
  | .ledGiveUp => { s with led := .done }
  | .ledSeeCancel => { s with led := .done }
  | .ledCheck => { s with led := if cancelled s then .closing else .sleep }
  | .ledWake => { s with led := .wantE }
  | .ledLockE => { s with led := .inE }
  | .ledLockX => { s with led := .inEX }
  | .ledUnlockX => { s with led := .inE2 }
  | .ledUnlockE => { s with led := .loopTop }
  | .ledClose => { s with led := .done }
  | .midiSeeCancel => { s with midi := .done }
  | .midiLockX => { s with midi := .inX }
  | .midiUnlockX => { s with midi := .sel }

/-- a run: only enabled steps are taken -/
def run (s : St) : List Step → St
  | [] => s
  | x :: r => if enabled s x then run (step s x) r else run s r

def allDone (s : St) : Bool := s.main = .done && s.led = .done && s.midi = .done

/-! ### the scheduler that finishes a device whose input has ended -/

/-- the next step of the LED goroutine (its own program order) -/
def ledNext (s : St) : Step :=
  match s.led with
  | .connect => .ledSeeCancel
  | .loopTop => .ledCheck
  | .sleep => .ledWake
  | .wantE => .ledLockE
  | .inE => .ledLockX
  | .inEX => .ledUnlockX
  | .inE2 => .ledUnlockE
  | .closing => .ledClose
  | .done => .ledClose

def midiNext (s : St) : Step :=
  match s.midi with
  | .sel => .midiSeeCancel
  | .wantX => .midiLockX
  | .inX => .midiUnlockX
  | .done => .midiUnlockX

def mainNext (s : St) : Step :=
  match s.main with
  | .recv => .mainSeeClosed
  | .wantE _ => .mainLockE
  | .inE true => .mainLockX
  | .inE false => .mainUnlockE
  | .inEX => .mainUnlockX
  | .cancel => .mainCancel
  | .wantEc => .mainLockEc
  | .inEc => .mainUnlockEc
  | .wait => .mainWaitDone
  | .done => .mainWaitDone

/-- is the LED goroutine the one main is waiting for: main wants E (which only the LED goroutine can hold then), or main
    waits for the goroutines to finish and the LED goroutine has not -/
def ledRelevant (s : St) : Bool :=
  match s.main with
  | .wantE _ | .wantEc => true
  | .wait => s.led ≠ .done
  | _ => false

/-- main's step if it can move; otherwise the step of whoever it is waiting for (and, if that one waits for a mutex in
    turn, of its holder) -/
def helper (s : St) : Step :=
  if enabled s (mainNext s) then mainNext s
  else if ledRelevant s && enabled s (ledNext s) then ledNext s
  else midiNext s

def drive : Nat → St → St
  | 0, s => s
  | n + 1, s => if allDone s then s else drive n (step s (helper s))

def driveSteps : Nat → St → List Step
  | 0, _ => []
  | n + 1, s => if allDone s then [] else helper s :: driveSteps n (step s (helper s))

end Life
end Hidi
