/-
  Hidi.Normalize — model of `input.Normalize`, `DetermineDeviceType`, `DeviceInfo.HandlerType` (C20).

  `HandlerType` is table-driven: the rows are translated from the Go `switch` by the extractor
  (`Gen.handlerRows`), the event-type numbers come from the go-evdev module (`Gen.evTypes`).
  `evdev.Open` is a parameter that fails in the sandbox (handlers cannot be opened; groups are
  still formed, device name and uniq stay empty).
-/
import Hidi.Loader
import Hidi.Gen.Evdev
namespace Hidi

structure HandlerInfo where
  phys : String
  id : InputID
  name : String
  caps : List Nat
  deriving Repr, DecidableEq, Inhabited

def evTypeNum (name : String) : Nat := (alookup name Gen.evTypes).getD 9999

/-- `hasExactly(list, elem...)` : the two sets are equal -/
def hasExactly (list elem : List Nat) : Bool := list.all (· ∈ elem) && elem.all (· ∈ list)
/-- `has(list, elem...)` : every element occurs -/
def hasAll (list elem : List Nat) : Bool := elem.all (· ∈ list)

def rowMatches (caps : List Nat) (row : String × List String × String) : Bool :=
  let want := row.2.1.map evTypeNum
  if row.1 = "hasExactly" then hasExactly caps want
  else if row.1 = "has" then hasAll caps want
  else false

/-- `DeviceInfo.HandlerType` : the first matching row, else the default -/
def handlerType (caps : List Nat) : String :=
  match Gen.handlerRows.find? (rowMatches caps) with
  | some r => r.2.2
  | none => Gen.handlerDefault

/-- `DetermineDeviceType` -/
def determineType (hts : List String) : DevType :=
  if "DI_TYPE_JOYSTICK" ∈ hts then .joystick
  else if "DI_TYPE_STD_KBD" ∈ hts then .keyboard
  else if hts.length = 1 ∧ "DI_TYPE_MOUSE" ∈ hts then .mouse
  else .unknown

structure Group where
  phys : String
  id : InputID
  ty : DevType
  members : List HandlerInfo
  deriving Repr, Inhabited

/-- group handlers by physical location, groups in order of first appearance, members in discovery order -/
def groupBy (hs : List HandlerInfo) : List (String × List HandlerInfo) :=
  hs.foldl (fun acc h =>
    match alookup h.phys acc with
    | some l => acc.map (fun p => if p.1 = h.phys then (p.1, l ++ [h]) else p)
    | none => acc ++ [(h.phys, [h])]) []

def normalize (hs : List HandlerInfo) : List Group :=
  (groupBy hs).map (fun p =>
    ⟨p.1, (p.2.head?.map (·.id)).getD zeroID, determineType (p.2.map (fun h => handlerType h.caps)), p.2⟩)

def DevType.toNat : DevType → Nat
  | .unknown => 0 | .keyboard => 1 | .mouse => 2 | .joystick => 3

end Hidi
