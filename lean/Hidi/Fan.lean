/-
  Hidi.Fan — model of `utils.DynamicFanOut` (internal/pkg/utils/fan.go) and of the output relay of
  `midi.ProcessMidiEvents` (internal/pkg/midi/process.go) as transition systems (C15).

  Go semantics written out here: a buffered channel is a bounded FIFO, a send blocks while it is full; a mutex is
  held by at most one party.  The dispatcher `run()` holds the mutex from taking a message until it has been sent
  to every output; `SpawnOutput` / `DespawnOutput` need the mutex.  Whether the broadcast send is selected against a
  per-output "leaving" signal is a parameter regenerated from the source (`guarded`).
-/
import Hidi.Basic
namespace Hidi
namespace Fan

structure Output where
  /-- messages buffered in the output channel (oldest first) -/
  buf : List Nat := []
  /-- messages the consumer has received (oldest first) -/
  recvd : List Nat := []
  /-- `DespawnOutput` has been called for this output and has signalled "leaving" (guarded variant only) -/
  leaving : Bool := false
  /-- length of the dispatch log when the output was spawned (history variable) -/
  since : Nat := 0
  deriving Repr, Inhabited, DecidableEq

structure St where
  guarded : Bool
  /-- capacity of every output channel (`max 1 (cap input)`) -/
  cap : Nat
  /-- messages waiting in the input channel -/
  input : List Nat := []
  outputs : List (Nat × Output) := []
  /-- the dispatcher holds the mutex: message in flight and the ids still to be served -/
  inflight : Option (Nat × List Nat) := none
  /-- every message the dispatcher has taken so far, in order (history variable) -/
  log : List Nat := []
  /-- outputs that have been despawned, with what their consumers had received / still had buffered -/
  gone : List (Nat × Output) := []
  /-- `DespawnOutput` calls that have not returned yet -/
  pendingDespawn : List Nat := []
  deriving Repr, Inhabited

inductive Step
  | feed (m : Nat)            -- a message arrives on the input channel
  | take                      -- dispatcher: receive from input, lock the mutex
  | send                      -- dispatcher: deliver the message in flight to the next output (or skip a leaving one)
  | unlock                    -- dispatcher: all outputs served, unlock
  | spawn                     -- `SpawnOutput` (needs the mutex)
  | callDespawn (id : Nat)    -- `DespawnOutput(id)` is called: signals "leaving" (guarded), then waits for the mutex
  | despawn (id : Nat)        -- `DespawnOutput(id)` gets the mutex, closes and removes the output, returns
  | consume (id : Nat)        -- the consumer of `id` receives one message
  deriving Repr, Inhabited, DecidableEq

/-- smallest id not in use (the `for id = 0; …` loop of `SpawnOutput`) -/
def freeId (outs : List (Nat × Output)) : Nat :=
  let rec go (fuel id : Nat) : Nat :=
    match fuel with
    | 0 => id
    | f + 1 => if (alookup id outs).isSome then go f (id + 1) else id
  go (outs.length + 1) 0

def enabled (s : St) : Step → Bool
  | .feed _ => true
  | .take => s.inflight.isNone && !s.input.isEmpty
  | .send =>
    match s.inflight with
    | some (_, id :: _) =>
      (match alookup id s.outputs with
       | some o => decide (o.buf.length < s.cap) || (s.guarded && o.leaving)
       | none => true)
    | _ => false
  | .unlock => match s.inflight with | some (_, []) => true | _ => false
  | .spawn => s.inflight.isNone
  | .callDespawn id => (alookup id s.outputs).isSome && !(s.pendingDespawn.contains id)
  | .despawn id => s.inflight.isNone && s.pendingDespawn.contains id
  | .consume id => match alookup id s.outputs with | some o => !o.buf.isEmpty | none => false

def setOut (s : St) (id : Nat) (o : Output) : St :=
  { s with outputs := s.outputs.map (fun p => if p.1 = id then (id, o) else p) }

def step (s : St) : Step → St
  | .feed m => { s with input := s.input ++ [m] }
  | .take =>
    match s.input with
    | m :: r => { s with input := r, inflight := some (m, akeys s.outputs), log := s.log ++ [m] }
    | [] => s
  | .send =>
    match s.inflight with
    | some (m, id :: rest) =>
      (match alookup id s.outputs with
       | some o =>
         if o.buf.length < s.cap then
           { setOut s id { o with buf := o.buf ++ [m] } with inflight := some (m, rest) }
         else { s with inflight := some (m, rest) }       -- guarded and leaving: skipped
       | none => { s with inflight := some (m, rest) })
    | _ => s
  | .unlock => { s with inflight := none }
  | .spawn => { s with outputs := s.outputs ++ [(freeId s.outputs, { since := s.log.length })] }
  | .callDespawn id =>
    let s := { s with pendingDespawn := s.pendingDespawn ++ [id] }
    if s.guarded then
      match alookup id s.outputs with
      | some o => setOut s id { o with leaving := true }
      | none => s
    else s
  | .despawn id =>
    match alookup id s.outputs with
    | some o => { s with outputs := aerase id s.outputs, gone := s.gone ++ [(id, o)],
                         pendingDespawn := s.pendingDespawn.filter (· ≠ id) }
    | none => { s with pendingDespawn := s.pendingDespawn.filter (· ≠ id) }
  | .consume id =>
    match alookup id s.outputs with
    | some o =>
      (match o.buf with
       | m :: r => setOut s id { o with buf := r, recvd := o.recvd ++ [m] }
       | [] => s)
    | none => s

def run (s : St) : List Step → St
  | [] => s
  | x :: r => if enabled s x then run (step s x) r else run s r

/-- what the consumer of an output has been given so far (received + still buffered) -/
def Output.got (o : Output) : List Nat := o.recvd ++ o.buf

/-- the dispatcher on its own: as far as it gets without any consumer step -/
def dispatcherStep (s : St) : Option Step :=
  if enabled s .send then some .send
  else if enabled s .unlock then some .unlock
  else if enabled s .take then some .take
  else none

def settle : Nat → St → St
  | 0, s => s
  | n + 1, s =>
    match dispatcherStep s with
    | some x => settle n (step s x)
    | none => s

/-- enough fuel for everything queued: each message needs one take, one send per output, one unlock -/
def settleAll (s : St) : St := settle ((s.input.length + 1) * (s.outputs.length + 2) + 2) s

/-! ### the output relay of `ProcessMidiEvents` -/

structure Relay where
  /-- what each emitter still has to emit (program order) -/
  todo : List (List (Nat × Nat))      -- per emitter: (emitter, sequence number)
  cap : Nat
  queue : List (Nat × Nat) := []
  port : List (Nat × Nat) := []
  deriving Repr, Inhabited

inductive RStep | emit (i : Nat) | relay
  deriving Repr, DecidableEq

def rstep (r : Relay) : RStep → Relay
  | .emit i =>
    match r.todo[i]? with
    | some (m :: rest) =>
      if r.queue.length < r.cap then { r with todo := r.todo.set i rest, queue := r.queue ++ [m] } else r
    | _ => r
  | .relay =>
    match r.queue with
    | m :: q => { r with queue := q, port := r.port ++ [m] }
    | [] => r

def rrun (r : Relay) : List RStep → Relay
  | [] => r
  | x :: xs => rrun (rstep r x) xs

/-! ### the input relay of `ProcessMidiEvents`: port → internal queue (10) → `midiEventsIn` (8) → consumer -/

structure InRelay where
  /-- messages that have not arrived on the port yet -/
  src : List Nat
  cap1 : Nat
  cap2 : Nat
  q1 : List Nat := []
  q2 : List Nat := []
  delivered : List Nat := []
  deriving Repr, Inhabited

inductive IStep | arrive | move | deliver
  deriving Repr, DecidableEq

def istep (r : InRelay) : IStep → InRelay
  | .arrive =>
    match r.src with
    | m :: rest => if r.q1.length < r.cap1 then { r with src := rest, q1 := r.q1 ++ [m] } else r
    | [] => r
  | .move =>
    match r.q1 with
    | m :: rest => if r.q2.length < r.cap2 then { r with q1 := rest, q2 := r.q2 ++ [m] } else r
    | [] => r
  | .deliver =>
    match r.q2 with
    | m :: rest => { r with q2 := rest, delivered := r.delivered ++ [m] }
    | [] => r

def irun (r : InRelay) : List IStep → InRelay
  | [] => r
  | x :: xs => irun (istep r x) xs

end Fan
end Hidi
