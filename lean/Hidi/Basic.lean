/-
  Hidi.Basic — shared vocabulary of the model (core Lean only).

  * `Outcome`     : result of a Go function that can return a value, return an error, or panic.
  * assoc lists   : Go maps are association lists `List (κ × α)`; `alookup`, `ainsert`, `aerase`.
  * fixed width   : Go's `uint8`/`int8` arithmetic is `Nat`/`Int` arithmetic followed by an explicit
                    wrap (`u8`, `wrap8`), so that `omega` can reason about it.
-/
namespace Hidi

/-- Result of a Go function that may panic.  `panic` is an explicit outcome so that
    "never crashes" is a theorem with content rather than a consequence of Lean's totality. -/
inductive Outcome (α : Type) where
  | ok (a : α)
  | err
  | panic
  deriving Repr, DecidableEq, Inhabited

namespace Outcome
def bind {α β} (o : Outcome α) (f : α → Outcome β) : Outcome β :=
  match o with
  | ok a => f a
  | err => err
  | panic => panic
instance : Monad Outcome where
  pure := ok
  bind := bind
def isPanic {α} : Outcome α → Bool
  | panic => true
  | _ => false
end Outcome

/-- `uint8(x)` for an `int` x. -/
def u8 (x : Int) : Nat := (x % 256).toNat
/-- `int8(x)` for an `int` x (two's complement truncation). -/
def wrap8 (x : Int) : Int := (x + 128) % 256 - 128

/-! ### association lists (Go maps) -/

def alookup {κ α} [DecidableEq κ] (k : κ) : List (κ × α) → Option α
  | [] => none
  | (k', a) :: r => if k' = k then some a else alookup k r

def aerase {κ α} [DecidableEq κ] (k : κ) (l : List (κ × α)) : List (κ × α) :=
  l.filter (fun p => p.1 ≠ k)

/-- `m[k] = a` : replaces an existing binding, otherwise appends (iteration order is not
    observable in Go; we keep insertion order for determinism). -/
def ainsert {κ α} [DecidableEq κ] (k : κ) (a : α) (l : List (κ × α)) : List (κ × α) :=
  (aerase k l) ++ [(k, a)]

def akeys {κ α} (l : List (κ × α)) : List κ := l.map (·.1)

/-- set insert on a list without duplicates -/
def sinsert {α} [DecidableEq α] (a : α) (l : List α) : List α :=
  if a ∈ l then l else l ++ [a]

def serase {α} [DecidableEq α] (a : α) (l : List α) : List α := l.filter (· ≠ a)

end Hidi
