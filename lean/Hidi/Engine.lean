/-
  Hidi.Engine — executable model of `internal/pkg/midi/device/{device.go,events.go}`:
  `NewDevice`, `processEvent` (`handleKEYEvent`, `handleABSEvent`), `NoteOn/NoteOff`,
  `AnalogNoteOn/Off`, the state actions, `Panic`, `checkExitSequence`, `handleInputEvents`
  and the disconnect clean-up of `ProcessEvents`.

  Statement-by-statement; things that look accidental in the Go code are kept (see DESIGN.md
  Appendix B).  Go maps are association lists; `uint8`/`int8` arithmetic is explicit wrapping.
-/
import Hidi.Basic
import Hidi.Float
namespace Hidi

abbrev Code := Nat
abbrev Sub := String

inductive Action
  | mappingUp | mappingDown | mapping | octaveUp | octaveDown | semitoneUp | semitoneDown
  | channelUp | channelDown | channel | multinote | panic | learning | exit
  | none  -- the empty action name (an analog `action` entry without `action_negative`)
  deriving DecidableEq, Repr, Inhabited

inductive Collision | off | noRepeat | interrupt | retrigger
  deriving DecidableEq, Repr, Inhabited

inductive AKind | cc | pitchBend | key | action
  deriving DecidableEq, Repr, Inhabited

structure Key where
  note : Nat
  chOff : Nat
  deriving DecidableEq, Repr, Inhabited

structure Analog where
  kind : AKind
  cc : Nat
  ccNeg : Nat
  note : Nat
  noteNeg : Nat
  chOff : Nat
  chOffNeg : Nat
  act : Action
  actNeg : Action
  flip : Bool
  bidir : Bool
  dzCenter : Bool
  deriving DecidableEq, Repr, Inhabited

structure Mapping where
  name : String
  midi : List ((Sub × Code) × Key)
  analog : List ((Sub × Code) × Analog)
  dz : List ((Sub × Code) × Rat)
  defDz : List (Sub × Rat)
  deriving Repr, Inhabited

/-- an OpenRGB colour -/
structure RGB where
  r : Nat := 0
  g : Nat := 0
  b : Nat := 0
  deriving DecidableEq, Repr, Inhabited

/-- `config.Colors` (the `Other` colour is never used by the LED loop) -/
structure Colors where
  white : RGB := {}
  black : RGB := {}
  c : RGB := {}
  unavailable : RGB := {}
  active : RGB := {}
  activeExternal : RGB := {}
  deriving DecidableEq, Repr, Inhabited

structure Config where
  maps : List Mapping
  actions : List (Code × Action)
  exitSeq : List Code
  mode : Collision
  defOct : Int
  defSemi : Int
  defCh : Int
  defMap : Nat
  vel : Int
  /-- `InputDevice.AbsInfos[node][code] = (min, max)` -/
  axes : List ((String × Code) × (Int × Int))
  colors : Colors := {}
  deriving Repr, Inhabited

/-- one emitted thing -/
inductive Out
  | midi (a b c : Nat)
  | sig
  | panic
  deriving DecidableEq, Repr, Inhabited

structure Dev where
  cfg : Config
  octave : Int
  semitone : Int
  channel : Nat
  velocity : Nat
  mapping : Nat
  learning : Bool
  multi : List Int
  /-- `noteTracker` : key code ↦ (note, channel) -/
  noteTr : List (Code × (Nat × Nat))
  /-- `analogNoteTracker` : (axis code, negative?) ↦ (note, channel) -/
  anaTr : List ((Code × Bool) × (Nat × Nat))
  /-- `activeNotesCounter[channel][note]` (absent = 0) -/
  counter : List ((Nat × Nat) × Int)
  /-- `lastAnalogValue[sub][code]` (absent = 0) -/
  lastAna : List ((Sub × Code) × Rat)
  actTr : List Action
  /-- controller numbers whose `ccZeroed` entry is `true` -/
  ccZeroed : List Nat
  keyTr : List Code
  /-- `externalNoteTracker` as a set of (channel, note) -/
  ext : List (Nat × Nat)
  /-- set once a Go panic has been modelled; the device is dead afterwards -/
  dead : Bool
  deriving Repr, Inhabited

/-! ### MIDI messages (`midi/event.go`) -/

def stNoteOff : Nat := 0x80
def stNoteOn : Nat := 0x90
def stCC : Nat := 0xB0
def stPB : Nat := 0xE0
def ccAllNotesOff : Nat := 123

/-- `NoteEvent(type, channel, note, velocity)` : `Event{type | channel, note, velocity}` -/
def noteEvent (ty ch note vel : Nat) : Out := .midi ((ty ||| ch) % 256) note vel
def ccEvent (ch fn v : Nat) : Out := .midi ((stCC ||| ch) % 256) fn v

/-- `PitchBendEvent(channel, val)` :
    `target := int(math.Round(16383 * ((val + 1.0) / 2.0)))`, masked to 7+7 bits. -/
def pitchBendEvent (ch : Nat) (val : Rat) : Out :=
  let target : Int := fround (fmul 16383 (fdiv (fadd val 1) 2))
  let msb := ((target / 128) % 128).toNat
  let lsb := (target % 128).toNat
  .midi ((stPB ||| ch) % 256) lsb msb

/-! ### construction (`NewDevice`) -/

def Dev.init (cfg : Config) : Dev :=
  { cfg := cfg
    octave := cfg.defOct
    semitone := cfg.defSemi
    channel := u8 (cfg.defCh - 1)
    velocity := u8 cfg.vel
    mapping := cfg.defMap
    learning := false
    multi := []
    noteTr := []
    anaTr := []
    counter := []
    lastAna := []
    actTr := []
    ccZeroed := []
    keyTr := []
    ext := []
    dead := false }

def Dev.curMap (d : Dev) : Option Mapping := d.cfg.maps[d.mapping]?

def Dev.count (d : Dev) (ch note : Nat) : Int := (alookup (ch, note) d.counter).getD 0
def Dev.setCount (d : Dev) (ch note : Nat) (v : Int) : Dev :=
  { d with counter := ainsert (ch, note) v d.counter }

/-- `(d.channel + offset) % 16` in `uint8` -/
def chanOf (channel off : Nat) : Nat := (channel + off) % 256 % 16

/-- `int(note) + int(d.octave)*12 + int(d.semitone)` -/
def Dev.transposed (d : Dev) (note : Nat) : Int := (note : Int) + d.octave * 12 + d.semitone

/-! ### notes (`NoteOn`, `NoteOff`) -/

def Dev.noteOn (d : Dev) (sub : Sub) (code : Code) : Dev × List Out :=
  match d.curMap with
  | none => ({ d with dead := true }, [.panic])
  | some m =>
    match alookup (sub, code) m.midi with
    | none => (d, [])
    | some key =>
      let n := d.transposed key.note
      if n < 0 ∨ n > 127 then (d, []) else
      let note := n.toNat
      let ch := chanOf d.channel key.chOff
      let on := noteEvent stNoteOn ch note d.velocity
      let outs : List Out :=
        match d.cfg.mode with
        | .off | .retrigger => [on]
        | .noRepeat => if d.count ch note > 0 then [] else [on]
        | .interrupt => if d.count ch note > 0 then [noteEvent stNoteOff ch note 0, on] else [on]
      let d := { d with noteTr := ainsert code (note, ch) d.noteTr }
      (d.setCount ch note (d.count ch note + 1), outs)

def Dev.noteOff (d : Dev) (code : Code) : Dev × List Out :=
  match alookup code d.noteTr with
  | none => (d, [])
  | some (note, ch) =>
    let off := noteEvent stNoteOff ch note 0
    let outs : List Out :=
      match d.cfg.mode with
      | .off => [off]
      | _ => if d.count ch note ≠ 1 then [] else [off]
    let d := { d with noteTr := aerase code d.noteTr }
    (d.setCount ch note (d.count ch note - 1), outs)

def Dev.analogNoteOn (d : Dev) (id : Code × Bool) (note chOff : Nat) : Dev × List Out :=
  let n := d.transposed note
  if n < 0 ∨ n > 127 then (d, []) else
  let ch := chanOf d.channel chOff
  ({ d with anaTr := ainsert id (n.toNat, ch) d.anaTr }, [noteEvent stNoteOn ch n.toNat 64])

def Dev.analogNoteOff (d : Dev) (id : Code × Bool) : Dev × List Out :=
  match alookup id d.anaTr with
  | none => (d, [])
  | some (note, ch) => ({ d with anaTr := aerase id d.anaTr }, [noteEvent stNoteOff ch note 0])

/-! ### state actions -/

/-- sorted ascending (insertion sort; `sort.Ints`) -/
def insertSorted (x : Int) : List Int → List Int
  | [] => [x]
  | y :: r => if x ≤ y then x :: y :: r else y :: insertSorted x r
def sortInts (l : List Int) : List Int := l.foldr insertSorted []

def Dev.multinote (d : Dev) : Dev :=
  let pressed := sortInts (d.noteTr.map (fun p => (p.2.1 : Int)))
  match pressed with
  | [] => { d with multi := [] }
  | [_] => { d with multi := [] }
  | mn :: rest => { d with multi := rest.map (· - mn) }

def panicOuts (channel : Nat) : List Out :=
  ccEvent channel ccAllNotesOff 0 :: (List.range 128).map (fun n => noteEvent stNoteOff channel n 0)

def Dev.invokePress (d : Dev) (a : Action) : Dev × List Out :=
  match a with
  | .panic => ({ d with ext := [] }, panicOuts d.channel)
  | .mappingUp =>
      -- `if d.mapping != len(KeyMappings)-1 { d.mapping++ }` (Go `int`; the list is non-empty)
      (if (d.mapping : Int) ≠ (d.cfg.maps.length : Int) - 1 then { d with mapping := d.mapping + 1 } else d, [])
  | .mappingDown => (if d.mapping ≠ 0 then { d with mapping := d.mapping - 1 } else d, [])
  | .octaveUp => ({ d with octave := d.octave + 1 }, [])
  | .octaveDown => ({ d with octave := d.octave - 1 }, [])
  | .semitoneUp => ({ d with semitone := d.semitone + 1 }, [])
  | .semitoneDown => ({ d with semitone := d.semitone - 1 }, [])
  | .channelUp => (if d.channel ≠ 15 then { d with channel := (d.channel + 1) % 256 } else d, [])
  | .channelDown => (if d.channel ≠ 0 then { d with channel := d.channel - 1 } else d, [])
  | .learning => ({ d with learning := true }, [])
  | .multinote | .mapping | .channel | .exit | .none => (d, [])

def Dev.invokeRelease (d : Dev) (a : Action) : Dev :=
  match a with
  | .learning => { d with learning := false }
  | _ => d

/-- `checkDoubleActions` : resets and reports `true` when a complete up/down pair is tracked -/
def Dev.checkDouble (d : Dev) : Dev × Bool :=
  if d.actTr.length > 1 then
    if .mappingUp ∈ d.actTr ∧ .mappingDown ∈ d.actTr then ({ d with mapping := 0 }, true)
    else if .octaveUp ∈ d.actTr ∧ .octaveDown ∈ d.actTr then ({ d with octave := 0 }, true)
    else if .semitoneUp ∈ d.actTr ∧ .semitoneDown ∈ d.actTr then ({ d with semitone := 0 }, true)
    else if .channelUp ∈ d.actTr ∧ .channelDown ∈ d.actTr then ({ d with channel := 0 }, true)
    else (d, false)
  else (d, false)

/-- `checkExitSequence` without the send -/
def Dev.exitComplete (d : Dev) : Bool :=
  !d.cfg.exitSeq.isEmpty && d.cfg.exitSeq.all (fun k => k ∈ d.keyTr)

/-! ### `handleKEYEvent` -/

def Dev.handleKey (d : Dev) (sub : Sub) (code : Code) (val : Int) : Dev × List Out :=
  match d.curMap with
  | none => ({ d with dead := true }, [.panic])
  | some m =>
    let noteOk := (alookup (sub, code) m.midi).isSome
    let action := alookup code d.cfg.actions
    let d := if val = 1 then { d with keyTr := sinsert code d.keyTr }
             else { d with keyTr := serase code d.keyTr }
    if val = 1 ∧ d.exitComplete then (d, [.sig]) else
    match action with
    | some a =>
      if val = 1 then
        let d := { d with actTr := sinsert a d.actTr }
        let (d, dbl) := d.checkDouble
        if dbl then (d, []) else d.invokePress a
      else if val = 0 then
        let d := if a = .multinote then d.multinote else d
        let d := d.invokeRelease a
        ({ d with actTr := serase a d.actTr }, [])
      else (d, [])
    | none =>
      if noteOk then
        if val = 1 then d.noteOn sub code
        else if val = 0 then d.noteOff code
        else (d, [])
      else if val = 0 then d.noteOff code  -- workaround branch: release a tracked key that is unmapped now
      else (d, [])

/-! ### `handleABSEvent` -/

/-- the shaped (normalised, centred, deadzone-cut) value before the flip; `none` = Go panic -/
def shapeRaw (min max : Int) (dzCenter : Bool) (dz : Rat) (raw : Int) : Rat :=
  let v0 : Rat :=
    if raw < 0 then fdiv (raw : Rat) (rabs (min : Rat)) else fdiv (raw : Rat) (rabs (max : Rat))
  let v1 := if dzCenter then fsub (fmul v0 2) 1 else v0
  if v1 < 0 then
    if -dz < v1 then 0 else fdiv (fadd v1 dz) (fsub 1 dz)
  else
    if v1 < dz then 0 else fdiv (fsub v1 dz) (fsub 1 dz)

def flipVal (canNeg flip : Bool) (v : Rat) : Rat :=
  if flip then (if canNeg then -v else fsub 1 v) else v

/-- `byte(int(float64(127)*a))` -/
def ccByte (a : Rat) : Nat := u8 (ftrunc (fmul 127 a))

def Dev.setZeroed (d : Dev) (cc : Nat) (b : Bool) : Dev :=
  { d with ccZeroed := if b then sinsert cc d.ccZeroed else serase cc d.ccZeroed }

/-- both sides of a bidirectional controller: `neg` tells which side the value is on -/
def Dev.bidirCC (d : Dev) (a : Analog) (neg : Bool) (adj : Rat) : Dev × List Out :=
  let ch := chanOf d.channel a.chOff
  let chN := chanOf d.channel a.chOffNeg
  if neg then
    let o1 := [ccEvent chN a.ccNeg (ccByte adj)]
    let (d, o2) := if a.cc ∈ d.ccZeroed then (d, []) else (d.setZeroed a.cc true, [ccEvent ch a.cc 0])
    (d.setZeroed a.ccNeg false, o1 ++ o2)
  else
    let o1 := [ccEvent ch a.cc (ccByte adj)]
    let (d, o2) := if a.ccNeg ∈ d.ccZeroed then (d, []) else (d.setZeroed a.ccNeg true, [ccEvent chN a.ccNeg 0])
    (d.setZeroed a.cc false, o1 ++ o2)

def Dev.absCC (d : Dev) (a : Analog) (canNeg : Bool) (v : Rat) : Dev × List Out :=
  let ch := chanOf d.channel a.chOff
  if canNeg then
    if a.bidir then d.bidirCC a (decide (v < 0)) (rabs v)
    else (d, [ccEvent ch a.cc (ccByte (fdiv (fadd v 1) 2))])
  else
    if a.bidir then d.bidirCC a (decide (v < 1/2)) (rabs (fsub (fmul v 2) 1))
    else (d, [ccEvent ch a.cc (ccByte v)])

/-- the Go literal `0.49` (nearest binary64) -/
def c49 : Rat := rnd53 (49/100)

def Dev.absKey (d : Dev) (a : Analog) (code : Code) (canNeg : Bool) (v0 : Rat) : Dev × List Out :=
  let v := if canNeg then v0 else fsub (fmul v0 2) 1
  let pos : Code × Bool := (code, false)
  let neg : Code × Bool := (code, true)
  if v ≤ -1/2 then
    let (d, o1) :=
      if a.bidir ∧ (alookup neg d.anaTr).isNone then d.analogNoteOn neg a.noteNeg a.chOffNeg else (d, [])
    let (d, o2) := d.analogNoteOff pos
    (d, o1 ++ o2)
  else if -c49 < v ∧ v < c49 then
    let (d, o1) := d.analogNoteOff pos
    let (d, o2) := d.analogNoteOff neg
    (d, o1 ++ o2)
  else if 1/2 ≤ v then
    let (d, o1) :=
      if (alookup pos d.anaTr).isNone then d.analogNoteOn pos a.note a.chOff else (d, [])
    let (d, o2) := d.analogNoteOff neg
    (d, o1 ++ o2)
  else (d, [])

def Dev.absAction (d : Dev) (a : Analog) (canNeg : Bool) (v0 : Rat) : Dev × List Out :=
  let (d, dbl) := d.checkDouble
  if dbl then (d, []) else
  let v := if canNeg then v0 else fsub (fmul v0 2) 1
  if v ≤ -1/2 then
    let (d, o) := d.invokePress a.actNeg
    let d := { d with actTr := sinsert a.actNeg d.actTr }
    let d := d.invokeRelease a.act
    ({ d with actTr := serase a.act d.actTr }, o)
  else if -c49 < v ∧ v < c49 then
    let d := d.invokeRelease a.actNeg
    let d := d.invokeRelease a.act
    ({ d with actTr := serase a.act (serase a.actNeg d.actTr) }, [])
  else if 1/2 ≤ v then
    let (d, o) := d.invokePress a.act
    let d := { d with actTr := sinsert a.act d.actTr }
    let d := { d with actTr := serase a.actNeg d.actTr }
    (d.invokeRelease a.actNeg, o)
  else (d, [])

/-- release what the key emulation of axis `code` still holds (the analogue of the key-path
    workaround: the mapping changed under a deflected axis) -/
def Dev.releaseAxis (d : Dev) (code : Code) : Dev × List Out :=
  let (d, o1) := d.analogNoteOff (code, false)
  let (d, o2) := d.analogNoteOff (code, true)
  (d, o1 ++ o2)

/-- the deadzone that applies: specific, per-sub-handler default, global default, else Go panics -/
def Mapping.deadzone (m : Mapping) (sub : Sub) (code : Code) : Option Rat :=
  match alookup (sub, code) m.dz with
  | some z => some z
  | none =>
    match alookup sub m.defDz with
    | some z => some z
    | none => alookup "" m.defDz

def Dev.handleAbs (d : Dev) (sub : Sub) (node : String) (code : Code) (raw : Int) : Dev × List Out :=
  match d.curMap with
  | none => ({ d with dead := true }, [.panic])
  | some m =>
    match alookup (sub, code) m.analog with
    | none => d.releaseAxis code
    | some a =>
      let (d, pre) := if a.kind = .key then (d, []) else d.releaseAxis code
      let (mn, mx) := (alookup (node, code) d.cfg.axes).getD (0, 0)
      let canNeg := decide (mn < 0) || a.dzCenter
      match m.deadzone sub code with
      | none => ({ d with dead := true }, pre ++ [.panic])
      | some dz =>
        let w := shapeRaw mn mx a.dzCenter dz raw
        let last := (alookup (sub, code) d.lastAna).getD 0
        if last = w then (d, pre) else
        let d := { d with lastAna := ainsert (sub, code) w d.lastAna }
        let v := flipVal canNeg a.flip w
        if d.learning ∧ ¬ (v < -1/2 ∨ 1/2 < v) then (d, pre) else
        let (d, o) :=
          match a.kind with
          | .cc => d.absCC a canNeg v
          | .pitchBend =>
              (d, [pitchBendEvent (chanOf d.channel a.chOff) (if canNeg then v else fsub (fmul v 2) 1)])
          | .key => d.absKey a code canNeg v
          | .action => d.absAction a canNeg v
        (d, pre ++ o)

/-! ### events, `processEvent`, MIDI input, disconnect -/

inductive Ev
  | key (sub : Sub) (code : Code) (val : Int)
  | abs (sub : Sub) (node : String) (code : Code) (val : Int)
  | syn
  | midiIn (a b c : Nat)
  deriving Repr, Inhabited, DecidableEq

/-- `handleInputEvents` for one 3-byte message (`Event.Type/Channel/Note`) -/
def Dev.midiIn (d : Dev) (a b c : Nat) : Dev :=
  let ty := if a / 16 ≠ 15 ∧ a ≥ 128 then a / 16 * 16 else a
  let ch := a % 16
  if ty = stNoteOn then
    if c = 0 then { d with ext := serase (ch, b) d.ext } else { d with ext := sinsert (ch, b) d.ext }
  else if ty = stNoteOff then { d with ext := serase (ch, b) d.ext }
  else d

def Dev.step (d : Dev) (e : Ev) : Dev × List Out :=
  if d.dead then (d, []) else
  match e with
  | .syn => (d, [])
  | .key sub code val => if val = 2 then (d, []) else d.handleKey sub code val
  | .abs sub node code val => d.handleAbs sub node code val
  | .midiIn a b c => (d.midiIn a b c, [])

/-- outputs grouped per step -/
def Dev.run (d : Dev) : List Ev → Dev × List (List Out)
  | [] => (d, [])
  | e :: es =>
    let (d1, o) := d.step e
    let (d2, os) := d1.run es
    (d2, o :: os)

def Dev.runFlat (d : Dev) (es : List Ev) : Dev × List Out :=
  let (d', os) := d.run es
  (d', os.flatten)

/-- disconnect clean-up: `NoteOff` for every tracked key in the (unspecified) map order `order`,
    then `AnalogNoteOff` for every tracked identifier in order `aorder` -/
def Dev.cleanupWith (d : Dev) (order : List Code) (aorder : List (Code × Bool)) : Dev × List Out :=
  let (d, o1) := order.foldl (fun (acc : Dev × List Out) c =>
      let (d', o) := acc.1.noteOff c; (d', acc.2 ++ o)) (d, [])
  let (d, o2) := aorder.foldl (fun (acc : Dev × List Out) c =>
      let (d', o) := acc.1.analogNoteOff c; (d', acc.2 ++ o)) (d, [])
  (d, o1 ++ o2)

def Dev.cleanup (d : Dev) : Dev × List Out :=
  if d.dead then (d, []) else d.cleanupWith (akeys d.noteTr) (akeys d.anaTr)

/-- `Device.State()` : octave, semitone, channel, mapping index, notes -/
def Dev.stateLine (d : Dev) : String :=
  s!"{d.octave} {d.semitone} {d.channel} {d.mapping} {d.noteTr.length + d.anaTr.length}"

end Hidi
