/-
  Hidi.Float — an exact model of the IEEE-754 binary64 operations the Go code performs.

  Values are rationals; each Go float64 operation is the exact rational operation followed by
  `rnd53` (round to nearest, ties to even, 53-bit significand).  No overflow / subnormal handling:
  the values that occur in the modelled code lie in [2^-60, 2^15] or are exactly 0 (checked by the
  correspondence run, which compares bit-exact results with the Go implementation).
-/
import Hidi.Basic
namespace Hidi

def pow2 (e : Int) : Rat :=
  if e ≥ 0 then ((2 ^ e.toNat : Nat) : Rat) else 1 / ((2 ^ (-e).toNat : Nat) : Rat)

def rabs (q : Rat) : Rat := if q < 0 then -q else q

/-- round a non-negative rational to the nearest integer, ties to even -/
def roundNE (q : Rat) : Int :=
  let f := q.floor
  let r := q - (f : Rat)
  if r < 1/2 then f
  else if 1/2 < r then f + 1
  else if f % 2 = 0 then f else f + 1

/-- ⌊log₂ q⌋ for q > 0 -/
def ilog2 (q : Rat) : Int :=
  let e0 : Int := (q.num.toNat.log2 : Int) - (q.den.log2 : Int)
  if pow2 e0 ≤ q then e0 else e0 - 1

/-- round to nearest-even binary64 (normal range only) -/
def rnd53 (q : Rat) : Rat :=
  if q = 0 then 0 else
  let a := rabs q
  let e := ilog2 a - 52
  let m := roundNE (a / pow2 e)
  let r := (m : Rat) * pow2 e
  if q < 0 then -r else r

def fadd (a b : Rat) : Rat := rnd53 (a + b)
def fsub (a b : Rat) : Rat := rnd53 (a - b)
def fmul (a b : Rat) : Rat := rnd53 (a * b)
def fdiv (a b : Rat) : Rat := rnd53 (a / b)

/-- Go's `int(f)` : truncation toward zero -/
def ftrunc (q : Rat) : Int := if q < 0 then -((-q).floor) else q.floor

/-- Go's `int(math.Round(f))` : round half away from zero -/
def fround (q : Rat) : Int := if q < 0 then -((-q + 1/2).floor) else (q + 1/2).floor

/-- decode an IEEE-754 binary64 bit pattern; `none` for NaN and infinities -/
def ofBits (b : Nat) : Option Rat :=
  let sign : Nat := b / 2 ^ 63 % 2
  let ex : Nat := b / 2 ^ 52 % 2048
  let man : Nat := b % 2 ^ 52
  if ex = 2047 then none else
  let mag : Rat :=
    if ex = 0 then (man : Rat) * pow2 (-1074)
    else ((2 ^ 52 + man : Nat) : Rat) * pow2 ((ex : Int) - 1075)
  some (if sign = 1 then -mag else mag)

end Hidi
