/-
  Hidi.Spec — the properties C01–C05, C13, C14 as decidable predicates over *observed traces*
  (configuration, events, the MIDI/signal output of every step, `Device.State()` after every step).

  The same predicates are (a) evaluated by the driver on the traces of the Go implementation
  (the monitors), and (b) the statements of the theorems in `HidiProofs/Props/*.lean`, which say
  that they hold on every trace of the model.

  The specification is written from the receiver's / user's point of view and does not look at the
  model's internal state: what it needs to know about "the current octave, semitone, channel and
  mapping" it takes from the observed `State()` before the step; which keys are down it derives
  from the events.  Its own bookkeeping (`Book`) is: keys that are down, the (note, channel) pair
  pinned to every held note key at the time of its press, and the set of state actions held.
-/
import Hidi.Engine
namespace Hidi
namespace Spec

structure StObs where
  oct : Int
  semi : Int
  ch : Nat
  map : Nat
  notes : Nat
  deriving DecidableEq, Repr, Inhabited

def StObs.ofDev (d : Dev) : StObs :=
  ⟨d.octave, d.semitone, d.channel, d.mapping, d.noteTr.length + d.anaTr.length⟩

structure Step where
  ev : Ev
  outs : List Out
  st : StObs
  deriving Repr, Inhabited

structure Trace where
  cfg : Config
  init : StObs
  steps : List Step
  /-- output of the disconnect clean-up, when the history ends with a disconnect -/
  cleanup : Option (List Out)
  deriving Repr, Inhabited

/-! ### the receiver -/

/-- the set of (channel, note) sounding at a receiver after one more message -/
def recv (s : List (Nat × Nat)) : Out → List (Nat × Nat)
  | .midi a b c =>
    let ty := a / 16
    let ch := a % 16
    if ty = 9 ∧ c > 0 then sinsert (ch, b) s
    else if ty = 8 ∨ (ty = 9 ∧ c = 0) then serase (ch, b) s
    else if ty = 11 ∧ b = 123 then s.filter (fun p => p.1 ≠ ch)
    else s
  | _ => s

def sounding (s : List (Nat × Nat)) (outs : List Out) : List (Nat × Nat) := outs.foldl recv s

def isMidi : Out → Bool
  | .midi _ _ _ => true
  | _ => false

def sigCount (outs : List Out) : Nat := (outs.filter (· = Out.sig)).length

/-- C05: a complete, valid channel message of one of the four kinds the device may emit -/
def wellFormed : Out → Bool
  | .midi a b c => (a / 16 = 8 ∨ a / 16 = 9 ∨ a / 16 = 11 ∨ a / 16 = 14) ∧ a < 256 ∧ b < 128 ∧ c < 128
  | .sig => true
  | .panic => true

/-! ### accepted configurations (what the parser lets through; see `Hidi.Parser`, C10) -/

def keyOk (k : Key) : Bool := k.note ≤ 127 ∧ k.chOff ≤ 15
def analogOk (a : Analog) : Bool :=
  a.cc ≤ 119 ∧ a.ccNeg ≤ 119 ∧ a.note ≤ 127 ∧ a.noteNeg ≤ 127 ∧ a.chOff ≤ 15 ∧ a.chOffNeg ≤ 15
def mappingOk (m : Mapping) : Bool :=
  m.midi.all (fun p => keyOk p.2) ∧ m.analog.all (fun p => analogOk p.2)

def Accepted (c : Config) : Bool :=
  c.maps.all mappingOk ∧ c.defMap < c.maps.length ∧ 1 ≤ c.defCh ∧ c.defCh ≤ 16 ∧ 1 ≤ c.vel ∧ c.vel ≤ 127

/-- is the axis event inside the quantifier: known axis with `min ≤ 0 < max`, value in range,
    `deadzone_at_center` only with `min = 0`, deadzone in [0, 1) -/
def axisOK (mn mx : Int) (dzc : Bool) (dz : Rat) (raw : Int) : Bool :=
  mn ≤ 0 ∧ 0 < mx ∧ mn ≤ raw ∧ raw ≤ mx ∧ (dzc → mn = 0) ∧ 0 ≤ dz ∧ dz < 1

/-- an event inside C05's quantifier: every key event; axis positions within the reported range -/
def evInRange (cfg : Config) (s : StObs) : Ev → Bool
  | .abs sub node code raw =>
    match cfg.maps[s.map]? with
    | none => false
    | some m =>
      match alookup (sub, code) m.analog with
      | none => true
      | some a =>
        let (mn, mx) := (alookup (node, code) cfg.axes).getD (0, 0)
        match m.deadzone sub code with
        | none => false
        | some dz => axisOK mn mx a.dzCenter dz raw
  | _ => true

/-! ### bookkeeping derived from the events -/

structure Book where
  /-- observed state before the step -/
  pre : StObs
  /-- keys whose last event was a press -/
  down : List Code
  /-- held note keys with the (note, channel) pinned at their press -/
  pinned : List (Code × (Nat × Nat))
  /-- state actions currently held (by key) -/
  acts : List Action
  /-- what a receiver hears -/
  snd : List (Nat × Nat)
  /-- the history so far is inside the quantifier of C01–C04 (values 0/1, alternating,
      pair discipline, no axis-driven actions or key emulation) -/
  ok : Bool
  /-- a Go panic was observed: the device is gone, nothing is claimed afterwards -/
  dead : Bool := false
  deriving Repr, Inhabited

def Book.init (st : StObs) : Book := ⟨st, [], [], [], [], true, false⟩

def pairs : List (Action × Action) :=
  [(.mappingUp, .mappingDown), (.octaveUp, .octaveDown), (.semitoneUp, .semitoneDown), (.channelUp, .channelDown)]

def completePairs (acts : List Action) : List (Action × Action) :=
  pairs.filter (fun p => p.1 ∈ acts ∧ p.2 ∈ acts)

def isStateAction : Action → Bool
  | .mappingUp | .mappingDown | .octaveUp | .octaveDown | .semitoneUp | .semitoneDown
  | .channelUp | .channelDown | .multinote | .learning => true
  | _ => false

/-- what a step is expected to do -/
structure Expect where
  /-- the exact output, when the specification determines it -/
  outs : Option (List Out)
  /-- the exact `State()` (first four components) after the step, when determined -/
  st : Option (Int × Int × Nat × Nat)
  /-- number of held note keys afterwards (`State().Notes`), when determined -/
  notes : Option Nat
  /-- is this the press that completes the exit sequence -/
  swallowed : Bool
  /-- a press with no other holder of its pitch (or resolving to nothing) -/
  fresh : Bool := true
  /-- on a release: the Note Off pinned to this key, if any -/
  relOff : Option Out := none
  deriving Repr, Inhabited

def holders (pinned : List (Code × (Nat × Nat))) (p : Nat × Nat) : Nat :=
  (pinned.filter (fun q => q.2 = p)).length

def keepSt (s : StObs) : Option (Int × Int × Nat × Nat) := some (s.oct, s.semi, s.ch, s.map)

/-- effect of a single (unpaired) action press on the four state components, in unbounded
    integers for octave and semitone (C04: "moves its value by exactly one") -/
def actionEffect (cfg : Config) (s : StObs) : Action → Int × Int × Nat × Nat
  | .octaveUp => (s.oct + 1, s.semi, s.ch, s.map)
  | .octaveDown => (s.oct - 1, s.semi, s.ch, s.map)
  | .semitoneUp => (s.oct, s.semi + 1, s.ch, s.map)
  | .semitoneDown => (s.oct, s.semi - 1, s.ch, s.map)
  | .channelUp => (s.oct, s.semi, if s.ch < 15 then s.ch + 1 else s.ch, s.map)
  | .channelDown => (s.oct, s.semi, s.ch - 1, s.map)
  | .mappingUp => (s.oct, s.semi, s.ch, if s.map + 1 < cfg.maps.length then s.map + 1 else s.map)
  | .mappingDown => (s.oct, s.semi, s.ch, s.map - 1)
  | _ => (s.oct, s.semi, s.ch, s.map)

def resetEffect (s : StObs) : Action × Action → Int × Int × Nat × Nat
  | (.mappingUp, _) => (s.oct, s.semi, s.ch, 0)
  | (.octaveUp, _) => (0, s.semi, s.ch, s.map)
  | (.semitoneUp, _) => (s.oct, 0, s.ch, s.map)
  | (.channelUp, _) => (s.oct, s.semi, 0, s.map)
  | _ => (s.oct, s.semi, s.ch, s.map)

/-- the pair a note key resolves to in the observed state (C04), `none` when out of range / unmapped -/
def resolve (cfg : Config) (s : StObs) (vel : Nat) (sub : Sub) (code : Code) : Option (Nat × Nat × Nat) :=
  match cfg.maps[s.map]? with
  | none => none
  | some m =>
    match alookup (sub, code) m.midi with
    | none => none
    | some k =>
      let n : Int := (k.note : Int) + 12 * s.oct + s.semi
      if n < 0 ∨ n > 127 then none else some (n.toNat, (s.ch + k.chOff) % 16, vel)

/-- C13: All Notes Off (CC 123, value 0) followed by a Note Off for each of the 128 notes, on channel `ch` -/
def panicMsgs (ch : Nat) : List Out :=
  .midi (0xB0 + ch) 123 0 :: (List.range 128).map (fun n => .midi (0x80 + ch) n 0)

def noteOnMsg (ch n v : Nat) : Out := .midi (0x90 + ch) n v
def noteOffMsg (ch n : Nat) : Out := .midi (0x80 + ch) n 0

/-- expected behaviour of a key event (value 0 or 1) and the bookkeeping afterwards -/
def expectKey (cfg : Config) (b : Book) (sub : Sub) (code : Code) (val : Int) : Expect × Book :=
  let s := b.pre
  let vel := u8 cfg.vel
  let down' := if val = 1 then sinsert code b.down else serase code b.down
  let swallowed := val = 1 ∧ !cfg.exitSeq.isEmpty ∧ cfg.exitSeq.all (fun k => k ∈ down')
  -- history discipline: 0/1 values; a press only of a key that is up
  let ok := b.ok && (val = 0 || val = 1) && !(val = 1 && code ∈ b.down)
  let b := { b with down := down', ok := ok }
  if swallowed then
    (⟨some [.sig], keepSt s, some b.pinned.length, true, true, none⟩, b)
  else
  match alookup code cfg.actions with
  | some a =>
    if val = 1 then
      let acts' := sinsert a b.acts
      let cp := completePairs acts'
      if acts'.length > 1 ∧ cp ≠ [] then
        match cp with
        | [p] =>
          if a = p.1 ∨ a = p.2 then
            (⟨some [], some (resetEffect s p), some b.pinned.length, false, true, none⟩, { b with acts := acts' })
          else (⟨none, none, none, false, true, none⟩, { b with acts := acts', ok := false })
        | _ => (⟨none, none, none, false, true, none⟩, { b with acts := acts', ok := false })
      else
        let outs : List Out := if a = .panic then panicMsgs s.ch else []
        (⟨some outs, some (actionEffect cfg s a), some b.pinned.length, false, true, none⟩, { b with acts := acts' })
    else
      (⟨some [], keepSt s, some b.pinned.length, false, true, none⟩, { b with acts := serase a b.acts })
  | none =>
    if val = 1 then
      match resolve cfg s vel sub code with
      | none => (⟨some [], keepSt s, some b.pinned.length, false, true, none⟩, b)
      | some (n, ch, v) =>
        let h := holders b.pinned (n, ch)
        let on := noteOnMsg ch n v
        let outs : List Out :=
          match cfg.mode with
          | .off | .retrigger => [on]
          | .noRepeat => if h = 0 then [on] else []
          | .interrupt => if h = 0 then [on] else [noteOffMsg ch n, on]
        let pinned' := ainsert code (n, ch) b.pinned
        (⟨some outs, keepSt s, some pinned'.length, false, decide (h = 0), none⟩, { b with pinned := pinned' })
    else
      match alookup code b.pinned with
      | none => (⟨some [], keepSt s, some b.pinned.length, false, true, none⟩, b)
      | some (n, ch) =>
        let h := holders b.pinned (n, ch)
        let outs : List Out :=
          match cfg.mode with
          | .off => [noteOffMsg ch n]
          | _ => if h = 1 then [noteOffMsg ch n] else []
        let pinned' := aerase code b.pinned
        (⟨some outs, keepSt s, some pinned'.length, false, true, some (noteOffMsg ch n)⟩, { b with pinned := pinned' })

/-- `held`: number of keys emulated by axes that are held after the step, as determined by the axis
    specification (`Hidi.SpecAxis`), `none` when unknown; `actionAxis`: the step is an event of an axis
    that emulates actions (outside C01–C04) -/
def expectStep (cfg : Config) (b : Book) (actionAxis : Bool) : Ev → Expect × Book
  | .key sub code val =>
    if val = 2 then (⟨some [], keepSt b.pre, some b.pinned.length, false, true, none⟩, b)
    else expectKey cfg b sub code val
  | .syn => (⟨some [], keepSt b.pre, some b.pinned.length, false, true, none⟩, b)
  | .midiIn _ _ _ => (⟨some [], keepSt b.pre, some b.pinned.length, false, true, none⟩, b)
  | .abs _ _ _ _ =>
    -- axes are specified by C06–C08 (Hidi.SpecAxis); here only: they do not disturb the key
    -- bookkeeping (axis-driven actions are excluded from C01–C04 by `ok`)
    (⟨none, (if actionAxis then none else keepSt b.pre), some b.pinned.length, false, true, none⟩,
     { b with ok := b.ok && !actionAxis })

/-! ### the monitors -/

structure Fail where
  prop : String
  step : Nat
  clause : String
  deriving Repr, Inhabited, DecidableEq

def stateKeyOf (s : StObs) : Int × Int × Nat × Nat := (s.oct, s.semi, s.ch, s.map)

def isNoteKeyStep (cfg : Config) : Ev → Bool
  | .key _ code val => (alookup code cfg.actions).isNone ∧ (val = 0 ∨ val = 1)
  | _ => false

def stateActionOf (cfg : Config) : Ev → Option Action
  | .key _ code _ => (alookup code cfg.actions).filter isStateAction
  | _ => none

def actionOf (cfg : Config) : Ev → Option Action
  | .key _ code _ => alookup code cfg.actions
  | _ => none

/-- all clause failures of one step -/
def checkStep (cfg : Config) (idx : Nat) (b : Book) (st : Step) (held : Option Nat := some 0)
    (actionAxis : Bool := false) : List Fail × Book :=
  let (e, b') := expectStep cfg b actionAxis st.ev
  let okBefore := b.ok
  let ok := b'.ok
  let acc := Accepted cfg
  let fails : List Fail := []
  -- C14: the signal is raised exactly on the completing press, which does nothing else
  let fails := if sigCount st.outs ≠ (if e.swallowed then 1 else 0) then
      fails ++ [⟨"C14", idx, if e.swallowed then "no-signal-on-completing-press" else "signal-without-complete-sequence"⟩] else fails
  let fails := if e.swallowed ∧ (st.outs ≠ [.sig] ∨ stateKeyOf st.st ≠ stateKeyOf b.pre ∨ st.st.notes ≠ b.pre.notes) then
      fails ++ [⟨"C14", idx, "completing-press-not-swallowed"⟩] else fails
  -- C05: every message is well-formed
  let fails := if acc ∧ evInRange cfg b.pre st.ev ∧ ¬ st.outs.all wellFormed then fails ++ [⟨"C05", idx, "malformed-message"⟩] else fails
  -- C02(b): state actions are silent
  let fails := if (stateActionOf cfg st.ev).isSome ∧ st.outs.any isMidi then
      fails ++ [⟨"C02", idx, "state-action-emitted-midi"⟩] else fails
  -- C13: panic
  let fails := if ok ∧ acc ∧ actionOf cfg st.ev = some .panic ∧ ¬ e.swallowed then
      (match st.ev, e.outs with
       | .key _ _ 1, some o =>
          if st.outs ≠ o then fails ++ [⟨"C13", idx, "panic-messages"⟩]
          else if stateKeyOf st.st ≠ stateKeyOf b.pre ∨ st.st.notes ≠ b.pre.notes then fails ++ [⟨"C13", idx, "panic-changed-state"⟩]
          else fails
       | _, _ => fails) else fails
  -- C02(a), C03, C04(a): note keys
  let fails := if ok ∧ acc ∧ isNoteKeyStep cfg st.ev ∧ ¬ e.swallowed then
      (match e.outs with
       | some o =>
         if st.outs = o then fails else
           match st.ev with
           | .key _ _ 1 =>
              -- a press: C04 when it is the only holder of its pitch, C03 otherwise
              fails ++ [⟨(if e.fresh then "C04" else "C03"), idx, "press-output"⟩]
           | _ =>
              -- a release: C02 when a message other than the pinned Note Off appears, else C03 (count)
              let foreign := st.outs.any (fun m => isMidi m ∧ some m ≠ e.relOff)
              fails ++ [⟨(if foreign then "C02" else "C03"), idx, "release-output"⟩]
       | none => fails) else fails
  -- C04(b): state evolution
  let fails := if ok ∧ acc then
      (match e.st with
       | some s => if stateKeyOf st.st ≠ s then fails ++ [⟨"C04", idx, "state-evolution"⟩] else fails
       | none => fails) else fails
  let fails := if ok ∧ acc then
      (match e.notes, held with
       | some n, some h => if st.st.notes ≠ n + h then fails ++ [⟨"C04", idx, "held-note-count"⟩] else fails
       | _, _ => fails) else fails
  -- C01(a): nothing sounds when nothing is held
  let snd := sounding b.snd st.outs
  let fails := if ok ∧ acc ∧ b'.down = [] ∧ held = some 0 ∧ snd ≠ [] then fails ++ [⟨"C01", idx, "sounding-at-quiescence"⟩] else fails
  let _ := okBefore
  -- nothing is claimed for configurations the parser rejects, nor after an observed crash
  let fails := if acc ∧ ¬ b.dead ∧ ¬ st.outs.contains .panic then fails else []
  (fails, { b' with pre := st.st, snd := snd, dead := b.dead || st.outs.contains .panic })

/-! ### observations: what each property looks at (the tie compares these between model and code) -/

def outTok : Out → String
  | .midi a b c => s!"{a}.{b}.{c}"
  | .sig => "SIG"
  | .panic => "PANIC"

def outsStr (os : List Out) : String := " ".intercalate (os.map outTok)
def stStr (s : StObs) : String := s!"{s.oct},{s.semi},{s.ch},{s.map},{s.notes}"
def sndStr (s : List (Nat × Nat)) : String :=
  " ".intercalate ((s.map (fun p => p.1 * 128 + p.2)).toArray.qsort (· < ·) |>.toList.map toString)

def classTok : Out → String
  | .midi a b c => s!"{a / 16}{if b < 128 then "v" else "X"}{if c < 128 then "v" else "X"}"
  | .sig => "SIG"
  | .panic => "PANIC"

/-- per-property observations of one step -/
def obsStep (cfg : Config) (b : Book) (st : Step) (held : Option Nat := some 0) (actionAxis : Bool := false) :
    List (String × String) :=
  let (e, b') := expectStep cfg b actionAxis st.ev
  let snd := sounding b.snd st.outs
  let o : List (String × String) := []
  let o := if b'.down = [] ∧ held = some 0 then o ++ [("C01", sndStr snd)] else o
  let o := if (stateActionOf cfg st.ev).isSome then o ++ [("C02", outsStr (st.outs.filter isMidi))] else o
  let o := match st.ev with
    | .key _ _ 0 =>
      if (actionOf cfg st.ev).isNone then
        o ++ [("C02", outsStr (st.outs.filter (fun m => isMidi m ∧ some m ≠ e.relOff)))]
      else o
    | _ => o
  let o := if isNoteKeyStep cfg st.ev then o ++ [("C03", outsStr st.outs)] else o
  let o := o ++ [("C04", stStr st.st)]
  let o := match st.ev with
    | .key _ _ 1 => if isNoteKeyStep cfg st.ev ∧ e.fresh ∧ ¬ e.swallowed then o ++ [("C04", outsStr st.outs)] else o
    | _ => o
  let o := o ++ [("C05", " ".intercalate ((st.outs.map classTok).eraseDups.toArray.qsort (· < ·)).toList)]
  let o := match st.ev with
    | .key _ _ 1 => if actionOf cfg st.ev = some .panic then o ++ [("C13", outsStr st.outs ++ "|" ++ stStr st.st)] else o
    | _ => o
  let o := o ++ [("C14", toString (sigCount st.outs))]
  let o := if e.swallowed ∨ sigCount st.outs > 0 then o ++ [("C14", outsStr st.outs ++ "|" ++ stStr st.st)] else o
  o

def observeSteps (cfg : Config) : Book → List Step → List (Option Nat × Bool) → List (String × String) × Book
  | b, [], _ => ([], b)
  | b, s :: r, infos =>
    let (held, aa) := infos.headD (some 0, false)
    let o := obsStep cfg b s held aa
    let (_, b') := checkStep cfg 0 b s held aa
    let (os, b'') := observeSteps cfg b' r infos.tail
    (o ++ os, b'')

def observe (t : Trace) (infos : List (Option Nat × Bool) := []) : List (String × String) :=
  let (os, b) := observeSteps t.cfg (Book.init t.init) t.steps infos
  let oc : List (String × String) :=
    match t.cleanup with
    | none => []
    | some o => [("C01", sndStr (sounding b.snd o)), ("C05", " ".intercalate ((o.map classTok).eraseDups.toArray.qsort (· < ·)).toList)]
  [("C04", stStr t.init)] ++ os ++ oc

def obsOf (p : String) (os : List (String × String)) : List String := (os.filter (·.1 = p)).map (·.2)

def checkSteps (cfg : Config) : Nat → Book → List Step → List (Option Nat × Bool) → List Fail × Book
  | _, b, [], _ => ([], b)
  | i, b, s :: r, infos =>
    let (held, aa) := infos.headD (some 0, false)
    let (f, b') := checkStep cfg i b s held aa
    let (fs, b'') := checkSteps cfg (i + 1) b' r infos.tail
    (f ++ fs, b'')

def initExpected (cfg : Config) : StObs := ⟨cfg.defOct, cfg.defSemi, u8 (cfg.defCh - 1), cfg.defMap, 0⟩

/-- `infos`: per step, what the axis specification knows (held emulated keys, action axis?);
    the empty list means "no axes" -/
def checkTrace (t : Trace) (infos : List (Option Nat × Bool) := []) : List Fail :=
  let acc := Accepted t.cfg
  let f0 : List Fail :=
    if acc ∧ t.init ≠ initExpected t.cfg then [⟨"C04", 0, "initial-state"⟩] else []
  let (fs, b) := checkSteps t.cfg 0 (Book.init t.init) t.steps infos
  let fc : List Fail :=
    match t.cleanup with
    | none => []
    | some o =>
      (if acc ∧ ¬ b.dead ∧ ¬ o.all wellFormed then [⟨"C05", t.steps.length, "malformed-message"⟩] else []) ++
      (if acc ∧ b.ok ∧ ¬ b.dead ∧ sounding b.snd o ≠ [] then [⟨"C01", t.steps.length, "sounding-after-disconnect"⟩] else [])
  f0 ++ fs ++ fc

def failsOf (p : String) (fs : List Fail) : List Fail := fs.filter (·.prop = p)

/-- the trace the model produces -/
def modelSteps (d : Dev) : List Ev → List Step × Dev
  | [] => ([], d)
  | e :: es =>
    let (d1, o) := d.step e
    let (ss, d2) := modelSteps d1 es
    (⟨e, o, StObs.ofDev d1⟩ :: ss, d2)

def modelTrace (cfg : Config) (evs : List Ev) (disconnect : Bool) : Trace :=
  let d0 := Dev.init cfg
  let (ss, d) := modelSteps d0 evs
  ⟨cfg, StObs.ofDev d0, ss, if disconnect then some d.cleanup.2 else none⟩

end Spec
end Hidi
