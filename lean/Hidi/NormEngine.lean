import Hidi.Normalize
import Hidi.LoadEngine
namespace Hidi

structure NormSt where
  hs : List HandlerInfo := []
  deriving Inhabited

def NormSt.line (s : NormSt) (toks : List String) : NormSt × Option String :=
  match toks with
  | ["h.reset"] => ({}, none)
  | ["h", phys, b, v, p, ver, name, caps] =>
    let cs := if caps = "-" then [] else (caps.splitOn ",").map tokNat
    ({ hs := s.hs ++ [⟨bytesToString (unhexBytes phys), (tokNat b, tokNat v, tokNat p, tokNat ver), bytesToString (unhexBytes name), cs⟩] }, none)
  | ["h", phys, b, v, p, ver, name, caps, _uniq] =>
    -- the unique id of a handler plays no part in the grouping (only in the name shown for the device)
    let cs := if caps = "-" then [] else (caps.splitOn ",").map tokNat
    ({ hs := s.hs ++ [⟨bytesToString (unhexBytes phys), (tokNat b, tokNat v, tokNat p, tokNat ver), bytesToString (unhexBytes name), cs⟩] }, none)
  | ["h", phys, b, v, p, ver, name, caps, _uniq, _event] =>
    -- nor does the name of its event node
    let cs := if caps = "-" then [] else (caps.splitOn ",").map tokNat
    ({ hs := s.hs ++ [⟨bytesToString (unhexBytes phys), (tokNat b, tokNat v, tokNat p, tokNat ver), bytesToString (unhexBytes name), cs⟩] }, none)
  | ["norm"] =>
    let gs := normalize s.hs
    let items := gs.map (fun g =>
      s!"phys={hexS g.phys};type={g.ty.toNat};id={g.id.1}:{g.id.2.1}:{g.id.2.2.1}:{g.id.2.2.2};members={",".intercalate (g.members.map (fun h => hexS h.name))}")
    let hts := s.hs.map (fun h => handlerType h.caps)
    (s, some s!"{" ".intercalate (items.toArray.qsort (· < ·)).toList} | {" ".intercalate hts}")
  | _ => (s, some "bad-op")

end Hidi
