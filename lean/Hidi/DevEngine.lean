/-
  Hidi.DevEngine — the `dev` engine of the driver: builds a `Config` from `cfg.*` lines and runs
  `Dev.step` / `Dev.cleanup` on event lines.
-/
import Hidi.Proto
import Hidi.SpecAxis
namespace Hidi

inductive Pend | none | cfgEnd | ev (e : Ev) | disc
  deriving Inhabited

structure DevSt where
  cfg : Config := default
  dev : Dev := default
  /-- the observed (implementation) trace of the current case, steps in reverse -/
  obsInit : Spec.StObs := default
  obsSteps : List Spec.Step := []
  obsCleanup : Option (List Out) := none
  /-- the model's own trace of the current case, steps in reverse -/
  modSteps : List Spec.Step := []
  modCleanup : Option (List Out) := none
  pend : Pend := .none
  deriving Inhabited

def parseOut (s : String) : Out :=
  if s = "SIG" then .sig else if s = "PANIC" then .panic else
  match unhexBytes s with
  | [a, b, c] => .midi a b c
  | _ => .panic

/-- parse `<msgs> | o s c m n` -/
def parseObs (toks : List String) : List Out × Spec.StObs :=
  let msgs := toks.takeWhile (· ≠ "|")
  let rest := (toks.dropWhile (· ≠ "|")).drop 1
  let outs := (msgs.filter (· ≠ "ok")).map parseOut
  match rest with
  | [o, se, c, m, n] => (outs, ⟨tokInt o, tokInt se, tokNat c, tokNat m, tokNat n⟩)
  | _ => (outs, default)

def devProps : List String := ["C01", "C02", "C03", "C04", "C05", "C06", "C07", "C08", "C13", "C14"]

def firstDiff : List String → List String → Nat → Nat
  | a :: as, b :: bs, i => if a = b then firstDiff as bs (i + 1) else i
  | _, _, i => i

def failTok (f : Spec.Fail) : String := s!"{f.prop}:{f.step}:{f.clause}"

def emptyMapping (name : String) : Mapping := { name := name, midi := [], analog := [], dz := [], defDz := [] }

def sortOuts (os : List Out) : List Out :=
  (os.map Out.toTok).toArray.qsort (· < ·) |>.toList |>.map (fun s =>
    if s = "SIG" then Out.sig else if s = "PANIC" then Out.panic else
    match unhexBytes s with
    | [a, b, c] => Out.midi a b c
    | _ => Out.panic)

/-- one protocol line for the dev engine; `none` = no output line -/
def DevSt.line (s : DevSt) (toks : List String) : DevSt × Option String :=
  match toks with
  | ["cfg.begin", mode, o, se, ch, mp, vel] =>
    ({ s with cfg := { maps := [], actions := [], exitSeq := [], mode := Collision.ofTok mode,
                       defOct := tokInt o, defSemi := tokInt se, defCh := tokInt ch,
                       defMap := tokNat mp, vel := tokInt vel, axes := [] } }, none)
  | ["cfg.map", _idx, name] =>
    ({ s with cfg := { s.cfg with maps := s.cfg.maps ++ [emptyMapping name] } }, none)
  | ["cfg.key", idx, sub, code, note, off] =>
    let f := fun (m : Mapping) =>
      { m with midi := ainsert (tokSub sub, tokNat code) ⟨tokNat note, tokNat off⟩ m.midi }
    ({ s with cfg := { s.cfg with maps := modifyNth s.cfg.maps (tokNat idx) f } }, none)
  | ["cfg.abs", idx, sub, code, kind, cc, ccN, note, noteN, off, offN, act, actN, flip, bidir, dzc] =>
    let a : Analog := { kind := AKind.ofTok kind, cc := tokNat cc, ccNeg := tokNat ccN, note := tokNat note,
                        noteNeg := tokNat noteN, chOff := tokNat off, chOffNeg := tokNat offN,
                        act := Action.ofTok act, actNeg := Action.ofTok actN, flip := tokBool flip,
                        bidir := tokBool bidir, dzCenter := tokBool dzc }
    let f := fun (m : Mapping) => { m with analog := ainsert (tokSub sub, tokNat code) a m.analog }
    ({ s with cfg := { s.cfg with maps := modifyNth s.cfg.maps (tokNat idx) f } }, none)
  | ["cfg.dz", idx, sub, code, bits] =>
    let z := (ofBits (tokNat bits)).getD 0
    let f := fun (m : Mapping) => { m with dz := ainsert (tokSub sub, tokNat code) z m.dz }
    ({ s with cfg := { s.cfg with maps := modifyNth s.cfg.maps (tokNat idx) f } }, none)
  | ["cfg.defdz", idx, sub, bits] =>
    let z := (ofBits (tokNat bits)).getD 0
    let f := fun (m : Mapping) => { m with defDz := ainsert (tokSub sub) z m.defDz }
    ({ s with cfg := { s.cfg with maps := modifyNth s.cfg.maps (tokNat idx) f } }, none)
  | ["cfg.action", code, act] =>
    ({ s with cfg := { s.cfg with actions := ainsert (tokNat code) (Action.ofTok act) s.cfg.actions } }, none)
  | "cfg.exit" :: codes =>
    ({ s with cfg := { s.cfg with exitSeq := codes.map tokNat } }, none)
  | ["cfg.axis", node, code, mn, mx] =>
    ({ s with cfg := { s.cfg with axes := ainsert (node, tokNat code) (tokInt mn, tokInt mx) s.cfg.axes } }, none)
  | ["cfg.end"] =>
    let d := Dev.init s.cfg
    ({ s with dev := d, obsSteps := [], obsCleanup := none, modSteps := [], modCleanup := none,
              pend := .cfgEnd }, some s!"ok | {d.stateLine}")
  | "obs" :: rest =>
    let (outs, st) := parseObs rest
    match s.pend with
    | .cfgEnd => ({ s with obsInit := st, pend := .none }, none)
    | .ev e => ({ s with obsSteps := ⟨e, outs, st⟩ :: s.obsSteps, pend := .none }, none)
    | .disc => ({ s with obsCleanup := some outs, pend := .none }, none)
    | .none => (s, none)
  | ["endcase"] =>
    let obsT : Spec.Trace := ⟨s.cfg, s.obsInit, s.obsSteps.reverse, s.obsCleanup⟩
    let modT : Spec.Trace := ⟨s.cfg, Spec.StObs.ofDev (Dev.init s.cfg), s.modSteps.reverse, s.modCleanup⟩
    let fo := Spec.checkAll obsT
    let fm := Spec.checkAll modT
    let oo := Spec.observeAll obsT
    let om := Spec.observeAll modT
    let diffs := devProps.filterMap (fun p =>
      let a := Spec.obsOf p oo
      let b := Spec.obsOf p om
      if a = b then none else
        let i := firstDiff a b 0
        some s!"{p}@{i}")
    (s, some s!"mon impl={" ".intercalate (fo.map failTok)} ; model={" ".intercalate (fm.map failTok)} ; diff={" ".intercalate diffs}")
  | ["key", sub, code, val] =>
    let e : Ev := (.key (tokSub sub) (tokNat code) (tokInt val))
    let (d, o) := s.dev.step e
    ({ s with dev := d, pend := .ev e, modSteps := ⟨e, o, Spec.StObs.ofDev d⟩ :: s.modSteps },
     some s!"{outsLine o} | {d.stateLine}")
  | ["abs", sub, node, code, val] =>
    let e : Ev := (.abs (tokSub sub) node (tokNat code) (tokInt val))
    let (d, o) := s.dev.step e
    ({ s with dev := d, pend := .ev e, modSteps := ⟨e, o, Spec.StObs.ofDev d⟩ :: s.modSteps },
     some s!"{outsLine o} | {d.stateLine}")
  | ["syn"] =>
    let e : Ev := .syn
    let (d, o) := s.dev.step e
    ({ s with dev := d, pend := .ev e, modSteps := ⟨e, o, Spec.StObs.ofDev d⟩ :: s.modSteps },
     some s!"{outsLine o} | {d.stateLine}")
  | ["midiin", a, b, c] =>
    let e : Ev := .midiIn (tokNat a) (tokNat b) (tokNat c)
    let (d, o) := s.dev.step e
    ({ s with dev := d, pend := .ev e, modSteps := ⟨e, o, Spec.StObs.ofDev d⟩ :: s.modSteps },
     some s!" | {d.stateLine}")
  | ["disconnect"] =>
    let (d, o) := s.dev.cleanup
    ({ s with dev := d, pend := .disc, modCleanup := some o }, some s!"{outsLine (sortOuts o)} | {d.stateLine}")
  | _ => (s, some "bad-op")

end Hidi
