/-
  Hidi.DevEngine — the `dev` engine of the driver: builds a `Config` from `cfg.*` lines and runs
  `Dev.step` / `Dev.cleanup` on event lines.
-/
import Hidi.Proto
namespace Hidi

structure DevSt where
  cfg : Config := default
  dev : Dev := default
  deriving Inhabited

def emptyMapping (name : String) : Mapping := { name := name, midi := [], analog := [], dz := [], defDz := [] }

def sortOuts (os : List Out) : List Out :=
  (os.map Out.toTok).toArray.qsort (· < ·) |>.toList |>.map (fun s =>
    if s = "SIG" then Out.sig else if s = "PANIC" then Out.panic else
    match unhexBytes s with
    | [a, b, c] => Out.midi a b c
    | _ => Out.panic)

/-- one protocol line for the dev engine; `none` = no output line -/
def DevSt.line (s : DevSt) (toks : List String) : DevSt × Option String :=
  match toks with
  | ["cfg.begin", mode, o, se, ch, mp, vel] =>
    ({ s with cfg := { maps := [], actions := [], exitSeq := [], mode := Collision.ofTok mode,
                       defOct := tokInt o, defSemi := tokInt se, defCh := tokInt ch,
                       defMap := tokNat mp, vel := tokInt vel, axes := [] } }, none)
  | ["cfg.map", _idx, name] =>
    ({ s with cfg := { s.cfg with maps := s.cfg.maps ++ [emptyMapping name] } }, none)
  | ["cfg.key", idx, sub, code, note, off] =>
    let f := fun (m : Mapping) =>
      { m with midi := ainsert (tokSub sub, tokNat code) ⟨tokNat note, tokNat off⟩ m.midi }
    ({ s with cfg := { s.cfg with maps := modifyNth s.cfg.maps (tokNat idx) f } }, none)
  | ["cfg.abs", idx, sub, code, kind, cc, ccN, note, noteN, off, offN, act, actN, flip, bidir, dzc] =>
    let a : Analog := { kind := AKind.ofTok kind, cc := tokNat cc, ccNeg := tokNat ccN, note := tokNat note,
                        noteNeg := tokNat noteN, chOff := tokNat off, chOffNeg := tokNat offN,
                        act := Action.ofTok act, actNeg := Action.ofTok actN, flip := tokBool flip,
                        bidir := tokBool bidir, dzCenter := tokBool dzc }
    let f := fun (m : Mapping) => { m with analog := ainsert (tokSub sub, tokNat code) a m.analog }
    ({ s with cfg := { s.cfg with maps := modifyNth s.cfg.maps (tokNat idx) f } }, none)
  | ["cfg.dz", idx, sub, code, bits] =>
    let z := (ofBits (tokNat bits)).getD 0
    let f := fun (m : Mapping) => { m with dz := ainsert (tokSub sub, tokNat code) z m.dz }
    ({ s with cfg := { s.cfg with maps := modifyNth s.cfg.maps (tokNat idx) f } }, none)
  | ["cfg.defdz", idx, sub, bits] =>
    let z := (ofBits (tokNat bits)).getD 0
    let f := fun (m : Mapping) => { m with defDz := ainsert (tokSub sub) z m.defDz }
    ({ s with cfg := { s.cfg with maps := modifyNth s.cfg.maps (tokNat idx) f } }, none)
  | ["cfg.action", code, act] =>
    ({ s with cfg := { s.cfg with actions := ainsert (tokNat code) (Action.ofTok act) s.cfg.actions } }, none)
  | "cfg.exit" :: codes =>
    ({ s with cfg := { s.cfg with exitSeq := codes.map tokNat } }, none)
  | ["cfg.axis", node, code, mn, mx] =>
    ({ s with cfg := { s.cfg with axes := ainsert (node, tokNat code) (tokInt mn, tokInt mx) s.cfg.axes } }, none)
  | ["cfg.end"] => ({ s with dev := Dev.init s.cfg }, some "ok")
  | ["key", sub, code, val] =>
    let (d, o) := s.dev.step (.key (tokSub sub) (tokNat code) (tokInt val))
    ({ s with dev := d }, some s!"{outsLine o} | {d.stateLine}")
  | ["abs", sub, node, code, val] =>
    let (d, o) := s.dev.step (.abs (tokSub sub) node (tokNat code) (tokInt val))
    ({ s with dev := d }, some s!"{outsLine o} | {d.stateLine}")
  | ["syn"] =>
    let (d, o) := s.dev.step .syn
    ({ s with dev := d }, some s!"{outsLine o} | {d.stateLine}")
  | ["midiin", a, b, c] =>
    let (d, _) := s.dev.step (.midiIn (tokNat a) (tokNat b) (tokNat c))
    ({ s with dev := d }, some "ok")
  | ["disconnect"] =>
    let (d, o) := s.dev.cleanup
    ({ s with dev := d }, some s!"{outsLine (sortOuts o)} | {d.stateLine}")
  | _ => (s, some "bad-op")

end Hidi
