/-
  Hidi.LoadEngine — the `load`/`find` engine of the driver (C12).
-/
import Hidi.Loader
import Hidi.Proto
namespace Hidi

structure LoadSt where
  roots : List Root := [⟨true, []⟩, ⟨true, []⟩, ⟨true, []⟩, ⟨true, []⟩]
  loaded : Outcome DeviceConfigs := .err
  deriving Inhabited

def splitPath (s : String) : List String := (s.splitOn "/").filter (· ≠ "")

def hexS (s : String) : String := if s.isEmpty then "-" else String.join (s.toList.map (fun c => hex2 c.toNat))

def dumpMap (m : List (InputID × String)) : String :=
  let items := m.map (fun p => s!"{p.1.1}:{p.1.2.1}:{p.1.2.2.1}:{p.1.2.2.2}={hexS p.2}")
  ",".intercalate (items.toArray.qsort (· < ·)).toList

def devTypeOf (n : Nat) : DevType :=
  match n with | 1 => .keyboard | 2 => .mouse | 3 => .joystick | _ => .unknown

def LoadSt.line (s : LoadSt) (toks : List String) : LoadSt × Option String :=
  match toks with
  | ["tree.reset"] => ({}, none)
  | ["tree.missing", r] => ({ s with roots := modifyNth s.roots (tokNat r) (fun x => { x with present := false }) }, none)
  | ["tree.dir", r, rel] =>
    ({ s with roots := modifyNth s.roots (tokNat r) (fun x => { x with entries := x.entries ++ [⟨splitPath (bytesToString (unhexBytes rel)), true, .fail⟩] }) }, none)
  | ["tree.file", r, rel, "fail"] =>
    ({ s with roots := modifyNth s.roots (tokNat r) (fun x => { x with entries := x.entries ++ [⟨splitPath (bytesToString (unhexBytes rel)), false, .fail⟩] }) }, none)
  | ["tree.file", r, rel, "ok", b, v, p, ver] =>
    let e : Entry := ⟨splitPath (bytesToString (unhexBytes rel)), false, .ok (tokNat b, tokNat v, tokNat p, tokNat ver)⟩
    ({ s with roots := modifyNth s.roots (tokNat r) (fun x => { x with entries := x.entries ++ [e] }) }, none)
  | ["tree.load"] =>
    let o := loadAll (s.roots.getD 0 default) (s.roots.getD 1 default) (s.roots.getD 2 default) (s.roots.getD 3 default)
    ({ s with loaded := o },
     some (match o with
      | .ok c => s!"ok fg=[{dumpMap c.factoryGamepads}] fk=[{dumpMap c.factoryKeyboards}] ug=[{dumpMap c.userGamepads}] uk=[{dumpMap c.userKeyboards}]"
      | .err => "err"
      | .panic => "panic"))
  | ["find", b, v, p, ver, ty] =>
    (s, some (match s.loaded with
      | .ok c =>
        (match findConfig c (tokNat b, tokNat v, tokNat p, tokNat ver) (devTypeOf (tokNat ty)) with
         | .ok (f, t) => s!"ok {hexS f} {t}"
         | .error .unsupported => "err:unsupported"
         | .error .notFound => "err:notfound")
      | _ => "noload"))
  | _ => (s, some "bad-op")

end Hidi
