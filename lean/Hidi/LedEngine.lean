import Hidi.Led
import Hidi.DevEngine
namespace Hidi
open Led

structure LedSt where
  ds : DevSt := {}
  devName : String := ""
  leds : List String := []
  shifted : RGB × RGB × RGB := ({}, {}, {})
  hasShift : Bool := false
  active : Bool := false
  running : Bool := false
  deriving Inhabited

def rgbOfNat (v : Nat) : RGB := ⟨v / 65536 % 256, v / 256 % 256, v % 256⟩

def LedSt.checked : Bool := decide (Gen.ledUncheckedWrites = 0)

def LedSt.curFrame (s : LedSt) : Led.Frame :=
  let sh := if s.hasShift then s.shifted else (s.ds.cfg.colors.white, s.ds.cfg.colors.black, s.ds.cfg.colors.c)
  frame LedSt.checked s.ds.dev s.devName s.leds sh

/-- MIDI-input message as the code handles it: with the pre-fix tracker a Note On with velocity 0 sets the highlight -/
def midiInModel (d : Dev) (a b c : Nat) : Dev :=
  if Gen.midiInVelocityZeroIsOff then d.midiIn a b c
  else
    let ty := if a / 16 ≠ 15 ∧ a ≥ 128 then a / 16 * 16 else a
    let ch := a % 16
    if ty = stNoteOn then { d with ext := sinsert (ch, b) d.ext }
    else if ty = stNoteOff then { d with ext := serase (ch, b) d.ext }
    else d

def LedSt.line (s : LedSt) (toks : List String) : LedSt × Option String :=
  match toks with
  | "led.layout" :: name :: _n :: leds =>
    ({ devName := bytesToString (unhexBytes name), leds := leds.map (fun h => bytesToString (unhexBytes h)), active := true }, none)
  | ["cfg.colors", w, b, c, u, a, ae] =>
    let cols : Colors := ⟨rgbOfNat (tokNat w), rgbOfNat (tokNat b), rgbOfNat (tokNat c), rgbOfNat (tokNat u), rgbOfNat (tokNat a), rgbOfNat (tokNat ae)⟩
    ({ s with ds := { s.ds with cfg := { s.ds.cfg with colors := cols } } }, none)
  | ["led.shift", w, b, c] =>
    ({ s with shifted := (rgbOfNat (tokNat w), rgbOfNat (tokNat b), rgbOfNat (tokNat c)), hasShift := true }, none)
  | ["cfg.end"] => (s, none)
  | ["led.start"] =>
    let d := Dev.init s.ds.cfg
    let s := { s with ds := { s.ds with dev := d }, running := true }
    (s, some (match s.curFrame with | .panic => "noframes" | _ => "started"))
  | ["key", sub, code, val] =>
    (match s.curFrame with
     | .panic => (s, some "stuck")
     | _ =>
      let (d, o) := s.ds.dev.step (.key (tokSub sub) (tokNat code) (tokInt val))
      ({ s with ds := { s.ds with dev := d } }, some (outsLine o)))
  | ["midiin", h] =>
    (match unhexBytes h with
     | [a, b, c] => ({ s with ds := { s.ds with dev := midiInModel s.ds.dev a b c } }, some "")
     | _ => (s, some ""))
  | ["led.frame"] => (s, some (frameLine s.curFrame))
  | ["led.state"] => (s, some s!"{s.ds.dev.octave} {s.ds.dev.semitone} {s.ds.dev.channel} {s.ds.dev.mapping}")
  | ["led.disconnect"] =>
    (match s.curFrame with
     | .panic => (s, some "PANIC")
     | _ =>
      let (d, o) := s.ds.dev.cleanup
      let allRed := ",".intercalate (s.leds.map (fun _ => rgbTok Led.red))
      ({ s with ds := { s.ds with dev := d }, running := false },
       some s!"returned 0 leftover=0 | {outsLine (sortOuts o)} | {allRed}"))
  | _ =>
    let (ds, o) := s.ds.line toks
    ({ s with ds := ds }, o)

end Hidi
