/-
  Hidi.Parser — model of the post-decode half of `config/parser.go` (`ParseData`, lines 112–402)
  and of `cmd/hidi/config.go` `LoadHIDIConfig` (C09, C10).

  The TOML decoder (go-toml, third party) is not modelled: the model starts from the decoded
  structure `TomlCfg` (what `toml.Decoder.Decode` filled in), with optional fields as `Option`.
  Every dereference is explicit, so "never panics" (C09) is a theorem with content.
-/
import Hidi.Engine
import Hidi.Notes
import Hidi.Gen.Evdev
namespace Hidi

structure TAnalog where
  typ : String
  cc : Option Int
  ccNeg : Option Int
  note : Option Int
  noteNeg : Option Int
  chOff : Int
  chOffNeg : Int
  act : Option String
  actNeg : Option String
  flip : Bool
  dzCenter : Bool
  deriving Repr, Inhabited, DecidableEq

structure TKeys where
  sub : String
  map : List (String × String)
  deriving Repr, Inhabited

structure TAnalogSub where
  sub : String
  defDz : Rat
  map : List (String × TAnalog)
  dz : List (String × Rat)
  deriving Repr, Inhabited

structure TMapping where
  name : String
  keys : List TKeys
  analog : List TAnalogSub
  deriving Repr, Inhabited

structure TomlCfg where
  mode : String
  exitSeq : List String
  bus : Nat
  vendor : Nat
  product : Nat
  version : Nat
  uniq : String
  defOct : Int
  defSemi : Int
  defCh : Int
  defMap : String
  defVel : Int
  actions : List (String × String)
  /-- white, black, c, unavailable, other, active, active_external -/
  colors : List Int
  maps : List TMapping
  deriving Repr, Inhabited

/-- the parser's result: the engine configuration plus identifier and colours -/
structure PConfig where
  id : Nat × Nat × Nat × Nat
  uniq : String
  cfg : Config
  colors : List (Nat × Nat × Nat)
  deriving Repr, Inhabited

/-! ### small string functions of the Go standard library, on ASCII -/

/-- `strconv.Atoi` / `ParseInt(s, 10, 0)`: optional sign, at least one digit, nothing else.
    (The int64 range check is not modelled: every caller rejects values outside a small range.) -/
def atoi (s : String) : Option Int :=
  let cs := s.toList
  let (neg, ds) := match cs with
    | '-' :: r => (true, r)
    | '+' :: r => (false, r)
    | r => (false, r)
  if ds.isEmpty ∨ ¬ ds.all isDigit then none
  else
    let n : Nat := ds.foldl (fun acc c => acc * 10 + digitVal c) 0
    some (if neg then -(n : Int) else n)

def hexDigitVal (c : Char) : Option Nat :=
  if '0' ≤ c ∧ c ≤ '9' then some (c.toNat - '0'.toNat)
  else if 'a' ≤ c ∧ c ≤ 'f' then some (c.toNat - 'a'.toNat + 10)
  else if 'A' ≤ c ∧ c ≤ 'F' then some (c.toNat - 'A'.toNat + 10)
  else none

/-- `strconv.ParseUint(s, 16, 16)` -/
def parseHex16 (s : String) : Option Nat :=
  let cs := s.toList
  if cs.isEmpty then none else
  match cs.foldl (fun (acc : Option Nat) c => match acc, hexDigitVal c with
      | some a, some d => some (a * 16 + d)
      | _, _ => none) (some 0) with
  | some n => if n ≤ 0xFFFF then some n else none
  | none => none

/-- `TomlKeyToEvCode` -/
def keyToEvCode (key : String) (table : List (String × Nat)) : Option Nat :=
  match key.toList with
  | 'x' :: r => parseHex16 (String.ofList r)
  | _ => alookup key table

def supportedAction (s : String) : Option Action :=
  if Gen.supportedActions.contains s then
    match s with
    | "mapping_up" => some .mappingUp | "mapping_down" => some .mappingDown | "mapping" => some .mapping
    | "octave_up" => some .octaveUp | "octave_down" => some .octaveDown
    | "semitone_up" => some .semitoneUp | "semitone_down" => some .semitoneDown
    | "channel_up" => some .channelUp | "channel_down" => some .channelDown | "channel" => some .channel
    | "multinote" => some .multinote | "panic" => some .panic | "cc_learning" => some .learning
    | "exit" => some .exit
    | _ => none
  else none

def supportedKind (s : String) : Option AKind :=
  if Gen.supportedMappingTypes.contains s then
    match s with
    | "cc" => some .cc | "pitch_bend" => some .pitchBend | "key" => some .key | "action" => some .action
    | _ => none
  else none

def supportedMode (s : String) : Option Collision :=
  if Gen.supportedCollisionModes.contains s then
    match s with
    | "off" => some .off | "no_repeat" => some .noRepeat | "interrupt" => some .interrupt
    | "retrigger" => some .retrigger
    | _ => none
  else none

/-- `strings.Split(s, ",")` on character lists (structural, so that the kernel can evaluate it) -/
def splitCommaL : List Char → List (List Char)
  | [] => [[]]
  | c :: r =>
    if c = ',' then [] :: splitCommaL r
    else match splitCommaL r with
      | h :: t => (c :: h) :: t
      | [] => [[c]]

def splitComma (s : String) : List String := (splitCommaL s.toList).map String.ofList

/-- one entry of a `keys.map` table: `"note"` or `"note,offset"`, note by number or by name -/
def convKey (v : String) : Outcome Key :=
  let parts := splitComma v
  let noteOff : Option (String × String) :=
    match parts with
    | [n] => some (n, "0")
    | [n, o] => some (n, o)
    | _ => none
  match noteOff with
  | none => .err
  | some (noteRaw, offRaw) =>
    match atoi offRaw with
    | none => .err
    | some off =>
      if off < 0 ∨ off > 15 then .err else
      match atoi noteRaw with
      | some n => if n < 0 ∨ n > 127 then .err else .ok ⟨n.toNat, off.toNat⟩
      | none =>
        match stringToNote noteRaw.toList with
        | .ok n => .ok ⟨n, off.toNat⟩
        | _ => .err

def inRange (lo hi : Int) (x : Int) : Bool := lo ≤ x ∧ x ≤ hi

/-- one entry of an `analog.map` table -/
def convAnalog (a : TAnalog) : Outcome Analog :=
  match supportedKind a.typ with
  | none => .err
  | some kind =>
    -- channel offsets are range-checked for every type (repaired defect)
    if ¬ inRange 0 15 a.chOff ∨ ¬ inRange 0 15 a.chOffNeg then .err else
    let base : Analog := { kind := kind, cc := 0, ccNeg := 0, note := 0, noteNeg := 0, chOff := 0, chOffNeg := 0,
                           act := .none, actNeg := .none, flip := a.flip, bidir := false, dzCenter := a.dzCenter }
    match kind with
    | .cc =>
      match a.cc with
      | none => .err
      | some cc =>
        if ¬ inRange 0 119 cc then .err else
        match a.ccNeg with
        | some ccn =>
          if ¬ inRange 0 119 ccn then .err else
          .ok { base with cc := cc.toNat, ccNeg := ccn.toNat, chOff := a.chOff.toNat, chOffNeg := a.chOffNeg.toNat, bidir := true }
        | none => .ok { base with cc := cc.toNat, chOff := a.chOff.toNat, chOffNeg := a.chOffNeg.toNat }
    | .pitchBend => .ok { base with chOff := a.chOff.toNat }
    | .action =>
      match a.act with
      | none => .err
      | some s =>
        match supportedAction s with
        | none => .err
        | some act =>
          match a.actNeg with
          | none => .ok { base with act := act }
          | some sn =>
            match supportedAction sn with
            | none => .err
            | some actn => .ok { base with act := act, actNeg := actn, bidir := true }
    | .key =>
      match a.note with
      | none => .err
      | some n =>
        if ¬ inRange 0 127 n then .err else
        match a.noteNeg with
        | some nn =>
          if ¬ inRange 0 127 nn then .err else
          .ok { base with note := n.toNat, noteNeg := nn.toNat, chOff := a.chOff.toNat, chOffNeg := a.chOffNeg.toNat, bidir := true }
        | none => .ok { base with note := n.toNat, chOff := a.chOff.toNat, chOffNeg := a.chOffNeg.toNat }

/-- map a function over table entries, converting the key with `keyToEvCode`; first failure wins -/
def convTable {α β} (table : List (String × Nat)) (f : α → Outcome β) :
    List (String × α) → Outcome (List (Nat × β))
  | [] => .ok []
  | (k, v) :: r =>
    match keyToEvCode k table with
    | none => .err
    | some code =>
      match f v with
      | .ok b =>
        (match convTable table f r with
         | .ok l => .ok (ainsert code b l)
         | .err => .err
         | .panic => .panic)
      | .err => .err
      | .panic => .panic

def convKeysSubs : List TKeys → List ((Sub × Code) × Key) → Outcome (List ((Sub × Code) × Key))
  | [], acc => .ok acc
  | k :: r, acc =>
    match convTable Gen.kEYFromString convKey k.map with
    | .ok tmp =>
      -- `if len(midiMappingTmp) > 0 { midiMapping[sub] = tmp }` : a non-empty table replaces the sub-handler's table
      let acc := if tmp.isEmpty then acc
                 else (acc.filter (fun p => p.1.1 ≠ k.sub)) ++ tmp.map (fun p => ((k.sub, p.1), p.2))
      convKeysSubs r acc
    | .err => .err
    | .panic => .panic

structure AnalogAcc where
  analog : List ((Sub × Code) × Analog) := []
  dz : List ((Sub × Code) × Rat) := []
  defDz : List (Sub × Rat) := []
  deriving Inhabited

def convAnalogSubs : List TAnalogSub → AnalogAcc → Outcome AnalogAcc
  | [], acc => .ok acc
  | a :: r, acc =>
    match convTable Gen.aBSFromString convAnalog a.map with
    | .ok tmp =>
      (match convTable Gen.aBSFromString (fun (z : Rat) => (Outcome.ok z : Outcome Rat)) a.dz with
       | .ok dzs =>
         let acc : AnalogAcc :=
           { analog := (acc.analog.filter (fun p => p.1.1 ≠ a.sub)) ++ tmp.map (fun p => ((a.sub, p.1), p.2))
             dz := (acc.dz.filter (fun p => p.1.1 ≠ a.sub)) ++ dzs.map (fun p => ((a.sub, p.1), p.2))
             defDz := ainsert a.sub a.defDz acc.defDz }
         convAnalogSubs r acc
       | .err => .err
       | .panic => .panic)
    | .err => .err
    | .panic => .panic

def convMapping (m : TMapping) : Outcome Mapping :=
  match convKeysSubs m.keys [] with
  | .ok midi =>
    (match convAnalogSubs m.analog {} with
     | .ok a => .ok { name := m.name, midi := midi, analog := a.analog, dz := a.dz, defDz := a.defDz }
     | .err => .err
     | .panic => .panic)
  | .err => .err
  | .panic => .panic

def convMappings : List TMapping → Outcome (List Mapping)
  | [] => .ok []
  | m :: r =>
    match convMapping m with
    | .ok x => (match convMappings r with | .ok l => .ok (x :: l) | .err => .err | .panic => .panic)
    | .err => .err
    | .panic => .panic

def convExit : List String → Outcome (List Code)
  | [] => .ok []
  | k :: r =>
    match keyToEvCode k Gen.kEYFromString with
    | none => .err
    | some c => (match convExit r with | .ok l => .ok (c :: l) | .err => .err | .panic => .panic)

/-- index of the LAST mapping with the given name (`for i, m := range … { if m.Name == name { idx = i } }`) -/
def lastIndexOf (name : String) (ms : List Mapping) : Option Nat :=
  (ms.zipIdx.filter (fun p => p.1.name = name)).getLast?.map (·.2)

/-- `byte(v >> 16), byte(v >> 8), byte(v)` on a Go `int` -/
def toColor (v : Int) : Nat × Nat × Nat :=
  (((v / 65536) % 256).toNat, ((v / 256) % 256).toNat, (v % 256).toNat)

/-- the conversion after a successful decode -/
def convert (t : TomlCfg) : Outcome PConfig :=
  match convMappings t.maps with
  | .panic => .panic
  | .err => .err
  | .ok maps =>
    match convTable Gen.kEYFromString (fun (s : String) => match supportedAction s with
        | some a => (Outcome.ok a : Outcome Action) | none => .err) t.actions with
    | .panic => .panic
    | .err => .err
    | .ok actions =>
      match supportedMode t.mode with
      | none => .err
      | some mode =>
        match lastIndexOf t.defMap maps with
        | none => .err
        | some idx =>
          match convExit t.exitSeq with
          | .panic => .panic
          | .err => .err
          | .ok ex =>
            if t.defVel < 0 ∨ t.defVel > 127 then .err else
            if t.defCh < 1 ∨ t.defCh > 16 then .err else
            let vel := if t.defVel = 0 then 64 else t.defVel
            .ok { id := (t.bus, t.vendor, t.product, t.version), uniq := t.uniq,
                  cfg := { maps := maps, actions := actions, exitSeq := ex, mode := mode,
                           defOct := t.defOct, defSemi := t.defSemi, defCh := t.defCh, defMap := idx, vel := vel, axes := [] },
                  colors := t.colors.map toColor }

/-- `ParseData`: decode (external, may fail or — in go-toml — panic) then convert; the deferred
    `recover` turns a decoder panic into an error -/
def parseData (decoded : Outcome TomlCfg) (recovers : Bool) : Outcome PConfig :=
  match decoded with
  | .panic => if recovers then .err else .panic
  | .err => .err
  | .ok t => convert t

/-! ### `LoadHIDIConfig` (cmd/hidi/config.go) -/

structure HidiRaw where
  poolRate : Int
  discoveryRate : Int
  stabilization : Int
  deriving Repr, Inhabited

/-- durations in nanoseconds -/
structure HidiCfg where
  evThrottling : Int
  discoveryRate : Int
  stabilization : Int
  deriving Repr, Inhabited, DecidableEq

/-- Go integer division panics on a zero divisor -/
def goDiv (a b : Int) : Outcome Int := if b = 0 then .panic else .ok (Int.tdiv a b)

/-- two's-complement wrap-around of a Go `int64` product -/
def wrap64 (x : Int) : Int := (x + 9223372036854775808) % 18446744073709551616 - 9223372036854775808

def loadHidi (decoded : Outcome HidiRaw) (recovers : Bool) : Outcome HidiCfg :=
  match decoded with
  | .panic => if recovers then .err else .panic
  | .err => .err
  | .ok r =>
    if r.poolRate ≤ 0 ∨ r.discoveryRate ≤ 0 then .err else
    match goDiv 1000000000 r.poolRate, goDiv 1000000000 r.discoveryRate with
    | .ok a, .ok b => .ok ⟨a, b, wrap64 (1000000 * r.stabilization)⟩   -- `time.Duration(ms) * time.Millisecond`
    | .panic, _ => .panic
    | _, .panic => .panic
    | _, _ => .err

end Hidi
