/-
  Hidi.Loader — model of `config/loader.go`: `loadDirectory`, `LoadDeviceConfigs`, `FindConfig` (C12).

  The content of a file enters as its parse outcome (computed by the real `ParseData` in the harness):
  the model is about the selection logic — walk order, suffix filter, later file wins, broken files
  skipped, missing directory — not about TOML.
-/
import Hidi.Basic
namespace Hidi

abbrev InputID := Nat × Nat × Nat × Nat

inductive FileOutcome
  | ok (id : InputID)
  | fail
  deriving Repr, DecidableEq, Inhabited

structure Entry where
  /-- path below the root, as components -/
  path : List String
  isDir : Bool
  outcome : FileOutcome
  deriving Repr, DecidableEq, Inhabited

/-- `filepath.Walk` order: lexical by name inside each directory, a directory before its content -/
def pathLt : List String → List String → Bool
  | [], [] => false
  | [], _ :: _ => true
  | _ :: _, [] => false
  | a :: as, b :: bs => if a < b then true else if b < a then false else pathLt as bs

def insertEntry (e : Entry) : List Entry → List Entry
  | [] => [e]
  | x :: r => if pathLt e.path x.path then e :: x :: r else x :: insertEntry e r

def sortEntries (l : List Entry) : List Entry := l.foldr insertEntry []

def lowerAscii (c : Char) : Char := if 'A' ≤ c ∧ c ≤ 'Z' then Char.ofNat (c.toNat + 32) else c

def hasTomlSuffix (name : String) : Bool :=
  let cs := (name.toList.map lowerAscii).reverse
  match cs with
  | 'l' :: 'm' :: 'o' :: 't' :: '.' :: _ => true
  | _ => false

/-- one directory: identifier ↦ base name of the file that defines it (later file wins) -/
def loadDir (entries : List Entry) : List (InputID × String) :=
  (sortEntries entries).foldl (fun m e =>
    if e.isDir then m else
    let name := e.path.getLast?.getD ""
    if ¬ hasTomlSuffix name then m else
    match e.outcome with
    | .fail => m
    | .ok id => ainsert id name m) []

structure Root where
  present : Bool
  entries : List Entry
  deriving Repr, Inhabited

structure DeviceConfigs where
  factoryGamepads : List (InputID × String)
  factoryKeyboards : List (InputID × String)
  userGamepads : List (InputID × String)
  userKeyboards : List (InputID × String)
  deriving Repr, Inhabited

/-- `LoadDeviceConfigs`: the four directories in the order factory/gamepad, factory/keyboard,
    user/gamepad, user/keyboard; a directory that cannot be walked is an error (not a crash) -/
def loadAll (fg fk ug uk : Root) : Outcome DeviceConfigs :=
  if ¬ fg.present ∨ ¬ fk.present ∨ ¬ ug.present ∨ ¬ uk.present then .err
  else .ok ⟨loadDir fg.entries, loadDir fk.entries, loadDir ug.entries, loadDir uk.entries⟩

inductive DevType | unknown | keyboard | mouse | joystick
  deriving Repr, DecidableEq, Inhabited

inductive FindErr | unsupported | notFound
  deriving Repr, DecidableEq, Inhabited

def zeroID : InputID := (0, 0, 0, 0)

def firstSome {α} : List (Option α) → Option α
  | [] => none
  | some a :: _ => some a
  | none :: r => firstSome r

/-- `FindConfig`: (file, "user"/"factory") -/
def findConfig (c : DeviceConfigs) (id : InputID) (ty : DevType) : Except FindErr (String × String) :=
  let pick (user fact : List (InputID × String)) : Except FindErr (String × String) :=
    match firstSome [ (alookup id user).map (·, "user"), (alookup zeroID user).map (·, "user"),
                      (alookup id fact).map (·, "factory"), (alookup zeroID fact).map (·, "factory") ] with
    | some r => .ok r
    | none => .error .notFound
  match ty with
  | .keyboard => pick c.userKeyboards c.factoryKeyboards
  | .joystick => pick c.userGamepads c.factoryGamepads
  | _ => .error .unsupported

end Hidi
