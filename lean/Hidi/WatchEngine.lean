import Hidi.Watch
import Hidi.LoadEngine
import Hidi.Gen.Tables
namespace Hidi
open Watch

/-- script state of one watcher case: the model plus which files exist (creation order irrelevant) -/
structure WatchSt where
  w : W := { suffix := Gen.watchSuffix, selectsCtx := Gen.watchHandoffSelectsCtx, hasCloser := Gen.watchCloserGoroutine }
  started : Bool := false
  deriving Inhabited

/-- the fsnotify events of one modification, as observed on Linux/inotify with fsnotify v1.5:
    append → Write; emptied in place → Write; truncate-and-write of a non-empty file → Write, Write; new file with content → Create, Write -/
def modEvents (mode : String) (name : String) : List FsEvent :=
  match mode with
  | "a" => [⟨.write, name⟩]
  | "t" => [⟨.write, name⟩, ⟨.write, name⟩]
  | "e" => [⟨.write, name⟩]     -- truncated to nothing (`truncate(2)`): one IN_MODIFY
  | "c" => [⟨.create, name⟩, ⟨.write, name⟩]
  | "m" => [⟨.chmod, name⟩]
  | "r" => [⟨.remove, name⟩]
  | _ => []

def WatchSt.line (s : WatchSt) (toks : List String) : WatchSt × Option String :=
  match toks with
  | ["w.reset"] => ({}, none)
  | ["w.file", _, _] => (s, none)
  | ["w.nodir", _] => (s, none)   -- a directory that cannot be watched: nothing is ever modified in it
  | ["w.start"] => ({ s with started := true }, some "started")
  | ["w.mod", _, name, mode] =>
    let nm := bytesToString (unhexBytes name)
    let w := (modEvents mode nm).foldl (fun w e => step w (.fs e)) s.w
    ({ s with w := settleAll w }, none)
  | ["w.drain", _] =>
    let w := settleAll s.w
    if w.pc = .done then ({ s with w := w }, some "closed")
    else
      let (w', k) := drainAll w
      let w' := settleAll w'
      ({ s with w := w' }, some (if k > 0 then "some" else if w'.pc = .done then "closed" else "zero"))
  | ["w.cancel"] => ({ s with w := settleAll (step s.w .cancel) }, none)
  | ["w.stopped", _] =>
    let w := closeW (settleAll s.w)
    ({ s with w := w }, some (if w.pc = .done then (if w.watcherOpen then "leaked" else "stopped") else "running"))
  | ["w.closed", _] =>
    -- the consumer reads until the stream is closed
    let (w', _) := drainAll (settleAll s.w)
    let w' := settleAll w'
    ({ s with w := w' }, some (if w'.pc = .done then "closed" else "open"))
  | ["w.sleep", _] => (s, none)
  | ["w.end"] => (s, none)
  | _ => (s, some "bad-op")

end Hidi
