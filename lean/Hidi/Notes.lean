/-
  Hidi.Notes — model of `config/event.go`: `StringToNote`, `NoteToPitch`, `NoteToOctave` (C11).

  The regular expression `^(?P<pitch>[a-zA-Z]#?)(?P<octave>-?\d)$` is modelled by the hand-written
  matcher `matchNote` (the extractor pins the pattern text: `Gen.noteRegex`); the pitch table is
  the generated `Gen.pitchToVal`.  Strings are lists of characters; input bytes ≥ 128 are never
  ASCII letters or digits, so every non-ASCII string is rejected, as by Go's RE2 on this pattern.
-/
import Hidi.Basic
import Hidi.Gen.Tables
namespace Hidi

def isLetter (c : Char) : Bool := ('a' ≤ c ∧ c ≤ 'z') ∨ ('A' ≤ c ∧ c ≤ 'Z')
def isDigit (c : Char) : Bool := '0' ≤ c ∧ c ≤ '9'
def digitVal (c : Char) : Nat := c.toNat - '0'.toNat
/-- `strings.ToUpper` on ASCII -/
def upperC (c : Char) : Char := if 'a' ≤ c ∧ c ≤ 'z' then Char.ofNat (c.toNat - 32) else c

/-- the submatches of the note pattern: pitch characters, the octave text is `-`? digit -/
def matchNote : List Char → Option (List Char × Bool × Char)
  | [l, d] => if isLetter l ∧ isDigit d then some ([l], false, d) else none
  | [l, x, d] =>
    if isLetter l ∧ isDigit d then
      if x = '#' then some ([l, '#'], false, d)
      else if x = '-' then some ([l], true, d)
      else none
    else none
  | [l, x, y, d] =>
    if isLetter l ∧ x = '#' ∧ y = '-' ∧ isDigit d then some ([l, '#'], true, d) else none
  | _ => none

def pitchVal (p : List Char) : Option Nat := alookup p Gen.pitchToValC

/-- `StringToNote`: `(uint8(octave)+2)*12 + pitchToVal[pitch]` in `uint8`, rejected above 127;
    an unknown pitch and the spelling `-0` are rejected (repaired defects, see known_findings.json). -/
def stringToNote (s : List Char) : Outcome Nat :=
  match matchNote s with
  | none => .err
  | some (pitch, neg, d) =>
    match pitchVal (pitch.map upperC) with
    | none => .err
    | some p =>
      if neg ∧ digitVal d = 0 then .err else
      let o : Int := if neg then -(digitVal d : Int) else (digitVal d : Int)
      let cal := (((u8 o + 2) % 256) * 12 % 256 + p) % 256
      if cal > 127 then .err else .ok cal

def noteToPitch (n : Nat) : List Char := (alookup (n % 12) Gen.valToPitchC).getD []
def noteToOctave (n : Nat) : Int := (n / 12 : Nat) - 2

def digitChar (n : Nat) : Char := Char.ofNat (48 + n % 10)
/-- decimal rendering of an integer of at most two digits (octaves are -2..19) -/
def intChars (i : Int) : List Char :=
  let n := i.natAbs
  let ds := if n < 10 then [digitChar n] else [digitChar (n / 10), digitChar n]
  if i < 0 then '-' :: ds else ds

/-- the canonical name of note `n`: pitch followed by the octave number -/
def noteName (n : Nat) : List Char := noteToPitch n ++ intChars (noteToOctave n)

end Hidi
