import Hidi.Upkeep
import Hidi.LoadEngine
namespace Hidi

structure UpSt where
  tpl : List (String × Node) := []
  fs : FS := []
  deriving Inhabited

def pathOf (h : String) : String := bytesToString (unhexBytes h)

def dumpFS (fs : FS) : String :=
  let items := (fs.filter (fun e => under configDir e.1)).map (fun e =>
    match e.2 with
    | .dir => hexS e.1 ++ "/"
    | .file c => hexS e.1 ++ ":" ++ c)
  " ".intercalate (items.toArray.qsort (· < ·)).toList

def UpSt.line (s : UpSt) (toks : List String) : UpSt × Option String :=
  match toks with
  | ["tpl.reset"] => ({ s with tpl := [] }, none)
  | ["tpl.dir", p] => ({ s with tpl := s.tpl ++ [(pathOf p, .dir)] }, none)
  | ["tpl.file", p, c] => ({ s with tpl := s.tpl ++ [(pathOf p, .file c)] }, none)
  | ["fs.reset"] => ({ s with fs := [(configDir, .dir)] }, none)
  | ["fs.none"] => ({ s with fs := [] }, none)
  | ["fs.dir", p] => ({ s with fs := ainsert (pathOf p) .dir s.fs }, none)
  | ["fs.file", p, c] => ({ s with fs := ainsert (pathOf p) (.file c) s.fs }, none)
  | "upkeep" :: rest =>
    let n := match rest with | [k] => tokNat k | _ => 1
    let (fs', ok) := upkeepN s.tpl n s.fs
    (s, some s!"{if ok then "ok" else "err"} {dumpFS fs'}")
  | ["crashstates"] =>
    -- one line: the intermediate trees of a run, separated by " || "
    (s, some (" || ".intercalate ((upkeepStates s.tpl s.fs).map dumpFS)))
  | _ => (s, some "bad-op")

end Hidi
