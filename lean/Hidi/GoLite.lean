/-
  Hidi.GoLite — the target of the Go → Lean translator `tools/extract/golite.go`.

  `Hidi/Gen/Bodies.lean` (regenerated from device.go / events.go on every run) contains one Lean function per translated
  Go method of `*Device`, over the state `GSt` below.  Statements, integer and boolean expressions, conversions and the
  control flow are *translated*; the operations listed here are the *primitives* the translator maps Go's map accesses,
  configuration look-ups, channel sends and event constructors to — they are the modelled part.

  Integers: every Go integer value is a Lean `Int`; after each arithmetic operation the translator inserts the wrap of
  the Go type of the operands (`wrapU8` for `uint8`/`byte`, `wrapInt` for `int`, which is 64 bits wide in Go and is the
  identity here — the assumption "Go `int` does not overflow" of the trusted base).
-/
import Hidi.Engine
namespace Hidi
namespace GoLite

structure GSt where
  cfg : Config
  octave : Int
  semitone : Int
  channel : Int
  velocity : Int
  mapping : Int
  learning : Bool
  multi : List Int
  noteTr : List (Code × (Nat × Nat))
  anaTr : List ((Code × Bool) × (Nat × Nat))
  counter : List ((Nat × Nat) × Int)
  actTr : List Action
  keyTr : List Code
  ext : List (Nat × Nat)
  lastAna : List ((Sub × Code) × Rat)
  ccZeroed : List Nat
  /-- everything sent so far on `outputEvents` / `sigs`, in order; `Out.panic` marks a Go panic -/
  out : List Out
  dead : Bool
  deriving Repr, Inhabited

/-! field assignments `d.f = v` (kept as functions so that the generated terms stay small) -/
def GSt.setOctave (d : GSt) (v : Int) : GSt := { d with octave := v }
def GSt.setMulti (d : GSt) (v : List Int) : GSt := { d with multi := v }
def GSt.setSemitone (d : GSt) (v : Int) : GSt := { d with semitone := v }
def GSt.setMapping (d : GSt) (v : Int) : GSt := { d with mapping := v }
def GSt.setChannel (d : GSt) (v : Int) : GSt := { d with channel := v }
def GSt.setLearning (d : GSt) (v : Bool) : GSt := { d with learning := v }
def GSt.setNoteTr (d : GSt) (v : List (Code × (Nat × Nat))) : GSt := { d with noteTr := v }
def GSt.setAnaTr (d : GSt) (v : List ((Code × Bool) × (Nat × Nat))) : GSt := { d with anaTr := v }
def GSt.setActTr (d : GSt) (v : List Action) : GSt := { d with actTr := v }
def GSt.setKeyTr (d : GSt) (v : List Code) : GSt := { d with keyTr := v }
def GSt.setExt (d : GSt) (v : List (Nat × Nat)) : GSt := { d with ext := v }

def wrapInt (x : Int) : Int := x
def wrapU8 (x : Int) : Int := x % 256

/-- `d.outputEvents <- e`, `d.sigs <- …` -/
def GSt.emit (d : GSt) (o : Out) : GSt := { d with out := d.out ++ [o] }
/-- a Go run-time panic: the device is dead -/
def GSt.goPanic (d : GSt) : GSt := { d with dead := true, out := d.out ++ [.panic] }

/-- `d.activeNotesCounter[ch][note]` (a missing entry reads as 0) -/
def GSt.count (d : GSt) (ch note : Int) : Int := (alookup (ch.toNat, note.toNat) d.counter).getD 0
def GSt.setCount (d : GSt) (ch note : Int) (v : Int) : GSt :=
  { d with counter := ainsert (ch.toNat, note.toNat) v d.counter }

/-- `len(d.config.KeyMappings)` -/
def GSt.nMaps (d : GSt) : Int := d.cfg.maps.length
/-- is `d.config.KeyMappings[i]` inside the slice (otherwise Go panics) -/
def GSt.mapIndexOk (d : GSt) (i : Int) : Bool := decide (0 ≤ i) && decide (i < d.nMaps)
/-- `key, ok := d.config.KeyMappings[i].Midi[sub][code]` -/
def GSt.keyLookup (d : GSt) (i : Int) (sub : Sub) (code : Code) : Key × Bool :=
  match d.cfg.maps[i.toNat]? with
  | none => (default, false)
  | some m =>
    match alookup (sub, code) m.midi with
    | some k => (k, true)
    | none => (default, false)
/-- `action, ok := d.config.ActionMapping[code]` -/
def GSt.actionLookup (d : GSt) (code : Code) : Action × Bool :=
  match alookup code d.cfg.actions with
  | some a => (a, true)
  | none => (default, false)
/-- `v, ok := d.noteTracker[code]` -/
def GSt.noteTrLookup (d : GSt) (code : Code) : (Nat × Nat) × Bool :=
  match alookup code d.noteTr with
  | some v => (v, true)
  | none => (default, false)
/-- `v, ok := d.analogNoteTracker[identifier]` -/
def GSt.anaTrLookup (d : GSt) (id : Code × Bool) : (Nat × Nat) × Bool :=
  match alookup id d.anaTr with
  | some v => (v, true)
  | none => (default, false)

/-- `analog, ok := d.config.KeyMappings[i].Analog[sub][code]` -/
def GSt.analogLookup (d : GSt) (i : Int) (sub : Sub) (code : Code) : Analog × Bool :=
  match d.cfg.maps[i.toNat]? with
  | none => (default, false)
  | some m =>
    match alookup (sub, code) m.analog with
    | some a => (a, true)
    | none => (default, false)
/-- `dz, ok := d.config.KeyMappings[i].Deadzones[sub][code]` -/
def GSt.dzLookup (d : GSt) (i : Int) (sub : Sub) (code : Code) : Rat × Bool :=
  match d.cfg.maps[i.toNat]? with
  | none => (0, false)
  | some m =>
    match alookup (sub, code) m.dz with
    | some z => (z, true)
    | none => (0, false)
/-- `dz, ok := d.config.KeyMappings[i].DefaultDeadzone[sub]` -/
def GSt.defDzLookup (d : GSt) (i : Int) (sub : Sub) : Rat × Bool :=
  match d.cfg.maps[i.toNat]? with
  | none => (0, false)
  | some m =>
    match alookup sub m.defDz with
    | some z => (z, true)
    | none => (0, false)
/-- `d.InputDevice.AbsInfos[node][code]` : (Minimum, Maximum); a missing entry is the zero value -/
def GSt.absInfo (d : GSt) (node : String) (code : Code) : Int × Int := (alookup (node, code) d.cfg.axes).getD (0, 0)
/-- `d.lastAnalogValue[sub][code]` (a missing entry reads as 0) -/
def GSt.lastAnaGet (d : GSt) (sub : Sub) (code : Code) : Rat := (alookup (sub, code) d.lastAna).getD 0
def GSt.setLastAna (d : GSt) (sub : Sub) (code : Code) (v : Rat) : GSt :=
  { d with lastAna := ainsert (sub, code) v d.lastAna }
/-- `d.ccZeroed[cc] = b` (the set of controller numbers whose entry is `true`) -/
def GSt.setZeroedG (d : GSt) (cc : Int) (b : Bool) : GSt :=
  { d with ccZeroed := if b then sinsert cc.toNat d.ccZeroed else serase cc.toNat d.ccZeroed }
/-- `midi.PitchBendEvent(channel, value)` -/
def pbEv (ch : Int) (v : Rat) : Out := pitchBendEvent ch.toNat v

/-- `midi.NoteEvent(type, channel, note, velocity)` on `uint8` values -/
def noteEv (ty ch note vel : Int) : Out := noteEvent ty.toNat ch.toNat note.toNat vel.toNat
/-- `midi.ControlChangeEvent(channel, function, value)` -/
def ccEv (ch fn v : Int) : Out := ccEvent ch.toNat fn.toNat v.toNat

/-- `ev.Type()` of a MIDI-input message with first byte `a` (`midi/event.go`: channel messages are reduced to their status
    nibble, system messages 0xF0‥0xFF and data bytes are returned as they are) -/
def evType (a : Int) : Int := if a.toNat / 16 ≠ 15 ∧ a.toNat ≥ 128 then (a.toNat / 16 * 16 : Nat) else a
/-- `ev.Channel()` : the low nibble of the first byte -/
def evChannel (a : Int) : Int := (a.toNat % 16 : Nat)

/-- `inmap[i] = make(map[byte]bool)` on the set-of-pairs representation of `map[byte]map[byte]bool` -/
def extClearCh (l : List (Nat × Nat)) (i : Int) : List (Nat × Nat) := l.filter (fun p => p.1 ≠ i.toNat)

/-! ### the hand-written model's state inside `GSt` -/

def toG (d : Dev) (o : List Out := []) : GSt :=
  { cfg := d.cfg, octave := d.octave, semitone := d.semitone, channel := d.channel, velocity := d.velocity,
    mapping := d.mapping, learning := d.learning, multi := d.multi, noteTr := d.noteTr, anaTr := d.anaTr,
    counter := d.counter, actTr := d.actTr, keyTr := d.keyTr, ext := d.ext, lastAna := d.lastAna, ccZeroed := d.ccZeroed,
    out := o, dead := d.dead }

/-- the model's result (state, outputs) as a `GSt`; `o` is what had been sent before -/
def toGR (r : Dev × List Out) (o : List Out := []) : GSt := { toG r.1 with out := o ++ r.2 }

/-- `d.Multinote()` as the model has it; the translation `Gen.Body.Multinote` of the source is proved equal to it
    (`BodiesTie.Multinote_eq`).  `sort.Ints` is `sortInts` (ascending). -/
def multinoteP (g : GSt) : GSt :=
  let pressed := sortInts (g.noteTr.map (fun p => (p.2.1 : Int)))
  match pressed with
  | [] => { g with multi := [] }
  | [_] => { g with multi := [] }
  | mn :: rest => { g with multi := rest.map (· - mn) }

end GoLite
end Hidi
