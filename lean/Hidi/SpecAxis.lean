/-
  Hidi.SpecAxis — the properties C06, C07, C08 (and the axis clause of C01) as decidable predicates
  over observed traces.

  * C06 is stated against the *ideal* transfer function in exact rational arithmetic
    (`idealShape`, `idealValue`): end stops and rest value exact, every transmitted value within one
    step of the ideal one, monotone in the raw position, nothing transmitted for a repeated position.
  * C07 is stated on the receiver: last value per (channel, controller).
  * C08 is stated as a small reference machine for the emulated keys (`apinned`).

  "Position" for the threshold clauses of C07/C08 (half travel, 49 %) is the shaped value as the
  device computes it in binary64 (`shapeRaw`, bit-exact with Go, see Hidi.Float); for the accuracy
  clause of C06 it is the exact rational.
-/
import Hidi.Spec
namespace Hidi
namespace Spec

/-! ### the ideal transfer function (exact rationals) -/

def idealShape (mn mx : Int) (dzc : Bool) (dz : Rat) (raw : Int) : Rat :=
  let v0 : Rat := if raw < 0 then (raw : Rat) / rabs (mn : Rat) else (raw : Rat) / rabs (mx : Rat)
  let v1 := if dzc then v0 * 2 - 1 else v0
  if v1 < 0 then (if -dz < v1 then 0 else (v1 + dz) / (1 - dz))
  else (if v1 < dz then 0 else (v1 - dz) / (1 - dz))

def idealFlip (canNeg flip : Bool) (v : Rat) : Rat :=
  if flip then (if canNeg then -v else 1 - v) else v

/-- round half away from zero -/
def rround (q : Rat) : Int := if q < 0 then -((-q + 1/2).floor) else (q + 1/2).floor

/-- what is transmitted for a controller / pitch-bend axis at shaped, flipped value `v`:
    (negative side?, value).  For pitch bend the value is the 14-bit number. -/
def idealValue (a : Analog) (canNeg : Bool) (v : Rat) : Bool × Int :=
  match a.kind with
  | .cc =>
    if canNeg then
      if a.bidir then (decide (v < 0), (127 * rabs v).floor)
      else (false, (127 * ((v + 1) / 2)).floor)
    else
      if a.bidir then (decide (v < 1/2), (127 * rabs (v * 2 - 1)).floor)
      else (false, (127 * v).floor)
  | .pitchBend =>
    let x := if canNeg then v else v * 2 - 1
    (false, rround (16383 * ((x + 1) / 2)))
  | _ => (false, 0)

/-! ### bookkeeping -/

structure Sample where
  key : Sub × Code × Nat          -- axis and mapping index
  cfg : Analog
  dz : Rat
  raw : Int
  sval : Int                       -- signed transmitted value (negative side counts negative)
  deriving Repr, Inhabited

structure ABook where
  pre : StObs
  down : List Code
  nAct : Nat                       -- action keys down
  /-- CC-learning held?  `none` = not derivable from the key events alone -/
  learning : Option Bool
  /-- replica of the duplicate filter: last stored shaped value per (sub-handler, axis) -/
  last : List ((Sub × Code) × Rat)
  /-- emulated keys held: (axis, negative?) ↦ (note, channel) -/
  apinned : List ((Code × Bool) × (Nat × Nat))
  /-- is `apinned` reliable (false after an out-of-domain axis event) -/
  aknown : Bool
  /-- receiver: last value per (channel, controller) -/
  ccv : List ((Nat × Nat) × Nat)
  /-- per bidirectional axis: side of the last transmitted event and the controller pairs used -/
  sides : List ((Sub × Code) × (Bool × (Nat × Nat) × (Nat × Nat) × Bool))
  samples : List Sample
  dead : Bool
  deriving Repr, Inhabited

def ABook.init (st : StObs) : ABook := ⟨st, [], 0, some false, [], [], true, [], [], [], false⟩

/-- receiver-side controller values -/
def recvCC (m : List ((Nat × Nat) × Nat)) : Out → List ((Nat × Nat) × Nat)
  | .midi a b c => if a / 16 = 11 then ainsert (a % 16, b) c m else m
  | _ => m

def ccOf (m : List ((Nat × Nat) × Nat)) (k : Nat × Nat) : Nat := (alookup k m).getD 0

/-- controller numbers of all controller axes (both directions, all mappings) pairwise distinct -/
def distinctCC (cfg : Config) : Bool :=
  let nums := cfg.maps.flatMap (fun m => m.analog.flatMap (fun p =>
    if p.2.kind = .cc then (if p.2.bidir then [p.2.cc, p.2.ccNeg] else [p.2.cc]) else []))
  nums.eraseDups.length = nums.length

def ccMsg (ch cc v : Nat) : Out := .midi (0xB0 + ch) cc v

/-- the 14-bit value of a pitch-bend message on channel `ch` -/
def pbValue (ch : Nat) : Out → Option Int
  | .midi a b c => if a = 0xE0 + ch ∧ b < 128 ∧ c < 128 then some ((c : Int) * 128 + b) else none
  | _ => none

def ccValueOf (ch cc : Nat) : Out → Option Int
  | .midi a b c => if a = 0xB0 + ch ∧ b = cc then some (c : Int) else none
  | _ => none

/-- key events as far as the axis clauses need them: which keys are down, is learning held -/
def ABook.key (cfg : Config) (b : ABook) (code : Code) (val : Int) : ABook :=
  if val = 2 then b else
  let down' := if val = 1 then sinsert code b.down else serase code b.down
  let swallowed := val = 1 ∧ !cfg.exitSeq.isEmpty ∧ cfg.exitSeq.all (fun k => k ∈ down')
  let b := { b with down := down' }
  if swallowed then b else
  match alookup code cfg.actions with
  | none => b
  | some a =>
    if val ≠ 0 ∧ val ≠ 1 then { b with learning := if a = .learning then none else b.learning } else
    let nAct := if val = 1 then b.nAct + 1 else b.nAct - 1
    let b := { b with nAct := nAct }
    if a = .learning then
      if val = 1 then { b with learning := if b.nAct ≤ 1 then some true else none }
      else { b with learning := some false }
    else b

def noteOn64 (ch n : Nat) : Out := .midi (0x90 + ch) n 64

/-- the (note, channel) an emulated key resolves to in the observed state -/
def resolveAxis (s : StObs) (note off : Nat) : Option (Nat × Nat) :=
  let n : Int := (note : Int) + 12 * s.oct + s.semi
  if n < 0 ∨ n > 127 then none else some (n.toNat, (s.ch + off) % 16)

def offsFor (ap : List ((Code × Bool) × (Nat × Nat))) (ids : List (Code × Bool)) : List Out :=
  ids.filterMap (fun id => (alookup id ap).map (fun p => noteOffMsg p.2 p.1))

def eraseIds (ap : List ((Code × Bool) × (Nat × Nat))) (ids : List (Code × Bool)) :=
  ids.foldl (fun m id => aerase id m) ap

/-- all clause failures of one axis step, and the bookkeeping afterwards -/
def checkAbs (cfg : Config) (idx : Nat) (b : ABook) (sub : Sub) (node : String) (code : Code) (raw : Int)
    (outs : List Out) : List Fail × ABook :=
  let s := b.pre
  let both : List (Code × Bool) := [(code, false), (code, true)]
  match cfg.maps[s.map]? with
  | none => ([], { b with aknown := false })
  | some m =>
  match alookup (sub, code) m.analog with
  | none =>
    -- unmapped in this mapping: only releases what the emulation of this axis still holds (C08/C01)
    let exp := offsFor b.apinned both
    (if b.aknown ∧ outs ≠ exp then [⟨"C08", idx, "release-on-unmapped-axis"⟩] else [],
     { b with apinned := eraseIds b.apinned both })
  | some a =>
    let pre := if a.kind = .key then [] else offsFor b.apinned both
    let ap := if a.kind = .key then b.apinned else eraseIds b.apinned both
    let b := { b with apinned := ap }
    let (mn, mx) := (alookup (node, code) cfg.axes).getD (0, 0)
    let canNeg := decide (mn < 0) || a.dzCenter
    match m.deadzone sub code with
    | none => ([], { b with aknown := false })
    | some dz =>
    if ¬ axisOK mn mx a.dzCenter dz raw then ([], { b with aknown := false, learning := none }) else
    let w := shapeRaw mn mx a.dzCenter dz raw
    let lastW := (alookup (sub, code) b.last).getD 0
    if lastW = w then
      -- C06: a repeated position transmits nothing
      (if outs ≠ pre then [⟨(if a.kind = .key then "C08" else "C06"), idx, "repeated-position-transmitted"⟩] else [], b)
    else
    let b := { b with last := ainsert (sub, code) w b.last }
    let v := flipVal canNeg a.flip w
    let gated : Option Bool := b.learning.map (fun l => l && !(decide (v < -1/2) || decide (1/2 < v)))
    match gated with
    | none =>   -- learning state unknown: nothing claimed, and C07 is not claimed for this axis any more
      ([], { b with aknown := false, sides := ainsert (sub, code) (false, (0, 0), (0, 0), false) b.sides })
    | some true =>
      -- C07: while learning is held, deflections up to half travel are not transmitted
      (if outs ≠ pre then [⟨(if a.kind = .cc ∧ a.bidir then "C07" else if a.kind = .key then "C08" else "C06"), idx, "transmitted-while-learning-below-half"⟩] else [], b)
    | some false =>
    let body := outs.drop pre.length
    let fpre : List Fail := if outs.take pre.length ≠ pre then [⟨"C08", idx, "release-before-non-key-kind"⟩] else []
    let wi := idealShape mn mx a.dzCenter dz raw
    let vi := idealFlip canNeg a.flip wi
    match a.kind with
    | .cc =>
      let ch := (s.ch + a.chOff) % 16
      let chN := (s.ch + a.chOffNeg) % 16
      let (negI, valI) := idealValue a canNeg vi
      if a.bidir then
        -- side as the device sees it (binary64 position); tolerate the ideal side when the value is 0
        let negF := if canNeg then decide (v < 0) else decide (v < 1/2)
        let sideP := if negF then (chN, a.ccNeg) else (ch, a.cc)
        let other := if negF then (ch, a.cc) else (chN, a.ccNeg)
        let first := body.head?.bind (ccValueOf sideP.1 sideP.2)
        let f6 : List Fail :=
          match first with
          | none => [⟨"C06", idx, "no-controller-message"⟩]
          | some x =>
            (if (raw = mn ∨ raw = mx ∨ wi = 0) ∧ x ≠ valI then [⟨"C06", idx, if wi = 0 then "rest-value" else "end-stop"⟩] else []) ++
            (if x - valI > 1 ∨ valI - x > 1 then [⟨"C06", idx, "accuracy"⟩] else []) ++
            (if negF ≠ negI ∧ valI ≠ 0 then [⟨"C06", idx, "side"⟩] else [])
        let rest := body.drop 1
        let zeroOther := ccMsg other.1 other.2 0
        let ccv' := outs.foldl recvCC b.ccv
        let prev := alookup (sub, code) b.sides
        -- C07 speaks about one pair of controllers: it is claimed while every transmitted event of this
        -- axis so far used the same (channel, controller) pairs, and controller numbers are distinct
        let clean : Bool := distinctCC cfg && (match prev with
          | some (_, pp, pn, c) => c && decide (pp = (ch, a.cc)) && decide (pn = (chN, a.ccNeg))
          | none => true)
        let f7 : List Fail := if ¬ clean then [] else
          (if ¬ rest.all (· = zeroOther) ∨ rest.length > 1 then [⟨"C07", idx, "unexpected-extra-message"⟩] else []) ++
          (if ccOf ccv' other ≠ 0 then [⟨"C07", idx, "other-side-not-zero"⟩] else []) ++
          (match prev with
           | some (pneg, _, _, _) =>
             if pneg ≠ negF ∧ ¬ outs.contains zeroOther then
               [⟨"C07", idx, "no-explicit-zero-on-crossing"⟩] else []
           | none => [])
        let sval : Int := match first with | some x => (if negF then -x else x) | none => 0
        (fpre ++ f6 ++ f7,
         { b with ccv := ccv', sides := ainsert (sub, code) (negF, (ch, a.cc), (chN, a.ccNeg), clean) b.sides,
                  samples := ⟨(sub, code, s.map), a, dz, raw, sval⟩ :: b.samples })
      else
        let first := body.head?.bind (ccValueOf ch a.cc)
        let f6 : List Fail :=
          match first with
          | none => [⟨"C06", idx, "no-controller-message"⟩]
          | some x =>
            (if body.length ≠ 1 then [⟨"C06", idx, "extra-message"⟩] else []) ++
            (if (raw = mn ∨ raw = mx ∨ wi = 0) ∧ x ≠ valI then [⟨"C06", idx, if wi = 0 then "rest-value" else "end-stop"⟩] else []) ++
            (if x - valI > 1 ∨ valI - x > 1 then [⟨"C06", idx, "accuracy"⟩] else [])
        (fpre ++ f6, { b with ccv := outs.foldl recvCC b.ccv,
                              samples := ⟨(sub, code, s.map), a, dz, raw, first.getD 0⟩ :: b.samples })
    | .pitchBend =>
      let ch := (s.ch + a.chOff) % 16
      let (_, valI) := idealValue a canNeg vi
      let first := body.head?.bind (pbValue ch)
      let f6 : List Fail :=
        match first with
        | none => [⟨"C06", idx, "no-pitch-bend-message"⟩]
        | some x =>
          (if body.length ≠ 1 then [⟨"C06", idx, "extra-message"⟩] else []) ++
          (if (raw = mn ∨ raw = mx ∨ wi = 0) ∧ x ≠ valI then [⟨"C06", idx, if wi = 0 then "rest-value" else "end-stop"⟩] else []) ++
          (if x - valI > 1 ∨ valI - x > 1 then [⟨"C06", idx, "accuracy"⟩] else [])
      (fpre ++ f6, { b with samples := ⟨(sub, code, s.map), a, dz, raw, first.getD 0⟩ :: b.samples })
    | .key =>
      let vk := if canNeg then v else fsub (fmul v 2) 1
      let pos : Code × Bool := (code, false)
      let neg : Code × Bool := (code, true)
      if vk ≤ -1/2 then
        let want := if a.bidir ∧ (alookup neg b.apinned).isNone then resolveAxis s a.noteNeg a.chOffNeg else none
        let exp := (match want with | some (n, c) => [noteOn64 c n] | none => []) ++ offsFor b.apinned [pos]
        let ap := aerase pos b.apinned
        let ap := match want with | some p => ainsert neg p ap | none => ap
        (if b.aknown ∧ body ≠ exp then
           [⟨"C08", idx, if ¬ a.bidir ∧ body.any (fun o => match o with | .midi x _ _ => x / 16 = 9 | _ => false)
                           then "silent-direction" else "negative-deflection"⟩] else [], { b with apinned := ap })
      else if -c49 < vk ∧ vk < c49 then
        let exp := offsFor b.apinned [pos, neg]
        (if b.aknown ∧ body ≠ exp then [⟨"C08", idx, "return-to-centre"⟩] else [],
         { b with apinned := eraseIds b.apinned [pos, neg] })
      else if 1/2 ≤ vk then
        let want := if (alookup pos b.apinned).isNone then resolveAxis s a.note a.chOff else none
        let exp := (match want with | some (n, c) => [noteOn64 c n] | none => []) ++ offsFor b.apinned [neg]
        let ap := aerase neg b.apinned
        let ap := match want with | some p => ainsert pos p ap | none => ap
        (if b.aknown ∧ body ≠ exp then [⟨"C08", idx, "positive-deflection"⟩] else [], { b with apinned := ap })
      else
        -- hysteresis band [0.49, 0.5): nothing changes
        (if b.aknown ∧ body ≠ [] then [⟨"C08", idx, "hysteresis-band"⟩] else [], b)
    | .action =>
      -- axis-driven actions are outside the listed properties
      ([], { b with aknown := b.aknown, learning := none })

/-- monotonicity (C06) over the transmitted samples of one trace: for the same axis, mapping, axis
    configuration and deadzone, a larger raw position never transmits a smaller (flipped: larger) value -/
def monotoneFails (samples : List Sample) : List Fail :=
  let bad := samples.any (fun x => samples.any (fun y =>
    x.key = y.key ∧ x.cfg = y.cfg ∧ x.dz = y.dz ∧ x.raw ≤ y.raw ∧
    (if x.cfg.flip then x.sval < y.sval else y.sval < x.sval)))
  if bad then [⟨"C06", 0, "monotone"⟩] else []

structure AxisInfo where
  /-- number of emulated keys held after the step, when known -/
  held : Option Nat
  /-- was this a (live) event of an action-emulating axis -/
  actionAxis : Bool
  deriving Repr, Inhabited

def isActionAxisStep (cfg : Config) (s : StObs) : Ev → Bool
  | .abs sub _ code _ =>
    match cfg.maps[s.map]? with
    | some m => (match alookup (sub, code) m.analog with | some a => a.kind = .action | none => false)
    | none => false
  | _ => false

def checkAxisSteps (cfg : Config) : Nat → ABook → List Step → List Fail × List AxisInfo × ABook
  | _, b, [] => ([], [], b)
  | i, b, st :: r =>
    let acc := Accepted cfg
    let (f, b1) : List Fail × ABook :=
      match st.ev with
      | .key _ code val => ([], b.key cfg code val)
      | .abs sub node code raw => checkAbs cfg i b sub node code raw st.outs
      | _ => ([], b)
    let panicked := st.outs.contains .panic
    let f := if acc ∧ ¬ b.dead ∧ ¬ panicked then f else []
    let info : AxisInfo := ⟨if b1.aknown then some b1.apinned.length else none, isActionAxisStep cfg b.pre st.ev⟩
    let b1 := { b1 with pre := st.st, dead := b.dead || panicked, ccv := st.outs.foldl recvCC b.ccv }
    let (fs, infos, b2) := checkAxisSteps cfg (i + 1) b1 r
    (f ++ fs, info :: infos, b2)

def checkAxisTrace (t : Trace) : List Fail × List AxisInfo :=
  let (fs, infos, b) := checkAxisSteps t.cfg 0 (ABook.init t.init) t.steps
  let fm := if Accepted t.cfg ∧ ¬ b.dead then monotoneFails b.samples else []
  (fs ++ fm, infos)

/-- observations of the axis properties: what C06/C07/C08 look at -/
def observeAxis (t : Trace) : List (String × String) :=
  let rec go (pre : StObs) : List Step → List (String × String)
    | [] => []
    | st :: r =>
      let o : List (String × String) :=
        match st.ev with
        | .abs sub _ code _ =>
          let a := (t.cfg.maps[pre.map]?).bind (fun m => alookup (sub, code) m.analog)
          let notes := st.outs.filter (fun o => match o with | .midi x _ _ => x / 16 = 8 ∨ x / 16 = 9 | _ => false)
          let ctl := st.outs.filter (fun o => match o with | .midi x _ _ => x / 16 = 11 ∨ x / 16 = 14 | _ => false)
          [("C08", outsStr notes)] ++
          (match a with
           | some a =>
             (if a.kind = .cc ∨ a.kind = .pitchBend then [("C06", outsStr ctl)] else []) ++
             (if a.kind = .cc ∧ a.bidir then [("C07", outsStr ctl)] else [])
           | none => [])
        | _ => []
      o ++ go st.st r
  go t.init t.steps

/-- all monitors of C01–C08, C13, C14 on one trace -/
def checkAll (t : Trace) : List Fail :=
  let (fa, infos) := checkAxisTrace t
  checkTrace t (infos.map (fun i => (i.held, i.actionAxis))) ++ fa

def observeAll (t : Trace) : List (String × String) :=
  let (_, infos) := checkAxisTrace t
  observe t (infos.map (fun i => (i.held, i.actionAxis))) ++ observeAxis t

end Spec
end Hidi
