/-
  Hidi.Upkeep — model of `updateHIDIConfiguration` (cmd/hidi/config.go:73-223) as a transformation of a
  file tree (C18).  File contents are opaque values (`String`, compared for equality only).
  The embedded template enters as a list of (path, node) in `fs.WalkDir` order (dumped from the real
  `embed.FS` by the harness on every run).
-/
import Hidi.Basic
namespace Hidi

inductive Node
  | dir
  | file (content : String)
  deriving Repr, DecidableEq, Inhabited

abbrev FS := List (String × Node)

def configDir : String := "hidi-config"
def factoryDir : String := "hidi-config/factory"
def blacklistPath : String := "hidi-config/device blacklist.txt"

/-- parent directory of a slash-separated relative path ("" for a single component): everything before the last `/`
    (structural on the character list, so that the kernel can evaluate it on the template's paths) -/
def parentOf (p : String) : String :=
  let r := p.toList.reverse
  if r.contains '/' then String.ofList ((r.dropWhile (· ≠ '/')).drop 1).reverse else ""

def isDirIn (fs : FS) (p : String) : Bool := p = "" ∨ alookup p fs = some .dir

/-- `os.Mkdir(p)` : parent must be a directory, `p` must not exist -/
def mkdir (fs : FS) (p : String) : Option FS :=
  if isDirIn fs (parentOf p) ∧ (alookup p fs).isNone then some (ainsert p .dir fs) else none

/-- `os.OpenFile(p, O_CREATE|O_WRONLY[|O_TRUNC])` followed by `Write(data)` on a path that is absent or
    (with truncation) a regular file; fails when the parent is not a directory or `p` is a directory -/
def writeFile (fs : FS) (p : String) (data : String) : Option FS :=
  if ¬ isDirIn fs (parentOf p) then none else
  match alookup p fs with
  | some .dir => none
  | _ => some (ainsert p (.file data) fs)

/-- is `p` inside (or equal to) directory `d` -/
def under (d p : String) : Bool := p.toList = d.toList || (d.toList ++ ['/']).isPrefixOf p.toList

/-- fresh tree: `fs.WalkDir(template, "hidi-config", …)` creating everything; stops at the first error -/
def createAll : List (String × Node) → FS → FS × Bool
  | [], fs => (fs, true)
  | (p, .dir) :: r, fs =>
    (match mkdir fs p with
     | some fs' => createAll r fs'
     | none => (fs, false))
  | (p, .file data) :: r, fs =>
    (match writeFile fs p data with
     | some fs' => createAll r fs'
     | none => (fs, false))

/-- factory update: directories are created when absent, files are created when absent and rewritten
    when their content differs; a directory where a file is expected is an error -/
def updateFactory : List (String × Node) → FS → FS × Bool
  | [], fs => (fs, true)
  | (p, .dir) :: r, fs =>
    if (alookup p fs).isSome then updateFactory r fs   -- `os.Stat` succeeds (whatever is there)
    else (match mkdir fs p with
          | some fs' => updateFactory r fs'
          | none => (fs, false))
  | (p, .file data) :: r, fs =>
    match alookup p fs with
    | none =>
      (match writeFile fs p data with
       | some fs' => updateFactory r fs'
       | none => (fs, false))
    | some .dir => (fs, false)                          -- `io.ReadAll` on a directory fails
    | some (.file old) =>
      if old = data then updateFactory r fs
      else (match writeFile fs p data with
            | some fs' => updateFactory r fs'
            | none => (fs, false))

/-- `updateHIDIConfiguration` : (tree afterwards, returned nil?) -/
def upkeep (tpl : List (String × Node)) (fs : FS) : FS × Bool :=
  if (alookup configDir fs).isNone then createAll tpl fs
  else
    let (fs1, ok) := updateFactory (tpl.filter (fun e => under factoryDir e.1)) fs
    if ¬ ok then (fs1, false) else
    match alookup blacklistPath fs1 with
    | some _ => (fs1, true)
    | none =>
      match alookup blacklistPath tpl with
      | some (.file data) =>
        (match writeFile fs1 blacklistPath data with
         | some fs2 => (fs2, true)
         | none => (fs1, false))
      | _ => (fs1, false)

def upkeepN (tpl : List (String × Node)) : Nat → FS → FS × Bool
  | 0, fs => (fs, true)
  | n + 1, fs =>
    let (fs1, ok) := upkeep tpl fs
    if ok then upkeepN tpl n fs1 else (fs1, false)

end Hidi

namespace Hidi

/-! ### crash states: the tree after every primitive effect of a run -/

/-- the states a single file write goes through: created/truncated (empty), then complete -/
def writeStates (fs : FS) (p : String) (data : String) : List FS :=
  match writeFile fs p data with
  | some fs' => [ainsert p (.file "-") fs, fs']
  | none => []

def createAllS : List (String × Node) → FS → List FS
  | [], _ => []
  | (p, .dir) :: r, fs =>
    (match mkdir fs p with
     | some fs' => fs' :: createAllS r fs'
     | none => [])
  | (p, .file data) :: r, fs =>
    (match writeFile fs p data with
     | some fs' => writeStates fs p data ++ createAllS r fs'
     | none => [])

def updateFactoryS : List (String × Node) → FS → List FS
  | [], _ => []
  | (p, .dir) :: r, fs =>
    if (alookup p fs).isSome then updateFactoryS r fs
    else (match mkdir fs p with
          | some fs' => fs' :: updateFactoryS r fs'
          | none => [])
  | (p, .file data) :: r, fs =>
    match alookup p fs with
    | none =>
      (match writeFile fs p data with
       | some fs' => writeStates fs p data ++ updateFactoryS r fs'
       | none => [])
    | some .dir => []
    | some (.file old) =>
      if old = data then updateFactoryS r fs
      else (match writeFile fs p data with
            | some fs' => writeStates fs p data ++ updateFactoryS r fs'
            | none => [])

/-- every intermediate tree of one run of `upkeep` (a crash can leave any of them, the last write cut anywhere) -/
def upkeepStates (tpl : List (String × Node)) (fs : FS) : List FS :=
  if (alookup configDir fs).isNone then createAllS tpl fs
  else
    let fac := tpl.filter (fun e => under factoryDir e.1)
    let (fs1, ok) := updateFactory fac fs
    updateFactoryS fac fs ++
    (if ¬ ok then [] else
     match alookup blacklistPath fs1, alookup blacklistPath tpl with
     | none, some (.file data) => writeStates fs1 blacklistPath data
     | _, _ => [])

end Hidi
