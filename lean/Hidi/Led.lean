/-
  Hidi.Led — model of the frame computed by the LED loop of `handleOpenrgb`
  (internal/pkg/midi/device/open_rgb.go:497-648) (C17).

  `frame` follows the painting order of the source (later paint wins).  `checked` says whether writes for action keys
  and strip LEDs go through a presence/bounds-checked setter (regenerated fact `Gen.ledUncheckedWrites = 0`);
  with `checked = false` the model reproduces the unchecked Go code: a missing map entry reads as 0, so LED 0 is
  written, and an index outside the frame is a Go panic.
  `shiftColor(·, 0)` (an HSV round trip through go-colorful in floating point) enters as the three already shifted
  class colours `shifted` (white, black, c).
-/
import Hidi.Engine
import Hidi.Gen.Evdev
namespace Hidi
namespace Led

def red : RGB := ⟨255, 0, 0⟩
def off : RGB := ⟨0, 0, 0⟩
def white1 : RGB := ⟨27, 27, 27⟩
def white2 : RGB := ⟨100, 100, 100⟩
def white3 : RGB := ⟨255, 255, 255⟩

/-- `colorful.Hsv(45·ch + 30 (mod 360), 1, 1)` scaled with `byte(c*255)`: the hue is a multiple of 15°, so the
    chroma ramp takes only the values 0, ¼, ½, ¾, 1 and the arithmetic is exact -/
def chanColor (ch : Nat) : RGB :=
  let hp4 := (3 * ch + 2) % 24            -- hue / 60 in quarters, 0 ≤ hp4 < 24
  let t := hp4 % 8                         -- (hue/60 mod 2) in quarters
  let x4 := if t ≤ 4 then t else 8 - t     -- 4·(1 − |hue/60 mod 2 − 1|)
  let x := x4 * 255 / 4
  match hp4 / 4 with
  | 0 => ⟨255, x, 0⟩
  | 1 => ⟨x, 255, 0⟩
  | 2 => ⟨0, 255, x⟩
  | 3 => ⟨0, x, 255⟩
  | 4 => ⟨x, 0, 255⟩
  | _ => ⟨255, 0, x⟩

def third (c : RGB) : RGB := ⟨c.r / 3, c.g / 3, c.b / 3⟩

/-- `LedNameToKey[name]` -/
def ledKey (name : String) : Option Nat := (Gen.keyToLedName.find? (fun p => p.2 = name)).map (·.1)

/-- `indexMap` : key code ↦ index of its LED (the last LED with that name wins) -/
def indexMap (leds : List String) : List (Nat × Nat) :=
  (leds.zipIdx).foldl (fun m (p : String × Nat) => match ledKey p.1 with
    | some k => ainsert k p.2 m
    | none => m) []

/-- `nameToIndex` -/
def nameToIndex (leds : List String) : List (String × Nat) :=
  (leds.zipIdx).foldl (fun m (p : String × Nat) => ainsert p.1 p.2 m) []

/-- `actionToEvcode` (the generator keeps actions unique per configuration; with duplicates Go's choice is random) -/
def actionCode (cfg : Config) (a : Action) : Option Nat :=
  (cfg.actions.find? (fun p => p.2 = a)).map (·.1)

abbrev Frame := Outcome (List RGB)

def setAt (f : Frame) (i : Nat) (c : RGB) : Frame :=
  match f with
  | .ok l => if i < l.length then .ok (l.set i c) else .panic
  | x => x

/-- paint the LED of the key bound to action `a` -/
def paintAction (checked : Bool) (cfg : Config) (im : List (Nat × Nat)) (f : Frame) (a : Action) (c : RGB) : Frame :=
  if checked then
    match actionCode cfg a with
    | some code => (match alookup code im with
        | some i => (match f with | .ok l => if i < l.length then .ok (l.set i c) else f | x => x)
        | none => f)
    | none => f
  else
    let code := (actionCode cfg a).getD 0
    setAt f ((alookup code im).getD 0) c

def stripLeds (devName : String) : List String :=
  if devName = "HyperX Alloy Elite 2 (HP)" then (List.range 18).map (fun i => s!"RGB Strip {i + 1}") else []

/-- keys of sub-handler "" of a mapping whose base note is `note` (`MidiKeyMappings[mapping][note]`) -/
def keysWithNote (m : Mapping) (note : Nat) : List Nat :=
  (m.midi.filter (fun p => p.1.1 = "" ∧ p.2.note = note)).map (·.1.2)

/-- paint every LED of the keys whose base note is `note` -/
def paintNote (im : List (Nat × Nat)) (m : Mapping) (f : Frame) (note : Nat) (c : RGB) : Frame :=
  (keysWithNote m note).foldl (fun f code => match alookup code im with
    | some i => setAt f i c
    | none => f) f

/-- the key note that sounds `note` at transposition `offset`: `int(note) - offset` … -/
def baseI (note : Nat) (offset : Int) : Int := (note : Int) - offset

/-- … which is looked at only when it is a MIDI note (`if base < 0 || base > 127 { continue }`) -/
def baseOk (note : Nat) (offset : Int) : Bool := decide (0 ≤ baseI note offset) && decide (baseI note offset ≤ 127)

def baseOf (note : Nat) (offset : Int) : Nat := (baseI note offset).toNat

/-- the MIDI-input notes of channel `ch` that some key could sound at this transposition -/
def extOn (d : Dev) (ch : Nat) (offset : Int) : List (Nat × Nat) :=
  (d.ext.filter (fun p => p.1 = ch)).filter (fun p => baseOk p.2 offset)

/-- the device's own sounding notes that some key could sound at this transposition -/
def ownOn (d : Dev) (offset : Int) : List (Code × (Nat × Nat)) :=
  d.noteTr.filter (fun p => baseOk p.2.1 offset)

/-- the paints of the action keys, in the painting order of the source (later entries win): panic red; octave and semitone
    keys dim, brighter at ±1, brightest beyond; mapping keys bright, dim at the ends; channel keys in the channel colour,
    a third of it at the ends; multinote dim -/
def actionPaints (d : Dev) : List (Action × RGB) :=
  [(.panic, red), (.octaveUp, white1), (.octaveDown, white1)] ++
  (if d.octave > 0 then [(Action.octaveUp, if d.octave = 1 then white2 else white3)] else []) ++
  (if d.octave < 0 then [(Action.octaveDown, if d.octave = -1 then white2 else white3)] else []) ++
  [(.semitoneUp, white1), (.semitoneDown, white1)] ++
  (if d.semitone > 0 then [(Action.semitoneUp, if d.semitone = 1 then white2 else white3)] else []) ++
  (if d.semitone < 0 then [(Action.semitoneDown, if d.semitone = -1 then white2 else white3)] else []) ++
  [(.mappingUp, white3), (.mappingDown, white3)] ++
  (if d.mapping = 0 then [(Action.mappingDown, white1)] else []) ++
  (if (d.mapping : Int) = (d.cfg.maps.length : Int) - 1 then [(Action.mappingUp, white1)] else []) ++
  [(.channelUp, chanColor d.channel), (.channelDown, chanColor d.channel)] ++
  (if d.channel = 0 then [(Action.channelDown, third (chanColor d.channel))] else []) ++
  (if d.channel = 15 then [(Action.channelUp, third (chanColor d.channel))] else []) ++
  [(.multinote, white1)]

/-- the frame after the strip LEDs: everything 'unavailable', strip LEDs off -/
def frameStrip (checked : Bool) (d : Dev) (devName : String) (leds : List String) : Frame :=
  (stripLeds devName).foldl (fun f name =>
    if checked then (match alookup name (nameToIndex leds) with | some i => setAt f i off | none => f)
    else setAt f ((alookup name (nameToIndex leds)).getD 0) off) (.ok (List.replicate leds.length d.cfg.colors.unavailable))

/-- the frame before the keyboard mapping is painted: unavailable colour, strip LEDs, action keys -/
def framePre (checked : Bool) (d : Dev) (devName : String) (leds : List String) : Frame :=
  (actionPaints d).foldl (fun f p => paintAction checked d.cfg (indexMap leds) f p.1 p.2) (frameStrip checked d devName leds)

/-- pitch-class colour of MIDI note `x` in mapping `m` (`shifted` = white, black, c) -/
def classColor (m : Mapping) (shifted : RGB × RGB × RGB) (x : Nat) : RGB :=
  if m.name = "Control" then shifted.1
  else match x % 12 with
    | 0 => shifted.2.2
    | 1 | 3 | 6 | 8 | 10 => shifted.2.1
    | _ => shifted.1

/-- the frame before the note highlights: `framePre`, then the keyboard mapping in pitch-class colours -/
def frameBase (checked : Bool) (d : Dev) (devName : String) (leds : List String) (shifted : RGB × RGB × RGB)
    (m : Mapping) : Frame :=
  let im := indexMap leds
  let offset : Int := d.semitone + d.octave * 12
  (m.midi.filter (fun p => p.1.1 = "")).foldl (fun f p =>
    match alookup p.1.2 im with
    | none => f
    | some i =>
      let x : Int := (p.2.note : Int) + offset
      if x < 0 ∨ x > 127 then f else setAt f i (classColor m shifted x.toNat)) (framePre checked d devName leds)

/-- MIDI-input notes: channel colours from 15 down to 0, then the current channel in the external colour -/
def frameExt (d : Dev) (leds : List String) (m : Mapping) (f : Frame) : Frame :=
  let im := indexMap leds
  let offset : Int := d.semitone + d.octave * 12
  let f := (List.range 16).reverse.foldl (fun f ch =>
    (extOn d ch offset).foldl (fun f p => paintNote im m f (baseOf p.2 offset) (chanColor ch)) f) f
  (extOn d d.channel offset).foldl
    (fun f p => paintNote im m f (baseOf p.2 offset) d.cfg.colors.activeExternal) f

/-- the frame for the current state: base, MIDI-input highlights, then the device's own notes in the active colour -/
def frame (checked : Bool) (d : Dev) (devName : String) (leds : List String) (shifted : RGB × RGB × RGB) : Frame :=
  match d.curMap with
  | none => .panic
  | some m =>
    let offset : Int := d.semitone + d.octave * 12
    (ownOn d offset).foldl (fun f p => paintNote (indexMap leds) m f (baseOf p.2.1 offset) d.cfg.colors.active)
      (frameExt d leds m (frameBase checked d devName leds shifted m))

def rgbTok (c : RGB) : String :=
  let h := fun (n : Nat) => String.ofList [("0123456789abcdef".toList.getD (n / 16 % 16) '?'), ("0123456789abcdef".toList.getD (n % 16) '?')]
  h c.r ++ h c.g ++ h c.b

def frameLine : Frame → String
  | .ok l => ",".intercalate (l.map rgbTok)
  | .err => "err"
  | .panic => "PANIC"

end Led
end Hidi
