/-
  Hidi.ParseEngine — the `parse` engine of the driver: builds a `TomlCfg` from `t.*` lines and
  prints the canonical dump of `convert` (C09/C10), and `hidi` for `LoadHIDIConfig`.
-/
import Hidi.Parser
import Hidi.Proto
namespace Hidi

def hexStr (s : String) : String :=
  if s.isEmpty then "-" else String.join (s.toList.map (fun c => hex2 c.toNat))

/-- hex token → string (bytes are taken as code points; the model is over ASCII) -/
def tokStr (s : String) : String := bytesToString (unhexBytes s)

def tokOptInt (s : String) : Option Int := if s = "-" then none else s.toInt?
def tokOptStr (s : String) : Option String := if s = "~" then none else some (tokStr s)

def ratStr (q : Rat) : String := s!"{q.num}/{q.den}"

def sortStrs (l : List String) : List String := (l.toArray.qsort (· < ·)).toList

def Analog.dump (a : Analog) : String :=
  s!"{a.kind.toTok}/{a.cc}/{a.ccNeg}/{a.note}/{a.noteNeg}/{a.chOff}/{a.chOffNeg}/{a.act.toTok}/{a.actNeg.toTok}/{if a.flip then 1 else 0}/{if a.bidir then 1 else 0}/{if a.dzCenter then 1 else 0}"

def Mapping.dump (m : Mapping) : String :=
  let midi := sortStrs (m.midi.map (fun p => s!"{hexStr p.1.1}/{p.1.2}:{p.2.note}/{p.2.chOff}"))
  let ana := sortStrs (m.analog.map (fun p => s!"{hexStr p.1.1}/{p.1.2}:{p.2.dump}"))
  let dz := sortStrs (m.dz.map (fun p => s!"{hexStr p.1.1}/{p.1.2}:{ratStr p.2}"))
  let dd := sortStrs (m.defDz.map (fun p => s!"{hexStr p.1}:{ratStr p.2}"))
  s!"{hexStr m.name}\{midi={",".intercalate midi};analog={",".intercalate ana};dz={",".intercalate dz};defdz={",".intercalate dd}}"

def PConfig.dump (p : PConfig) : String :=
  let c := p.cfg
  let acts := sortStrs (c.actions.map (fun a => s!"{a.1}:{a.2.toTok}"))
  let cols := p.colors.map (fun x => s!"{x.1}.{x.2.1}.{x.2.2}")
  s!"ok id={p.id.1}:{p.id.2.1}:{p.id.2.2.1}:{p.id.2.2.2} uniq={hexStr p.uniq} mode={c.mode.toTok} exit={",".intercalate (c.exitSeq.map toString)} def={c.defOct},{c.defSemi},{c.defCh},{c.defMap},{c.vel} colors={",".intercalate cols} actions={",".intercalate acts} maps={"|".intercalate (c.maps.map Mapping.dump)}"

structure ParseSt where
  t : TomlCfg := default
  deriving Inhabited

def modLastMap (t : TomlCfg) (f : TMapping → TMapping) : TomlCfg :=
  { t with maps := modifyNth t.maps (t.maps.length - 1) f }

def modLast {α} (l : List α) (f : α → α) : List α := modifyNth l (l.length - 1) f

def addKey (m : TMapping) (k v : String) : TMapping :=
  { m with keys := modLast m.keys (fun ks => { ks with map := ks.map ++ [(k, v)] }) }
def addAbs (m : TMapping) (k : String) (a : TAnalog) : TMapping :=
  { m with analog := modLast m.analog (fun x => { x with map := x.map ++ [(k, a)] }) }
def addDz (m : TMapping) (k : String) (z : Rat) : TMapping :=
  { m with analog := modLast m.analog (fun x => { x with dz := x.dz ++ [(k, z)] }) }

def ParseSt.line (s : ParseSt) (toks : List String) : ParseSt × Option String :=
  match toks with
  | ["t.begin", mode, bus, vendor, product, version, uniq, o, se, ch, mp, vel, c1, c2, c3, c4, c5, c6, c7] =>
    ({ t := { mode := tokStr mode, exitSeq := [], bus := tokNat bus, vendor := tokNat vendor, product := tokNat product,
              version := tokNat version, uniq := tokStr uniq, defOct := tokInt o, defSemi := tokInt se, defCh := tokInt ch,
              defMap := tokStr mp, defVel := tokInt vel, actions := [],
              colors := [c1, c2, c3, c4, c5, c6, c7].map tokInt, maps := [] } }, none)
  | "t.exit" :: ks => ({ t := { s.t with exitSeq := ks.map tokStr } }, none)
  | ["t.action", k, v] => ({ t := { s.t with actions := s.t.actions ++ [(tokStr k, tokStr v)] } }, none)
  | ["t.map", name] => ({ t := { s.t with maps := s.t.maps ++ [⟨tokStr name, [], []⟩] } }, none)
  | ["t.keys", sub] =>
    ({ t := modLastMap s.t (fun m => { m with keys := m.keys ++ [⟨tokStr sub, []⟩] }) }, none)
  | ["t.key", k, v] => ({ t := modLastMap s.t (fun m => addKey m (tokStr k) (tokStr v)) }, none)
  | ["t.analog", sub, bits] =>
    let z : Rat := (ofBits (tokNat bits)).getD 0
    let entry : TAnalogSub := ⟨tokStr sub, z, [], []⟩
    ({ t := modLastMap s.t (fun m => { m with analog := m.analog ++ [entry] }) }, none)
  | ["t.abs", k, typ, cc, ccn, note, noten, off, offn, act, actn, flip, dzc] =>
    let a : TAnalog := { typ := tokStr typ, cc := tokOptInt cc, ccNeg := tokOptInt ccn, note := tokOptInt note,
                         noteNeg := tokOptInt noten, chOff := tokInt off, chOffNeg := tokInt offn,
                         act := tokOptStr act, actNeg := tokOptStr actn, flip := tokBool flip, dzCenter := tokBool dzc }
    ({ t := modLastMap s.t (fun m => addAbs m (tokStr k) a) }, none)
  | ["t.dz", k, bits] =>
    let z : Rat := (ofBits (tokNat bits)).getD 0
    ({ t := modLastMap s.t (fun m => addDz m (tokStr k) z) }, none)
  | ["t.end"] =>
    (s, some (match convert s.t with
      | .ok p => p.dump
      | .err => "err"
      | .panic => "panic"))
  | ["hidi", dec, pool, disc, stab] =>
    let d : Outcome HidiRaw := if dec = "ok" then .ok ⟨tokInt pool, tokInt disc, tokInt stab⟩ else if dec = "panic" then .panic else .err
    (s, some (match loadHidi d Gen.loadHidiRecovers with
      | .ok c => s!"ok {c.evThrottling} {c.discoveryRate} {c.stabilization}"
      | .err => "err"
      | .panic => "panic"))
  | _ => (s, some "bad-op")

end Hidi
