/-
  Hidi.Proto — line-protocol helpers shared by the driver's engines (parsing tokens, hex).
-/
import Hidi.Engine
namespace Hidi

def hexDigit (n : Nat) : Char := "0123456789abcdef".toList.getD n '?'
def hex2 (n : Nat) : String := String.ofList [hexDigit (n / 16 % 16), hexDigit (n % 16)]

def hexVal (c : Char) : Option Nat :=
  if '0' ≤ c ∧ c ≤ '9' then some (c.toNat - '0'.toNat)
  else if 'a' ≤ c ∧ c ≤ 'f' then some (c.toNat - 'a'.toNat + 10)
  else if 'A' ≤ c ∧ c ≤ 'F' then some (c.toNat - 'A'.toNat + 10)
  else none

/-- decode a hex string into bytes (`-` is the empty string) -/
def unhexBytes (s : String) : List Nat :=
  if s = "-" then [] else
  let rec go : List Char → List Nat
    | a :: b :: r => ((hexVal a).getD 0 * 16 + (hexVal b).getD 0) :: go r
    | _ => []
  go s.toList

/-- bytes → String, byte-per-char (the model works on ASCII; bytes ≥ 128 become that code point) -/
def bytesToString (l : List Nat) : String := String.ofList (l.map Char.ofNat)

def tokSub (s : String) : String := if s = "-" then "" else s
def tokNat (s : String) : Nat := s.toNat?.getD 0
def tokInt (s : String) : Int := s.toInt?.getD 0
def tokBool (s : String) : Bool := s = "1"

def Action.ofTok : String → Action
  | "mapping_up" => .mappingUp | "mapping_down" => .mappingDown | "mapping" => .mapping
  | "octave_up" => .octaveUp | "octave_down" => .octaveDown
  | "semitone_up" => .semitoneUp | "semitone_down" => .semitoneDown
  | "channel_up" => .channelUp | "channel_down" => .channelDown | "channel" => .channel
  | "multinote" => .multinote | "panic" => .panic | "cc_learning" => .learning | "exit" => .exit
  | _ => .none

def Action.toTok : Action → String
  | .mappingUp => "mapping_up" | .mappingDown => "mapping_down" | .mapping => "mapping"
  | .octaveUp => "octave_up" | .octaveDown => "octave_down"
  | .semitoneUp => "semitone_up" | .semitoneDown => "semitone_down"
  | .channelUp => "channel_up" | .channelDown => "channel_down" | .channel => "channel"
  | .multinote => "multinote" | .panic => "panic" | .learning => "cc_learning" | .exit => "exit"
  | .none => "-"

def Collision.ofTok : String → Collision
  | "no_repeat" => .noRepeat | "interrupt" => .interrupt | "retrigger" => .retrigger | _ => .off
def Collision.toTok : Collision → String
  | .off => "off" | .noRepeat => "no_repeat" | .interrupt => "interrupt" | .retrigger => "retrigger"

def AKind.ofTok : String → AKind
  | "cc" => .cc | "pitch_bend" => .pitchBend | "key" => .key | _ => .action
def AKind.toTok : AKind → String
  | .cc => "cc" | .pitchBend => "pitch_bend" | .key => "key" | .action => "action"

def Out.toTok : Out → String
  | .midi a b c => hex2 a ++ hex2 b ++ hex2 c
  | .sig => "SIG"
  | .panic => "PANIC"

def outsLine (os : List Out) : String := " ".intercalate (os.map Out.toTok)

def modifyNth {α} (l : List α) (i : Nat) (f : α → α) : List α :=
  l.mapIdx (fun j a => if j = i then f a else a)

end Hidi
