/-
  HidiProofs.EngineSimKey — the key-event step: `Dev.handleKey` against `Spec.expectKey`.
-/
import HidiProofs.EngineSimModel
namespace Hidi.EngineSim
open Hidi Hidi.Spec

def downOf (b : Book) (code : Code) (val : Int) : List Code :=
  if val = 1 then sinsert code b.down else serase code b.down

def swOf (cfg : Config) (b : Book) (code : Code) (val : Int) : Prop :=
  val = 1 ∧ (!cfg.exitSeq.isEmpty) = true ∧ cfg.exitSeq.all (fun k => decide (k ∈ downOf b code val)) = true

instance (cfg : Config) (b : Book) (code : Code) (val : Int) : Decidable (swOf cfg b code val) :=
  inferInstanceAs (Decidable (_ ∧ _ ∧ _))

theorem eq_nil_of_akeys_nil {κ α : Type} {l : List (κ × α)} (h : akeys l = []) : l = [] := by
  cases l with
  | nil => rfl
  | cons p r => simp [akeys] at h

/-- gluing lemma: the obligations of one step in terms of the model's result `(d', outs)` -/
theorem step_finish {cfg : Config} {d d' : Dev} {b b' : Book} {ev : Ev} {outs : List Out} {e : Expect} (i : Nat)
    (hinv : Inv cfg d b)
    (he : expectStep cfg b false ev = (e, b'))
    (hd' : DInv cfg d')
    (hdown : b'.down = d'.keyTr)
    (hsw : e.swallowed = true →
      outs = [.sig] ∧ stateKeyOf (StObs.ofDev d') = stateKeyOf (StObs.ofDev d) ∧ d'.noteTr = d.noteTr)
    (hnsw : e.swallowed = false → outs.all okOut = true)
    (h02 : (stateActionOf cfg ev).isSome = true → e.swallowed = false → outs = [])
    (hnotes : ∀ n, e.notes = some n → n = b'.pinned.length)
    (hok : b'.ok = true →
      b'.pinned = d'.noteTr ∧ b'.acts = d'.actTr ∧ Core d' (sounding b.snd outs) ∧
      (∀ k ∈ akeys d'.noteTr, k ∈ d'.keyTr ∧ alookup k cfg.actions = none) ∧
      (e.swallowed = false → isNoteKeyStep cfg ev = true → ∀ o, e.outs = some o → outs = o) ∧
      (e.swallowed = false → actionOf cfg ev = some .panic → ∀ o, e.outs = some o →
        outs = o ∧ stateKeyOf (StObs.ofDev d') = stateKeyOf (StObs.ofDev d) ∧ d'.noteTr = d.noteTr) ∧
      (nowrap d' → ∀ s, e.st = some s → stateKeyOf (StObs.ofDev d') = s)) :
    Inv cfg d' (checkStep cfg i b ⟨ev, outs, StObs.ofDev d'⟩ (some 0) false).2 ∧
    (∀ f ∈ (checkStep cfg i b ⟨ev, outs, StObs.ofDev d'⟩ (some 0) false).1, f = ⟨"C04", i, "state-evolution"⟩) ∧
    (nowrap d' → (checkStep cfg i b ⟨ev, outs, StObs.ofDev d'⟩ (some 0) false).1 = []) := by
  have hnotes_eq : d'.noteTr = d.noteTr →
      (StObs.ofDev d').notes = b.pre.notes := by
    intro h; rw [hinv.pre]; simp only [StObs.ofDev, h, hd'.ana, hinv.dinv.ana]
  have hpanic : outs.contains Out.panic = false := by
    cases hs : e.swallowed with
    | true => rw [(hsw hs).1]; rfl
    | false => exact okOut_no_panic (hnsw hs)
  have hfails := checkStep_fails (cfg := cfg) (i := i) (b := b) (st := ⟨ev, outs, StObs.ofDev d'⟩)
    (held := some 0) (aa := false) (e := e) (b' := b') he
    (by
      cases hs : e.swallowed with
      | true => simp only [(hsw hs).1]; rfl
      | false => simp only [okOut_sigCount (hnsw hs)]; rfl)
    (by
      intro hs
      obtain ⟨h1, h2, h3⟩ := hsw hs
      exact ⟨h1, by rw [hinv.pre]; exact h2, hnotes_eq h3⟩)
    (by
      cases hs : e.swallowed with
      | true => simp only [(hsw hs).1]; rfl
      | false => exact okOut_wf (hnsw hs))
    (by
      intro ha
      cases hs : e.swallowed with
      | true => simp only [(hsw hs).1]; rfl
      | false => simp only [h02 ha hs]; rfl)
    (by
      intro hk hp hs o ho
      obtain ⟨h1, h2, h3⟩ := (hok hk).2.2.2.2.2.1 hs hp o ho
      exact ⟨h1, by rw [hinv.pre]; exact h2, hnotes_eq h3⟩)
    (by
      intro hk hn hs o ho
      exact (hok hk).2.2.2.2.1 hs hn o ho)
    (by
      intro hk n h hn hh
      have := hnotes n hn
      simp only [Option.some.injEq] at hh
      subst hh
      simp only [StObs.ofDev, hd'.ana, this, (hok hk).1, List.length_nil])
    (by
      intro hk hdn _
      obtain ⟨-, -, hcore, hkeys, -⟩ := hok hk
      have hnil : d'.noteTr = [] := by
        apply eq_nil_of_akeys_nil
        apply List.eq_nil_iff_forall_not_mem.mpr
        intro k hkm
        have := (hkeys k hkm).1
        rw [← hdown, hdn] at this
        simp at this
      apply List.eq_nil_iff_forall_not_mem.mpr
      intro p hp
      obtain ⟨k, hk'⟩ := hcore.snd p hp
      rw [hnil] at hk'
      simp at hk')
  refine ⟨?_, fun f hf => (hfails f hf).1, ?_⟩
  · rw [checkStep_snd, he]
    refine ⟨hd', rfl, hdown, ?_, ?_⟩
    · simp only [hinv.bdead, hpanic]; rfl
    · intro hk
      obtain ⟨h1, h2, h3, h4, -⟩ := hok hk
      exact ⟨h1, h2, h3, h4⟩
  · intro hw
    apply List.eq_nil_iff_forall_not_mem.mpr
    intro f hf
    obtain ⟨-, hk, s, hs, hne⟩ := hfails f hf
    exact hne ((hok hk).2.2.2.2.2.2 hw s hs)

/-- the book after the key-tracking part of `expectKey` -/
def book1 (b : Book) (code : Code) (val : Int) : Book :=
  { b with down := downOf b code val,
           ok := b.ok && (decide (val = 0) || decide (val = 1)) && !(decide (val = 1) && decide (code ∈ b.down)) }

def quietExpect (b : Book) : Expect := ⟨some [], keepSt b.pre, some b.pinned.length, false, true, none⟩

def expActPress (cfg : Config) (b : Book) (a : Action) : Expect × Book :=
  let acts' := sinsert a b.acts
  let cp := completePairs acts'
  if acts'.length > 1 ∧ cp ≠ [] then
    match cp with
    | [p] =>
      if a = p.1 ∨ a = p.2 then
        (⟨some [], some (resetEffect b.pre p), some b.pinned.length, false, true, none⟩, { b with acts := acts' })
      else (⟨none, none, none, false, true, none⟩, { b with acts := acts', ok := false })
    | _ => (⟨none, none, none, false, true, none⟩, { b with acts := acts', ok := false })
  else
    let outs : List Out := if a = .panic then panicMsgs b.pre.ch else []
    (⟨some outs, some (actionEffect cfg b.pre a), some b.pinned.length, false, true, none⟩, { b with acts := acts' })

def expNotePress (cfg : Config) (b : Book) (sub : Sub) (code : Code) : Expect × Book :=
  match resolve cfg b.pre (u8 cfg.vel) sub code with
  | none => (quietExpect b, b)
  | some (n, ch, v) =>
    let h := holders b.pinned (n, ch)
    let on := noteOnMsg ch n v
    let outs : List Out :=
      match cfg.mode with
      | .off | .retrigger => [on]
      | .noRepeat => if h = 0 then [on] else []
      | .interrupt => if h = 0 then [on] else [noteOffMsg ch n, on]
    let pinned' := ainsert code (n, ch) b.pinned
    (⟨some outs, keepSt b.pre, some pinned'.length, false, decide (h = 0), none⟩, { b with pinned := pinned' })

def expNoteRelease (cfg : Config) (b : Book) (code : Code) : Expect × Book :=
  match alookup code b.pinned with
  | none => (quietExpect b, b)
  | some (n, ch) =>
    let h := holders b.pinned (n, ch)
    let outs : List Out :=
      match cfg.mode with
      | .off => [noteOffMsg ch n]
      | _ => if h = 1 then [noteOffMsg ch n] else []
    let pinned' := aerase code b.pinned
    (⟨some outs, keepSt b.pre, some pinned'.length, false, true, some (noteOffMsg ch n)⟩, { b with pinned := pinned' })

theorem expectKey_eq (cfg : Config) (b : Book) (sub : Sub) (code : Code) (val : Int) :
    expectKey cfg b sub code val =
      if swOf cfg b code val then
        (⟨some [.sig], keepSt b.pre, some b.pinned.length, true, true, none⟩, book1 b code val)
      else
      match alookup code cfg.actions with
      | some a =>
        if val = 1 then expActPress cfg (book1 b code val) a
        else (quietExpect b, { book1 b code val with acts := serase a b.acts })
      | none =>
        if val = 1 then expNotePress cfg (book1 b code val) sub code
        else expNoteRelease cfg (book1 b code val) code := by
  rfl

/-- what one simulated step has to establish -/
def StepGoal (cfg : Config) (i : Nat) (b : Book) (ev : Ev) (r : Dev × List Out) : Prop :=
  Inv cfg r.1 (checkStep cfg i b ⟨ev, r.2, StObs.ofDev r.1⟩ (some 0) false).2 ∧
  (∀ f ∈ (checkStep cfg i b ⟨ev, r.2, StObs.ofDev r.1⟩ (some 0) false).1, f = ⟨"C04", i, "state-evolution"⟩) ∧
  (nowrap r.1 → (checkStep cfg i b ⟨ev, r.2, StObs.ofDev r.1⟩ (some 0) false).1 = [])

theorem downOf_eq {cfg : Config} {d : Dev} {b : Book} (hinv : Inv cfg d b) (code : Code) (val : Int) :
    downOf b code val = (kt d code val).keyTr := by
  rw [(kt_frame d code val).2.2.2.2.2.2.2.2.2.2.2, downOf, hinv.down]

theorem swOf_iff {cfg : Config} {d : Dev} {b : Book} (hinv : Inv cfg d b) (code : Code) (val : Int) :
    swOf cfg b code val ↔ (val = 1 ∧ (kt d code val).exitComplete = true) := by
  unfold swOf Dev.exitComplete
  rw [downOf_eq hinv, (kt_frame d code val).1, hinv.dinv.cfg_eq]
  simp only [Bool.and_eq_true]

theorem stateKey_kt (d : Dev) (code : Code) (val : Int) :
    stateKeyOf (StObs.ofDev (kt d code val)) = stateKeyOf (StObs.ofDev d) := by
  obtain ⟨h1, h2, h3, h4, h5, h6, h7, h8, h9, h10, h11, h12⟩ := kt_frame d code val
  simp only [stateKeyOf, StObs.ofDev, h2, h3, h4, h6]

theorem mem_kt_keyTr_of_press {d : Dev} {code : Code} {k : Code} (h : k ∈ d.keyTr) : k ∈ (kt d code 1).keyTr := by
  rw [(kt_frame d code 1).2.2.2.2.2.2.2.2.2.2.2]; simp only [if_true]; exact mem_sinsert.mpr (Or.inl h)

theorem expectStep_key {cfg : Config} {b : Book} {sub : Sub} {code : Code} {val : Int} (hv : val ≠ 2) :
    expectStep cfg b false (.key sub code val) = expectKey cfg b sub code val := by
  simp [expectStep, hv]

theorem Core.kt {d : Dev} {snd : List (Nat × Nat)} (h : Core d snd) (code : Code) (val : Int) :
    Core (kt d code val) snd :=
  h.frame (kt_frame d code val).2.2.2.2.2.2.1 (kt_frame d code val).2.2.2.2.2.2.2.2.1

/-- the press that completes the exit sequence -/
theorem sim_swallowed {cfg : Config} {d : Dev} {b : Book} (hinv : Inv cfg d b) (i : Nat) (sub : Sub) (code : Code)
    (val : Int) (hv : val ≠ 2) (hsw : swOf cfg b code val) :
    StepGoal cfg i b (.key sub code val) (kt d code val, [.sig]) := by
  have hE := expectKey_eq cfg b sub code val
  rw [if_pos hsw] at hE
  have hval : val = 1 := hsw.1
  subst hval
  apply step_finish i hinv (by rw [expectStep_key hv, hE]) (kt_dinv hinv.dinv code 1)
  · exact downOf_eq hinv code 1
  · intro _; exact ⟨rfl, stateKey_kt d code 1, (kt_frame d code 1).2.2.2.2.2.2.1⟩
  · intro h; simp at h
  · intro _ h; simp at h
  · intro n h; simp only [book1, Option.some.injEq] at h ⊢; exact h.symm
  · intro hk
    have hbok : b.ok = true := by
      simp only [book1, Bool.and_eq_true] at hk; exact hk.1.1
    have ho := hinv.okp hbok
    obtain ⟨h1, h2, h3, h4, h5, h6, h7, h8, h9, h10, h11, h12⟩ := kt_frame d code 1
    refine ⟨?_, ?_, ?_, ?_, ?_, ?_, ?_⟩
    · simp only [book1, h7]; exact ho.pinned
    · simp only [book1, h10]; exact ho.acts
    · exact ho.core.kt code 1
    · intro k hkm
      rw [h7] at hkm
      exact ⟨mem_kt_keyTr_of_press (ho.keys k hkm).1, (ho.keys k hkm).2⟩
    · intro h; simp at h
    · intro h; simp at h
    · intro _ s hs
      simp only [keepSt, Option.some.injEq] at hs
      rw [← hs, stateKey_kt, hinv.pre]; rfl

/-! ### action keys -/

/-- the tracker update of an action press -/
def withAct (d : Dev) (a : Action) : Dev := { d with actTr := sinsert a d.actTr }

theorem withAct_dinv {cfg : Config} {d : Dev} (hd : DInv cfg d) (a : Action) : DInv cfg (withAct d a) :=
  ⟨hd.cfg_eq, hd.dead, hd.ana, hd.ch, hd.map, hd.vel, hd.oct, hd.semi, hd.wf⟩

theorem actPress_eq (d : Dev) (a : Action) :
    actPress d a = if (withAct d a).checkDouble.2 = true then ((withAct d a).checkDouble.1, [])
      else (withAct d a).invokePress a := by
  unfold actPress withAct
  simp only []
  split
  · rfl
  · rename_i h
    rw [checkDouble_false (Bool.eq_false_iff.mpr h)]

theorem actPress_model {cfg : Config} {d : Dev} (hd : DInv cfg d) (a : Action) :
    DInv cfg (actPress d a).1 ∧ Frame (withAct d a) (actPress d a).1 ∧
    ((actPress d a).2 = [] ∨ (a = .panic ∧ (actPress d a).2 = panicMsgs d.channel)) := by
  rw [actPress_eq]
  split
  · exact ⟨checkDouble_dinv (withAct_dinv hd a), checkDouble_frame _, Or.inl rfl⟩
  · refine ⟨invokePress_dinv (withAct_dinv hd a) a, invokePress_frame _ a, ?_⟩
    rw [invokePress_outs]
    by_cases h : a = .panic
    · right; refine ⟨h, ?_⟩; rw [if_pos h]; exact panicOuts_eq hd.ch
    · left; rw [if_neg h]

theorem expActPress_basic (cfg : Config) (b : Book) (a : Action) :
    (expActPress cfg b a).2.down = b.down ∧ (expActPress cfg b a).2.pinned = b.pinned ∧
    (expActPress cfg b a).1.swallowed = false ∧
    (∀ n, (expActPress cfg b a).1.notes = some n → n = b.pinned.length) ∧
    (expActPress cfg b a).2.acts = sinsert a b.acts ∧
    ((expActPress cfg b a).2.ok = true → b.ok = true) := by
  unfold expActPress
  simp only []
  repeat' split
  all_goals simp_all

theorem expActPress_ok {cfg : Config} {b : Book} {a : Action} (h : (expActPress cfg b a).2.ok = true) :
    if (sinsert a b.acts).length > 1 ∧ completePairs (sinsert a b.acts) ≠ [] then
      ∃ p, completePairs (sinsert a b.acts) = [p] ∧ (a = p.1 ∨ a = p.2) ∧
        (expActPress cfg b a).1.outs = some [] ∧ (expActPress cfg b a).1.st = some (resetEffect b.pre p)
    else
      (expActPress cfg b a).1.outs = some (if a = .panic then panicMsgs b.pre.ch else []) ∧
      (expActPress cfg b a).1.st = some (actionEffect cfg b.pre a) := by
  unfold expActPress at h ⊢
  simp only [] at h ⊢
  split
  · rename_i hc
    rw [if_pos hc] at h
    split at h
    · rename_i p hp
      split at h
      · rename_i hap
        refine ⟨p, hp, hap, ?_⟩
        simp only [hp, if_pos hap, and_self]
      · simp at h
    · simp at h
  · exact ⟨rfl, rfl⟩

theorem Core.mono {d : Dev} {s s' : List (Nat × Nat)} (h : Core d s) (hs : ∀ p ∈ s', p ∈ s) : Core d s' :=
  ⟨h.nodup, h.cnt, fun p hp => h.snd p (hs p hp)⟩

theorem pair_not_panic {acts : List Action} {p : Action × Action} (h : p ∈ completePairs acts) :
    p.1 ≠ .panic ∧ p.2 ≠ .panic := by
  unfold completePairs pairs at h
  have := (List.mem_filter.mp h).1
  simp only [List.mem_cons, List.not_mem_nil, or_false] at this
  rcases this with rfl | rfl | rfl | rfl <;> simp

theorem ofDev_kt (d : Dev) (code : Code) (val : Int) : StObs.ofDev (kt d code val) = StObs.ofDev d := by
  obtain ⟨h1, h2, h3, h4, h5, h6, h7, h8, h9, h10, h11, h12⟩ := kt_frame d code val
  simp only [StObs.ofDev, h2, h3, h4, h6, h7, h8]

theorem book1_ok {b : Book} {code : Code} {val : Int} (h : (book1 b code val).ok = true) :
    b.ok = true ∧ (val = 0 ∨ val = 1) ∧ ¬ (val = 1 ∧ code ∈ b.down) := by
  simp only [book1, Bool.and_eq_true, Bool.or_eq_true, decide_eq_true_eq, Bool.not_eq_true',
    Bool.and_eq_false_iff, decide_eq_false_iff_not] at h
  refine ⟨h.1.1, h.1.2, ?_⟩
  rintro ⟨h1, h2⟩
  rcases h.2 with h3 | h3
  · exact h3 h1
  · exact h3 h2

theorem sim_actPress {cfg : Config} {d : Dev} {b : Book} (hinv : Inv cfg d b) (i : Nat) (sub : Sub) (code : Code)
    (a : Action) (ha : alookup code cfg.actions = some a) (hsw : ¬ swOf cfg b code 1) :
    StepGoal cfg i b (.key sub code 1) (actPress (kt d code 1) a) := by
  have hv : (1 : Int) ≠ 2 := by omega
  have hE := expectKey_eq cfg b sub code 1
  rw [if_neg hsw, ha] at hE
  simp only [if_true] at hE
  obtain ⟨hb1, hb2, hb3, hb4, hb5, hb6⟩ := expActPress_basic cfg (book1 b code 1) a
  obtain ⟨hm1, hm2, hm3⟩ := actPress_model (kt_dinv hinv.dinv code 1) a
  obtain ⟨h1, h2, h3, h4, h5, h6, h7, h8, h9, h10, h11, h12⟩ := kt_frame d code 1
  have hquiet : (actPress (kt d code 1) a).2.all quiet = true := by
    rcases hm3 with h | ⟨-, h⟩ <;> rw [h]
    · rfl
    · exact panicMsgs_quiet _
  apply step_finish i hinv
    (e := (expActPress cfg (book1 b code 1) a).1) (b' := (expActPress cfg (book1 b code 1) a).2)
    (by rw [expectStep_key hv, hE]) hm1
  · rw [hb1, hm2.keyTr]; exact downOf_eq hinv code 1
  · intro h; rw [hb3] at h; simp at h
  · intro _
    rcases hm3 with h | ⟨-, h⟩ <;> rw [h]
    · rfl
    · exact okOut_panic (by rw [h4]; exact hinv.dinv.ch)
  · intro hs _
    rcases hm3 with h | ⟨hp, -⟩
    · exact h
    · subst hp; simp [stateActionOf, ha, isStateAction] at hs
  · intro n hn; rw [hb2]; exact hb4 n hn
  · intro hk
    obtain ⟨hbok, -, hnd⟩ := book1_ok (hb6 hk)
    have ho := hinv.okp hbok
    have hacts : sinsert a (book1 b code 1).acts = (withAct (kt d code 1) a).actTr := by
      simp only [book1, withAct, h10, ho.acts]
    have hEok := expActPress_ok hk
    have hdbl := checkDouble_dbl (withAct (kt d code 1) a)
    rw [← hacts] at hdbl
    refine ⟨?_, ?_, ?_, ?_, ?_, ?_, ?_⟩
    · rw [hb2, hm2.noteTr]; simp only [book1, withAct, h7]; exact ho.pinned
    · rw [hb5, hm2.actTr]; exact hacts
    · refine Core.mono (ho.core.frame ?_ ?_) (sounding_quiet_subset hquiet)
      · rw [hm2.noteTr]; exact h7
      · rw [hm2.counter]; exact h9
    · intro k hkm
      rw [hm2.noteTr] at hkm
      simp only [withAct, h7] at hkm
      rw [hm2.keyTr]
      exact ⟨mem_kt_keyTr_of_press (ho.keys k hkm).1, (ho.keys k hkm).2⟩
    · intro _ hn; simp [isNoteKeyStep, ha] at hn
    · intro _ hp o ho'
      have hap : a = .panic := by simpa [actionOf, ha] using hp
      subst hap
      split at hEok
      · obtain ⟨p, hp1, hp2, -⟩ := hEok
        have := pair_not_panic (acts := sinsert Action.panic (book1 b code 1).acts) (p := p) (by rw [hp1]; simp)
        rcases hp2 with e | e
        · exact absurd e.symm this.1
        · exact absurd e.symm this.2
      · rename_i hnd'
        have hfalse : (withAct (kt d code 1) Action.panic).checkDouble.2 = false :=
          Bool.eq_false_iff.mpr (fun h => hnd' (hdbl.mp h))
        rw [actPress_eq, if_neg (by simp [hfalse])]
        rw [hEok.1] at ho'
        simp only [if_true, Option.some.injEq] at ho'
        refine ⟨?_, ?_, ?_⟩
        · rw [invokePress_outs, if_pos rfl, ← ho']
          simp only [book1, hinv.pre, StObs.ofDev]
          exact panicOuts_eq hinv.dinv.ch
        · have := invokePress_key (withAct (kt d code 1) Action.panic) Action.panic
          simp only [pressKey, Prod.mk.injEq] at this
          have e1 : (withAct (kt d code 1) Action.panic).octave = d.octave := h2
          have e2 : (withAct (kt d code 1) Action.panic).semitone = d.semitone := h3
          have e3 : (withAct (kt d code 1) Action.panic).channel = d.channel := h4
          have e4 : (withAct (kt d code 1) Action.panic).mapping = d.mapping := h6
          simp only [stateKeyOf, StObs.ofDev, this.1, this.2.1, this.2.2.1, this.2.2.2, e1, e2, e3, e4]
        · rw [(invokePress_frame _ _).noteTr]; exact h7
    · intro hw s hs
      split at hEok
      · rename_i hc
        obtain ⟨p, hp1, -, -, hp4⟩ := hEok
        have htrue : (withAct (kt d code 1) a).checkDouble.2 = true := hdbl.mpr hc
        rw [hp4] at hs
        simp only [Option.some.injEq] at hs
        rw [actPress_eq, if_pos htrue]
        rw [hacts] at hp1
        rw [checkDouble_one htrue hp1, ← hs]
        simp only [book1, hinv.pre]
        congr 1
      · rename_i hnd'
        have hfalse : (withAct (kt d code 1) a).checkDouble.2 = false :=
          Bool.eq_false_iff.mpr (fun h => hnd' (hdbl.mp h))
        rw [actPress_eq, if_neg (by simp [hfalse])] at hw ⊢
        rw [hEok.2] at hs
        simp only [Option.some.injEq] at hs
        rw [invokePress_state (withAct_dinv (kt_dinv hinv.dinv code 1) a) a hw, ← hs]
        simp only [book1, hinv.pre]
        congr 1

theorem multinote_frame (d : Dev) :
    d.multinote.cfg = d.cfg ∧ d.multinote.octave = d.octave ∧ d.multinote.semitone = d.semitone ∧
    d.multinote.channel = d.channel ∧ d.multinote.velocity = d.velocity ∧ d.multinote.mapping = d.mapping ∧
    d.multinote.noteTr = d.noteTr ∧ d.multinote.anaTr = d.anaTr ∧ d.multinote.counter = d.counter ∧
    d.multinote.actTr = d.actTr ∧ d.multinote.dead = d.dead ∧ d.multinote.keyTr = d.keyTr := by
  unfold Dev.multinote
  simp only []
  split <;> simp

theorem invokeRelease_frame (d : Dev) (a : Action) :
    (d.invokeRelease a).cfg = d.cfg ∧ (d.invokeRelease a).octave = d.octave ∧
    (d.invokeRelease a).semitone = d.semitone ∧ (d.invokeRelease a).channel = d.channel ∧
    (d.invokeRelease a).velocity = d.velocity ∧ (d.invokeRelease a).mapping = d.mapping ∧
    (d.invokeRelease a).noteTr = d.noteTr ∧ (d.invokeRelease a).anaTr = d.anaTr ∧
    (d.invokeRelease a).counter = d.counter ∧ (d.invokeRelease a).actTr = d.actTr ∧
    (d.invokeRelease a).dead = d.dead ∧ (d.invokeRelease a).keyTr = d.keyTr := by
  unfold Dev.invokeRelease
  split <;> simp

theorem actRelease_frame (d : Dev) (a : Action) :
    (actRelease d a).cfg = d.cfg ∧ (actRelease d a).octave = d.octave ∧
    (actRelease d a).semitone = d.semitone ∧ (actRelease d a).channel = d.channel ∧
    (actRelease d a).velocity = d.velocity ∧ (actRelease d a).mapping = d.mapping ∧
    (actRelease d a).noteTr = d.noteTr ∧ (actRelease d a).anaTr = d.anaTr ∧
    (actRelease d a).counter = d.counter ∧ (actRelease d a).actTr = serase a d.actTr ∧
    (actRelease d a).dead = d.dead ∧ (actRelease d a).keyTr = d.keyTr := by
  unfold actRelease
  simp only []
  obtain ⟨m1, m2, m3, m4, m5, m6, m7, m8, m9, m10, m11, m12⟩ := multinote_frame d
  split
  · obtain ⟨r1, r2, r3, r4, r5, r6, r7, r8, r9, r10, r11, r12⟩ := invokeRelease_frame d.multinote a
    simp only [r1, r2, r3, r4, r5, r6, r7, r8, r9, r10, r11, r12, m1, m2, m3, m4, m5, m6, m7, m8, m9, m10, m11, m12,
      and_self]
  · obtain ⟨r1, r2, r3, r4, r5, r6, r7, r8, r9, r10, r11, r12⟩ := invokeRelease_frame d a
    simp only [r1, r2, r3, r4, r5, r6, r7, r8, r9, r10, r11, r12, and_self]

/-- a step that leaves everything but the key / action trackers (and learning, multi) alone and is silent -/
theorem sim_silent {cfg : Config} {d d' : Dev} {b b' : Book} {ev : Ev} (hinv : Inv cfg d b) (i : Nat)
    (he : expectStep cfg b false ev = (quietExpect b, b'))
    (hpin : b'.pinned = b.pinned) (hdown : b'.down = d'.keyTr) (hbok : b'.ok = true → b.ok = true)
    (hf : d'.cfg = d.cfg ∧ d'.octave = d.octave ∧ d'.semitone = d.semitone ∧ d'.channel = d.channel ∧
      d'.velocity = d.velocity ∧ d'.mapping = d.mapping ∧ d'.noteTr = d.noteTr ∧ d'.anaTr = d.anaTr ∧
      d'.counter = d.counter ∧ d'.dead = d.dead)
    (hacts : b'.ok = true → b'.acts = d'.actTr)
    (hkeys : b'.ok = true → ∀ k ∈ akeys d.noteTr, k ∈ d'.keyTr) :
    StepGoal cfg i b ev (d', []) := by
  obtain ⟨f1, f2, f3, f4, f5, f6, f7, f8, f9, f10⟩ := hf
  have hd := hinv.dinv
  have hd' : DInv cfg d' :=
    ⟨f1.trans hd.cfg_eq, f10.trans hd.dead, f8.trans hd.ana, f4 ▸ hd.ch, f6 ▸ hd.map, f5.trans hd.vel,
      trivial, trivial, f7 ▸ hd.wf⟩
  have hst : stateKeyOf (StObs.ofDev d') = stateKeyOf (StObs.ofDev d) := by
    simp only [stateKeyOf, StObs.ofDev, f2, f3, f4, f6]
  apply step_finish i hinv he hd' hdown
  · intro h; simp [quietExpect] at h
  · intro _; rfl
  · intro _ _; rfl
  · intro n hn; simp only [quietExpect, Option.some.injEq] at hn; rw [hpin, hn]
  · intro hk
    have ho := hinv.okp (hbok hk)
    refine ⟨by rw [hpin, f7]; exact ho.pinned, hacts hk, ho.core.frame f7 f9, ?_, ?_, ?_, ?_⟩
    · intro k hkm; rw [f7] at hkm; exact ⟨hkeys hk k hkm, (ho.keys k hkm).2⟩
    · intro _ _ o ho'; simp only [quietExpect, Option.some.injEq] at ho'; exact ho'
    · intro _ _ o ho'; simp only [quietExpect, Option.some.injEq] at ho'; exact ⟨ho', hst, f7⟩
    · intro _ s hs
      simp only [quietExpect, keepSt, Option.some.injEq] at hs
      rw [← hs, hst, hinv.pre]; rfl

theorem not_swOf_of_ne_one {cfg : Config} {b : Book} {code : Code} {val : Int} (h : val ≠ 1) :
    ¬ swOf cfg b code val := fun hs => h hs.1

/-- release (or a value other than 0/1) of an action key -/
theorem sim_actOther {cfg : Config} {d : Dev} {b : Book} (hinv : Inv cfg d b) (i : Nat) (sub : Sub) (code : Code)
    (val : Int) (a : Action) (ha : alookup code cfg.actions = some a) (hv1 : val ≠ 1) (hv2 : val ≠ 2) :
    StepGoal cfg i b (.key sub code val)
      (if val = 0 then (actRelease (kt d code val) a, []) else (kt d code val, [])) := by
  have hE := expectKey_eq cfg b sub code val
  rw [if_neg (not_swOf_of_ne_one hv1), ha] at hE
  simp only [hv1, if_false] at hE
  obtain ⟨h1, h2, h3, h4, h5, h6, h7, h8, h9, h10, h11, h12⟩ := kt_frame d code val
  simp only [hv1, if_false] at h12
  have hkeys : (book1 b code val).ok = true → ∀ k ∈ akeys d.noteTr, k ∈ serase code d.keyTr := by
    intro hk k hkm
    have ho := hinv.okp (book1_ok hk).1
    refine mem_serase.mpr ⟨(ho.keys k hkm).1, ?_⟩
    intro e
    have := (ho.keys k hkm).2
    rw [e, ha] at this
    simp at this
  by_cases h0 : val = 0
  · rw [if_pos h0]
    obtain ⟨r1, r2, r3, r4, r5, r6, r7, r8, r9, r10, r11, r12⟩ := actRelease_frame (kt d code val) a
    apply sim_silent hinv i (b' := { book1 b code val with acts := serase a b.acts })
      (by rw [expectStep_key hv2, hE]) rfl
    · show downOf b code val = _
      rw [r12]; exact downOf_eq hinv code val
    · intro hk; exact (book1_ok hk).1
    · exact ⟨r1.trans h1, r2.trans h2, r3.trans h3, r4.trans h4, r5.trans h5, r6.trans h6, r7.trans h7, r8.trans h8,
        r9.trans h9, r11.trans h11⟩
    · intro hk
      have ho := hinv.okp (book1_ok hk).1
      show serase a b.acts = _
      rw [r10, h10, ho.acts]
    · intro hk; rw [r12, h12]; exact hkeys hk
  · rw [if_neg h0]
    apply sim_silent hinv i (b' := { book1 b code val with acts := serase a b.acts })
      (by rw [expectStep_key hv2, hE]) rfl
    · show downOf b code val = _
      exact downOf_eq hinv code val
    · intro hk; exact (book1_ok hk).1
    · exact ⟨h1, h2, h3, h4, h5, h6, h7, h8, h9, h11⟩
    · intro hk
      have := (book1_ok hk).2.1
      omega
    · intro hk; rw [h12]; exact hkeys hk

/-! ### note keys -/

theorem pressOuts_spec (mode : Collision) (cnt : Int) (h : Nat) (hc : cnt = (h : Int)) (ch n v : Nat) :
    pressOuts mode (decide (cnt > 0)) ch n v =
      (match mode with
      | .off | .retrigger => [noteOnMsg ch n v]
      | .noRepeat => if h = 0 then [noteOnMsg ch n v] else []
      | .interrupt => if h = 0 then [noteOnMsg ch n v] else [noteOffMsg ch n, noteOnMsg ch n v]) := by
  subst hc
  by_cases h0 : h = 0
  · subst h0; cases mode <;> simp [pressOuts]
  · have : (h : Int) > 0 := by omega
    cases mode <;> simp [pressOuts, h0, this]

theorem sim_notePress {cfg : Config} (hacc : Accepted cfg = true) {d : Dev} {b : Book} (hinv : Inv cfg d b) (i : Nat)
    (sub : Sub) (code : Code) (hna : alookup code cfg.actions = none) (hsw : ¬ swOf cfg b code 1) :
    StepGoal cfg i b (.key sub code 1) ((kt d code 1).noteOn sub code) := by
  have hv : (1 : Int) ≠ 2 := by omega
  have hE := expectKey_eq cfg b sub code 1
  rw [if_neg hsw, hna] at hE
  simp only [if_true] at hE
  have hd1 := kt_dinv hinv.dinv code 1
  obtain ⟨h1, h2, h3, h4, h5, h6, h7, h8, h9, h10, h11, h12⟩ := kt_frame d code 1
  simp only [if_true] at h12
  rw [noteOn_eq hd1, ofDev_kt]
  unfold expNotePress at hE
  have hpre : (book1 b code 1).pre = StObs.ofDev d := hinv.pre
  rw [hpre] at hE
  cases hr : resolve cfg (StObs.ofDev d) (u8 cfg.vel) sub code with
  | none =>
    rw [hr] at hE
    simp only at hE ⊢
    apply sim_silent hinv i (b' := book1 b code 1) (by rw [expectStep_key hv, hE]; rfl) rfl
    · exact downOf_eq hinv code 1
    · intro hk; exact (book1_ok hk).1
    · exact ⟨h1, h2, h3, h4, h5, h6, h7, h8, h9, h11⟩
    · intro hk; rw [h10]; exact (hinv.okp (book1_ok hk).1).acts
    · intro hk k hkm; rw [h12]; exact mem_sinsert.mpr (Or.inl ((hinv.okp (book1_ok hk).1).keys k hkm).1)
  | some q =>
    obtain ⟨n, ch, v⟩ := q
    rw [hr] at hE
    simp only at hE ⊢
    obtain ⟨hn, hch, hvv⟩ := resolve_some hacc hr
    have hvel := accepted_vel hacc
    apply step_finish i hinv (by rw [expectStep_key hv, hE]) (hd1.pressed code hn hch)
    · show downOf b code 1 = _
      exact downOf_eq hinv code 1
    · intro h; simp at h
    · intro _; exact pressOuts_ok _ _ hch hn (by omega)
    · intro hs; simp [stateActionOf, hna] at hs
    · intro k hk; simp only [Option.some.injEq] at hk; exact hk.symm
    · intro hk
      obtain ⟨hbok, -, hnd⟩ := book1_ok hk
      have ho := hinv.okp hbok
      have hcode : code ∉ akeys (kt d code 1).noteTr := by
        rw [h7]; intro hc
        apply hnd
        refine ⟨rfl, ?_⟩
        rw [hinv.down]; exact (ho.keys code hc).1
      have hcore : Core (kt d code 1) b.snd := ho.core.kt code 1
      have hcnt := hcore.cnt ch n
      refine ⟨?_, ?_, ?_, ?_, ?_, ?_, ?_⟩
      · show ainsert code (n, ch) b.pinned = ainsert code (n, ch) (kt d code 1).noteTr
        rw [h7, ho.pinned]
      · show b.acts = (kt d code 1).actTr
        rw [h10]; exact ho.acts
      · exact hcore.pressed hcode cfg.mode hch (by omega)
      · intro k hkm
        have hkm' : k ∈ akeys (ainsert code (n, ch) (kt d code 1).noteTr) := hkm
        rw [mem_akeys_ainsert, h7] at hkm'
        show k ∈ (kt d code 1).keyTr ∧ _
        rw [h12]
        rcases hkm' with h | rfl
        · exact ⟨mem_sinsert.mpr (Or.inl (ho.keys k h).1), (ho.keys k h).2⟩
        · exact ⟨mem_sinsert.mpr (Or.inr rfl), hna⟩
      · intro _ _ o ho'
        simp only [Option.some.injEq] at ho'
        rw [← ho']
        have : (book1 b code 1).pinned = (kt d code 1).noteTr := by
          show b.pinned = _; rw [h7]; exact ho.pinned
        rw [this]
        exact pressOuts_spec cfg.mode _ _ hcnt ch n v
      · intro _ hp; simp [actionOf, hna] at hp
      · intro _ s hs
        simp only [keepSt, Option.some.injEq] at hs
        rw [← hs]
        simp only [stateKeyOf, StObs.ofDev, pressed, h2, h3, h4, h6]

theorem noteOff_model {cfg : Config} {d : Dev} (hd : DInv cfg d) (code : Code) :
    DInv cfg (d.noteOff code).1 ∧ (d.noteOff code).1.keyTr = d.keyTr ∧ (d.noteOff code).1.actTr = d.actTr ∧
    (d.noteOff code).2.all okOut = true ∧
    stateKeyOf (StObs.ofDev (d.noteOff code).1) = stateKeyOf (StObs.ofDev d) := by
  rw [noteOff_eq hd]
  cases hk : alookup code d.noteTr with
  | none => exact ⟨hd, rfl, rfl, rfl, rfl⟩
  | some q =>
    obtain ⟨n, ch⟩ := q
    have := hd.wf _ (alookup_mem hk)
    exact ⟨hd.released code n ch, rfl, rfl, releaseOuts_ok _ _ this.2 this.1, rfl⟩

theorem expNoteRelease_basic (cfg : Config) (b : Book) (code : Code) :
    (expNoteRelease cfg b code).2.down = b.down ∧ (expNoteRelease cfg b code).2.ok = b.ok ∧
    (expNoteRelease cfg b code).1.swallowed = false ∧ (expNoteRelease cfg b code).2.acts = b.acts ∧
    (∀ n, (expNoteRelease cfg b code).1.notes = some n → n = (expNoteRelease cfg b code).2.pinned.length) ∧
    (expNoteRelease cfg b code).1.st = keepSt b.pre := by
  unfold expNoteRelease
  split
  · simp [quietExpect]
  · simp only [true_and, and_true]
    intro n hn; simp only [Option.some.injEq] at hn; exact hn.symm

theorem releaseOuts_spec (mode : Collision) (cnt : Int) (h : Nat) (hc : cnt = (h : Int)) (ch n : Nat) :
    releaseOuts mode (decide (cnt = 1)) ch n =
      (match mode with
      | .off => [noteOffMsg ch n]
      | _ => if h = 1 then [noteOffMsg ch n] else []) := by
  subst hc
  by_cases h1 : h = 1
  · subst h1; cases mode <;> simp [releaseOuts]
  · have : ¬ (h : Int) = 1 := by omega
    cases mode <;> simp [releaseOuts, h1, this]

/-- release (or a value other than 0/1) of a key that is not an action key -/
theorem sim_noteOther {cfg : Config} {d : Dev} {b : Book} (hinv : Inv cfg d b) (i : Nat) (sub : Sub) (code : Code)
    (val : Int) (hna : alookup code cfg.actions = none) (hv1 : val ≠ 1) (hv2 : val ≠ 2) :
    StepGoal cfg i b (.key sub code val)
      (if val = 0 then (kt d code val).noteOff code else (kt d code val, [])) := by
  have hE := expectKey_eq cfg b sub code val
  rw [if_neg (not_swOf_of_ne_one hv1), hna] at hE
  simp only [hv1, if_false] at hE
  have hd1 := kt_dinv hinv.dinv code val
  obtain ⟨h1, h2, h3, h4, h5, h6, h7, h8, h9, h10, h11, h12⟩ := kt_frame d code val
  simp only [hv1, if_false] at h12
  obtain ⟨e1, e2, e3, e4, e5, e6⟩ := expNoteRelease_basic cfg (book1 b code val) code
  obtain ⟨m1, m2, m3, m4, m5⟩ := noteOff_model hd1 code
  have hpre : (book1 b code val).pre = StObs.ofDev d := hinv.pre
  by_cases h0 : val = 0
  · rw [if_pos h0]
    apply step_finish i hinv
      (e := (expNoteRelease cfg (book1 b code val) code).1) (b' := (expNoteRelease cfg (book1 b code val) code).2)
      (by rw [expectStep_key hv2, hE]) m1
    · rw [e1, m2]; exact downOf_eq hinv code val
    · intro h; rw [e3] at h; simp at h
    · intro _; exact m4
    · intro hs; simp [stateActionOf, hna] at hs
    · exact e5
    · intro hk
      rw [e2] at hk
      obtain ⟨hbok, -, -⟩ := book1_ok hk
      have ho := hinv.okp hbok
      have hcore : Core (kt d code val) b.snd := ho.core.kt code val
      have hpin : (book1 b code val).pinned = (kt d code val).noteTr := by
        show b.pinned = _; rw [h7]; exact ho.pinned
      have hkeys : ∀ k ∈ akeys (aerase code (kt d code val).noteTr),
          k ∈ (kt d code val).keyTr ∧ alookup k cfg.actions = none := by
        intro k hkm
        rw [mem_akeys_aerase, h7] at hkm
        rw [h12]
        exact ⟨mem_serase.mpr ⟨(ho.keys k hkm.1).1, hkm.2⟩, (ho.keys k hkm.1).2⟩
      have hacts : (expNoteRelease cfg (book1 b code val) code).2.acts = (kt d code val).actTr := by
        rw [e4, h10]; exact ho.acts
      have hst : ∀ s, (expNoteRelease cfg (book1 b code val) code).1.st = some s →
          stateKeyOf (StObs.ofDev ((kt d code val).noteOff code).1) = s := by
        intro s hs
        rw [e6, hpre] at hs
        simp only [keepSt, Option.some.injEq] at hs
        rw [← hs, m5, stateKey_kt]; rfl
      have hnp : actionOf cfg (Ev.key sub code val) ≠ some Action.panic := by simp [actionOf, hna]
      rw [noteOff_eq hd1] at hst ⊢
      unfold expNoteRelease at hst hacts ⊢
      rw [hpin] at hst hacts ⊢
      cases hl : alookup code (kt d code val).noteTr with
      | none =>
        rw [hl] at hst hacts
        simp only [hl] at hst hacts ⊢
        refine ⟨hpin, hacts, hcore, ?_, ?_, fun _ hp => absurd hp hnp, fun _ => hst⟩
        · intro k hkm
          have : aerase code (kt d code val).noteTr = (kt d code val).noteTr :=
            aerase_of_not_mem (alookup_eq_none.mp hl)
          rw [← this] at hkm
          exact hkeys k hkm
        · intro _ _ o ho'
          simp only [quietExpect, Option.some.injEq] at ho'
          exact ho'
      | some q =>
        obtain ⟨n, ch⟩ := q
        rw [hl] at hst hacts
        simp only [hl] at hst hacts ⊢
        have hw := hd1.wf _ (alookup_mem hl)
        refine ⟨rfl, hacts, hcore.released hl cfg.mode hw.2, hkeys, ?_, fun _ hp => absurd hp hnp, fun _ => hst⟩
        intro _ _ o ho'
        simp only [Option.some.injEq] at ho'
        rw [← ho']
        exact releaseOuts_spec cfg.mode _ _ (hcore.cnt ch n) ch n
  · rw [if_neg h0]
    apply step_finish i hinv
      (e := (expNoteRelease cfg (book1 b code val) code).1) (b' := (expNoteRelease cfg (book1 b code val) code).2)
      (by rw [expectStep_key hv2, hE]) hd1
    · rw [e1]; exact downOf_eq hinv code val
    · intro h; rw [e3] at h; simp at h
    · intro _; rfl
    · intro hs; simp [stateActionOf, hna] at hs
    · exact e5
    · intro hk
      rw [e2] at hk
      have := (book1_ok hk).2.1
      omega

/-! ### one step -/

theorem sim_key {cfg : Config} (hacc : Accepted cfg = true) {d : Dev} {b : Book} (hinv : Inv cfg d b) (i : Nat)
    (sub : Sub) (code : Code) (val : Int) (hv2 : val ≠ 2) :
    StepGoal cfg i b (.key sub code val) (d.handleKey sub code val) := by
  rw [handleKey_eq hinv.dinv]
  by_cases hsw : swOf cfg b code val
  · rw [if_pos ((swOf_iff hinv code val).mp hsw)]
    exact sim_swallowed hinv i sub code val hv2 hsw
  · rw [if_neg (fun h => hsw ((swOf_iff hinv code val).mpr h))]
    cases ha : alookup code cfg.actions with
    | some a =>
      simp only
      by_cases h1 : val = 1
      · subst h1; rw [if_pos rfl]; exact sim_actPress hinv i sub code a ha hsw
      · rw [if_neg h1]; exact sim_actOther hinv i sub code val a ha h1 hv2
    | none =>
      simp only
      by_cases h1 : val = 1
      · subst h1; rw [if_pos rfl]; exact sim_notePress hacc hinv i sub code ha hsw
      · rw [if_neg h1]; exact sim_noteOther hinv i sub code val ha h1 hv2

theorem sim_same {cfg : Config} {d d' : Dev} {b : Book} {ev : Ev} (hinv : Inv cfg d b) (i : Nat)
    (he : expectStep cfg b false ev = (quietExpect b, b))
    (hf : d'.cfg = d.cfg ∧ d'.octave = d.octave ∧ d'.semitone = d.semitone ∧ d'.channel = d.channel ∧
      d'.velocity = d.velocity ∧ d'.mapping = d.mapping ∧ d'.noteTr = d.noteTr ∧ d'.anaTr = d.anaTr ∧
      d'.counter = d.counter ∧ d'.dead = d.dead)
    (hk : d'.keyTr = d.keyTr) (ha : d'.actTr = d.actTr) :
    StepGoal cfg i b ev (d', []) := by
  apply sim_silent hinv i he rfl (by rw [hk]; exact hinv.down) id hf
  · intro h; rw [ha]; exact (hinv.okp h).acts
  · intro h k hkm; rw [hk]; exact ((hinv.okp h).keys k hkm).1

theorem step_sim {cfg : Config} (hacc : Accepted cfg = true) {d : Dev} {b : Book} (hinv : Inv cfg d b) (i : Nat)
    (e : Ev) (hk : ∀ s n c v, e ≠ Ev.abs s n c v) : StepGoal cfg i b e (d.step e) := by
  unfold Dev.step
  rw [hinv.dinv.dead]
  simp only [Bool.false_eq_true, if_false]
  cases e with
  | syn => exact sim_same hinv i rfl ⟨rfl, rfl, rfl, rfl, rfl, rfl, rfl, rfl, rfl, rfl⟩ rfl rfl
  | abs s n c v => exact absurd rfl (hk s n c v)
  | midiIn x y z =>
    simp only
    apply sim_same hinv i rfl
    · unfold Dev.midiIn; simp only []; repeat' split
      all_goals exact ⟨rfl, rfl, rfl, rfl, rfl, rfl, rfl, rfl, rfl, rfl⟩
    · unfold Dev.midiIn; simp only []; repeat' split
      all_goals rfl
    · unfold Dev.midiIn; simp only []; repeat' split
      all_goals rfl
  | key sub code val =>
    simp only
    by_cases h2 : val = 2
    · rw [if_pos h2]
      subst h2
      exact sim_same hinv i (by simp [expectStep, quietExpect]) ⟨rfl, rfl, rfl, rfl, rfl, rfl, rfl, rfl, rfl, rfl⟩ rfl rfl
    · rw [if_neg h2]; exact sim_key hacc hinv i sub code val h2

end Hidi.EngineSim
