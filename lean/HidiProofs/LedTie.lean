/-
  The regenerated frame computation of the LED refresh loop (`Hidi/Gen/LedFrame.lean`, written on every run by
  tools/extract/ledframe.go from `handleOpenrgb`, open_rgb.go) equals the model's `Led.frame`.

  Stages: the strip LEDs (`strip_eq`: the bounds-checked setter writes like `setAt` because `nameToIndex` only yields LED
  indices), the action paints (`guarded_fold`, `fm_updown`, `fm_mapping`, `fm_channel`, `paints_total`: the paints under
  nested ifs, read as guarded paints, are the model's `actionPaints`), the keyboard mapping (`class_eq`: Go's truncating
  `x % 12` on a non-negative pitch is the model's pitch class), the MIDI-input passes and the device's own notes
  (`note_step`: `base := int(note) - offset`, skipped unless 0 ≤ base ≤ 127, is `baseOk` / `baseOf`).
-/
import Hidi.Gen.LedFrame
import HidiProofs.LedLemmas
import Mathlib.Tactic.IntervalCases
import Mathlib.Tactic.SplitIfs
set_option linter.unusedSimpArgs false
namespace Hidi.LedTie
open Hidi Hidi.Led Hidi.GoLite Hidi.Gen Hidi.LedLemmas

/-- the strip LEDs: the bounds-checked setter of the source writes like `setAt` (indices of `nameToIndex` are LEDs) -/
theorem strip_eq (d : Dev) (devName : String) (leds : List String) :
    (stripLeds devName).foldl (fun (f : Frame) (name : String) =>
      match alookup name (nameToIndex leds) with
      | some id => (match f with | Outcome.ok l => if id < l.length then Outcome.ok (l.set id (⟨0, 0, 0⟩ : RGB)) else f | x => x)
      | none => f) (Outcome.ok (List.replicate leds.length d.cfg.colors.unavailable)) = frameStrip true d devName leds := by
  unfold frameStrip
  simp only [if_true]
  have gen : ∀ (L : List String) (f : Frame), IsOk leds.length f →
      L.foldl (fun (f : Frame) (name : String) =>
        match alookup name (nameToIndex leds) with
        | some id => (match f with | Outcome.ok l => if id < l.length then Outcome.ok (l.set id (⟨0, 0, 0⟩ : RGB)) else f | x => x)
        | none => f) f =
      L.foldl (fun f name => match alookup name (nameToIndex leds) with | some i => setAt f i off | none => f) f := by
    intro L
    induction L with
    | nil => intro f _; rfl
    | cons a r ih =>
      intro f hf
      simp only [List.foldl_cons]
      obtain ⟨l, rfl, hl⟩ := hf
      cases ha : alookup a (nameToIndex leds) with
      | none => simp only; exact ih _ ⟨l, rfl, hl⟩
      | some i =>
        have hi : i < l.length := hl ▸ nameToIndex_lt leds a i ha
        simp only [hi, if_true, setAt]
        exact ih _ ⟨l.set i _, rfl, by simpa using hl⟩
  exact gen _ _ ⟨_, rfl, by simp⟩

/-- a fold of guarded paints = the fold over the paints whose guard holds -/
theorem guarded_fold (P : Frame → Action → RGB → Frame) (gl : List (Bool × Action × RGB)) :
    ∀ f, gl.foldl (fun (f : Frame) (t : Bool × Action × RGB) => if t.1 then P f t.2.1 t.2.2 else f) f =
      (gl.filterMap (fun t => if t.1 then some t.2 else none)).foldl (fun f p => P f p.1 p.2) f := by
  induction gl with
  | nil => intro f; rfl
  | cons t r ih =>
    intro f
    obtain ⟨g, a, c⟩ := t
    cases g <;> simp [List.filterMap_cons, ih]

abbrev fm (l : List (Bool × Action × RGB)) : List (Action × RGB) := l.filterMap (fun t => if t.1 then some t.2 else none)

theorem fm_append (a b : List (Bool × Action × RGB)) : fm (a ++ b) = fm a ++ fm b := List.filterMap_append

/-- up / down indicator of a signed setting (octave, semitone) -/
theorem fm_updown (v : Int) (up down : Action) :
    fm [(true, up, Led.white1), (true, down, Led.white1),
        (((decide (v > (0 : Int))) && (v == (1 : Int))), up, Led.white2),
        (((decide (v > (0 : Int))) && (!(v == (1 : Int)))), up, Led.white3),
        (((decide (v < (0 : Int))) && (v == (-(1 : Int)))), down, Led.white2),
        (((decide (v < (0 : Int))) && (!(v == (-(1 : Int))))), down, Led.white3)] =
      [(up, white1), (down, white1)] ++
      (if v > 0 then [(up, if v = 1 then white2 else white3)] else []) ++
      (if v < 0 then [(down, if v = -1 then white2 else white3)] else []) := by
  by_cases o1 : v > 0 <;> by_cases o2 : v = 1 <;> by_cases o3 : v < 0 <;> by_cases o4 : v = -1 <;>
    first | omega | simp [fm, o1, o2, o3, o4]

theorem fm_mapping (mp n : Nat) :
    fm [(true, Action.mappingUp, Led.white3), (true, Action.mappingDown, Led.white3),
        ((((mp : Int) == (0 : Int))), Action.mappingDown, Led.white1),
        ((((mp : Int) == ((n : Int) - (1 : Int)))), Action.mappingUp, Led.white1)] =
      [(.mappingUp, white3), (.mappingDown, white3)] ++
      (if mp = 0 then [(Action.mappingDown, white1)] else []) ++
      (if (mp : Int) = (n : Int) - 1 then [(Action.mappingUp, white1)] else []) := by
  have e0 : ((mp : Int) == 0) = decide (mp = 0) := by
    by_cases h : mp = 0
    · simp [h]
    · have : ¬ ((mp : Int) = 0) := by omega
      simp [h, this]
  have e1 : ((mp : Int) == (n : Int) - 1) = decide ((mp : Int) = (n : Int) - 1) := by
    by_cases h : (mp : Int) = (n : Int) - 1 <;> simp [h]
  rw [e0, e1]
  by_cases m0 : mp = 0 <;> by_cases m1 : (mp : Int) = (n : Int) - 1
  · simp only [decide_eq_true m0, decide_eq_true m1, if_pos m0, if_pos m1]; rfl
  · simp only [decide_eq_true m0, decide_eq_false m1, if_pos m0, if_neg m1]; rfl
  · simp only [decide_eq_false m0, decide_eq_true m1, if_neg m0, if_pos m1]; rfl
  · simp only [decide_eq_false m0, decide_eq_false m1, if_neg m0, if_neg m1]; rfl

theorem fm_channel (ch : Nat) :
    fm [(true, Action.channelUp, Led.chanColor ch), (true, Action.channelDown, Led.chanColor ch),
        ((((ch : Int) == (0 : Int))), Action.channelDown, (⟨((Led.chanColor ch).r / 3), ((Led.chanColor ch).g / 3), ((Led.chanColor ch).b / 3)⟩ : RGB)),
        ((((ch : Int) == (15 : Int))), Action.channelUp, (⟨((Led.chanColor ch).r / 3), ((Led.chanColor ch).g / 3), ((Led.chanColor ch).b / 3)⟩ : RGB)),
        (true, Action.multinote, Led.white1)] =
      [(.channelUp, chanColor ch), (.channelDown, chanColor ch)] ++
      (if ch = 0 then [(Action.channelDown, third (chanColor ch))] else []) ++
      (if ch = 15 then [(Action.channelUp, third (chanColor ch))] else []) ++
      [(.multinote, white1)] := by
  by_cases c0 : ch = 0 <;> by_cases c15 : ch = 15
  · omega
  · simp [fm, c0, third]
  · have : ¬ ((ch : Int) = 0) := by omega
    simp [fm, c15, third]
  · have h0 : ¬ ((ch : Int) = 0) := by omega
    have h15 : ¬ ((ch : Int) = 15) := by omega
    simp [fm, c0, c15, h0, h15]


/-- one tracked note in the source (`base := int(note) - offset; if base < 0 || base > 127 { continue }; … [byte(base)]`)
    and in the model (`baseOk`, `baseOf`) -/
theorem note_step (n : Nat) (off : Int) (P : Nat → Frame) (f : Frame) :
    (if (decide (wrapInt (wrapInt (n : Int) - off) < 0) || decide (wrapInt (wrapInt (n : Int) - off) > 127)) = true then f
      else P (wrapU8 (wrapInt (wrapInt (n : Int) - off))).toNat) =
    (if baseOk n off = true then P (baseOf n off) else f) := by
  unfold baseOk baseOf baseI wrapInt wrapU8
  by_cases h1 : (n : Int) - off < 0
  · have h0 : ¬ (0 ≤ (n : Int) - off) := by omega
    rw [decide_eq_true h1, Bool.true_or, decide_eq_false h0, Bool.false_and]
    rfl
  · by_cases h2 : (n : Int) - off > 127
    · have h0 : ¬ ((n : Int) - off ≤ 127) := by omega
      rw [decide_eq_true h2, Bool.or_true, decide_eq_false h0, Bool.and_false]
      rfl
    · have h3 : 0 ≤ (n : Int) - off := by omega
      have h4 : (n : Int) - off ≤ 127 := by omega
      have h5 : (((n : Int) - off) % 256).toNat = ((n : Int) - off).toNat := by omega
      rw [decide_eq_false h1, decide_eq_false h2, decide_eq_true h3, decide_eq_true h4, h5]
      rfl

theorem own_fold (d : Dev) (off : Int) (F : Frame → Nat → Frame) (a : Frame) :
    (ownOn d off).foldl (fun f p => F f (baseOf p.2.1 off)) a =
      d.noteTr.foldl (fun f p => if baseOk p.2.1 off = true then F f (baseOf p.2.1 off) else f) a := by
  unfold ownOn; rw [List.foldl_filter]

theorem ext_fold (d : Dev) (ch : Nat) (off : Int) (F : Frame → Nat → Frame) (a : Frame) :
    (extOn d ch off).foldl (fun f p => F f (baseOf p.2 off)) a =
      (d.ext.filter (fun p => p.1 = ch)).foldl (fun f p => if baseOk p.2 off = true then F f (baseOf p.2 off) else f) a := by
  unfold extOn; rw [List.foldl_filter]

theorem off_eq (d : Dev) : wrapInt (wrapInt (toG d).semitone + wrapInt (wrapInt (toG d).octave * 12)) = d.semitone + d.octave * 12 := rfl

/-- the pitch-class colour of the source (`switch x % 12`, Go's truncating remainder) is the model's `classColor` -/
theorem class_eq (m : Mapping) (sc : RGB → RGB) (cw cb cc : RGB) (x : Int) (h0 : 0 ≤ x) :
    sc (if (m.name == "Control") = true then cw
        else if (Int.tmod x 12 == 0) = true then cc
        else if (Int.tmod x 12 == 1 || Int.tmod x 12 == 3 || Int.tmod x 12 == 6 || Int.tmod x 12 == 8 || Int.tmod x 12 == 10) = true then cb
        else cw) = classColor m (sc cw, sc cb, sc cc) x.toNat := by
  unfold classColor
  by_cases hc : m.name = "Control"
  · simp [hc]
  · have hc' : (m.name == "Control") = false := by simpa using hc
    simp only [hc', Bool.false_eq_true, if_false, hc]
    have ht : Int.tmod x 12 = ((x.toNat % 12 : Nat) : Int) := by
      rw [Int.tmod_eq_emod_of_nonneg h0]; omega
    rw [ht]
    have hk : x.toNat % 12 < 12 := Nat.mod_lt _ (by decide)
    generalize x.toNat % 12 = k at hk
    interval_cases k <;> simp

/-- all guarded paints of the source, in order, are the model's `actionPaints` -/
theorem paints_total (d : Dev) :
    fm [(true, Action.panic, (⟨255, 0, 0⟩ : RGB)), (true, Action.octaveUp, white1), (true, Action.octaveDown, white1),
        (decide ((toG d).octave > 0) && (toG d).octave == 1, Action.octaveUp, white2),
        (decide ((toG d).octave > 0) && !(toG d).octave == 1, Action.octaveUp, white3),
        (decide ((toG d).octave < 0) && (toG d).octave == -1, Action.octaveDown, white2),
        (decide ((toG d).octave < 0) && !(toG d).octave == -1, Action.octaveDown, white3),
        (true, Action.semitoneUp, white1), (true, Action.semitoneDown, white1),
        (decide ((toG d).semitone > 0) && (toG d).semitone == 1, Action.semitoneUp, white2),
        (decide ((toG d).semitone > 0) && !(toG d).semitone == 1, Action.semitoneUp, white3),
        (decide ((toG d).semitone < 0) && (toG d).semitone == -1, Action.semitoneDown, white2),
        (decide ((toG d).semitone < 0) && !(toG d).semitone == -1, Action.semitoneDown, white3),
        (true, Action.mappingUp, white3), (true, Action.mappingDown, white3),
        ((d.mapping : Int) == 0, Action.mappingDown, white1),
        ((d.mapping : Int) == wrapInt ((d.cfg.maps.length : Int) - 1), Action.mappingUp, white1)] ++
    fm [(true, Action.channelUp, chanColor (toG d).channel.toNat),
        (true, Action.channelDown, chanColor (toG d).channel.toNat),
        ((toG d).channel == 0, Action.channelDown,
          (⟨(chanColor (toG d).channel.toNat).r / 3, (chanColor (toG d).channel.toNat).g / 3, (chanColor (toG d).channel.toNat).b / 3⟩ : RGB)),
        ((toG d).channel == 15, Action.channelUp,
          (⟨(chanColor (toG d).channel.toNat).r / 3, (chanColor (toG d).channel.toNat).g / 3, (chanColor (toG d).channel.toNat).b / 3⟩ : RGB)),
        (true, Action.multinote, white1)] = actionPaints d := by
  have ho : (toG d).octave = d.octave := rfl
  have hs : (toG d).semitone = d.semitone := rfl
  have hch : (toG d).channel = (d.channel : Int) := rfl
  simp only [ho, hs, hch, wrapInt, Int.toNat_natCast]
  have split : ∀ (p : Bool × Action × RGB) (o1 o2 o3 o4 o5 o6 s1 s2 s3 s4 s5 s6 m1 m2 m3 m4 : Bool × Action × RGB),
      fm [p, o1, o2, o3, o4, o5, o6, s1, s2, s3, s4, s5, s6, m1, m2, m3, m4] =
        fm [p] ++ fm [o1, o2, o3, o4, o5, o6] ++ fm [s1, s2, s3, s4, s5, s6] ++ fm [m1, m2, m3, m4] := by
    intros; simp only [← fm_append]; rfl
  rw [split, fm_updown, fm_updown, fm_mapping, fm_channel]
  unfold actionPaints
  simp [fm, red, List.append_assoc]

theorem ledFrame_eq (d : Dev) (devName : String) (leds : List String) (sc : RGB → RGB) (cw cb cc : RGB) :
    Body.ledFrame (toG d) devName leds sc cw cb cc = frame true d devName leds (sc cw, sc cb, sc cc) := by
  unfold Body.ledFrame frame Dev.curMap
  have hm : (toG d).mapping = (d.mapping : Int) := rfl
  have hc : (toG d).cfg = d.cfg := rfl
  simp only [GSt.mapIndexOk, GSt.nMaps, hm, hc, Int.toNat_natCast]
  rcases Option.eq_none_or_eq_some (d.cfg.maps[d.mapping]?) with hmap | ⟨m, hmap⟩
  · simp [hmap]
  · have : d.mapping < d.cfg.maps.length := by
      rcases Nat.lt_or_ge d.mapping d.cfg.maps.length with h | h
      · exact h
      · rw [List.getElem?_eq_none h] at hmap; cases hmap
    have h2 : ((d.mapping : Int) < (d.cfg.maps.length : Int)) := by omega
    have h3 : (0 : Int) ≤ (d.mapping : Int) := by omega
    simp only [hmap, h2, h3, decide_true, Bool.and_self, if_true]
    simp only [Id.run, pure]
    simp only [guarded_fold, ← List.foldl_append]
    have hp := paints_total d
    simp only [fm] at hp
    rw [hp]
    unfold frameExt frameBase framePre
    simp only
    rw [own_fold d _ (fun f n => paintNote (indexMap leds) m f n d.cfg.colors.active),
      ext_fold d d.channel _ (fun f n => paintNote (indexMap leds) m f n d.cfg.colors.activeExternal)]
    have hext16 : ∀ (a : Frame) (ch : Nat),
        (extOn d ch (d.semitone + d.octave * 12)).foldl
          (fun f p => paintNote (indexMap leds) m f (baseOf p.2 (d.semitone + d.octave * 12)) (chanColor ch)) a =
        (d.ext.filter (fun p => p.1 = ch)).foldl (fun f p => if baseOk p.2 (d.semitone + d.octave * 12) = true then
          paintNote (indexMap leds) m f (baseOf p.2 (d.semitone + d.octave * 12)) (chanColor ch) else f) a :=
      fun a ch => ext_fold d ch _ (fun f n => paintNote (indexMap leds) m f n (chanColor ch)) a
    simp only [hext16]
    have fc : ∀ {α : Type} (F F' : Frame → α → Frame) (a a' : Frame) (l l' : List α),
        F = F' → a = a' → l = l' → List.foldl F a l = List.foldl F' a' l' := by
      intro α F F' a a' l l' h1 h2 h3; rw [h1, h2, h3]
    have hoff : wrapInt (wrapInt (toG d).semitone + wrapInt (wrapInt (toG d).octave * 12)) = d.semitone + d.octave * 12 := rfl
    have fcm : ∀ (F F' : Frame → Nat → Frame) (a a' : Frame) (l : List Nat),
        (∀ f, ∀ x ∈ l, F f x = F' f x) → a = a' → List.foldl F a l = List.foldl F' a' l := by
      intro F F' a a' l h1 h2
      subst h2
      induction l generalizing a with
      | nil => rfl
      | cons x r ih =>
        simp only [List.foldl_cons]
        rw [h1 a x List.mem_cons_self]
        exact ih _ (fun f y hy => h1 f y (List.mem_cons_of_mem _ hy))
    apply fc
    · -- the device's own notes
      funext f p
      rw [hoff]
      exact note_step p.2.1 _ (fun n => paintNote (indexMap leds) m f n d.cfg.colors.active) f
    · apply fc
      · funext f p
        rw [hoff]
        exact note_step p.2 _ (fun n => paintNote (indexMap leds) m f n d.cfg.colors.activeExternal) f
      · apply fcm
        · intro f ch hch
          have hlt : ch < 16 := by
            have := List.mem_reverse.mp hch
            exact List.mem_range.mp this
          have hcc : (wrapU8 (ch : Int)).toNat = ch := by unfold wrapU8; omega
          apply fc
          · funext f p
            rw [hoff, hcc]
            exact note_step p.2 _ (fun n => paintNote (indexMap leds) m f n (chanColor ch)) f
          · rfl
          · rfl
        · apply fc
          · -- the keyboard mapping
            funext f p
            rcases Option.eq_none_or_eq_some (alookup p.1.2 (indexMap leds)) with h | ⟨i, h⟩
            · simp only [h]
            · have ho : (toG d).octave = d.octave := rfl
              have hs : (toG d).semitone = d.semitone := rfl
              simp only [h, wrapInt, ho, hs]
              by_cases hr : ((p.2.note : Int) + (d.semitone + d.octave * 12) < 0 ∨ (p.2.note : Int) + (d.semitone + d.octave * 12) > 127)
              · have : (decide ((p.2.note : Int) + (d.semitone + d.octave * 12) < 0) ||
                    decide ((p.2.note : Int) + (d.semitone + d.octave * 12) > 127)) = true := by
                  rcases hr with h1 | h1 <;> simp [h1]
                simp only [this, if_true, hr]
              · have hn : (decide ((p.2.note : Int) + (d.semitone + d.octave * 12) < 0) ||
                    decide ((p.2.note : Int) + (d.semitone + d.octave * 12) > 127)) = false := by
                  have h1 : ¬ ((p.2.note : Int) + (d.semitone + d.octave * 12) < 0) := fun h => hr (Or.inl h)
                  have h2 : ¬ ((p.2.note : Int) + (d.semitone + d.octave * 12) > 127) := fun h => hr (Or.inr h)
                  simp [h1, h2]
                have h0 : 0 ≤ (p.2.note : Int) + (d.semitone + d.octave * 12) := by omega
                simp only [hn, Bool.false_eq_true, if_false, hr]
                rw [← class_eq m sc cw cb cc _ h0]
                split_ifs <;> rfl
          · apply fc
            · rfl
            · exact strip_eq d devName leds
            · rfl
          · rfl
      · -- the current channel's notes
        have hch : (toG d).channel = (d.channel : Int) := rfl
        have hext : (toG d).ext = d.ext := rfl
        rw [hch, hext]
        apply List.filter_congr
        intro p _
        simp
    · rfl

end Hidi.LedTie
