/-
  Helper lemmas for C07 (bidirectional controller) and C08 (emulated keys):

  * association lists (`alookup`, `aerase`, `ainsert`) and list-sets (`sinsert`, `serase`);
  * the message constructors of the engine versus the receiver-side vocabulary of the specification
    (`ccEvent`/`ccMsg`, `noteEvent`/`noteOn64`/`noteOffMsg`) and the receiver update `recvCC`;
  * `0 < c49 ≤ 1/2`;
  * what `analogNoteOn`, `analogNoteOff`, `releaseAxis` do to the tracker, to the output and to the
    rest of the device.
-/
import Hidi
import HidiProofs.FloatLemmas
namespace Hidi.AxisKeyLemmas
open Hidi Hidi.Spec

/-! ### association lists -/

section alist
variable {κ α : Type} [DecidableEq κ]

theorem alookup_append (k : κ) (l₁ l₂ : List (κ × α)) :
    alookup k (l₁ ++ l₂) = (alookup k l₁).orElse (fun _ => alookup k l₂) := by
  induction l₁ with
  | nil => simp [alookup]
  | cons p r ih =>
    obtain ⟨k', v⟩ := p
    by_cases h : k' = k <;> simp [alookup, h, ih]

theorem alookup_cons (k k' : κ) (a : α) (r : List (κ × α)) :
    alookup k ((k', a) :: r) = if k' = k then some a else alookup k r := rfl

theorem aerase_cons (k k' : κ) (a : α) (r : List (κ × α)) :
    aerase k ((k', a) :: r) = if k' = k then aerase k r else (k', a) :: aerase k r := by
  by_cases h : k' = k <;> simp [aerase, h]

theorem alookup_aerase_self (k : κ) (l : List (κ × α)) : alookup k (aerase k l) = none := by
  induction l with
  | nil => rfl
  | cons p r ih =>
    obtain ⟨k', v⟩ := p
    rw [aerase_cons]
    split
    · exact ih
    · rename_i h; rw [alookup_cons, if_neg h]; exact ih

theorem alookup_aerase_ne {k k' : κ} (h : k' ≠ k) (l : List (κ × α)) :
    alookup k' (aerase k l) = alookup k' l := by
  induction l with
  | nil => rfl
  | cons p r ih =>
    obtain ⟨k'', v⟩ := p
    rw [aerase_cons, alookup_cons]
    split
    · rename_i h1
      have h2 : ¬ k'' = k' := by rintro rfl; exact h h1
      rw [if_neg h2]; exact ih
    · rw [alookup_cons, ih]

theorem alookup_ainsert_self (k : κ) (v : α) (l : List (κ × α)) :
    alookup k (ainsert k v l) = some v := by
  simp [ainsert, alookup_append, alookup_aerase_self, alookup]

theorem alookup_ainsert_ne {k k' : κ} (h : k' ≠ k) (v : α) (l : List (κ × α)) :
    alookup k' (ainsert k v l) = alookup k' l := by
  have h' : ¬ k = k' := fun e => h e.symm
  rw [ainsert, alookup_append, alookup_aerase_ne h]
  cases alookup k' l <;> simp [alookup, h']

theorem aerase_of_alookup_none {k : κ} {l : List (κ × α)} (h : alookup k l = none) : aerase k l = l := by
  induction l with
  | nil => rfl
  | cons p r ih =>
    obtain ⟨k', v⟩ := p
    rw [alookup_cons] at h
    split at h
    · cases h
    · rename_i h1; rw [aerase_cons, if_neg h1, ih h]

theorem alookup_aerase_some {k k' : κ} {l : List (κ × α)} {v : α} (h : alookup k' (aerase k l) = some v) :
    k' ≠ k ∧ alookup k' l = some v := by
  by_cases hk : k' = k
  · subst hk; rw [alookup_aerase_self] at h; cases h
  · rw [alookup_aerase_ne hk] at h; exact ⟨hk, h⟩

end alist

/-! ### list-sets -/

theorem mem_sinsert {α} [DecidableEq α] (a b : α) (l : List α) : a ∈ sinsert b l ↔ a = b ∨ a ∈ l := by
  unfold sinsert
  split
  · constructor
    · exact Or.inr
    · rintro (rfl | h) <;> assumption
  · simp [or_comm]

theorem mem_serase {α} [DecidableEq α] (a b : α) (l : List α) : a ∈ serase b l ↔ a ∈ l ∧ a ≠ b := by
  simp [serase]

/-! ### messages and the receiver -/

theorem chanOf_lt (c o : Nat) : chanOf c o < 16 := by unfold chanOf; omega

theorem stCC_or : ∀ ch, ch < 16 → (0xB0 ||| ch) % 256 = 0xB0 + ch := by decide
theorem stOn_or : ∀ ch, ch < 16 → (0x90 ||| ch) % 256 = 0x90 + ch := by decide
theorem stOff_or : ∀ ch, ch < 16 → (0x80 ||| ch) % 256 = 0x80 + ch := by decide

/-- the engine's controller message is the specification's, for a real channel -/
theorem ccEvent_eq_ccMsg {ch : Nat} (h : ch < 16) (fn v : Nat) : ccEvent ch fn v = ccMsg ch fn v := by
  simp only [ccEvent, ccMsg, stCC, stCC_or ch h]

theorem noteOn_eq_noteOn64 {ch : Nat} (h : ch < 16) (n : Nat) : noteEvent stNoteOn ch n 64 = noteOn64 ch n := by
  simp only [noteEvent, noteOn64, stNoteOn, stOn_or ch h]

theorem noteOff_eq_noteOffMsg {ch : Nat} (h : ch < 16) (n : Nat) : noteEvent stNoteOff ch n 0 = noteOffMsg ch n := by
  simp only [noteEvent, noteOffMsg, stNoteOff, stOff_or ch h]

/-- what a controller message does at the receiver -/
theorem recvCC_ccEvent {ch : Nat} (h : ch < 16) (R : List ((Nat × Nat) × Nat)) (fn v : Nat) :
    recvCC R (ccEvent ch fn v) = ainsert (ch, fn) v R := by
  rw [ccEvent_eq_ccMsg h]
  have h1 : (0xB0 + ch) / 16 = 11 := by omega
  have h2 : (0xB0 + ch) % 16 = ch := by omega
  simp only [ccMsg, recvCC, h1, h2, if_true]

theorem ccOf_ainsert_self (R : List ((Nat × Nat) × Nat)) (k : Nat × Nat) (v : Nat) :
    ccOf (ainsert k v R) k = v := by
  simp [ccOf, alookup_ainsert_self]

theorem ccOf_ainsert_ne (R : List ((Nat × Nat) × Nat)) {k k' : Nat × Nat} (h : k' ≠ k) (v : Nat) :
    ccOf (ainsert k v R) k' = ccOf R k' := by
  simp [ccOf, alookup_ainsert_ne h]

/-- what a Note On (velocity 64) of the emulation does at the receiver -/
theorem recv_noteOn64 {ch : Nat} (h : ch < 16) (s : List (Nat × Nat)) (n : Nat) :
    recv s (noteEvent stNoteOn ch n 64) = sinsert (ch, n) s := by
  rw [noteOn_eq_noteOn64 h]
  have h1 : (0x90 + ch) / 16 = 9 := by omega
  have h2 : (0x90 + ch) % 16 = ch := by omega
  simp [noteOn64, recv, h1, h2]

/-- what a Note Off of the emulation does at the receiver -/
theorem recv_noteOff {ch : Nat} (h : ch < 16) (s : List (Nat × Nat)) (n : Nat) :
    recv s (noteEvent stNoteOff ch n 0) = serase (ch, n) s := by
  rw [noteOff_eq_noteOffMsg h]
  have h1 : (0x80 + ch) / 16 = 8 := by omega
  have h2 : (0x80 + ch) % 16 = ch := by omega
  simp [noteOffMsg, recv, h1, h2]

/-! ### the constant 0.49 -/

theorem c49_pos : 0 < c49 := FloatLemmas.rnd53_pos (by norm_num)

theorem c49_le_half : c49 ≤ 1/2 := by
  have := FloatLemmas.rnd53_mono (a := 49/100) (b := 1/2) (by norm_num)
  rwa [FloatLemmas.rnd53_half] at this

/-! ### `analogNoteOff` -/

theorem off_anaTr (d : Dev) (id : Code × Bool) : (d.analogNoteOff id).1.anaTr = aerase id d.anaTr := by
  unfold Dev.analogNoteOff
  split
  · rename_i h; simp [aerase_of_alookup_none h]
  · rfl

theorem off_lookup_self (d : Dev) (id : Code × Bool) : alookup id (d.analogNoteOff id).1.anaTr = none := by
  rw [off_anaTr, alookup_aerase_self]

theorem off_lookup_ne (d : Dev) {id id' : Code × Bool} (h : id' ≠ id) :
    alookup id' (d.analogNoteOff id).1.anaTr = alookup id' d.anaTr := by
  rw [off_anaTr, alookup_aerase_ne h]

theorem off_out (d : Dev) (id : Code × Bool) :
    (d.analogNoteOff id).2 =
      match alookup id d.anaTr with
      | some (n, ch) => [noteEvent stNoteOff ch n 0]
      | none => [] := by
  unfold Dev.analogNoteOff
  split <;> simp_all

theorem off_out_mem (d : Dev) (id : Code × Bool) (o : Out) (h : o ∈ (d.analogNoteOff id).2) :
    ∃ n ch, alookup id d.anaTr = some (n, ch) ∧ o = noteEvent stNoteOff ch n 0 := by
  rw [off_out] at h
  split at h
  · rename_i n ch hl
    exact ⟨n, ch, hl, by simpa using h⟩
  · simp at h

theorem off_frame (d : Dev) (id : Code × Bool) :
    (d.analogNoteOff id).1 = { d with anaTr := (d.analogNoteOff id).1.anaTr } := by
  unfold Dev.analogNoteOff
  split <;> rfl

/-! ### `analogNoteOn` -/

theorem analogNoteOn_def (d : Dev) (id : Code × Bool) (note off : Nat) :
    d.analogNoteOn id note off =
      if d.transposed note < 0 ∨ d.transposed note > 127 then (d, [])
      else ({ d with anaTr := ainsert id ((d.transposed note).toNat, chanOf d.channel off) d.anaTr },
            [noteEvent stNoteOn (chanOf d.channel off) (d.transposed note).toNat 64]) := rfl

theorem on_frame (d : Dev) (id : Code × Bool) (note off : Nat) :
    (d.analogNoteOn id note off).1 = { d with anaTr := (d.analogNoteOn id note off).1.anaTr } := by
  rw [analogNoteOn_def]
  split <;> rfl

theorem on_lookup_ne (d : Dev) {id id' : Code × Bool} (h : id' ≠ id) (note off : Nat) :
    alookup id' (d.analogNoteOn id note off).1.anaTr = alookup id' d.anaTr := by
  rw [analogNoteOn_def]
  split
  · rfl
  · simp [alookup_ainsert_ne h]

theorem on_in_range (d : Dev) (id : Code × Bool) (note off : Nat)
    (h0 : 0 ≤ d.transposed note) (h1 : d.transposed note ≤ 127) :
    alookup id (d.analogNoteOn id note off).1.anaTr = some ((d.transposed note).toNat, chanOf d.channel off) ∧
    (d.analogNoteOn id note off).2 = [noteEvent stNoteOn (chanOf d.channel off) (d.transposed note).toNat 64] := by
  rw [analogNoteOn_def]
  have : ¬ (d.transposed note < 0 ∨ d.transposed note > 127) := by omega
  simp [this, alookup_ainsert_self]

theorem on_out_of_range (d : Dev) (id : Code × Bool) (note off : Nat)
    (h : d.transposed note < 0 ∨ 127 < d.transposed note) :
    d.analogNoteOn id note off = (d, []) := by
  rw [analogNoteOn_def]
  have : d.transposed note < 0 ∨ d.transposed note > 127 := h
  simp [this]

theorem on_out_mem (d : Dev) (id : Code × Bool) (note off : Nat) (o : Out)
    (h : o ∈ (d.analogNoteOn id note off).2) : ∃ ch n, o = noteEvent stNoteOn ch n 64 := by
  rw [analogNoteOn_def] at h
  split at h
  · simp at h
  · exact ⟨_, _, by simpa using h⟩

theorem on_out_mem' (d : Dev) (id : Code × Bool) (note off : Nat) (o : Out)
    (h : o ∈ (d.analogNoteOn id note off).2) : ∃ ch n, ch < 16 ∧ n ≤ 127 ∧ o = noteEvent stNoteOn ch n 64 := by
  rw [analogNoteOn_def] at h
  split at h
  · simp at h
  · rename_i hr
    refine ⟨chanOf d.channel off, (d.transposed note).toNat, chanOf_lt _ _, by omega, by simpa using h⟩

/-- whatever `analogNoteOn` leaves in the tracker was there before or is a valid (note, channel) -/
theorem on_lookup_some (d : Dev) (id id' : Code × Bool) (note off : Nat) (n ch : Nat)
    (h : alookup id' (d.analogNoteOn id note off).1.anaTr = some (n, ch)) :
    alookup id' d.anaTr = some (n, ch) ∨ (n ≤ 127 ∧ ch < 16) := by
  rw [analogNoteOn_def] at h
  split at h
  · exact Or.inl h
  · rename_i hr
    by_cases hk : id' = id
    · subst hk
      simp only [alookup_ainsert_self, Option.some.injEq, Prod.mk.injEq] at h
      right
      refine ⟨?_, h.2 ▸ chanOf_lt _ _⟩
      omega
    · simp only [alookup_ainsert_ne hk] at h
      exact Or.inl h

theorem off_lookup_some (d : Dev) (id id' : Code × Bool) (p : Nat × Nat)
    (h : alookup id' (d.analogNoteOff id).1.anaTr = some p) : alookup id' d.anaTr = some p := by
  rw [off_anaTr] at h
  exact (alookup_aerase_some h).2

/-- a Note Off of the emulation is never a Note On with non-zero velocity -/
theorem noteOff_ne_noteOn (ch n ch' n' v : Nat) (hv : v ≠ 0) :
    noteEvent stNoteOff ch n 0 ≠ noteEvent stNoteOn ch' n' v := by
  intro h
  simp only [noteEvent, Out.midi.injEq] at h
  exact hv h.2.2.symm

/-! ### `releaseAxis` -/

theorem releaseAxis_eq (d : Dev) (code : Code) :
    d.releaseAxis code =
      (((d.analogNoteOff (code, false)).1.analogNoteOff (code, true)).1,
       (d.analogNoteOff (code, false)).2 ++ ((d.analogNoteOff (code, false)).1.analogNoteOff (code, true)).2) := rfl

theorem releaseAxis_frame (d : Dev) (code : Code) :
    (d.releaseAxis code).1 = { d with anaTr := (d.releaseAxis code).1.anaTr } := by
  rw [releaseAxis_eq]
  simp only
  rw [off_frame (d.analogNoteOff (code, false)).1, off_frame d]

theorem releaseAxis_out (d : Dev) (code : Code) :
    (d.releaseAxis code).2 =
      (match alookup (code, false) d.anaTr with
       | some (n, ch) => [noteEvent stNoteOff ch n 0]
       | none => []) ++
      (match alookup (code, true) d.anaTr with
       | some (n, ch) => [noteEvent stNoteOff ch n 0]
       | none => []) := by
  rw [releaseAxis_eq]
  simp only
  rw [off_out, off_out, off_lookup_ne d (by simp : ((code, true) : Code × Bool) ≠ (code, false))]

theorem releaseAxis_out_mem (d : Dev) (code : Code) (o : Out) (h : o ∈ (d.releaseAxis code).2) :
    ∃ id ∈ [((code, false) : Code × Bool), (code, true)], ∃ n ch,
      alookup id d.anaTr = some (n, ch) ∧ o = noteEvent stNoteOff ch n 0 := by
  rw [releaseAxis_eq] at h
  simp only [List.mem_append] at h
  rcases h with h | h
  · obtain ⟨n, ch, h1, h2⟩ := off_out_mem _ _ _ h
    exact ⟨_, by simp, n, ch, h1, h2⟩
  · obtain ⟨n, ch, h1, h2⟩ := off_out_mem _ _ _ h
    rw [off_lookup_ne d (by simp : ((code, true) : Code × Bool) ≠ (code, false))] at h1
    exact ⟨_, by simp, n, ch, h1, h2⟩

theorem pos_ne_neg (code : Code) : ((code, false) : Code × Bool) ≠ (code, true) := by simp
theorem neg_ne_pos (code : Code) : ((code, true) : Code × Bool) ≠ (code, false) := by simp

end Hidi.AxisKeyLemmas
