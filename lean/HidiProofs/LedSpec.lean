/-
  HidiProofs.LedSpec — the frame as "last write wins" over a list of writes, and from it a declarative description of
  the colour of every LED (refinement of `Hidi.Led.frame` to a per-LED specification).
-/
import HidiProofs.LedLemmas
namespace Hidi.LedSpec
open Hidi Hidi.Led Hidi.LedLemmas Hidi.EngineSim

abbrev W := Nat × RGB

/-- apply a list of writes, in order -/
def applyW (l : List RGB) (ws : List W) : List RGB := ws.foldl (fun l w => l.set w.1 w.2) l

/-- colour of the last write to `i`, if any -/
def lastW : List W → Nat → Option RGB
  | [], _ => none
  | w :: r, i => (lastW r i).or (if w.1 = i then some w.2 else none)

@[simp] theorem length_applyW (l : List RGB) (ws : List W) : (applyW l ws).length = l.length := by
  unfold applyW
  induction ws generalizing l with
  | nil => rfl
  | cons w r ih => simp only [List.foldl_cons]; rw [ih]; simp

theorem applyW_append (l : List RGB) (a b : List W) : applyW l (a ++ b) = applyW (applyW l a) b := by
  simp [applyW, List.foldl_append]

theorem lastW_append (a b : List W) (i : Nat) : lastW (a ++ b) i = (lastW b i).or (lastW a i) := by
  induction a with
  | nil => simp [lastW]
  | cons w r ih => simp only [List.cons_append, lastW, ih, Option.or_assoc]

/-- **last write wins** -/
theorem applyW_get (l : List RGB) (ws : List W) (i : Nat) (hi : i < l.length) :
    (applyW l ws)[i]? = some ((lastW ws i).getD l[i]) := by
  induction ws generalizing l with
  | nil => simp [applyW, lastW, hi]
  | cons w r ih =>
    have e : applyW l (w :: r) = applyW (l.set w.1 w.2) r := rfl
    rw [e, ih (l.set w.1 w.2) (by simpa using hi)]
    simp only [lastW]
    cases hr : lastW r i with
    | some c => simp
    | none =>
      simp only [Option.none_or, Option.getD_none]
      by_cases hw : w.1 = i
      · subst hw; simp
      · simp [hw]

theorem lastW_flatMap {α} (g : α → List W) (L : List α) (i : Nat) :
    lastW (L.flatMap g) i = L.reverse.findSome? (fun x => lastW (g x) i) := by
  induction L with
  | nil => rfl
  | cons x r ih =>
    simp only [List.flatMap_cons, lastW_append, ih, List.reverse_cons, List.findSome?_append]
    congr 1
    simp [List.findSome?]
    cases lastW (g x) i <;> rfl

/-- writes that all carry the same colour -/
theorem lastW_uniform (ws : List W) (c : RGB) (h : ∀ w ∈ ws, w.2 = c) (i : Nat) :
    lastW ws i = if ws.any (fun w => w.1 = i) then some c else none := by
  induction ws with
  | nil => rfl
  | cons w r ih =>
    simp only [lastW, ih (fun x hx => h x (List.mem_cons_of_mem _ hx)), List.any_cons]
    have hw := h w List.mem_cons_self
    by_cases h1 : r.any (fun w => decide (w.1 = i)) = true
    · simp [h1]
    · by_cases h2 : w.1 = i
      · simp [h1, h2, hw]
      · simp [h1, h2]

/-! ### painting as writes -/

def wNote (im : List (Nat × Nat)) (m : Mapping) (note : Nat) (c : RGB) : List W :=
  (keysWithNote m note).filterMap (fun code => (alookup code im).map (fun i => (i, c)))

theorem paintNote_eq {n : Nat} (im : List (Nat × Nat)) (him : ∀ k i, alookup k im = some i → i < n) (m : Mapping)
    (note : Nat) (c : RGB) (l : List RGB) (hl : l.length = n) :
    paintNote im m (.ok l) note c = .ok (applyW l (wNote im m note c)) := by
  unfold paintNote wNote
  generalize keysWithNote m note = ks
  induction ks generalizing l with
  | nil => rfl
  | cons k r ih =>
    simp only [List.foldl_cons, List.filterMap_cons]
    cases hk : alookup k im with
    | none => simp only [Option.map_none]; exact ih l hl
    | some i =>
      have hi : i < l.length := hl ▸ him k i hk
      have hs : setAt (.ok l) i c = .ok (l.set i c) := by simp [setAt, hi]
      simp only [Option.map_some]
      rw [hs, ih (l.set i c) (by simpa using hl)]
      rfl

/-- a fold of steps each of which is a list of writes -/
theorem foldl_writes {α} {n : Nat} (g : Frame → α → Frame) (w : α → List W)
    (hg : ∀ a (l : List RGB), l.length = n → g (.ok l) a = .ok (applyW l (w a))) (L : List α) :
    ∀ (l : List RGB), l.length = n → L.foldl g (.ok l) = .ok (applyW l (L.flatMap w)) := by
  induction L with
  | nil => intro l _; rfl
  | cons a r ih =>
    intro l hl
    simp only [List.foldl_cons, List.flatMap_cons, applyW_append]
    rw [hg a l hl, ih _ (by simpa using hl)]

/-- is LED `i` the LED of a key whose base note, transposed, is one of the pitches `g p`, `p ∈ L` -/
def lit {α} (im : List (Nat × Nat)) (m : Mapping) (g : α → Nat) (L : List α) (i : Nat) : Bool :=
  L.any (fun p => (keysWithNote m (g p)).any (fun code => alookup code im = some i))

theorem any_wNote (im : List (Nat × Nat)) (m : Mapping) (note : Nat) (c : RGB) (i : Nat) :
    (wNote im m note c).any (fun w => w.1 = i) = (keysWithNote m note).any (fun code => alookup code im = some i) := by
  unfold wNote
  generalize keysWithNote m note = ks
  induction ks with
  | nil => rfl
  | cons k r ih =>
    simp only [List.filterMap_cons, List.any_cons]
    cases hk : alookup k im with
    | none => simp [ih]
    | some j => simp [ih]

theorem lastW_notes {α} (im : List (Nat × Nat)) (m : Mapping) (g : α → Nat) (c : RGB) (L : List α) (i : Nat) :
    lastW (L.flatMap (fun p => wNote im m (g p) c)) i = if lit im m g L i then some c else none := by
  have e : (L.flatMap (fun p => wNote im m (g p) c)).any (fun w => decide (w.1 = i)) = lit im m g L i := by
    unfold lit
    induction L with
    | nil => rfl
    | cons p r ih => simp only [List.flatMap_cons, List.any_append, List.any_cons, any_wNote, ih]
  rw [lastW_uniform _ c, e]
  · intro w hw
    obtain ⟨p, -, hp⟩ := List.mem_flatMap.mp hw
    unfold wNote at hp
    obtain ⟨code, -, hc⟩ := List.mem_filterMap.mp hp
    cases h : alookup code im with
    | none => rw [h] at hc; cases hc
    | some j => rw [h] at hc; simp only [Option.map_some, Option.some.injEq] at hc; rw [← hc]

/-! ### the highlights -/

/-- the colour of LED `i` given its colour `base` in the base frame -/
def highlight (d : Dev) (leds : List String) (m : Mapping) (base : RGB) (i : Nat) : RGB :=
  let im := indexMap leds
  let off : Int := d.semitone + d.octave * 12
  if lit im m (fun (p : Code × (Nat × Nat)) => baseOf p.2.1 off) (ownOn d off) i then d.cfg.colors.active
  else if lit im m (fun (p : Nat × Nat) => baseOf p.2 off) (extOn d d.channel (d.semitone + d.octave * 12)) i then
    d.cfg.colors.activeExternal
  else match (List.range 16).find? (fun ch =>
      lit im m (fun (p : Nat × Nat) => baseOf p.2 off) (extOn d ch (d.semitone + d.octave * 12)) i) with
    | some ch => chanColor ch
    | none => base

theorem findSome_range (P : Nat → Bool) (c : Nat → RGB) (L : List Nat) :
    L.findSome? (fun ch => if P ch then some (c ch) else none) = (L.find? P).map c := by
  induction L with
  | nil => rfl
  | cons x r ih =>
    simp only [List.findSome?_cons, List.find?_cons]
    cases h : P x with
    | true => simp
    | false => simp [ih]

/-- **refinement of the highlight passes**: on top of the base frame, every LED shows `highlight` -/
theorem frame_highlight (d : Dev) (devName : String) (leds : List String) (shifted : RGB × RGB × RGB) (m : Mapping)
    (hm : d.curMap = some m) (base : List RGB) (hb : frameBase true d devName leds shifted m = .ok base)
    (hlen : base.length = leds.length) :
    ∃ l, frame true d devName leds shifted = .ok l ∧ l.length = leds.length ∧
      ∀ i (hi : i < base.length), l[i]? = some (highlight d leds m base[i] i) := by
  have him := indexMap_lt leds
  unfold frame
  rw [hm]
  simp only
  unfold frameExt
  simp only
  rw [hb]
  -- the sixteen channel passes
  rw [foldl_writes (n := leds.length) _
    (fun ch => (extOn d ch (d.semitone + d.octave * 12)).flatMap
      (fun p => wNote (indexMap leds) m (baseOf p.2 (d.semitone + d.octave * 12)) (chanColor ch))) _ _ base hlen]
  rotate_left
  · intro ch l hl
    exact foldl_writes _ _ (fun p l hl => paintNote_eq _ him m _ _ l hl) _ l hl
  -- the current channel
  rw [foldl_writes (n := leds.length) _
    (fun p => wNote (indexMap leds) m (baseOf p.2 (d.semitone + d.octave * 12)) d.cfg.colors.activeExternal) _ _ _
    (by simpa using hlen)]
  rotate_left
  · intro p l hl; exact paintNote_eq _ him m _ _ l hl
  -- the device's own notes
  rw [foldl_writes (n := leds.length) _
    (fun p => wNote (indexMap leds) m (baseOf p.2.1 (d.semitone + d.octave * 12)) d.cfg.colors.active) _ _ _
    (by simpa using hlen)]
  rotate_left
  · intro p l hl; exact paintNote_eq _ him m _ _ l hl
  refine ⟨_, rfl, by simpa using hlen, ?_⟩
  intro i hi
  rw [← applyW_append, ← applyW_append, applyW_get _ _ i hi]
  congr 1
  rw [lastW_append, lastW_append, lastW_notes, lastW_notes, lastW_flatMap, List.reverse_reverse]
  have e : (fun ch => lastW ((extOn d ch (d.semitone + d.octave * 12)).flatMap
      (fun p => wNote (indexMap leds) m (baseOf p.2 (d.semitone + d.octave * 12)) (chanColor ch))) i) =
      (fun ch => if lit (indexMap leds) m (fun (p : Nat × Nat) => baseOf p.2 (d.semitone + d.octave * 12))
        (extOn d ch (d.semitone + d.octave * 12)) i then some (chanColor ch) else none) := by
    funext ch; exact lastW_notes _ _ _ _ _ _
  rw [e, findSome_range]
  unfold highlight
  simp only
  split
  · simp
  · split
    · simp
    · simp only [Option.none_or]
      cases List.find? _ (List.range 16) <;> simp

/-! ### the layout maps -/

theorem foldl_inv {α β} (Q : β → Prop) (g : β → α → β) (L : List α) (hg : ∀ b a, a ∈ L → Q b → Q (g b a)) :
    ∀ b, Q b → Q (L.foldl g b) := by
  induction L with
  | nil => intro b h; exact h
  | cons a r ih =>
    intro b h
    exact ih (fun b x hx => hg b x (List.mem_cons_of_mem _ hx)) _ (hg b a List.mem_cons_self h)

/-- `indexMap` sends a key code to an LED that carries that key's name -/
theorem indexMap_spec (leds : List String) (k i : Nat) (h : alookup k (indexMap leds) = some i) :
    ∃ name, leds[i]? = some name ∧ ledKey name = some k := by
  revert k i
  unfold indexMap
  apply foldl_inv (fun m => ∀ k i, alookup k m = some i → ∃ name, leds[i]? = some name ∧ ledKey name = some k)
  · intro m p hp hm k i hk
    split at hk
    · rename_i kk hkk
      by_cases e : k = kk
      · subst e
        rw [alookup_ainsert_self] at hk
        simp only [Option.some.injEq] at hk; subst hk
        exact ⟨p.1, List.mem_zipIdx_iff_getElem?.mp hp, hkk⟩
      · rw [alookup_ainsert_ne e] at hk; exact hm k i hk
    · exact hm k i hk
  · intro k i h; simp [alookup] at h

/-- two key codes never share an LED -/
theorem indexMap_inj (leds : List String) (k1 k2 i : Nat) (h1 : alookup k1 (indexMap leds) = some i)
    (h2 : alookup k2 (indexMap leds) = some i) : k1 = k2 := by
  obtain ⟨n1, e1, g1⟩ := indexMap_spec leds k1 i h1
  obtain ⟨n2, e2, g2⟩ := indexMap_spec leds k2 i h2
  rw [e1] at e2
  simp only [Option.some.injEq] at e2; subst e2
  rw [g1] at g2
  simpa using g2

theorem nameToIndex_spec (leds : List String) (name : String) (j : Nat) (h : alookup name (nameToIndex leds) = some j) :
    leds[j]? = some name := by
  revert name j
  unfold nameToIndex
  apply foldl_inv (fun m => ∀ name j, alookup name m = some j → leds[j]? = some name)
  · intro m p hp hm name j hk
    by_cases e : name = p.1
    · subst e
      rw [alookup_ainsert_self] at hk
      simp only [Option.some.injEq] at hk; subst hk
      exact List.mem_zipIdx_iff_getElem?.mp hp
    · rw [alookup_ainsert_ne e] at hk; exact hm name j hk
  · intro k i h; simp [alookup] at h

/-! ### the base frame -/

/-- a frame of `n` colours showing `v` at `i` -/
def Keeps (n i : Nat) (v : RGB) (f : Frame) : Prop := ∃ l, f = .ok l ∧ l.length = n ∧ l[i]? = some v

theorem setAt_keeps {n i : Nat} {v : RGB} {f : Frame} (h : Keeps n i v f) (j : Nat) (c : RGB) (hj : j < n) (hne : j ≠ i) :
    Keeps n i v (setAt f j c) := by
  obtain ⟨l, rfl, hl, hv⟩ := h
  refine ⟨l.set j c, by simp [setAt, hl, hj], by simp [hl], ?_⟩
  rw [List.getElem?_set_ne hne]; exact hv

/-- **unavailable**: the LED of a key that is bound to no action (and is not a strip LED) is in the 'unavailable' colour
    before the keyboard mapping is painted -/
theorem framePre_unavailable (d : Dev) (devName : String) (leds : List String) (i : Nat) (hi : i < leds.length)
    (hstrip : ∀ name ∈ stripLeds devName, leds[i]? ≠ some name)
    (hact : ∀ a code, actionCode d.cfg a = some code → alookup code (indexMap leds) ≠ some i) :
    Keeps leds.length i d.cfg.colors.unavailable (framePre true d devName leds) := by
  apply framePre_ind (Keeps leds.length i d.cfg.colors.unavailable)
  · exact ⟨_, rfl, by simp, by simp [hi]⟩
  · intro f name hname hf
    split
    · rename_i j hj
      apply setAt_keeps hf j off (nameToIndex_lt leds name j hj)
      intro e; subst e
      exact hstrip name hname (nameToIndex_spec leds name j hj)
    · exact hf
  · intro f a c hf
    unfold paintAction
    simp only [if_true]
    cases ha : actionCode d.cfg a with
    | none => exact hf
    | some code =>
      simp only
      cases hc : alookup code (indexMap leds) with
      | none => exact hf
      | some j =>
        simp only
        obtain ⟨l, rfl, hl, hv⟩ := hf
        simp only
        have hj : j < l.length := hl ▸ indexMap_lt leds code j hc
        rw [if_pos hj]
        refine ⟨_, rfl, by simp [hl], ?_⟩
        have hne : j ≠ i := by
          intro e; subst e; exact hact a code ha hc
        rw [List.getElem?_set_ne hne]; exact hv

/-- writes of one entry of the keyboard mapping -/
def wKey (im : List (Nat × Nat)) (m : Mapping) (shifted : RGB × RGB × RGB) (offset : Int)
    (p : (Sub × Code) × Key) : List W :=
  match alookup p.1.2 im with
  | none => []
  | some i =>
    let x : Int := (p.2.note : Int) + offset
    if x < 0 ∨ x > 127 then [] else [(i, classColor m shifted x.toNat)]

theorem findSome_unique {α β} (f : α → Option β) (L : List α) (p : α) (hp : p ∈ L)
    (h : ∀ q ∈ L, q ≠ p → f q = none) : L.findSome? f = f p := by
  induction L with
  | nil => cases hp
  | cons x r ih =>
    simp only [List.findSome?_cons]
    by_cases e : x = p
    · subst e
      cases hx : f x with
      | some b => rfl
      | none =>
        simp only
        apply List.findSome?_eq_none_iff.mpr
        intro q hq
        by_cases e2 : q = x
        · subst e2; exact hx
        · exact h q (List.mem_cons_of_mem _ hq) e2
    · rw [h x List.mem_cons_self e]
      simp only
      rcases List.mem_cons.mp hp with e2 | e2
      · exact absurd e2.symm e
      · exact ih e2 (fun q hq => h q (List.mem_cons_of_mem _ hq))

/-- **pitch class**: the LED of a mapped key shows, in the base frame, the class colour of its transposed note when
    that is a MIDI note, and otherwise what the pre-frame shows there -/
theorem frameBase_key (d : Dev) (devName : String) (leds : List String) (shifted : RGB × RGB × RGB) (m : Mapping)
    (hnd : (akeys m.midi).Nodup) (p : (Sub × Code) × Key) (hp : p ∈ m.midi) (hsub : p.1.1 = "")
    (i : Nat) (hi : alookup p.1.2 (indexMap leds) = some i) :
    ∃ pre base, framePre true d devName leds = .ok pre ∧ frameBase true d devName leds shifted m = .ok base ∧
      pre.length = leds.length ∧ base.length = leds.length ∧
      base[i]? = some (
        let x : Int := (p.2.note : Int) + (d.semitone + d.octave * 12)
        if x < 0 ∨ x > 127 then pre[i]! else classColor m shifted x.toNat) := by
  obtain ⟨pre, hpre, hlen⟩ := framePre_isOk d devName leds
  have hil : i < pre.length := hlen ▸ indexMap_lt leds _ i hi
  refine ⟨pre, applyW pre ((m.midi.filter (fun p => p.1.1 = "")).flatMap
    (wKey (indexMap leds) m shifted (d.semitone + d.octave * 12))), hpre, ?_, hlen, by simpa using hlen, ?_⟩
  · unfold frameBase
    simp only
    rw [hpre]
    apply foldl_writes (n := leds.length) _ _ _ _ pre hlen
    intro q l hl
    unfold wKey
    cases hq : alookup q.1.2 (indexMap leds) with
    | none => rfl
    | some j =>
      simp only
      split
      · rfl
      · have hj : j < l.length := hl ▸ indexMap_lt leds _ j hq
        simp [setAt, hj, applyW]
  · rw [applyW_get _ _ i hil, lastW_flatMap]
    congr 1
    rw [findSome_unique _ _ p]
    · unfold wKey
      rw [hi]
      simp only
      split
      · simp [lastW, hil]
      · simp [lastW]
    · simp [hp, hsub]
    · intro q hq hne
      have hq' : q ∈ m.midi ∧ q.1.1 = "" := by simpa using hq
      unfold wKey
      cases hqi : alookup q.1.2 (indexMap leds) with
      | none => rfl
      | some j =>
        simp only
        split
        · rfl
        · simp only [lastW, Option.none_or]
          have hji : j ≠ i := by
            intro e; subst e
            have hc : q.1.2 = p.1.2 := indexMap_inj leds _ _ _ hqi hi
            have hk : q.1 = p.1 := Prod.ext (hq'.2.trans hsub.symm) hc
            have hl1 := alookup_of_mem_nodup hnd (show (q.1, q.2) ∈ m.midi from hq'.1)
            have hl2 := alookup_of_mem_nodup hnd (show (p.1, p.2) ∈ m.midi from hp)
            rw [hk, hl2] at hl1
            simp only [Option.some.injEq] at hl1
            exact hne (Prod.ext hk hl1.symm)
          simp [hji]

/-- an LED that belongs to no key of the keyboard mapping keeps, in the base frame, what the pre-frame shows -/
theorem frameBase_other (d : Dev) (devName : String) (leds : List String) (shifted : RGB × RGB × RGB) (m : Mapping)
    (i : Nat) (hil : i < leds.length)
    (hno : ∀ q ∈ m.midi, q.1.1 = "" → alookup q.1.2 (indexMap leds) ≠ some i) :
    ∃ pre base, framePre true d devName leds = .ok pre ∧ frameBase true d devName leds shifted m = .ok base ∧
      pre.length = leds.length ∧ base.length = leds.length ∧ base[i]? = pre[i]? := by
  obtain ⟨pre, hpre, hlen⟩ := framePre_isOk d devName leds
  have hil' : i < pre.length := hlen ▸ hil
  refine ⟨pre, applyW pre ((m.midi.filter (fun p => p.1.1 = "")).flatMap
    (wKey (indexMap leds) m shifted (d.semitone + d.octave * 12))), hpre, ?_, hlen, by simpa using hlen, ?_⟩
  · unfold frameBase
    simp only
    rw [hpre]
    apply foldl_writes (n := leds.length) _ _ _ _ pre hlen
    intro q l hl
    unfold wKey
    cases hq : alookup q.1.2 (indexMap leds) with
    | none => rfl
    | some j =>
      simp only
      split
      · rfl
      · have hj : j < l.length := hl ▸ indexMap_lt leds _ j hq
        simp [setAt, hj, applyW]
  · rw [applyW_get _ _ i hil', lastW_flatMap]
    have : (m.midi.filter (fun p => p.1.1 = "")).reverse.findSome?
        (fun x => lastW (wKey (indexMap leds) m shifted (d.semitone + d.octave * 12) x) i) = none := by
      apply List.findSome?_eq_none_iff.mpr
      intro q hq
      have hq' : q ∈ m.midi ∧ q.1.1 = "" := by simpa using hq
      unfold wKey
      cases hqi : alookup q.1.2 (indexMap leds) with
      | none => rfl
      | some j =>
        simp only
        split
        · rfl
        · have hji : j ≠ i := by
            intro e; subst e; exact hno q hq'.1 hq'.2 hqi
          simp [lastW, hji]
    rw [this]
    simp [hil']

/-! ### the action keys -/

/-- the LED of the key an action is bound to -/
def actionLed (cfg : Config) (leds : List String) (a : Action) : Option Nat :=
  (actionCode cfg a).bind (fun code => alookup code (indexMap leds))

/-- one checked action paint is one optional write -/
theorem paintAction_write (cfg : Config) (leds : List String) (l : List RGB) (hl : l.length = leds.length) (a : Action) (c : RGB) :
    paintAction true cfg (indexMap leds) (.ok l) a c =
      .ok (applyW l (match actionLed cfg leds a with | some i => [(i, c)] | none => [])) := by
  unfold paintAction actionLed
  simp only [if_true]
  cases actionCode cfg a with
  | none => rfl
  | some code =>
    simp only [Option.bind_some]
    cases hc : alookup code (indexMap leds) with
    | none => rfl
    | some i =>
      have hi : i < l.length := hl ▸ indexMap_lt leds code i hc
      simp [hi, applyW]

def actionWrites (cfg : Config) (leds : List String) (ps : List (Action × RGB)) : List W :=
  ps.flatMap (fun p => match actionLed cfg leds p.1 with | some i => [(i, p.2)] | none => [])

theorem foldl_paintAction (cfg : Config) (leds : List String) (ps : List (Action × RGB)) :
    ∀ (l : List RGB), l.length = leds.length →
      ps.foldl (fun f p => paintAction true cfg (indexMap leds) f p.1 p.2) (.ok l) = .ok (applyW l (actionWrites cfg leds ps)) :=
  foldl_writes (n := leds.length) _ _ (fun p l hl => paintAction_write cfg leds l hl p.1 p.2) ps

/-- two different actions are never bound to the same key (the action table is a Go map keyed by key code) -/
theorem actionCode_inj (cfg : Config) (hn : (akeys cfg.actions).Nodup) (a b : Action) (k : Nat)
    (ha : actionCode cfg a = some k) (hb : actionCode cfg b = some k) : a = b := by
  unfold actionCode at ha hb
  obtain ⟨pa, hpa, rfl⟩ := Option.map_eq_some_iff.mp ha
  obtain ⟨pb, hpb, hk⟩ := Option.map_eq_some_iff.mp hb
  have ma := List.mem_of_find?_eq_some hpa
  have mb := List.mem_of_find?_eq_some hpb
  have ea : pa.2 = a := by simpa using List.find?_some hpa
  have eb : pb.2 = b := by simpa using List.find?_some hpb
  have l1 := alookup_of_mem_nodup hn (show (pa.1, pa.2) ∈ cfg.actions from ma)
  have l2 := alookup_of_mem_nodup hn (show (pb.1, pb.2) ∈ cfg.actions from mb)
  rw [hk, l1] at l2
  simp only [Option.some.injEq] at l2
  rw [← ea, ← eb, l2]

/-- colour of the last paint of action `a` -/
def lastPaint (ps : List (Action × RGB)) (a : Action) : Option RGB :=
  match ps with
  | [] => none
  | p :: r => (lastPaint r a).or (if p.1 = a then some p.2 else none)

theorem lastW_actionWrites (cfg : Config) (leds : List String) (hn : (akeys cfg.actions).Nodup)
    (a : Action) (i : Nat) (hi : actionLed cfg leds a = some i) (ps : List (Action × RGB)) :
    lastW (actionWrites cfg leds ps) i = lastPaint ps a := by
  induction ps with
  | nil => rfl
  | cons p r ih =>
    unfold actionWrites at ih ⊢
    simp only [List.flatMap_cons, lastW_append, ih, lastPaint]
    congr 1
    by_cases hp : p.1 = a
    · rw [hp, hi]; simp [lastW]
    · simp only [hp, if_false]
      cases hq : actionLed cfg leds p.1 with
      | none => rfl
      | some j =>
        simp only [lastW, Option.none_or]
        have hji : j ≠ i := by
          intro e; subst e
          -- both actions light LED j: same key, hence the same action
          unfold actionLed at hq hi
          cases hca : actionCode cfg p.1 with
          | none => rw [hca] at hq; cases hq
          | some k1 =>
            cases hcb : actionCode cfg a with
            | none => rw [hcb] at hi; cases hi
            | some k2 =>
              rw [hca] at hq; rw [hcb] at hi
              simp only [Option.bind_some] at hq hi
              have := indexMap_inj leds k1 k2 j hq hi
              subst this
              exact hp (actionCode_inj cfg hn _ _ _ hca hcb)
        simp [hji]

/-- **action keys**: in the frame before the keyboard mapping is painted, the LED of the key an action is bound to shows
    the colour of the last paint of that action — provided no strip LED shares its index -/
theorem framePre_action (d : Dev) (devName : String) (leds : List String) (hn : (akeys d.cfg.actions).Nodup)
    (a : Action) (i : Nat) (hi : actionLed d.cfg leds a = some i) :
    ∃ strip pre, frameStrip true d devName leds = .ok strip ∧ framePre true d devName leds = .ok pre ∧
      strip.length = leds.length ∧ pre.length = leds.length ∧
      pre[i]? = some ((lastPaint (actionPaints d) a).getD strip[i]!) := by
  have hs : IsOk leds.length (frameStrip true d devName leds) := by
    unfold frameStrip
    simp only [if_true]
    apply foldl_isOk
    · intro f name hf
      split
      · rename_i j hj; exact setAt_isOk hf j off (nameToIndex_lt leds name j hj)
      · exact hf
    · exact ⟨_, rfl, by simp⟩
  obtain ⟨strip, hstrip, hlen⟩ := hs
  have hil : i < strip.length := by
    unfold actionLed at hi
    cases hc : actionCode d.cfg a with
    | none => rw [hc] at hi; cases hi
    | some k => rw [hc] at hi; simp only [Option.bind_some] at hi; rw [hlen]; exact indexMap_lt leds k i hi
  refine ⟨strip, applyW strip (actionWrites d.cfg leds (actionPaints d)), hstrip, ?_, hlen, by simpa using hlen, ?_⟩
  · unfold framePre
    rw [hstrip, foldl_paintAction d.cfg leds _ strip hlen]
  · rw [applyW_get _ _ i hil, lastW_actionWrites d.cfg leds hn a i hi]
    congr 1
    cases lastPaint (actionPaints d) a with
    | some c => rfl
    | none => simp [hil]

theorem lastPaint_append (a b : List (Action × RGB)) (x : Action) :
    lastPaint (a ++ b) x = (lastPaint b x).or (lastPaint a x) := by
  induction a with
  | nil => simp [lastPaint]
  | cons p r ih => simp only [List.cons_append, lastPaint, ih, Option.or_assoc]

theorem lastPaint_ite (c : Prop) [Decidable c] (p : Action × RGB) (x : Action) :
    lastPaint (if c then [p] else []) x = if c ∧ p.1 = x then some p.2 else none := by
  by_cases hc : c <;> by_cases hp : p.1 = x <;> simp [hc, hp, lastPaint]

/-- what each indicator key shows (the colour of the last paint of its action) -/
theorem lastPaint_values (d : Dev) :
    lastPaint (actionPaints d) .panic = some red ∧
    lastPaint (actionPaints d) .octaveUp = some (if d.octave > 0 then (if d.octave = 1 then white2 else white3) else white1) ∧
    lastPaint (actionPaints d) .octaveDown = some (if d.octave < 0 then (if d.octave = -1 then white2 else white3) else white1) ∧
    lastPaint (actionPaints d) .semitoneUp = some (if d.semitone > 0 then (if d.semitone = 1 then white2 else white3) else white1) ∧
    lastPaint (actionPaints d) .semitoneDown = some (if d.semitone < 0 then (if d.semitone = -1 then white2 else white3) else white1) ∧
    lastPaint (actionPaints d) .mappingUp = some (if (d.mapping : Int) = (d.cfg.maps.length : Int) - 1 then white1 else white3) ∧
    lastPaint (actionPaints d) .mappingDown = some (if d.mapping = 0 then white1 else white3) ∧
    lastPaint (actionPaints d) .channelUp = some (if d.channel = 15 then third (chanColor d.channel) else chanColor d.channel) ∧
    lastPaint (actionPaints d) .channelDown = some (if d.channel = 0 then third (chanColor d.channel) else chanColor d.channel) ∧
    lastPaint (actionPaints d) .multinote = some white1 ∧
    lastPaint (actionPaints d) .mapping = none ∧ lastPaint (actionPaints d) .channel = none ∧
    lastPaint (actionPaints d) .learning = none ∧ lastPaint (actionPaints d) .exit = none ∧
    lastPaint (actionPaints d) .none = none := by
  unfold actionPaints
  simp only [lastPaint_append, lastPaint_ite, lastPaint, reduceCtorEq, if_false, if_true, and_false, and_true, Option.or_none,
    Option.none_or, Option.some_or, Option.or_some]
  (repeat' apply And.intro) <;> (repeat' split) <;> simp_all

end Hidi.LedSpec
