/-
  HidiProofs.AnaIndep — the key handler neither reads nor writes the analog note tracker: running it on a state and on
  the same state with another `anaTr` gives the same messages and the same state up to `anaTr`.  This transfers every
  per-event theorem proved for key-only states (`DInv`, where `anaTr = []`) to the states of mixed histories.
-/
import HidiProofs.EngineSimKey
import Mathlib.Tactic.SplitIfs
namespace Hidi.AnaIndep
open Hidi Hidi.Spec Hidi.EngineSim

/-- replace the analog tracker -/
def setAna (d : Dev) (a : List ((Code × Bool) × (Nat × Nat))) : Dev := { d with anaTr := a }

@[simp] theorem setAna_setAna (d : Dev) (a b) : setAna (setAna d a) b = setAna d b := rfl
@[simp] theorem setAna_self (d : Dev) : setAna d d.anaTr = d := rfl

def liftR (r : Dev × List Out) (a : List ((Code × Bool) × (Nat × Nat))) : Dev × List Out := (setAna r.1 a, r.2)

section proj
variable (d : Dev) (a : List ((Code × Bool) × (Nat × Nat)))
@[simp] theorem setAna_cfg : (setAna d a).cfg = d.cfg := rfl
@[simp] theorem setAna_octave : (setAna d a).octave = d.octave := rfl
@[simp] theorem setAna_semitone : (setAna d a).semitone = d.semitone := rfl
@[simp] theorem setAna_channel : (setAna d a).channel = d.channel := rfl
@[simp] theorem setAna_velocity : (setAna d a).velocity = d.velocity := rfl
@[simp] theorem setAna_mapping : (setAna d a).mapping = d.mapping := rfl
@[simp] theorem setAna_noteTr : (setAna d a).noteTr = d.noteTr := rfl
@[simp] theorem setAna_counter : (setAna d a).counter = d.counter := rfl
@[simp] theorem setAna_actTr : (setAna d a).actTr = d.actTr := rfl
@[simp] theorem setAna_keyTr : (setAna d a).keyTr = d.keyTr := rfl
@[simp] theorem setAna_anaTr : (setAna d a).anaTr = a := rfl
@[simp] theorem setAna_curMap : (setAna d a).curMap = d.curMap := rfl
@[simp] theorem setAna_count (ch n : Nat) : (setAna d a).count ch n = d.count ch n := rfl
@[simp] theorem setAna_transposed (n : Nat) : (setAna d a).transposed n = d.transposed n := rfl
@[simp] theorem setAna_exitComplete : (setAna d a).exitComplete = d.exitComplete := rfl
end proj

theorem noteOn_ana (d : Dev) (a) (sub : Sub) (code : Code) :
    (setAna d a).noteOn sub code = liftR (d.noteOn sub code) a := by
  unfold Dev.noteOn liftR
  simp only [setAna_curMap, setAna_transposed, setAna_count, setAna_cfg, setAna_channel, setAna_velocity]
  split
  · rfl
  · split
    · rfl
    · rename_i key _
      by_cases h : d.transposed key.note < 0 ∨ d.transposed key.note > 127
      · simp only [h, if_true]
      · simp only [h, if_false]; rfl

theorem noteOff_ana (d : Dev) (a) (code : Code) :
    (setAna d a).noteOff code = liftR (d.noteOff code) a := by
  unfold Dev.noteOff liftR
  simp only [setAna_noteTr, setAna_count, setAna_cfg]
  split <;> rfl

theorem checkDouble_ana (d : Dev) (a) :
    (setAna d a).checkDouble = (setAna d.checkDouble.1 a, d.checkDouble.2) := by
  unfold Dev.checkDouble
  simp only [setAna_actTr]
  by_cases h0 : d.actTr.length > 1
  · simp only [h0, if_true]
    by_cases h1 : Action.mappingUp ∈ d.actTr ∧ Action.mappingDown ∈ d.actTr
    · simp only [h1, and_self, if_true]; rfl
    · simp only [h1, if_false]
      by_cases h2 : Action.octaveUp ∈ d.actTr ∧ Action.octaveDown ∈ d.actTr
      · simp only [h2, and_self, if_true]; rfl
      · simp only [h2, if_false]
        by_cases h3 : Action.semitoneUp ∈ d.actTr ∧ Action.semitoneDown ∈ d.actTr
        · simp only [h3, and_self, if_true]; rfl
        · simp only [h3, if_false]
          by_cases h4 : Action.channelUp ∈ d.actTr ∧ Action.channelDown ∈ d.actTr
          · simp only [h4, and_self, if_true]; rfl
          · simp only [h4, if_false]
  · simp only [h0, if_false]

theorem invokePress_ana (d : Dev) (a) (x : Action) :
    (setAna d a).invokePress x = liftR (d.invokePress x) a := by
  unfold Dev.invokePress liftR
  cases x <;> simp only [setAna_channel, setAna_mapping, setAna_cfg] <;>
    first
    | rfl
    | (split_ifs with h <;> simp only [h, if_true, if_false, not_true_eq_false, not_false_eq_true, ne_eq] <;> rfl)

theorem invokeRelease_ana (d : Dev) (a) (x : Action) :
    (setAna d a).invokeRelease x = setAna (d.invokeRelease x) a := by
  unfold Dev.invokeRelease
  cases x <;> rfl

theorem multinote_ana (d : Dev) (a) : (setAna d a).multinote = setAna d.multinote a := by
  unfold Dev.multinote
  simp only [setAna_noteTr]
  split <;> rfl

theorem kt_ana (d : Dev) (a) (code : Code) (val : Int) : kt (setAna d a) code val = setAna (kt d code val) a := by
  unfold kt
  by_cases h : val = 1
  · simp only [h, if_true]; rfl
  · simp only [h, if_false]; rfl

theorem actPress_ana (d : Dev) (a) (x : Action) : actPress (setAna d a) x = liftR (actPress d x) a := by
  unfold actPress
  have e : ({ setAna d a with actTr := sinsert x (setAna d a).actTr } : Dev) = setAna { d with actTr := sinsert x d.actTr } a := rfl
  simp only [e, checkDouble_ana]
  by_cases h : ({ d with actTr := sinsert x d.actTr } : Dev).checkDouble.2 = true
  · simp only [h, if_true]; rfl
  · simp only [h, if_false, Bool.false_eq_true]
    rw [invokePress_ana]

theorem actRelease_ana (d : Dev) (a) (x : Action) : actRelease (setAna d a) x = setAna (actRelease d x) a := by
  unfold actRelease
  by_cases h : x = .multinote
  · simp only [h, if_true, multinote_ana, invokeRelease_ana]; rfl
  · simp only [h, if_false, invokeRelease_ana]; rfl

/-- **the key handler does not depend on the analog tracker and does not touch it** -/
theorem handleKey_ana (d : Dev) (a) {m : Mapping} (hm : d.curMap = some m) (sub : Sub) (code : Code) (val : Int) :
    (setAna d a).handleKey sub code val = liftR (d.handleKey sub code val) a := by
  have hm' : (setAna d a).curMap = some m := hm
  rw [handleKey_eq0 hm', handleKey_eq0 hm]
  simp only [kt_ana, setAna_exitComplete, setAna_cfg, actPress_ana, actRelease_ana, noteOn_ana, noteOff_ana]
  split_ifs <;> (try split) <;> rfl

/-! ### transfer to the states of mixed histories -/

/-- the invariant of key handling, for states whose analog tracker may be non-empty: `DInv` with the analog tracker set
    aside -/
def KInv (cfg : Config) (d : Dev) : Prop := DInv cfg (setAna d [])

theorem KInv.curMap {cfg : Config} {d : Dev} (h : KInv cfg d) : ∃ m, d.curMap = some m := by
  have hc : d.cfg = cfg := h.cfg_eq
  have hm : d.mapping < cfg.maps.length := h.map
  unfold Dev.curMap
  rw [hc]
  exact ⟨cfg.maps[d.mapping], by simp [hm]⟩

/-- handling a key in a state of a mixed history = handling it with the analog tracker set aside, and putting it back -/
theorem handleKey_split {cfg : Config} {d : Dev} (h : KInv cfg d) (sub : Sub) (code : Code) (val : Int) :
    d.handleKey sub code val = liftR ((setAna d []).handleKey sub code val) d.anaTr := by
  obtain ⟨m, hm⟩ := h.curMap
  have := handleKey_ana (setAna d []) d.anaTr (m := m) hm sub code val
  simpa using this

end Hidi.AnaIndep
