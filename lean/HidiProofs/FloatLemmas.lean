/-
  Lemmas about the exact binary64 rounding model of `Hidi/Float.lean`:
  `pow2`, `ilog2`, `roundNE`, `rnd53` (sign symmetry, exact representability, monotonicity,
  relative error), `fdiv_self`, `ftrunc`, `fround`.

  Bridges to Mathlib: `pow2 e = (2:ℚ)^e`, `rabs q = |q|`, `Rat.floor q = ⌊q⌋` (by `rfl`).
-/
import Mathlib.Tactic.Ring
import Mathlib.Tactic.Linarith
import Mathlib.Tactic.Positivity
import Mathlib.Tactic.FieldSimp
import Mathlib.Tactic.NormNum
import Mathlib.Data.Rat.Floor
import Mathlib.Algebra.Order.Floor.Ring
import Hidi.Float

namespace Hidi.FloatLemmas
open Hidi

theorem pow2_eq (e : Int) : pow2 e = (2:ℚ)^e := by
  unfold pow2
  split
  · rename_i h
    obtain ⟨n, rfl⟩ := Int.eq_ofNat_of_zero_le h
    simp
  · rename_i h
    have h' : e ≤ 0 := by omega
    obtain ⟨n, rfl⟩ := Int.exists_eq_neg_ofNat h'
    simp

theorem rabs_eq (q : ℚ) : rabs q = |q| := by
  unfold rabs
  split
  · rename_i h; rw [abs_of_neg h]
  · rename_i h; rw [abs_of_nonneg (not_lt.mp h)]

theorem floor_eq (q : ℚ) : q.floor = ⌊q⌋ := rfl

theorem roundNE_def (q : ℚ) : roundNE q =
    if q - ⌊q⌋ < 1/2 then ⌊q⌋ else if 1/2 < q - ⌊q⌋ then ⌊q⌋+1 else if ⌊q⌋ % 2 = 0 then ⌊q⌋ else ⌊q⌋+1 := rfl

theorem pow2_pos (e : Int) : 0 < pow2 e := by
  rw [pow2_eq]; exact zpow_pos (by norm_num) e

theorem pow2_add (a b : Int) : pow2 (a + b) = pow2 a * pow2 b := by
  simp only [pow2_eq]; exact zpow_add₀ (by norm_num) a b

theorem roundNE_int (n : Int) : roundNE (n : Rat) = n := by
  rw [roundNE_def]; simp

theorem roundNE_floor_le (q : ℚ) : ⌊q⌋ ≤ roundNE q := by
  rw [roundNE_def]; split_ifs <;> omega

theorem roundNE_le_floor_succ (q : ℚ) : roundNE q ≤ ⌊q⌋ + 1 := by
  rw [roundNE_def]; split_ifs <;> omega

theorem roundNE_err' (q : Rat) : |((roundNE q : ℤ) : ℚ) - q| ≤ 1/2 := by
  have h1 := Int.floor_le q
  have h2 := Int.lt_floor_add_one q
  rw [roundNE_def, abs_le]
  split_ifs <;> push_cast <;> constructor <;> linarith

theorem roundNE_err (q : Rat) : rabs ((roundNE q : Rat) - q) ≤ 1/2 := by
  rw [rabs_eq]; exact roundNE_err' q

theorem roundNE_mono {a b : Rat} (h : a ≤ b) : roundNE a ≤ roundNE b := by
  rcases lt_or_eq_of_le (Int.floor_mono h) with hlt | heq
  · calc roundNE a ≤ ⌊a⌋ + 1 := roundNE_le_floor_succ a
      _ ≤ ⌊b⌋ := hlt
      _ ≤ roundNE b := roundNE_floor_le b
  · rw [roundNE_def, roundNE_def, heq]
    split_ifs <;> first | omega | (exfalso; linarith)

theorem le_roundNE_of_le {n : ℤ} {q : ℚ} (h : (n:ℚ) ≤ q) : n ≤ roundNE q := by
  have := roundNE_mono h; rwa [roundNE_int] at this

theorem roundNE_le_of_le {n : ℤ} {q : ℚ} (h : q ≤ (n:ℚ)) : roundNE q ≤ n := by
  have := roundNE_mono h; rwa [roundNE_int] at this

/-! ### ilog2 -/

theorem ilog2_aux (n d A B q : ℚ) (hA1 : A ≤ n) (hA2 : n < 2*A) (hB1 : B ≤ d) (hB2 : d < 2*B)
    (_hA : 0 < A) (hB : 0 < B) (hq : q = n/d) :
    (A/B ≤ q → q < A/B*2) ∧ (q < A / B → A/B*2⁻¹ ≤ q) := by
  have hd : 0 < d := by linarith
  subst hq
  constructor
  · intro _
    rw [div_lt_iff₀ hd, div_mul_eq_mul_div, div_mul_eq_mul_div, lt_div_iff₀ hB]
    nlinarith
  · intro _
    rw [le_div_iff₀ hd, ← div_eq_mul_inv, div_div, div_mul_eq_mul_div, div_le_iff₀ (by positivity)]
    nlinarith

theorem ilog2_spec' {q : Rat} (hq : 0 < q) : (2:ℚ)^(ilog2 q) ≤ q ∧ q < (2:ℚ)^(ilog2 q + 1) := by
  have hnum : 0 < q.num := Rat.num_pos.mpr hq
  obtain ⟨n, hn⟩ := Int.eq_ofNat_of_zero_le hnum.le
  have hn0 : n ≠ 0 := by rintro rfl; simp [hn] at hnum
  have hd0 : q.den ≠ 0 := q.den_nz
  have hqe : q = (n:ℚ) / (q.den : ℚ) := by
    conv_lhs => rw [← Rat.num_div_den q, hn]
    simp
  have hA1 : ((2:ℚ)^n.log2) ≤ n := by exact_mod_cast Nat.log2_self_le hn0
  have hA2 : (n:ℚ) < 2 * (2:ℚ)^n.log2 := by
    have := @Nat.lt_log2_self n
    rw [pow_succ] at this
    have h2 : ((n:ℕ):ℚ) < ((2 ^ n.log2 * 2 : ℕ) : ℚ) := by exact_mod_cast this
    push_cast at h2; linarith
  have hB1 : ((2:ℚ)^q.den.log2) ≤ q.den := by exact_mod_cast Nat.log2_self_le hd0
  have hB2 : (q.den:ℚ) < 2 * (2:ℚ)^q.den.log2 := by
    have := @Nat.lt_log2_self q.den
    rw [pow_succ] at this
    have h2 : ((q.den:ℕ):ℚ) < ((2 ^ q.den.log2 * 2 : ℕ) : ℚ) := by exact_mod_cast this
    push_cast at h2; linarith
  have hApos : (0:ℚ) < (2:ℚ)^n.log2 := by positivity
  have hBpos : (0:ℚ) < (2:ℚ)^q.den.log2 := by positivity
  have hdpos : (0:ℚ) < q.den := by exact_mod_cast q.den_pos
  have hnpos : (0:ℚ) < n := by exact_mod_cast Nat.pos_of_ne_zero hn0
  have two_ne : (2:ℚ) ≠ 0 := by norm_num
  have he0 : (2:ℚ)^((q.num.toNat.log2 : Int) - (q.den.log2 : Int)) = (2:ℚ)^n.log2 / (2:ℚ)^q.den.log2 := by
    rw [hn]; simp only [Int.toNat_natCast]
    rw [zpow_sub₀ two_ne, zpow_natCast, zpow_natCast]
  obtain ⟨h1, h2⟩ := ilog2_aux (n:ℚ) (q.den:ℚ) _ _ q hA1 hA2 hB1 hB2 hApos hBpos hqe
  unfold ilog2
  simp only [pow2_eq]
  split
  · rename_i h
    refine ⟨h, ?_⟩
    rw [zpow_add_one₀ two_ne]
    rw [he0] at h ⊢
    exact h1 h
  · rename_i h
    rw [not_le] at h
    rw [sub_add_cancel]
    refine ⟨?_, h⟩
    rw [zpow_sub_one₀ two_ne]
    rw [he0] at h ⊢
    exact h2 h

theorem ilog2_spec {q : Rat} (hq : 0 < q) : pow2 (ilog2 q) ≤ q ∧ q < pow2 (ilog2 q + 1) := by
  simp only [pow2_eq]; exact ilog2_spec' hq

theorem ilog2_unique {q : ℚ} {e : ℤ} (h1 : (2:ℚ)^e ≤ q) (h2 : q < (2:ℚ)^(e+1)) : ilog2 q = e := by
  have hq : 0 < q := lt_of_lt_of_le (zpow_pos (by norm_num) e) h1
  obtain ⟨h3, h4⟩ := ilog2_spec' hq
  have a : e < ilog2 q + 1 := (zpow_lt_zpow_iff_right₀ (by norm_num : (1:ℚ) < 2)).mp (lt_of_le_of_lt h1 h4)
  have b : ilog2 q < e + 1 := (zpow_lt_zpow_iff_right₀ (by norm_num : (1:ℚ) < 2)).mp (lt_of_le_of_lt h3 h2)
  omega

theorem ilog2_mono {a b : ℚ} (ha : 0 < a) (h : a ≤ b) : ilog2 a ≤ ilog2 b := by
  obtain ⟨h1, h2⟩ := ilog2_spec' ha
  obtain ⟨h3, h4⟩ := ilog2_spec' (lt_of_lt_of_le ha h)
  have : ilog2 a < ilog2 b + 1 := (zpow_lt_zpow_iff_right₀ (by norm_num : (1:ℚ) < 2)).mp (by linarith)
  omega

/-! ### rnd53 -/

theorem two_ne : (2:ℚ) ≠ 0 := by norm_num
theorem one_lt_two : (1:ℚ) < 2 := by norm_num

theorem zpow2_pos (e : ℤ) : (0:ℚ) < 2 ^ e := zpow_pos (by norm_num) e

theorem zpow2_split (k e : ℤ) : (2:ℚ)^k * 2^(e - k) = 2^e := by
  rw [← zpow_add₀ two_ne]; congr 1; ring

theorem rnd53_zero : rnd53 0 = 0 := by simp [rnd53]

theorem rnd53_pos_eq {q : ℚ} (hq : 0 < q) :
    rnd53 q = (roundNE (q / 2^(ilog2 q - 52)) : ℚ) * 2^(ilog2 q - 52) := by
  unfold rnd53
  have h1 : q ≠ 0 := hq.ne'
  have h2 : ¬ q < 0 := not_lt.mpr hq.le
  have h3 : rabs q = q := by rw [rabs_eq, abs_of_pos hq]
  simp only [h1, h2, h3, if_false, pow2_eq]

theorem rnd53_neg (q : Rat) : rnd53 (-q) = -rnd53 q := by
  have key : ∀ q : ℚ, 0 < q → rnd53 (-q) = -rnd53 q := by
    intro q hq
    rw [rnd53_pos_eq hq]
    unfold rnd53
    have h1 : -q ≠ 0 := neg_ne_zero.mpr hq.ne'
    have h2 : -q < 0 := by linarith
    have h3 : rabs (-q) = q := by rw [rabs_eq, abs_neg, abs_of_pos hq]
    simp only [h1, h2, h3, if_false, if_true, pow2_eq]
  rcases lt_trichotomy q 0 with h | h | h
  · have := key (-q) (by linarith)
    rw [neg_neg] at this; rw [this, neg_neg]
  · subst h; simp [rnd53_zero]
  · exact key q h

/-- the scaled significand lies in [2^52, 2^53) -/
theorem scaled_bounds {q : ℚ} (hq : 0 < q) :
    ((2^52 : ℤ) : ℚ) ≤ q / 2^(ilog2 q - 52) ∧ q / 2^(ilog2 q - 52) < ((2^53 : ℤ) : ℚ) := by
  obtain ⟨h1, h2⟩ := ilog2_spec' hq
  have hs := zpow2_pos (ilog2 q - 52)
  have e1 : (2:ℚ)^(ilog2 q) = ((2^52 : ℤ) : ℚ) * 2^(ilog2 q - 52) := by
    rw [← zpow2_split 52 (ilog2 q)]; norm_num
  have e2 : (2:ℚ)^(ilog2 q + 1) = ((2^53 : ℤ) : ℚ) * 2^(ilog2 q - 52) := by
    rw [← zpow2_split 53 (ilog2 q + 1)]
    have : ilog2 q + 1 - 53 = ilog2 q - 52 := by ring
    rw [this]; norm_num
  rw [le_div_iff₀ hs, div_lt_iff₀ hs, ← e1, ← e2]
  exact ⟨h1, h2⟩

theorem sig_bounds {q : ℚ} (hq : 0 < q) :
    2^52 ≤ roundNE (q / 2^(ilog2 q - 52)) ∧ roundNE (q / 2^(ilog2 q - 52)) ≤ 2^53 := by
  obtain ⟨h1, h2⟩ := scaled_bounds hq
  exact ⟨le_roundNE_of_le h1, roundNE_le_of_le h2.le⟩

theorem rnd53_bounds {q : ℚ} (hq : 0 < q) :
    (2:ℚ)^(ilog2 q) ≤ rnd53 q ∧ rnd53 q ≤ (2:ℚ)^(ilog2 q + 1) := by
  obtain ⟨h1, h2⟩ := sig_bounds hq
  have hs := zpow2_pos (ilog2 q - 52)
  have e1 : (2:ℚ)^(ilog2 q) = ((2^52 : ℤ) : ℚ) * 2^(ilog2 q - 52) := by
    rw [← zpow2_split 52 (ilog2 q)]; norm_num
  have e2 : (2:ℚ)^(ilog2 q + 1) = ((2^53 : ℤ) : ℚ) * 2^(ilog2 q - 52) := by
    rw [← zpow2_split 53 (ilog2 q + 1)]
    have : ilog2 q + 1 - 53 = ilog2 q - 52 := by ring
    rw [this]; norm_num
  rw [rnd53_pos_eq hq, e1, e2]
  constructor
  · exact mul_le_mul_of_nonneg_right (by exact_mod_cast h1) hs.le
  · exact mul_le_mul_of_nonneg_right (by exact_mod_cast h2) hs.le

theorem rnd53_pos {q : Rat} (h : 0 < q) : 0 < rnd53 q :=
  lt_of_lt_of_le (zpow2_pos _) (rnd53_bounds h).1

theorem rnd53_nonneg {q : Rat} (h : 0 ≤ q) : 0 ≤ rnd53 q := by
  rcases eq_or_lt_of_le h with h | h
  · subst h; rw [rnd53_zero]
  · exact (rnd53_pos h).le

theorem rnd53_nonpos {q : Rat} (h : q ≤ 0) : rnd53 q ≤ 0 := by
  have := rnd53_nonneg (q := -q) (by linarith)
  rw [rnd53_neg] at this; linarith

theorem rnd53_mono_pos {a b : ℚ} (ha : 0 < a) (h : a ≤ b) : rnd53 a ≤ rnd53 b := by
  have hb : 0 < b := lt_of_lt_of_le ha h
  rcases lt_or_eq_of_le (ilog2_mono ha h) with hlt | heq
  · calc rnd53 a ≤ (2:ℚ)^(ilog2 a + 1) := (rnd53_bounds ha).2
      _ ≤ (2:ℚ)^(ilog2 b) := zpow_le_zpow_right₀ one_lt_two.le hlt
      _ ≤ rnd53 b := (rnd53_bounds hb).1
  · rw [rnd53_pos_eq ha, rnd53_pos_eq hb, heq]
    have hs := zpow2_pos (ilog2 b - 52)
    apply mul_le_mul_of_nonneg_right _ hs.le
    have : roundNE (a / 2 ^ (ilog2 b - 52)) ≤ roundNE (b / 2 ^ (ilog2 b - 52)) :=
      roundNE_mono (div_le_div_of_nonneg_right h hs.le)
    exact_mod_cast this

theorem rnd53_mono {a b : Rat} (h : a ≤ b) : rnd53 a ≤ rnd53 b := by
  rcases lt_trichotomy a 0 with ha | ha | ha
  · rcases lt_or_ge b 0 with hb | hb
    · have := rnd53_mono_pos (a := -b) (b := -a) (by linarith) (by linarith)
      rw [rnd53_neg, rnd53_neg] at this; linarith
    · exact le_trans (rnd53_nonpos ha.le) (rnd53_nonneg hb)
  · subst ha; rw [rnd53_zero]; exact rnd53_nonneg h
  · exact rnd53_mono_pos ha h

theorem rnd53_err' (q : Rat) : |rnd53 q - q| ≤ |q| * (2:ℚ)^(-53:ℤ) := by
  have key : ∀ q : ℚ, 0 < q → |rnd53 q - q| ≤ |q| * (2:ℚ)^(-53:ℤ) := by
    intro q hq
    obtain ⟨h1, _⟩ := ilog2_spec' hq
    have hs := zpow2_pos (ilog2 q - 52)
    have herr := roundNE_err' (q / 2^(ilog2 q - 52))
    rw [rnd53_pos_eq hq, abs_of_pos hq]
    have e : (roundNE (q / 2^(ilog2 q - 52)) : ℚ) * 2^(ilog2 q - 52) - q
        = ((roundNE (q / 2^(ilog2 q - 52)) : ℚ) - q / 2^(ilog2 q - 52)) * 2^(ilog2 q - 52) := by
      field_simp
    rw [e, abs_mul, abs_of_pos hs]
    have e3 : (2:ℚ)^(ilog2 q - 52) = 2 * (2^(ilog2 q) * (2:ℚ)^(-53:ℤ)) := by
      have : ilog2 q - 52 = 1 + (ilog2 q + (-53)) := by ring
      rw [this, zpow_add₀ two_ne, zpow_add₀ two_ne, zpow_one]
    have hp := zpow2_pos (-53)
    calc _ ≤ 1/2 * (2:ℚ)^(ilog2 q - 52) := mul_le_mul_of_nonneg_right herr hs.le
      _ = 2^(ilog2 q) * (2:ℚ)^(-53:ℤ) := by rw [e3]; ring
      _ ≤ q * (2:ℚ)^(-53:ℤ) := mul_le_mul_of_nonneg_right h1 hp.le
  rcases lt_trichotomy q 0 with h | h | h
  · have := key (-q) (by linarith)
    rw [rnd53_neg, abs_neg] at this
    have e : -rnd53 q - -q = -(rnd53 q - q) := by ring
    rwa [e, abs_neg] at this
  · subst h; simp [rnd53_zero]
  · exact key q h

theorem rnd53_err (q : Rat) : rabs (rnd53 q - q) ≤ rabs q * pow2 (-53) := by
  rw [rabs_eq, rabs_eq, pow2_eq]; exact rnd53_err' q

/-! ### exactly representable values -/

theorem rnd53_of_rep_pos (m : ℤ) (e : ℤ) (hm0 : 0 < m) (hm : m < 2^53) :
    rnd53 ((m:ℚ) * 2^e) = (m:ℚ) * 2^e := by
  have hmq : (0:ℚ) < m := by exact_mod_cast hm0
  have hq : (0:ℚ) < (m:ℚ) * 2^e := mul_pos hmq (zpow2_pos e)
  obtain ⟨h1, h2⟩ := ilog2_spec' hq
  rw [rnd53_pos_eq hq]
  obtain ⟨E, hE⟩ : ∃ E, ilog2 ((m:ℚ) * 2^e) = E := ⟨_, rfl⟩
  rw [hE] at h1 h2 ⊢
  have hlt : (m:ℚ) * 2^e < 2^(53 + e) := by
    rw [zpow_add₀ two_ne]
    apply mul_lt_mul_of_pos_right _ (zpow2_pos e)
    have : ((m:ℤ):ℚ) < ((2^53:ℤ):ℚ) := by exact_mod_cast hm
    norm_num at this ⊢; exact this
  have hE' : E < 53 + e := (zpow_lt_zpow_iff_right₀ one_lt_two).mp (lt_of_le_of_lt h1 hlt)
  obtain ⟨j, hj⟩ := Int.eq_ofNat_of_zero_le (show 0 ≤ e - E + 52 by omega)
  have hdiv : (m:ℚ) * 2^e / 2^(E-52) = ((m * 2^j : ℤ) : ℚ) := by
    rw [mul_div_assoc, ← zpow_sub₀ two_ne]
    have : e - (E - 52) = (j:ℤ) := by omega
    rw [this, zpow_natCast]; push_cast; ring
  rw [hdiv, roundNE_int]
  push_cast
  rw [mul_assoc, ← zpow_natCast, ← zpow_add₀ two_ne]
  congr 2; omega

theorem rnd53_of_rep' (m : Int) (e : Int) (hm : m.natAbs < 2 ^ 53) :
    rnd53 ((m : Rat) * 2^e) = (m : Rat) * 2^e := by
  rcases lt_trichotomy m 0 with h | h | h
  · have := rnd53_of_rep_pos (-m) e (by omega) (by omega)
    have e1 : ((-m : ℤ) : ℚ) * 2^e = -((m:ℚ) * 2^e) := by push_cast; ring
    rw [e1, rnd53_neg] at this
    linarith
  · subst h; simp [rnd53_zero]
  · exact rnd53_of_rep_pos m e h (by omega)

/-- a value with a significand of at most 53 bits is unchanged -/
theorem rnd53_of_rep (m : Int) (e : Int) (hm : m.natAbs < 2 ^ 53) :
    rnd53 ((m : Rat) * pow2 e) = (m : Rat) * pow2 e := by
  rw [pow2_eq]; exact rnd53_of_rep' m e hm

theorem rnd53_int (n : Int) (h : n.natAbs ≤ 2 ^ 53) : rnd53 (n : Rat) = n := by
  rcases lt_or_eq_of_le h with h | h
  · have := rnd53_of_rep' n 0 h
    simpa using this
  · have h1 := rnd53_of_rep' 1 53 (by norm_num)
    have h2 := rnd53_of_rep' (-1) 53 (by norm_num)
    have : n = 2^53 ∨ n = -2^53 := by omega
    rcases this with rfl | rfl
    · norm_num at h1 ⊢; exact h1
    · norm_num at h2 ⊢; exact h2

theorem rnd53_one : rnd53 1 = 1 := by
  have := rnd53_int 1 (by norm_num); simpa using this

theorem rnd53_half : rnd53 (1/2) = 1/2 := by
  have := rnd53_of_rep' 1 (-1) (by norm_num)
  norm_num at this ⊢; exact this

/-- IEEE: x / x = 1 exactly -/
theorem fdiv_self {x : Rat} (hx : x ≠ 0) : fdiv x x = 1 := by
  unfold fdiv; rw [div_self hx, rnd53_one]

theorem rnd53_le_one {q : Rat} (h : q ≤ 1) : rnd53 q ≤ 1 := by
  have := rnd53_mono h; rwa [rnd53_one] at this

theorem rnd53_ge_neg_one {q : Rat} (h : -1 ≤ q) : -1 ≤ rnd53 q := by
  have := rnd53_mono h; rwa [rnd53_neg, rnd53_one] at this

theorem rnd53_idem (q : Rat) : rnd53 (rnd53 q) = rnd53 q := by
  have key : ∀ q : ℚ, 0 < q → rnd53 (rnd53 q) = rnd53 q := by
    intro q hq
    obtain ⟨h1, h2⟩ := sig_bounds hq
    rw [rnd53_pos_eq hq]
    rcases lt_or_eq_of_le h2 with h2 | h2
    · exact rnd53_of_rep_pos _ _ (by omega) h2
    · rw [h2]
      have e : (((2^53 : ℤ)) : ℚ) * 2^(ilog2 q - 52) = ((1:ℤ):ℚ) * 2^(ilog2 q + 1) := by
        rw [← zpow2_split 53 (ilog2 q + 1)]
        have : ilog2 q + 1 - 53 = ilog2 q - 52 := by ring
        rw [this]; norm_num
      rw [e]
      exact rnd53_of_rep_pos 1 _ (by norm_num) (by norm_num)
  rcases lt_trichotomy q 0 with h | h | h
  · have := key (-q) (by linarith)
    rw [rnd53_neg, rnd53_neg] at this
    linarith
  · subst h; simp [rnd53_zero]
  · exact key q h

theorem ftrunc_def (q : ℚ) : ftrunc q = if q < 0 then -⌊-q⌋ else ⌊q⌋ := rfl
theorem fround_def (q : ℚ) : fround q = if q < 0 then -⌊-q + 1/2⌋ else ⌊q + 1/2⌋ := rfl

theorem ftrunc_mono {a b : Rat} (h : a ≤ b) : ftrunc a ≤ ftrunc b := by
  rw [ftrunc_def, ftrunc_def]
  split_ifs with ha hb hb
  · have := Int.floor_mono (show -b ≤ -a by linarith); omega
  · have h1 : 0 ≤ ⌊-a⌋ := Int.floor_nonneg.mpr (by linarith)
    have h2 : 0 ≤ ⌊b⌋ := Int.floor_nonneg.mpr (by linarith)
    omega
  · exfalso; linarith
  · exact Int.floor_mono h

theorem fround_mono {a b : Rat} (h : a ≤ b) : fround a ≤ fround b := by
  rw [fround_def, fround_def]
  split_ifs with ha hb hb
  · have := Int.floor_mono (show -b + 1/2 ≤ -a + 1/2 by linarith); omega
  · have h1 : 0 ≤ ⌊-a + 1/2⌋ := Int.floor_nonneg.mpr (by linarith)
    have h2 : 0 ≤ ⌊b + 1/2⌋ := Int.floor_nonneg.mpr (by linarith)
    omega
  · exfalso; linarith
  · exact Int.floor_mono (by linarith)

theorem ftrunc_int (n : Int) : ftrunc (n : Rat) = n := by
  rw [ftrunc_def]
  split_ifs with h
  · have : -(n:ℚ) = ((-n : ℤ) : ℚ) := by push_cast; ring
    rw [this, Int.floor_intCast]; omega
  · exact Int.floor_intCast n

end Hidi.FloatLemmas
