/-
  The regenerated body of the axis handler (`handleABSEvent`, events.go — emitted by tools/extract/golite.go as a chain of
  eleven segment definitions `Body.handleABSEvent_s0 … _s10`, one per top-level compound statement) and of
  `processEvent` compute what the model's `Dev.handleAbs` / `Dev.step` compute: for every state, configuration, axis
  and raw value.  The float64 operations are the `fadd / fsub / fmul / fdiv / rnd53` of `Hidi/Float.lean` on both sides
  (each Go operation is one correctly rounded operation; literals are `rnd53` of their decimal value).

  One lemma per segment, from the last (the dispatch on the mapping type: `s10_cc`, `s10_pb`, `s10_key`, `s10_action`)
  back to the first; `handleAbs_model` restates the model in the same staging (`tailA`, `tailW`, `kindDispatch`, `cut`).
-/
import HidiProofs.Bodies
import HidiProofs.FloatLemmas
set_option linter.unusedSimpArgs false
namespace Hidi.BodiesTie
open Hidi Hidi.GoLite Hidi.Gen

theorem lit1 : rnd53 ((10 : Rat) / 10) = 1 := by
  have : ((10 : Rat) / 10) = 1 := by norm_num
  rw [this]; exact Hidi.FloatLemmas.rnd53_one
theorem lit05 : rnd53 ((5 : Rat) / 10) = 1/2 := by
  have : ((5 : Rat) / 10) = 1/2 := by norm_num
  rw [this]; exact Hidi.FloatLemmas.rnd53_half
theorem lit49 : rnd53 ((49 : Rat) / 100) = c49 := rfl

/-- what the model does with the shaped, flipped value -/
def kindDispatch (d : Dev) (a : Analog) (code : Code) (canNeg : Bool) (v : Rat) : Dev × List Out :=
  match a.kind with
  | .cc => d.absCC a canNeg v
  | .pitchBend => (d, [pitchBendEvent (chanOf d.channel a.chOff) (if canNeg then v else fsub (fmul v 2) 1)])
  | .key => d.absKey a code canNeg v
  | .action => d.absAction a canNeg v

theorem toG_setZeroed (d : Dev) (o : List Out) (cc : Nat) (b : Bool) :
    (toG d o).setZeroedG (cc : Int) b = toG (d.setZeroed cc b) o := by
  simp [GSt.setZeroedG, Dev.setZeroed, toG]

theorem toG_emit (d : Dev) (o : List Out) (x : Out) : (toG d o).emit x = toG d (o ++ [x]) := rfl

theorem ccEv_byte (ch cc : Nat) (x : Int) : ccEv (ch : Int) (cc : Int) (wrapU8 x) = ccEvent ch cc (u8 x) := by
  simp [ccEv, wrapU8, u8]

theorem s10_cc (d : Dev) (o : List Out) (sub : Sub) (node : String) (code : Code) (raw t : Int) (a : Analog) (ok : Bool)
    (v : Rat) (canNeg : Bool) (ai : Int × Int) (mn mx : Int) (dz : Rat) (ok2 : Bool) (last : Rat) (hk : a.kind = .cc) :
    Body.handleABSEvent_s10 (toG d o) sub node code raw t a ok v canNeg ai mn mx dz ok2 last = toGR (d.absCC a canNeg v) o := by
  unfold Body.handleABSEvent_s10 Dev.absCC Dev.bidirCC
  simp only [Id.run, pure, hk, beq_self_eq_true, if_true, lit05, lit1]
  have hch : (toG d o).channel = (d.channel : Int) := rfl
  simp only [toG_emit, toG_setZeroed, hch, chan_cast, ccEv_byte]
  have hz : ∀ (o' : List Out), (toG d o').ccZeroed = d.ccZeroed := fun _ => rfl
  simp only [hz, Int.toNat_natCast, List.contains_iff_mem]
  cases canNeg <;> cases hb : a.bidir <;> simp [toGR, ccByte, ccEv]
  all_goals (repeat' split) <;> simp_all [toG]

theorem pbEv_cast (ch : Nat) (v : Rat) : pbEv (ch : Int) v = pitchBendEvent ch v := by simp [pbEv]

theorem s10_pb (d : Dev) (o : List Out) (sub : Sub) (node : String) (code : Code) (raw t : Int) (a : Analog) (ok : Bool)
    (v : Rat) (canNeg : Bool) (ai : Int × Int) (mn mx : Int) (dz : Rat) (ok2 : Bool) (last : Rat) (hk : a.kind = .pitchBend) :
    Body.handleABSEvent_s10 (toG d o) sub node code raw t a ok v canNeg ai mn mx dz ok2 last =
      toGR (d, [pitchBendEvent (chanOf d.channel a.chOff) (if canNeg then v else fsub (fmul v 2) 1)]) o := by
  unfold Body.handleABSEvent_s10
  simp only [Id.run, pure, hk, beq_self_eq_true, if_true, lit05, lit1, reduceCtorEq, beq_iff_eq, if_false]
  have hch : (toG d o).channel = (d.channel : Int) := rfl
  simp only [toG_emit, hch, chan_cast, pbEv_cast]
  cases canNeg <;> simp [toGR, toG]

theorem toG_anaTr (d : Dev) (o : List Out) : (toG d o).anaTr = d.anaTr := rfl

theorem s10_key (d : Dev) (o : List Out) (sub : Sub) (node : String) (code : Code) (raw t : Int) (a : Analog) (ok : Bool)
    (v : Rat) (canNeg : Bool) (ai : Int × Int) (mn mx : Int) (dz : Rat) (ok2 : Bool) (last : Rat) (hk : a.kind = .key) :
    Body.handleABSEvent_s10 (toG d o) sub node code raw t a ok v canNeg ai mn mx dz ok2 last =
      toGR (d.absKey a code canNeg v) o := by
  unfold Body.handleABSEvent_s10 Dev.absKey
  simp only [Id.run, pure, hk, beq_self_eq_true, if_true, lit05, lit1, lit49, reduceCtorEq, beq_iff_eq, if_false, GSt.anaTrLookup, toG_anaTr]
  have key : ∀ x : Rat,
      (if decide (x ≤ -(1 / 2)) = true then
        if (!(match alookup (code, true) d.anaTr with
                    | some v => (v, true)
                    | none => (default, false)).2 && a.bidir) = true then
          Body.analogNoteOff (Body.analogNoteOn (toG d o) (code, true) (↑a.noteNeg) (↑a.chOffNeg) sub node code raw t)
            (code, false) sub node code raw t
        else Body.analogNoteOff (toG d o) (code, false) sub node code raw t
      else
        if (decide (x > -c49) && decide (x < c49)) = true then
          Body.analogNoteOff (Body.analogNoteOff (toG d o) (code, false) sub node code raw t) (code, true) sub node code
            raw t
        else
          if decide (x ≥ 1 / 2) = true then
            if (!(match alookup (code, false) d.anaTr with
                      | some v => (v, true)
                      | none => (default, false)).2) = true then
              Body.analogNoteOff (Body.analogNoteOn (toG d o) (code, false) (↑a.note) (↑a.chOff) sub node code raw t)
                (code, true) sub node code raw t
            else Body.analogNoteOff (toG d o) (code, true) sub node code raw t
          else toG d o) =
      toGR
        (if x ≤ -1 / 2 then
          (((if a.bidir = true ∧ (alookup (code, true) d.anaTr).isNone = true then
                      d.analogNoteOn (code, true) a.noteNeg a.chOffNeg
                    else (d, [])).1.analogNoteOff (code, false)).1,
            (if a.bidir = true ∧ (alookup (code, true) d.anaTr).isNone = true then
                  d.analogNoteOn (code, true) a.noteNeg a.chOffNeg
                else (d, [])).2 ++
              ((if a.bidir = true ∧ (alookup (code, true) d.anaTr).isNone = true then
                        d.analogNoteOn (code, true) a.noteNeg a.chOffNeg
                      else (d, [])).1.analogNoteOff (code, false)).2)
        else
          if (-c49 < x) ∧ x < c49 then
            (((d.analogNoteOff (code, false)).1.analogNoteOff (code, true)).1,
              (d.analogNoteOff (code, false)).2 ++ ((d.analogNoteOff (code, false)).1.analogNoteOff (code, true)).2)
          else
            if 1 / 2 ≤ x then
              (((if (alookup (code, false) d.anaTr).isNone = true then d.analogNoteOn (code, false) a.note a.chOff
                        else (d, [])).1.analogNoteOff (code, true)).1,
                (if (alookup (code, false) d.anaTr).isNone = true then d.analogNoteOn (code, false) a.note a.chOff
                    else (d, [])).2 ++
                  ((if (alookup (code, false) d.anaTr).isNone = true then d.analogNoteOn (code, false) a.note a.chOff
                          else (d, [])).1.analogNoteOff (code, true)).2)
            else (d, [])) o := by
    intro x
    have e1 : (x ≤ -(1/2 : Rat)) ↔ (x ≤ -1/2) := by
      have : (-(1/2 : Rat)) = -1/2 := by norm_num
      rw [this]
    simp only [analogNoteOn_eq, analogNoteOff_eq, toGR_eq, decide_eq_true_eq, Bool.and_eq_true, gt_iff_lt, ge_iff_le, e1]
    rcases Option.eq_none_or_eq_some (alookup (code, true) d.anaTr) with h1 | ⟨p1, h1⟩ <;>
    rcases Option.eq_none_or_eq_some (alookup (code, false) d.anaTr) with h2 | ⟨p2, h2⟩ <;>
    cases hb : a.bidir <;> simp only [h1, h2] <;> (repeat' split) <;> simp_all [toG]
  cases canNeg
  · simp only [Bool.not_false, if_true, Bool.false_eq_true, if_false, Int.cast_ofNat]
    exact key _
  · simp only [Bool.not_true, if_true, Bool.false_eq_true, if_false]
    exact key _

theorem s10_action (d : Dev) (hch : d.channel < 256) (o : List Out) (sub : Sub) (node : String) (code : Code) (raw t : Int) (a : Analog) (ok : Bool)
    (v : Rat) (canNeg : Bool) (ai : Int × Int) (mn mx : Int) (dz : Rat) (ok2 : Bool) (last : Rat) (hk : a.kind = .action) :
    Body.handleABSEvent_s10 (toG d o) sub node code raw t a ok v canNeg ai mn mx dz ok2 last =
      toGR (d.absAction a canNeg v) o := by
  unfold Body.handleABSEvent_s10 Dev.absAction
  simp only [Id.run, pure, hk, beq_self_eq_true, if_true, lit05, lit1, lit49, reduceCtorEq, beq_iff_eq, if_false, checkDouble_eq]
  obtain ⟨e, he0⟩ : ∃ e, e = d.checkDouble.1 := ⟨_, rfl⟩
  have he : e.channel < 256 := he0 ▸ checkDouble_channel_lt d hch
  simp only [← he0]
  by_cases hdb : d.checkDouble.2 = true
  · simp [hdb, toGR, toG]
  · simp only [hdb, if_false, Bool.false_eq_true]
    have hpress : ∀ (x : Action) (o' : List Out), Body.invokeActionPress (toG e o') x = toGR (e.invokePress x) o' :=
      fun x o' => invokeActionPress_eq e he x o'
    have e1 : ∀ x : Rat, (x ≤ -(1/2 : Rat)) ↔ (x ≤ -1/2) := by
      intro x
      have : (-(1/2 : Rat)) = -1/2 := by norm_num
      rw [this]
    cases canNeg
    · simp only [Bool.not_false, if_true, Bool.false_eq_true, if_false, Int.cast_ofNat]
      generalize fsub (fmul v 2) 1 = x
      simp only [hpress, toGR_eq, toG_setActTr, toG_actTr, invokeActionRelease_eq, decide_eq_true_eq,
        Bool.and_eq_true, gt_iff_lt, ge_iff_le, e1]
      by_cases c1 : x ≤ -1/2
      · simp [c1, toG]
      · by_cases c2 : -c49 < x ∧ x < c49
        · simp [c1, c2, toG]
        · by_cases c3 : (2⁻¹ : Rat) ≤ x
          · first
              | (simp [c1, c2, c3, toG]; done)
              | (simp [c1, c2, c3, toG]; intro h1 h2; exact absurd ⟨h1, of_decide_eq_true h2⟩ c2)
          · first
              | (simp [c1, c2, c3, toG]; done)
              | (simp [c1, c2, c3, toG]; intro h1 h2; exact absurd ⟨h1, of_decide_eq_true h2⟩ c2)
    · simp only [Bool.not_true, if_true, Bool.false_eq_true, if_false]
      simp only [hpress, toGR_eq, toG_setActTr, toG_actTr, invokeActionRelease_eq, decide_eq_true_eq,
        Bool.and_eq_true, gt_iff_lt, ge_iff_le, e1]
      by_cases c1 : v ≤ -1/2
      · simp [c1, toG]
      · by_cases c2 : -c49 < v ∧ v < c49
        · simp [c1, c2, toG]
        · by_cases c3 : (2⁻¹ : Rat) ≤ v
          · first
              | (simp [c1, c2, c3, toG]; done)
              | (simp [c1, c2, c3, toG]; intro h1 h2; exact absurd ⟨h1, of_decide_eq_true h2⟩ c2)
          · first
              | (simp [c1, c2, c3, toG]; done)
              | (simp [c1, c2, c3, toG]; intro h1 h2; exact absurd ⟨h1, of_decide_eq_true h2⟩ c2)

theorem s10_eq (d : Dev) (hch : d.channel < 256) (o : List Out) (sub : Sub) (node : String) (code : Code) (raw t : Int) (a : Analog) (ok : Bool)
    (v : Rat) (canNeg : Bool) (ai : Int × Int) (mn mx : Int) (dz : Rat) (ok2 : Bool) (last : Rat) :
    Body.handleABSEvent_s10 (toG d o) sub node code raw t a ok v canNeg ai mn mx dz ok2 last =
      toGR (kindDispatch d a code canNeg v) o := by
  unfold kindDispatch
  cases hk : a.kind
  · exact s10_cc d o sub node code raw t a ok v canNeg ai mn mx dz ok2 last hk
  · exact s10_pb d o sub node code raw t a ok v canNeg ai mn mx dz ok2 last hk
  · exact s10_key d o sub node code raw t a ok v canNeg ai mn mx dz ok2 last hk
  · exact s10_action d hch o sub node code raw t a ok v canNeg ai mn mx dz ok2 last hk

/-- the model from the shaped value `w` on: duplicate suppression, flip, the CC-learning gate, dispatch -/
def tailW (d : Dev) (a : Analog) (sub : Sub) (code : Code) (canNeg : Bool) (w : Rat) : Dev × List Out :=
  let last := (alookup (sub, code) d.lastAna).getD 0
  if last = w then (d, []) else
  let d := { d with lastAna := ainsert (sub, code) w d.lastAna }
  let v := flipVal canNeg a.flip w
  if d.learning ∧ ¬ (v < -1/2 ∨ 1/2 < v) then (d, []) else kindDispatch d a code canNeg v

theorem s9_eq (d : Dev) (hch : d.channel < 256) (o : List Out) (sub : Sub) (node : String) (code : Code) (raw t : Int) (a : Analog) (ok : Bool)
    (v : Rat) (canNeg : Bool) (ai : Int × Int) (mn mx : Int) (dz : Rat) (ok2 : Bool) (last : Rat) :
    Body.handleABSEvent_s9 (toG d o) sub node code raw t a ok v canNeg ai mn mx dz ok2 last =
      toGR (if d.learning ∧ ¬ (v < -1/2 ∨ 1/2 < v) then (d, []) else kindDispatch d a code canNeg v) o := by
  unfold Body.handleABSEvent_s9
  simp only [Id.run, pure, lit05, s10_eq d hch]
  have hl : (toG d o).learning = d.learning := rfl
  have e1 : (-(1/2 : Rat)) = -1/2 := by norm_num
  simp only [hl, e1]
  cases hl2 : d.learning
  · simp
  · by_cases c1 : v < -1/2 <;> by_cases c2 : (2⁻¹ : Rat) < v <;> simp [c1, c2, toGR, toG]

theorem s8_eq (d : Dev) (hch : d.channel < 256) (o : List Out) (sub : Sub) (node : String) (code : Code) (raw t : Int) (a : Analog) (ok : Bool)
    (w : Rat) (canNeg : Bool) (ai : Int × Int) (mn mx : Int) (dz : Rat) (ok2 : Bool) (last : Rat) :
    Body.handleABSEvent_s8 (toG d o) sub node code raw t a ok w canNeg ai mn mx dz ok2 last =
      toGR (let d' : Dev := { d with lastAna := ainsert (sub, code) w d.lastAna }
            let v := flipVal canNeg a.flip w
            if d'.learning ∧ ¬ (v < -1/2 ∨ 1/2 < v) then (d', []) else kindDispatch d' a code canNeg v) o := by
  unfold Body.handleABSEvent_s8
  simp only [Id.run, pure, lit1]
  have hs : (toG d o).setLastAna sub code w = toG { d with lastAna := ainsert (sub, code) w d.lastAna } o := rfl
  have hch' : ({ d with lastAna := ainsert (sub, code) w d.lastAna } : Dev).channel < 256 := hch
  simp only [hs]
  unfold flipVal
  cases a.flip <;> cases canNeg <;> simp only [Bool.false_eq_true, if_false, if_true, s9_eq _ hch']

theorem s7_eq (d : Dev) (hch : d.channel < 256) (o : List Out) (sub : Sub) (node : String) (code : Code) (raw t : Int) (a : Analog) (ok : Bool)
    (w : Rat) (canNeg : Bool) (ai : Int × Int) (mn mx : Int) (dz : Rat) (ok2 : Bool) :
    Body.handleABSEvent_s7 (toG d o) sub node code raw t a ok w canNeg ai mn mx dz ok2 = toGR (tailW d a sub code canNeg w) o := by
  unfold Body.handleABSEvent_s7 tailW
  simp only [Id.run, pure, s8_eq d hch, GSt.lastAnaGet]
  have hl : (toG d o).lastAna = d.lastAna := rfl
  simp only [hl, beq_iff_eq]
  by_cases h : (alookup (sub, code) d.lastAna).getD 0 = w
  · simp [h, toGR, toG]
  · simp only [h, if_false]

/-- the deadzone cut of `shapeRaw` -/
def cut (v1 dz : Rat) : Rat :=
  if v1 < 0 then (if -dz < v1 then 0 else fdiv (fadd v1 dz) (fsub 1 dz))
  else (if v1 < dz then 0 else fdiv (fsub v1 dz) (fsub 1 dz))

theorem s6_eq (d : Dev) (hch : d.channel < 256) (o : List Out) (sub : Sub) (node : String) (code : Code) (raw t : Int) (a : Analog) (ok : Bool)
    (v1 : Rat) (canNeg : Bool) (ai : Int × Int) (mn mx : Int) (dz : Rat) (ok2 : Bool) :
    Body.handleABSEvent_s6 (toG d o) sub node code raw t a ok v1 canNeg ai mn mx dz ok2 =
      toGR (tailW d a sub code canNeg (cut v1 dz)) o := by
  unfold Body.handleABSEvent_s6 cut
  simp only [Id.run, pure, lit1, Int.cast_zero, decide_eq_true_eq, gt_iff_lt]
  by_cases h1 : v1 < 0
  · by_cases h2 : -dz < v1 <;> simp only [h1, h2, if_true, if_false, s7_eq d hch]
  · by_cases h2 : v1 < dz <;> simp only [h1, h2, if_true, if_false, s7_eq d hch]

theorem s5_eq (d : Dev) (hch : d.channel < 256) (o : List Out) (sub : Sub) (node : String) (code : Code) (raw t : Int) (a : Analog) (ok : Bool)
    (v1 : Rat) (canNeg : Bool) (ai : Int × Int) (mn mx : Int) (m : Mapping) (hmap : d.cfg.maps[d.mapping]? = some m) :
    Body.handleABSEvent_s5 (toG d o) sub node code raw t a ok v1 canNeg ai mn mx =
      match m.deadzone sub code with
      | none => (toG d o).goPanic
      | some dz => toGR (tailW d a sub code canNeg (cut v1 dz)) o := by
  unfold Body.handleABSEvent_s5 Mapping.deadzone
  simp only [Id.run, pure, GSt.mapIndexOk, GSt.nMaps, GSt.dzLookup, GSt.defDzLookup]
  have hm : (toG d o).mapping = (d.mapping : Int) := rfl
  have hc : (toG d o).cfg = d.cfg := rfl
  simp only [hm, hc, Int.toNat_natCast, hmap]
  have : d.mapping < d.cfg.maps.length := by
    rcases Nat.lt_or_ge d.mapping d.cfg.maps.length with h | h
    · exact h
    · rw [List.getElem?_eq_none h] at hmap; cases hmap
  have h2 : ((d.mapping : Int) < (d.cfg.maps.length : Int)) := by omega
  have h3 : (0 : Int) ≤ (d.mapping : Int) := by omega
  simp only [h2, h3, decide_true, Bool.and_self, Bool.not_true, Bool.false_eq_true, if_false]
  rcases Option.eq_none_or_eq_some (alookup (sub, code) m.dz) with e1 | ⟨z1, e1⟩
  · rcases Option.eq_none_or_eq_some (alookup sub m.defDz) with e2 | ⟨z2, e2⟩
    · rcases Option.eq_none_or_eq_some (alookup "" m.defDz) with e3 | ⟨z3, e3⟩
      · simp [e1, e2, e3]
      · simp [e1, e2, e3, s6_eq d hch]
    · simp [e1, e2, s6_eq d hch]
  · simp [e1, s6_eq d hch]

/-- the model after the analog entry `a` has been found and the stale key emulation released: `pre` is in `o` -/
def tailA (d : Dev) (m : Mapping) (a : Analog) (sub : Sub) (node : String) (code : Code) (raw : Int) : Option (Dev × List Out) :=
  let (mn, mx) := (alookup (node, code) d.cfg.axes).getD (0, 0)
  let canNeg := decide (mn < 0) || a.dzCenter
  match m.deadzone sub code with
  | none => none
  | some dz => some (tailW d a sub code canNeg (shapeRaw mn mx a.dzCenter dz raw))

theorem shapeRaw_cut (mn mx : Int) (c : Bool) (dz : Rat) (raw : Int) :
    shapeRaw mn mx c dz raw =
      cut (if c then fsub (fmul (if raw < 0 then fdiv (raw : Rat) (rabs (mn : Rat)) else fdiv (raw : Rat) (rabs (mx : Rat))) 2) 1
           else (if raw < 0 then fdiv (raw : Rat) (rabs (mn : Rat)) else fdiv (raw : Rat) (rabs (mx : Rat)))) dz := by
  unfold shapeRaw cut
  rfl

theorem s2_eq (d : Dev) (hch : d.channel < 256) (o : List Out) (sub : Sub) (node : String) (code : Code) (raw t : Int) (a : Analog) (ok : Bool)
    (m : Mapping) (hmap : d.cfg.maps[d.mapping]? = some m) :
    Body.handleABSEvent_s2 (toG d o) sub node code raw t a ok =
      match tailA d m a sub node code raw with
      | none => (toG d o).goPanic
      | some r => toGR r o := by
  unfold Body.handleABSEvent_s2 Body.handleABSEvent_s3 Body.handleABSEvent_s4 tailA
  simp only [Id.run, pure, lit1, GSt.absInfo, Int.cast_ofNat]
  have hc : (toG d o).cfg = d.cfg := rfl
  simp only [hc]
  obtain ⟨mn, mx⟩ : Int × Int := (alookup (node, code) d.cfg.axes).getD (0, 0)
  simp only [shapeRaw_cut]
  by_cases h1 : mn < 0 <;> by_cases h2 : raw < 0 <;> cases h3 : a.dzCenter <;>
    simp only [h1, h2, decide_true, decide_false, if_true, if_false, Bool.false_eq_true, Bool.or_true, Bool.or_false, Bool.true_or,
      s5_eq d hch o sub node code raw t a ok _ _ _ _ _ m hmap] <;>
    (cases m.deadzone sub code <;> rfl)

theorem analogNoteOff_frame (d : Dev) (id : Code × Bool) :
    (d.analogNoteOff id).1.cfg = d.cfg ∧ (d.analogNoteOff id).1.mapping = d.mapping ∧ (d.analogNoteOff id).1.channel = d.channel := by
  unfold Dev.analogNoteOff
  split <;> simp

theorem releaseAxis_frame (d : Dev) (code : Code) :
    (d.releaseAxis code).1.cfg = d.cfg ∧ (d.releaseAxis code).1.mapping = d.mapping ∧ (d.releaseAxis code).1.channel = d.channel := by
  unfold Dev.releaseAxis
  have h1 := analogNoteOff_frame d (code, false)
  have h2 := analogNoteOff_frame (d.analogNoteOff (code, false)).1 (code, true)
  simp only
  exact ⟨h2.1.trans h1.1, h2.2.1.trans h1.2.1, h2.2.2.trans h1.2.2⟩

/-- the model's `handleAbs` once the mapping and the analog entry are known -/
theorem handleAbs_model (d : Dev) (m : Mapping) (a : Analog) (sub : Sub) (node : String) (code : Code) (raw : Int)
    (hmap : d.cfg.maps[d.mapping]? = some m) (ha : alookup (sub, code) m.analog = some a) :
    d.handleAbs sub node code raw =
      (let r := if a.kind = .key then (d, []) else d.releaseAxis code
       match tailA r.1 m a sub node code raw with
       | none => ({ r.1 with dead := true }, r.2 ++ [.panic])
       | some q => (q.1, r.2 ++ q.2)) := by
  unfold Dev.handleAbs Dev.curMap tailA tailW kindDispatch
  simp only [hmap, ha]
  generalize (if a.kind = .key then (d, []) else d.releaseAxis code) = r
  obtain ⟨d1, pre⟩ := r
  simp only
  cases m.deadzone sub code with
  | none => rfl
  | some dz =>
    simp only
    split
    · simp
    · split
      · simp
      · rfl

theorem handleAbs_eq (d : Dev) (hch : d.channel < 256) (sub : Sub) (node : String) (code : Code) (raw t : Int) :
    Body.handleABSEvent (toG d) sub node code raw t = toGR (d.handleAbs sub node code raw) := by
  unfold Body.handleABSEvent Body.handleABSEvent_s0 Body.handleABSEvent_s1
  simp only [Id.run, pure, GSt.mapIndexOk, GSt.nMaps, GSt.analogLookup]
  have hm : (toG d).mapping = (d.mapping : Int) := rfl
  have hc : (toG d).cfg = d.cfg := rfl
  simp only [hm, hc, Int.toNat_natCast]
  rcases Option.eq_none_or_eq_some (d.cfg.maps[d.mapping]?) with hmap | ⟨m, hmap⟩
  · have : ¬ (d.mapping < d.cfg.maps.length) := by
      intro h; rw [List.getElem?_eq_getElem h] at hmap; cases hmap
    have h2 : ¬ ((d.mapping : Int) < (d.cfg.maps.length : Int)) := by omega
    have hmod : d.handleAbs sub node code raw = ({ d with dead := true }, [.panic]) := by
      unfold Dev.handleAbs Dev.curMap; simp only [hmap]
    simp [hmod, h2, GSt.goPanic, toGR, toG]
  · have : d.mapping < d.cfg.maps.length := by
      rcases Nat.lt_or_ge d.mapping d.cfg.maps.length with h | h
      · exact h
      · rw [List.getElem?_eq_none h] at hmap; cases hmap
    have h2 : ((d.mapping : Int) < (d.cfg.maps.length : Int)) := by omega
    have h3 : (0 : Int) ≤ (d.mapping : Int) := by omega
    simp only [hmap, h2, h3, decide_true, Bool.and_self, Bool.not_true, Bool.false_eq_true, if_false]
    rcases Option.eq_none_or_eq_some (alookup (sub, code) m.analog) with ha | ⟨a, ha⟩
    · have hmod : d.handleAbs sub node code raw = d.releaseAxis code := by
        unfold Dev.handleAbs Dev.curMap; simp only [hmap, ha]
      simp only [ha, Bool.not_false, Bool.true_or, if_true, analogNoteOff_eq, toGR_eq, hmod, Dev.releaseAxis]
      simp [toG]
    · simp only [ha, Bool.not_true, Bool.false_or, Bool.false_eq_true, if_false]
      rw [handleAbs_model d m a sub node code raw hmap ha]
      by_cases hk : a.kind = .key
      · have hk' : (a.kind != AKind.key) = false := by simp [hk]
        simp only [hk, hk', Bool.false_eq_true, if_false, if_true, s2_eq d hch [] sub node code raw t a true m hmap]
        cases tailA d m a sub node code raw with
        | none => simp [GSt.goPanic, toGR, toG]
        | some q => simp [toGR, toG]
      · have hk' : (a.kind != AKind.key) = true := by simp [hk]
        simp only [hk, hk', if_true, if_false, analogNoteOff_eq, toGR_eq]
        obtain ⟨f1, f2, f3⟩ := releaseAxis_frame d code
        have hmap' : (d.releaseAxis code).1.cfg.maps[(d.releaseAxis code).1.mapping]? = some m := by rw [f1, f2]; exact hmap
        have hch' : (d.releaseAxis code).1.channel < 256 := by rw [f3]; exact hch
        have e : toG ((d.analogNoteOff (code, false)).1.analogNoteOff (code, true)).1
            ([] ++ (d.analogNoteOff (code, false)).2 ++ ((d.analogNoteOff (code, false)).1.analogNoteOff (code, true)).2) =
            toG (d.releaseAxis code).1 (d.releaseAxis code).2 := by
          simp [Dev.releaseAxis]
        rw [e, s2_eq _ hch' _ sub node code raw t a true m hmap']
        cases tailA (d.releaseAxis code).1 m a sub node code raw with
        | none => simp [GSt.goPanic, toGR, toG]
        | some q => simp [toGR, toG]

/-! ### `processEvent` -/

/-- the arguments of the generated `processEvent` for a model event: (sub-handler, device node, code, value, type) -/
def evArgs : Ev → Option (Sub × String × Code × Int × Int)
  | .key sub code v => some (sub, "", code, v, 1)
  | .abs sub node code v => some (sub, node, code, v, 3)
  | .syn => some ("", "", 0, 0, 0)
  | .midiIn _ _ _ => none

theorem processEvent_key (d : Dev) (hch : d.channel < 256) (hdead : d.dead = false) (sub : Sub) (node : String) (code : Code) (v : Int) :
    Body.processEvent (toG d) sub node code v 1 = toGR (d.step (.key sub code v)) := by
  unfold Body.processEvent Dev.step
  simp only [Id.run, pure, hdead, Bool.false_eq_true, if_false]
  by_cases h2 : v = 2
  · subst h2; simp [toGR, toG]
  · have : (v == 2) = false := by simpa using h2
    simp [this, h2, handleKey_eq d hch]

theorem processEvent_abs (d : Dev) (hch : d.channel < 256) (hdead : d.dead = false) (sub : Sub) (node : String) (code : Code) (v : Int) :
    Body.processEvent (toG d) sub node code v 3 = toGR (d.step (.abs sub node code v)) := by
  unfold Body.processEvent Dev.step
  simp only [Id.run, pure, hdead, Bool.false_eq_true, if_false]
  simp [handleAbs_eq d hch]

theorem processEvent_syn (d : Dev) (hdead : d.dead = false) (sub : Sub) (node : String) (code : Code) (v : Int) :
    Body.processEvent (toG d) sub node code v 0 = toGR (d.step .syn) := by
  unfold Body.processEvent Dev.step
  simp [Id.run, pure, hdead, toGR, toG]

end Hidi.BodiesTie
