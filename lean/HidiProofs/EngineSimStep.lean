/-
  HidiProofs.EngineSimStep — one step of the device model against one step of the monitor
  (`Spec.checkStep`) on key / syn / MIDI-in events, under a simulation invariant.
-/
import HidiProofs.EngineSimBase
namespace Hidi.EngineSim
open Hidi Hidi.Spec

/-! ### the monitor of one step, clause by clause -/

theorem checkStep_snd (cfg : Config) (i : Nat) (b : Book) (st : Step) (held : Option Nat) (aa : Bool) :
    (checkStep cfg i b st held aa).2 =
      ⟨st.st, (expectStep cfg b aa st.ev).2.down, (expectStep cfg b aa st.ev).2.pinned,
        (expectStep cfg b aa st.ev).2.acts, sounding b.snd st.outs, (expectStep cfg b aa st.ev).2.ok,
        b.dead || st.outs.contains .panic⟩ := by
  unfold checkStep
  rfl

theorem checkStep_fails {cfg : Config} {i : Nat} {b : Book} {st : Step} {held : Option Nat} {aa : Bool}
    {e : Expect} {b' : Book}
    (he : expectStep cfg b aa st.ev = (e, b'))
    (h14 : sigCount st.outs = if e.swallowed = true then 1 else 0)
    (h14b : e.swallowed = true →
      st.outs = [.sig] ∧ stateKeyOf st.st = stateKeyOf b.pre ∧ st.st.notes = b.pre.notes)
    (h05 : st.outs.all wellFormed = true)
    (h02 : (stateActionOf cfg st.ev).isSome = true → st.outs.any isMidi = false)
    (h13 : b'.ok = true → actionOf cfg st.ev = some .panic → e.swallowed = false → ∀ o, e.outs = some o →
      st.outs = o ∧ stateKeyOf st.st = stateKeyOf b.pre ∧ st.st.notes = b.pre.notes)
    (hnk : b'.ok = true → isNoteKeyStep cfg st.ev = true → e.swallowed = false → ∀ o, e.outs = some o → st.outs = o)
    (hnotes : b'.ok = true → ∀ n h, e.notes = some n → held = some h → st.st.notes = n + h)
    (h01 : b'.ok = true → b'.down = [] → held = some 0 → sounding b.snd st.outs = []) :
    ∀ f ∈ (checkStep cfg i b st held aa).1,
      f = ⟨"C04", i, "state-evolution"⟩ ∧ b'.ok = true ∧ ∃ s, e.st = some s ∧ stateKeyOf st.st ≠ s := by
  unfold checkStep
  rw [he]
  simp -zeta only []
  extract_lets ok acc f0 f1 f2 f3 f4 f5 foreign f6 f7 f8 snd f9 x
  have e1 : f1 = [] := by simp [f1, f0, h14]
  have e2 : f2 = [] := by
    simp only [f2, e1]
    rw [if_neg]
    intro h
    rcases h with ⟨hs, h⟩
    have := h14b hs
    simp [this.1, this.2.1, this.2.2] at h
  have e3 : f3 = [] := by simp [f3, e2, h05]
  have e4 : f4 = [] := by
    simp only [f4, e3]
    rw [if_neg]
    intro h
    have := h02 h.1
    simp [this] at h
  have e5 : f5 = [] := by
    simp only [f5, e4]
    split
    · rename_i hc
      split
      · rename_i sub code o hev heq
        have hs : e.swallowed = false := by simpa using hc.2.2.2
        have := h13 hc.1 hc.2.2.1 hs o (by assumption)
        simp [this.1, this.2.1, this.2.2]
      · rfl
    · rfl
  have e6 : f6 = [] := by
    simp only [f6, e5]
    split
    · rename_i hc
      have hs : e.swallowed = false := by simpa using hc.2.2.2
      split
      · rename_i o heq
        rw [if_pos (hnk hc.1 hc.2.2.1 hs o heq)]
      · rfl
    · rfl
  have e8 : f8 = f7 := by
    simp only [f8]
    split
    · rename_i hc
      split
      · rename_i _ _ n h h1
        rw [if_neg]
        simp [hnotes hc.1 n h h1 rfl]
      · rfl
    · rfl
  have e9 : f9 = f7 := by
    simp only [f9, e8]
    rw [if_neg]
    rintro ⟨h1, -, h2, h3, h4⟩
    exact h4 (h01 h1 h2 h3)
  intro f hf
  have hf' : f ∈ f7 := by
    simp only [x, e9] at hf
    split at hf
    · exact hf
    · simp at hf
  simp only [f7, e6] at hf'
  split at hf'
  · rename_i hc
    split at hf'
    · rename_i s hs
      split at hf'
      · simp at hf'
        exact ⟨hf', hc.1, s, hs, by assumption⟩
      · simp at hf'
    · simp at hf'
  · simp at hf'

/-! ### invariants -/

/-- facts about a reachable model state on key-only histories of an accepted configuration -/
structure DInv (cfg : Config) (d : Dev) : Prop where
  cfg_eq : d.cfg = cfg
  dead : d.dead = false
  ana : d.anaTr = []
  ch : d.channel < 16
  map : d.mapping < cfg.maps.length
  vel : d.velocity = u8 cfg.vel
  /-- (octave and semitone are Go `int`s since the int8 repair: no bound is needed) -/
  oct : True
  semi : True
  wf : ∀ p ∈ d.noteTr, p.2.1 ≤ 127 ∧ p.2.2 < 16

/-- the note tracker, the counters and what a receiver hears -/
structure Core (d : Dev) (snd : List (Nat × Nat)) : Prop where
  nodup : (akeys d.noteTr).Nodup
  cnt : ∀ ch n, d.count ch n = (holders d.noteTr (n, ch) : Int)
  snd : ∀ p ∈ snd, ∃ k, (k, (p.2, p.1)) ∈ d.noteTr

structure OkInv (cfg : Config) (d : Dev) (b : Book) : Prop where
  pinned : b.pinned = d.noteTr
  acts : b.acts = d.actTr
  core : Core d b.snd
  keys : ∀ k ∈ akeys d.noteTr, k ∈ d.keyTr ∧ alookup k cfg.actions = none

structure Inv (cfg : Config) (d : Dev) (b : Book) : Prop where
  dinv : DInv cfg d
  pre : b.pre = StObs.ofDev d
  down : b.down = d.keyTr
  bdead : b.dead = false
  okp : b.ok = true → OkInv cfg d b

/-- outputs that are well-formed MIDI messages -/
def okOut (x : Out) : Bool := wellFormed x && isMidi x

theorem okOut_wf {o : List Out} (h : o.all okOut = true) : o.all wellFormed = true := by
  simp only [List.all_eq_true, okOut, Bool.and_eq_true] at h ⊢
  exact fun x hx => (h x hx).1

theorem okOut_no_panic {o : List Out} (h : o.all okOut = true) : o.contains Out.panic = false := by
  simp only [List.all_eq_true, okOut, Bool.and_eq_true] at h
  cases hc : o.contains Out.panic with
  | false => rfl
  | true =>
    have := (h _ (List.contains_iff_mem.mp hc)).2
    simp [isMidi] at this

theorem okOut_sigCount {o : List Out} (h : o.all okOut = true) : sigCount o = 0 := by
  simp only [List.all_eq_true, okOut, Bool.and_eq_true] at h
  unfold sigCount
  rw [List.length_eq_zero_iff, List.filter_eq_nil_iff]
  intro x hx
  have := (h x hx).2
  cases x <;> simp [isMidi] at this ⊢

theorem okOut_on {ch n v : Nat} (hc : ch < 16) (hn : n ≤ 127) (hv : v ≤ 127) : okOut (noteOnMsg ch n v) = true := by
  simp [okOut, noteOn_wf hc hn hv]; simp [noteOnMsg, isMidi]

theorem okOut_off {ch n : Nat} (hc : ch < 16) (hn : n ≤ 127) : okOut (noteOffMsg ch n) = true := by
  simp [okOut, noteOff_wf hc hn]; simp [noteOffMsg, isMidi]

theorem okOut_panic {ch : Nat} (hc : ch < 16) : (panicMsgs ch).all okOut = true := by
  have := panicMsgs_wf hc
  simp only [List.all_eq_true, okOut, Bool.and_eq_true] at this ⊢
  intro x hx
  refine ⟨this x hx, ?_⟩
  simp [panicMsgs] at hx
  rcases hx with rfl | ⟨a, _, rfl⟩ <;> rfl

end Hidi.EngineSim
