/-
  The regenerated body of the MIDI-input tracker (`case ev := <-d.midiIn:` of `handleInputEvents`, events.go) computes
  what the model's `Dev.midiIn` computes.  Kept apart from `Bodies.lean` (the key path) so that a change there does not
  touch C17's obligation and vice versa.
-/
import Hidi.Gen.Bodies
set_option linter.unusedSimpArgs false
namespace Hidi.BodiesTie
open Hidi Hidi.GoLite Hidi.Gen

/-! ### the MIDI-input tracker (`handleInputEvents`) -/

theorem evType_cast (a : Nat) :
    evType (a : Int) = ((if a / 16 ≠ 15 ∧ a ≥ 128 then a / 16 * 16 else a : Nat) : Int) := by
  unfold evType
  simp only [Int.toNat_natCast]
  split <;> rfl

theorem evChannel_cast (a : Nat) : evChannel (a : Int) = ((a % 16 : Nat) : Int) := by
  unfold evChannel; simp

theorem beq_cast (x k : Nat) : (((x : Nat) : Int) == ((k : Nat) : Int)) = decide (x = k) := by
  by_cases h : x = k
  · simp [h]
  · have : ¬ ((x : Int) = (k : Int)) := by omega
    simp [h, this]

theorem midiIn_eq (d : Dev) (a b c : Nat) :
    Body.midiInBody (toG d) (a : Int) (b : Int) (c : Int) = toG (d.midiIn a b c) := by
  unfold Body.midiInBody Dev.midiIn
  simp only [Id.run, pure, GSt.setExt, evType_cast, evChannel_cast, Int.toNat_natCast, beq_cast]
  have he : (toG d).ext = d.ext := rfl
  simp only [he]
  generalize (if a / 16 ≠ 15 ∧ a ≥ 128 then a / 16 * 16 else a) = ty
  have hc : ((c : Int) == 0) = decide (c = 0) := beq_cast c 0
  simp only [hc]
  by_cases h2 : ty = stNoteOn
  · by_cases h3 : c = 0
    · simp [h2, h3, toG]
    · simp [h2, h3, toG]
  · by_cases h3 : ty = stNoteOff
    · have hne : ¬ (stNoteOff = stNoteOn) := by decide
      subst h3
      simp [hne, toG]
    · simp [h2, h3]

end Hidi.BodiesTie
