/-
  Helper lemmas for C11 (`HidiProofs/Props/C11.lean`): ASCII character facts about `upperC`,
  `isLetter`, `isDigit`; `matchNote` commutes with upper-casing; every accepted string is, after
  upper-casing, one of 280 candidate strings, which are checked exhaustively by `decide`.
-/
import Hidi.Notes
namespace Hidi.NotesLemmas
open Hidi

theorem toNat_ofNat_small (n : Nat) (h : n < 55296) : (Char.ofNat n).toNat = n := by
  unfold Char.ofNat
  have : n.isValidChar := Or.inl h
  simp [this, Char.ofNatAux, Char.toNat]

theorem char_le_iff (a b : Char) : a ≤ b ↔ a.toNat ≤ b.toNat := by
  rw [Char.le_def, UInt32.le_iff_toNat_le]; rfl

theorem upperC_toNat (c : Char) :
    (upperC c).toNat = if 97 ≤ c.toNat ∧ c.toNat ≤ 122 then c.toNat - 32 else c.toNat := by
  unfold upperC
  simp only [char_le_iff, Char.reduceToNat]
  split
  · rw [toNat_ofNat_small]; omega
  · rfl

theorem isLetter_eq (c : Char) :
    isLetter c = decide ((97 ≤ c.toNat ∧ c.toNat ≤ 122) ∨ (65 ≤ c.toNat ∧ c.toNat ≤ 90)) := by
  unfold isLetter
  simp only [char_le_iff, Char.reduceToNat]

theorem isDigit_eq (c : Char) : isDigit c = decide (48 ≤ c.toNat ∧ c.toNat ≤ 57) := by
  unfold isDigit
  simp only [char_le_iff, Char.reduceToNat]

theorem upperC_idem (c : Char) : upperC (upperC c) = upperC c := by
  apply Char.toNat_inj.mp
  rw [upperC_toNat (upperC c), upperC_toNat c]
  (repeat' split) <;> omega

theorem isLetter_upperC (c : Char) : isLetter (upperC c) = isLetter c := by
  rw [isLetter_eq, isLetter_eq, upperC_toNat, decide_eq_decide]
  split <;> omega

theorem isDigit_upperC (c : Char) : isDigit (upperC c) = isDigit c := by
  rw [isDigit_eq, isDigit_eq, upperC_toNat, decide_eq_decide]
  split <;> omega

theorem upperC_of_isDigit (c : Char) (h : isDigit c = true) : upperC c = c := by
  apply Char.toNat_inj.mp
  rw [isDigit_eq] at h
  rw [upperC_toNat]
  have := of_decide_eq_true h
  split <;> omega

theorem upperC_eq_sharp (c : Char) : upperC c = '#' ↔ c = '#' := by
  rw [← Char.toNat_inj, ← Char.toNat_inj (c := c), upperC_toNat]
  simp only [Char.reduceToNat]
  split <;> omega

theorem upperC_eq_dash (c : Char) : upperC c = '-' ↔ c = '-' := by
  rw [← Char.toNat_inj, ← Char.toNat_inj (c := c), upperC_toNat]
  simp only [Char.reduceToNat]
  split <;> omega


/-- the part of `stringToNote` after the pattern match -/
def post (r : List Char × Bool × Char) : Outcome Nat :=
  match pitchVal (r.1.map upperC) with
  | none => .err
  | some p =>
    if r.2.1 ∧ digitVal r.2.2 = 0 then .err else
    let o : Int := if r.2.1 then -(digitVal r.2.2 : Int) else (digitVal r.2.2 : Int)
    let cal := (((u8 o + 2) % 256) * 12 % 256 + p) % 256
    if cal > 127 then .err else .ok cal

theorem stringToNote_eq (s : List Char) :
    stringToNote s = match matchNote s with | none => .err | some r => post r := by
  unfold stringToNote post
  cases matchNote s with
  | none => rfl
  | some r => obtain ⟨p, neg, d⟩ := r; rfl

theorem post_ne_panic (r : List Char × Bool × Char) : post r ≠ .panic := by
  unfold post
  split
  · simp
  · split
    · simp
    · intro h
      simp only at h
      (repeat' (split at h)) <;> cases h

/-- `stringToNote` never panics -/
theorem stringToNote_ne_panic (s : List Char) : stringToNote s ≠ .panic := by
  rw [stringToNote_eq]
  split
  · simp
  · exact post_ne_panic _

theorem post_map (p : List Char) (neg : Bool) (d : Char) :
    post (p.map upperC, neg, d) = post (p, neg, d) := by
  unfold post
  simp only [List.map_map]
  have : upperC ∘ upperC = upperC := by funext c; simp [upperC_idem]
  rw [this]

theorem matchNote_map (s : List Char) :
    matchNote (s.map upperC) = (matchNote s).map (fun r => (r.1.map upperC, r.2.1, r.2.2)) := by
  match s with
  | [] => simp [matchNote]
  | [_] => simp [matchNote]
  | [l, d] =>
    simp only [matchNote, List.map, isLetter_upperC, isDigit_upperC]
    split
    · next h => simp [upperC_of_isDigit d h.2]
    · simp
  | [l, x, d] =>
    simp only [matchNote, List.map, isLetter_upperC, isDigit_upperC, upperC_eq_sharp, upperC_eq_dash]
    split
    · next h =>
      split
      · simp [upperC_of_isDigit d h.2]; decide
      · split
        · simp [upperC_of_isDigit d h.2]
        · simp
    · simp
  | [l, x, y, d] =>
    simp only [matchNote, List.map, isLetter_upperC, isDigit_upperC, upperC_eq_sharp, upperC_eq_dash]
    split
    · next h => simp [upperC_of_isDigit d h.2.2.2]; decide
    · simp
  | _ :: _ :: _ :: _ :: _ :: _ => simp [matchNote]

theorem stringToNote_upper (s : List Char) : stringToNote (s.map upperC) = stringToNote s := by
  rw [stringToNote_eq, stringToNote_eq, matchNote_map]
  cases matchNote s with
  | none => rfl
  | some r => obtain ⟨p, neg, d⟩ := r; simp [post_map]


def pitches : List Char := ['A', 'B', 'C', 'D', 'E', 'F', 'G']
def digits : List Char := ['0', '1', '2', '3', '4', '5', '6', '7', '8', '9']
def opt (b : Bool) (c : Char) : List Char := if b then [c] else []
/-- candidate strings: pitch letter, optional sharp, optional minus, digit -/
def mk (P : Char) (sharp neg : Bool) (D : Char) : List Char :=
  P :: (opt sharp '#' ++ (opt neg '-' ++ [D]))

theorem mem_digits (d : Char) (h : isDigit d = true) : d ∈ digits := by
  rw [isDigit_eq] at h
  have h := of_decide_eq_true h
  have : d.toNat = 48 ∨ d.toNat = 49 ∨ d.toNat = 50 ∨ d.toNat = 51 ∨ d.toNat = 52 ∨ d.toNat = 53 ∨
      d.toNat = 54 ∨ d.toNat = 55 ∨ d.toNat = 56 ∨ d.toNat = 57 := by omega
  rw [← Char.ofNat_toNat d]
  rcases this with h | h | h | h | h | h | h | h | h | h <;> rw [h] <;> decide

theorem matchNote_shape (s p : List Char) (neg : Bool) (d : Char)
    (h : matchNote s = some (p, neg, d)) :
    isDigit d = true ∧ ∃ l sharp, p = l :: opt sharp '#' ∧ s = mk l sharp neg d := by
  match s with
  | [] => simp [matchNote] at h
  | [_] => simp [matchNote] at h
  | [l, d'] =>
    simp only [matchNote] at h
    split at h
    · next hh =>
      simp at h; obtain ⟨rfl, rfl, rfl⟩ := h
      exact ⟨hh.2, l, false, rfl, rfl⟩
    · simp at h
  | [l, x, d'] =>
    simp only [matchNote] at h
    split at h
    · next hh =>
      split at h
      · next hx =>
        simp at h; obtain ⟨rfl, rfl, rfl⟩ := h
        exact ⟨hh.2, l, true, rfl, by subst hx; rfl⟩
      · split at h
        · next hx =>
          simp at h; obtain ⟨rfl, rfl, rfl⟩ := h
          exact ⟨hh.2, l, false, rfl, by subst hx; rfl⟩
        · simp at h
    · simp at h
  | [l, x, y, d'] =>
    simp only [matchNote] at h
    split at h
    · next hh =>
      simp at h; obtain ⟨rfl, rfl, rfl⟩ := h
      obtain ⟨_, rfl, rfl, hd⟩ := hh
      exact ⟨hd, l, true, rfl, rfl⟩
    · simp at h
  | _ :: _ :: _ :: _ :: _ :: _ => simp [matchNote] at h

theorem pitch_mem (c : Char) (sharp : Bool) (v : Nat)
    (h : pitchVal (c :: opt sharp '#') = some v) : c ∈ pitches := by
  cases sharp <;>
    simp [pitchVal, Gen.pitchToValC, alookup, opt] at h <;>
    simp [pitches]
  all_goals (repeat' (split at h))
  all_goals (first | (rename_i hc; subst hc; simp) | simp at h)


/-- boolean form of "if `t` is accepted then it is the canonical name of the result" -/
def check (t : List Char) : Bool :=
  match stringToNote t with
  | .ok n => decide (n < 128) && decide (t = noteName n)
  | _ => true

theorem check_sound (t : List Char) (n : Nat) (hc : check t = true) (h : stringToNote t = .ok n) :
    n < 128 ∧ t = noteName n := by
  unfold check at hc
  rw [h] at hc
  simpa using hc

/-- the finite check over all 280 candidate strings -/
theorem check_candidates :
    ∀ P ∈ pitches, ∀ sharp ∈ [false, true], ∀ neg ∈ [false, true], ∀ D ∈ digits,
      check (mk P sharp neg D) = true := by
  set_option maxRecDepth 100000 in decide

theorem accepted_shape (s : List Char) (n : Nat) (h : stringToNote s = .ok n) :
    ∃ P ∈ pitches, ∃ sharp neg, ∃ D ∈ digits, s.map upperC = mk P sharp neg D := by
  rw [stringToNote_eq] at h
  cases hm : matchNote s with
  | none => rw [hm] at h; cases h
  | some r =>
    obtain ⟨p, neg, d⟩ := r
    rw [hm] at h
    obtain ⟨hd, l, sharp, rfl, rfl⟩ := matchNote_shape s p neg d hm
    have hp : ∃ v, pitchVal (upperC l :: opt sharp '#') = some v := by
      unfold post at h
      have : (l :: opt sharp '#').map upperC = upperC l :: opt sharp '#' := by
        cases sharp <;> simp [opt, (upperC_eq_sharp '#').mpr rfl]
      simp only [this] at h
      cases hv : pitchVal (upperC l :: opt sharp '#') with
      | none => rw [hv] at h; cases h
      | some v => exact ⟨v, rfl⟩
    obtain ⟨v, hv⟩ := hp
    refine ⟨upperC l, pitch_mem _ _ _ hv, sharp, neg, d, mem_digits d hd, ?_⟩
    cases sharp <;> cases neg <;>
      simp [mk, opt, upperC_of_isDigit d hd, (upperC_eq_sharp '#').mpr rfl, (upperC_eq_dash '-').mpr rfl]

end Hidi.NotesLemmas
