/-
  HidiProofs.FanLemmas — the exactly-once invariant of the fan-out model (`Hidi.Fan`), for every schedule.

  For every output that has not been told to leave: what its consumer has been given (received ++ still buffered) is
  exactly the block of the dispatch log from the moment the output was spawned up to now — minus the message in flight
  if the dispatcher has not reached this output yet.  No gap, no duplicate, no reordering, and nothing that depends on
  the other outputs.
-/
import HidiProofs.EngineSimBase
import Hidi.Fan
namespace Hidi.FanLemmas
open Hidi Hidi.Fan Hidi.EngineSim

/-! ### `freeId` is fresh -/

theorem count_ge_succ (keys : List Nat) (id : Nat) (h : id ∈ keys) :
    (keys.filter (fun k => id + 1 ≤ k)).length + 1 ≤ (keys.filter (fun k => id ≤ k)).length := by
  induction keys with
  | nil => cases h
  | cons k r ih =>
    simp only [List.filter_cons]
    rcases List.mem_cons.mp h with e | e
    · subst e
      have h1 : ¬ (id + 1 ≤ id) := by omega
      simp only [h1, decide_false, Bool.false_eq_true, if_false, Nat.le_refl, decide_true, if_true, List.length_cons]
      have : (r.filter (fun k => id + 1 ≤ k)).length ≤ (r.filter (fun k => id ≤ k)).length := by
        clear ih h
        induction r with
        | nil => simp
        | cons x r ih =>
          simp only [List.filter_cons]
          by_cases c1 : id + 1 ≤ x
          · have c2 : id ≤ x := by omega
            simp only [c1, c2, decide_true, if_true, List.length_cons]; omega
          · by_cases c2 : id ≤ x
            · simp only [c1, c2, decide_true, decide_false, Bool.false_eq_true, if_false, if_true, List.length_cons]; omega
            · simp only [c1, c2, decide_false, Bool.false_eq_true, if_false]; exact ih
      omega
    · have := ih e
      by_cases c1 : id + 1 ≤ k
      · have c2 : id ≤ k := by omega
        simp only [c1, c2, decide_true, if_true, List.length_cons]; omega
      · by_cases c2 : id ≤ k
        · simp only [c1, c2, decide_true, decide_false, Bool.false_eq_true, if_false, if_true, List.length_cons]; omega
        · simp only [c1, c2, decide_false, Bool.false_eq_true, if_false]; exact this

theorem go_fresh (outs : List (Nat × Output)) : ∀ (fuel id : Nat),
    ((akeys outs).filter (fun k => id ≤ k)).length < fuel → freeId.go outs fuel id ∉ akeys outs := by
  intro fuel
  induction fuel with
  | zero => intro id h; omega
  | succ f ih =>
    intro id h
    unfold freeId.go
    by_cases hm : (alookup id outs).isSome = true
    · simp only [hm, if_true]
      apply ih
      have hin : id ∈ akeys outs := by
        cases hx : alookup id outs with
        | none => rw [hx] at hm; cases hm
        | some o => exact List.mem_map_of_mem (f := Prod.fst) (alookup_mem hx)
      have := count_ge_succ (akeys outs) id hin
      omega
    · simp only [hm, Bool.false_eq_true, if_false]
      intro hin
      apply hm
      cases hx : alookup id outs with
      | none => exact absurd hin (alookup_eq_none.mp hx)
      | some o => rfl

theorem freeId_fresh (outs : List (Nat × Output)) : freeId outs ∉ akeys outs := by
  unfold freeId
  apply go_fresh
  have : ((akeys outs).filter (fun k => 0 ≤ k)).length ≤ (akeys outs).length := List.length_filter_le _ _
  simp only [akeys, List.length_map] at this ⊢
  omega

/-! ### `setOut` -/

theorem setOut_keys (s : St) (id : Nat) (o : Output) : akeys (setOut s id o).outputs = akeys s.outputs := by
  unfold setOut akeys
  simp only [List.map_map]
  apply List.map_congr_left
  intro p _
  simp only [Function.comp]
  split
  · rename_i h; exact h.symm
  · rfl

theorem lookup_map_self (l : List (Nat × Output)) (id : Nat) (o : Output) (h : (alookup id l).isSome = true) :
    alookup id (l.map (fun p => if p.1 = id then (id, o) else p)) = some o := by
  induction l with
  | nil => cases h
  | cons p r ih =>
    obtain ⟨k, v⟩ := p
    simp only [List.map_cons]
    by_cases hk : k = id
    · subst hk
      simp only [if_true]
      unfold alookup
      simp only [if_true]
    · simp only [hk, if_false]
      unfold alookup at h ⊢
      simp only [hk, if_false] at h ⊢
      exact ih h

theorem setOut_lookup_self (s : St) (id : Nat) (o : Output) (h : (alookup id s.outputs).isSome = true) :
    alookup id (setOut s id o).outputs = some o := lookup_map_self s.outputs id o h

theorem setOut_lookup_ne (s : St) (id id' : Nat) (o : Output) (h : id' ≠ id) :
    alookup id' (setOut s id o).outputs = alookup id' s.outputs := by
  unfold setOut
  simp only
  induction s.outputs with
  | nil => rfl
  | cons p r ih =>
    obtain ⟨k, v⟩ := p
    simp only [List.map_cons]
    by_cases hk : k = id
    · subst hk
      have : ¬ k = id' := fun e => h e.symm
      simp only [if_true, alookup, this, if_false]
      exact ih
    · simp only [hk, if_false, alookup]
      split
      · rfl
      · exact ih

/-! ### the invariant -/

def todoOf (s : St) : List Nat := match s.inflight with | some (_, t) => t | none => []

def pendingBit (s : St) (id : Nat) : Nat := if id ∈ todoOf s then 1 else 0

/-- the block of the log an output spawned at `since` is entitled to, given whether the message in flight is still to come -/
def entitled (s : St) (id : Nat) (o : Output) : List Nat :=
  (s.log.drop o.since).take (s.log.length - o.since - pendingBit s id)

structure Inv (s : St) : Prop where
  keys : (akeys s.outputs).Nodup
  outs : ∀ id o, alookup id s.outputs = some o → o.leaving = false →
    o.got = entitled s id o ∧ o.since + pendingBit s id ≤ s.log.length
  todo : ∀ m t, s.inflight = some (m, t) → t.Nodup ∧ s.log.getLast? = some m ∧ ∀ id ∈ t, id ∈ akeys s.outputs

theorem inv_init (guarded : Bool) (cap : Nat) : Inv { guarded := guarded, cap := cap } :=
  ⟨by simp [akeys], by intro id o h; simp [alookup] at h, by intro m t h; cases h⟩

theorem take_full {α} (l : List α) (n : Nat) (h : l.length ≤ n) : l.take n = l := List.take_of_length_le h

theorem take_append_last {l : List Nat} {m : Nat} (hl : l.getLast? = some m) :
    l.take (l.length - 1) ++ [m] = l := by
  obtain ⟨ys, rfl⟩ := List.getLast?_eq_some_iff.mp hl
  simp

theorem step_inv (s : St) (x : Step) (hi : Inv s) (he : enabled s x = true) : Inv (step s x) := by
  cases x with
  | feed m =>
    exact ⟨hi.keys, hi.outs, hi.todo⟩
  | take =>
    simp only [enabled, Bool.and_eq_true, Option.isNone_iff_eq_none, Bool.not_eq_true', List.isEmpty_eq_false_iff] at he
    cases hq : s.input with
    | nil => exact absurd hq he.2
    | cons m r =>
      simp only [step, hq]
      refine ⟨hi.keys, ?_, ?_⟩
      · intro id o hl hlv
        obtain ⟨h1, h2⟩ := hi.outs id o hl hlv
        have hb0 : pendingBit s id = 0 := by simp [pendingBit, todoOf, he.1]
        have hin : id ∈ akeys s.outputs := List.mem_map_of_mem (f := Prod.fst) (alookup_mem hl)
        have hb1 : pendingBit { s with input := r, inflight := some (m, akeys s.outputs), log := s.log ++ [m] } id = 1 := by
          simp [pendingBit, todoOf, hin]
        unfold entitled at h1 ⊢
        rw [hb0] at h1 h2
        rw [hb1]
        simp only [List.length_append, List.length_cons, List.length_nil]
        refine ⟨?_, by omega⟩
        rw [h1]
        have hd : (s.log ++ [m]).drop o.since = s.log.drop o.since ++ [m] := by
          rw [List.drop_append_of_le_length (by omega)]
        rw [hd]
        have e1 : s.log.length + 1 - o.since - 1 = s.log.length - o.since := by omega
        rw [e1, Nat.sub_zero]
        have hlen : (s.log.drop o.since).length = s.log.length - o.since := by simp
        rw [List.take_append_of_le_length (by omega), take_full _ _ (by omega)]
      · intro m' t h
        simp only [Option.some.injEq, Prod.mk.injEq] at h
        obtain ⟨rfl, rfl⟩ := h
        exact ⟨hi.keys, by simp, fun id h => h⟩
  | send =>
    simp only [step]
    cases hf : s.inflight with
    | none => simp only [hf]; exact hi
    | some mt =>
      obtain ⟨m, t⟩ := mt
      cases t with
      | nil => simp only [hf]; exact hi
      | cons id rest =>
        obtain ⟨tn, tl, tk⟩ := hi.todo m (id :: rest) hf
        have hnot : id ∉ rest := (List.nodup_cons.mp tn).1
        have hrn : rest.Nodup := (List.nodup_cons.mp tn).2
        simp only [hf]
        -- what happens to the bit of every output
        have bit_other : ∀ (s' : St), s'.inflight = some (m, rest) → ∀ id', id' ≠ id → pendingBit s' id' = pendingBit s id' := by
          intro s' hs' id' hne
          simp only [pendingBit, todoOf, hs', hf, List.mem_cons, hne, false_or]
        cases hl : alookup id s.outputs with
        | none =>
          simp only
          refine ⟨hi.keys, ?_, ?_⟩
          · intro id' o' hl' hlv'
            have hne : id' ≠ id := by intro e; subst e; rw [hl] at hl'; cases hl'
            obtain ⟨h1, h2⟩ := hi.outs id' o' hl' hlv'
            have hb := bit_other { s with inflight := some (m, rest) } rfl id' hne
            simp only [entitled, hb] at h1 h2 ⊢
            exact ⟨h1, h2⟩
          · intro m' t' h
            simp only [Option.some.injEq, Prod.mk.injEq] at h
            obtain ⟨rfl, rfl⟩ := h
            exact ⟨hrn, tl, fun i hi' => tk i (List.mem_cons_of_mem _ hi')⟩
        | some o =>
          simp only
          by_cases hroom : o.buf.length < s.cap
          · simp only [hroom, if_true]
            refine ⟨by rw [setOut_keys]; exact hi.keys, ?_, ?_⟩
            · intro id' o' hl' hlv'
              by_cases hne : id' = id
              · subst hne
                rw [setOut_lookup_self s id' _ (by rw [hl]; rfl)] at hl'
                simp only [Option.some.injEq] at hl'
                subst hl'
                have hlv : o.leaving = false := hlv'
                obtain ⟨h1, h2⟩ := hi.outs id' o hl hlv
                have hb1 : pendingBit s id' = 1 := by simp [pendingBit, todoOf, hf]
                have hb0 : pendingBit { setOut s id' { o with buf := o.buf ++ [m] } with inflight := some (m, rest) } id' = 0 := by
                  simp [pendingBit, todoOf, hnot]
                unfold entitled at h1 ⊢
                rw [hb1] at h1 h2
                rw [hb0]
                have hlog : (setOut s id' { o with buf := o.buf ++ [m] }).log = s.log := rfl
                simp only [hlog, Nat.sub_zero]
                refine ⟨?_, by omega⟩
                have hgot : ({ o with buf := o.buf ++ [m] } : Output).got = o.got ++ [m] := by
                  simp [Output.got, List.append_assoc]
                rw [hgot, h1]
                have hlen : (s.log.drop o.since).length = s.log.length - o.since := by simp
                have hlast : (s.log.drop o.since).getLast? = some m := by
                  rw [List.getLast?_drop]
                  simp only [tl]
                  split
                  · omega
                  · rfl
                have := take_append_last hlast
                rw [hlen] at this
                rw [this, take_full _ _ (by omega)]
              · rw [setOut_lookup_ne s id id' _ hne] at hl'
                obtain ⟨h1, h2⟩ := hi.outs id' o' hl' hlv'
                have hb := bit_other { setOut s id { o with buf := o.buf ++ [m] } with inflight := some (m, rest) } rfl id' hne
                simp only [entitled, hb] at h1 h2 ⊢
                exact ⟨h1, h2⟩
            · intro m' t' h
              simp only [Option.some.injEq, Prod.mk.injEq] at h
              obtain ⟨rfl, rfl⟩ := h
              refine ⟨hrn, tl, ?_⟩
              intro i hi'
              rw [setOut_keys]
              exact tk i (List.mem_cons_of_mem _ hi')
          · -- full: the step is enabled only because the output is leaving (guarded) — it is skipped
            simp only [hroom, if_false]
            have hleaving : o.leaving = true := by
              simp only [enabled, hf, hl, hroom, decide_false, Bool.false_or, Bool.and_eq_true] at he
              exact he.2
            refine ⟨hi.keys, ?_, ?_⟩
            · intro id' o' hl' hlv'
              have hne : id' ≠ id := by
                intro e; subst e; rw [hl] at hl'; simp only [Option.some.injEq] at hl'; subst hl'
                rw [hleaving] at hlv'; cases hlv'
              obtain ⟨h1, h2⟩ := hi.outs id' o' hl' hlv'
              have hb := bit_other { s with inflight := some (m, rest) } rfl id' hne
              simp only [entitled, hb] at h1 h2 ⊢
              exact ⟨h1, h2⟩
            · intro m' t' h
              simp only [Option.some.injEq, Prod.mk.injEq] at h
              obtain ⟨rfl, rfl⟩ := h
              exact ⟨hrn, tl, fun i hi' => tk i (List.mem_cons_of_mem _ hi')⟩
  | unlock =>
    simp only [step]
    have ht : todoOf s = [] := by
      simp only [enabled] at he
      unfold todoOf
      split at he
      · rename_i hf; rw [hf]
      · cases he
    refine ⟨hi.keys, ?_, by intro m t h; cases h⟩
    intro id o hl hlv
    obtain ⟨h1, h2⟩ := hi.outs id o hl hlv
    have hb : pendingBit s id = 0 := by simp [pendingBit, ht]
    have hb' : pendingBit { s with inflight := none } id = 0 := by simp [pendingBit, todoOf]
    simp only [entitled, hb, hb'] at h1 h2 ⊢
    exact ⟨h1, h2⟩
  | spawn =>
    simp only [enabled, Option.isNone_iff_eq_none] at he
    simp only [step]
    have hfresh := freeId_fresh s.outputs
    refine ⟨?_, ?_, by intro m t h; rw [he] at h; cases h⟩
    · have : akeys (s.outputs ++ [(freeId s.outputs, ({ since := s.log.length } : Output))]) = akeys s.outputs ++ [freeId s.outputs] := by
        simp [akeys]
      rw [this]
      refine List.nodup_append.mpr ⟨hi.keys, by simp, ?_⟩
      intro a ha b hb
      simp at hb; subst hb
      intro e; subst e; exact hfresh ha
    · intro id o hl hlv
      rw [alookup_append] at hl
      have hbit : ∀ i, pendingBit { s with outputs := s.outputs ++ [(freeId s.outputs, ({ since := s.log.length } : Output))] } i = 0 := by
        intro i; simp [pendingBit, todoOf, he]
      cases hx : alookup id s.outputs with
      | some o' =>
        rw [hx] at hl
        have : o' = o := by simpa using hl
        subst this
        obtain ⟨h1, h2⟩ := hi.outs id o' hx hlv
        have hb : pendingBit s id = 0 := by simp [pendingBit, todoOf, he]
        simp only [entitled, hb, hbit] at h1 h2 ⊢
        exact ⟨h1, h2⟩
      | none =>
        rw [hx] at hl
        by_cases hid : freeId s.outputs = id
        · have : o = ({ since := s.log.length } : Output) := by
            simp [alookup, hid] at hl; exact hl.symm
          subst this
          simp [entitled, hbit, Output.got]
        · simp [alookup, hid] at hl
  | callDespawn id =>
    simp only [step]
    split
    · cases hl : alookup id s.outputs with
      | none => simp only; exact ⟨hi.keys, hi.outs, hi.todo⟩
      | some o =>
        simp only
        refine ⟨by rw [setOut_keys]; exact hi.keys, ?_, ?_⟩
        · intro id' o' hl' hlv'
          by_cases hne : id' = id
          · subst hne
            rw [setOut_lookup_self _ id' _ (by simp only; rw [hl]; rfl)] at hl'
            simp only [Option.some.injEq] at hl'; subst hl'
            cases hlv'
          · rw [setOut_lookup_ne _ id id' _ hne] at hl'
            exact hi.outs id' o' hl' hlv'
        · intro m t h
          obtain ⟨a, b, c⟩ := hi.todo m t h
          exact ⟨a, b, by intro i hi'; rw [setOut_keys]; exact c i hi'⟩
    · exact ⟨hi.keys, hi.outs, hi.todo⟩
  | despawn id =>
    simp only [enabled, Bool.and_eq_true, Option.isNone_iff_eq_none] at he
    simp only [step]
    cases hl : alookup id s.outputs with
    | none => simp only; exact ⟨hi.keys, hi.outs, hi.todo⟩
    | some o =>
      simp only
      refine ⟨nodup_akeys_aerase hi.keys, ?_, by intro m t h; rw [he.1] at h; cases h⟩
      intro id' o' hl' hlv'
      by_cases hne : id' = id
      · subst hne; rw [alookup_aerase_self] at hl'; cases hl'
      · rw [alookup_aerase_ne hne] at hl'
        obtain ⟨h1, h2⟩ := hi.outs id' o' hl' hlv'
        have hb : pendingBit s id' = 0 := by simp [pendingBit, todoOf, he.1]
        have hb' : pendingBit { s with outputs := aerase id s.outputs, gone := s.gone ++ [(id, o)],
                                       pendingDespawn := s.pendingDespawn.filter (· ≠ id) } id' = 0 := by
          simp [pendingBit, todoOf, he.1]
        simp only [entitled, hb, hb'] at h1 h2 ⊢
        exact ⟨h1, h2⟩
  | consume id =>
    simp only [step]
    cases hl : alookup id s.outputs with
    | none => simp only; exact hi
    | some o =>
      simp only
      cases hb : o.buf with
      | nil => simp only; exact hi
      | cons m r =>
        simp only
        refine ⟨by rw [setOut_keys]; exact hi.keys, ?_, ?_⟩
        · intro id' o' hl' hlv'
          by_cases hne : id' = id
          · subst hne
            rw [setOut_lookup_self s id' _ (by rw [hl]; rfl)] at hl'
            simp only [Option.some.injEq] at hl'; subst hl'
            obtain ⟨h1, h2⟩ := hi.outs id' o hl hlv'
            have hbit : pendingBit (setOut s id' { o with buf := r, recvd := o.recvd ++ [m] }) id' = pendingBit s id' := rfl
            have hlog : (setOut s id' { o with buf := r, recvd := o.recvd ++ [m] }).log = s.log := rfl
            unfold entitled at h1 ⊢
            rw [hbit, hlog]
            refine ⟨?_, h2⟩
            rw [← h1]
            simp [Output.got, hb]
          · rw [setOut_lookup_ne s id id' _ hne] at hl'
            exact hi.outs id' o' hl' hlv'
        · intro m' t h
          obtain ⟨a, b, c⟩ := hi.todo m' t h
          exact ⟨a, b, by intro i hi'; rw [setOut_keys]; exact c i hi'⟩

theorem run_inv (steps : List Step) : ∀ s, Inv s → Inv (run s steps) := by
  induction steps with
  | nil => intro s h; exact h
  | cons x r ih =>
    intro s h
    simp only [run]
    split
    · rename_i he; exact ih _ (step_inv s x h he)
    · exact ih _ h

end Hidi.FanLemmas
