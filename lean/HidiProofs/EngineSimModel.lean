/-
  HidiProofs.EngineSimModel — what the Go functions `NoteOn`, `NoteOff`, `checkDoubleActions`,
  the action handlers and `handleKEYEvent` do to a reachable model state (model-only facts).
-/
import HidiProofs.EngineSimStep
namespace Hidi.EngineSim
open Hidi Hidi.Spec

theorem accepted_vel {cfg : Config} (h : Accepted cfg = true) : 1 ≤ u8 cfg.vel ∧ u8 cfg.vel ≤ 127 := by
  simp only [Accepted, Bool.and_eq_true, decide_eq_true_eq, Bool.decide_and] at h
  unfold u8; omega

theorem accepted_maps {cfg : Config} (h : Accepted cfg = true) : ∀ m ∈ cfg.maps, mappingOk m = true := by
  simp only [Accepted, Bool.and_eq_true, decide_eq_true_eq, Bool.decide_and, List.all_eq_true] at h
  exact h.1

theorem DInv.curMap {cfg : Config} {d : Dev} (h : DInv cfg d) :
    ∃ m, d.curMap = some m ∧ cfg.maps[d.mapping]? = some m ∧ m ∈ cfg.maps := by
  refine ⟨cfg.maps[d.mapping]'h.map, ?_, ?_, ?_⟩
  · unfold Dev.curMap; rw [h.cfg_eq]; exact List.getElem?_eq_getElem h.map
  · exact List.getElem?_eq_getElem h.map
  · exact List.getElem_mem _

theorem key_ok_of_lookup {cfg : Config} (hacc : Accepted cfg = true) {m : Mapping} (hm : m ∈ cfg.maps)
    {sc : Sub × Code} {k : Key} (hk : alookup sc m.midi = some k) : k.note ≤ 127 ∧ k.chOff ≤ 15 := by
  have := accepted_maps hacc m hm
  simp only [mappingOk, Bool.and_eq_true, decide_eq_true_eq, Bool.decide_and, List.all_eq_true] at this
  have := this.1 _ (alookup_mem hk)
  simpa [keyOk] using this

/-! ### `NoteOn` -/

/-- the state after a sounding press -/
def pressed (d : Dev) (code : Code) (n ch : Nat) : Dev :=
  { d with noteTr := ainsert code (n, ch) d.noteTr, counter := ainsert (ch, n) (d.count ch n + 1) d.counter }

/-- the messages of a sounding press, by collision mode and number of holders -/
def pressOuts (mode : Collision) (held : Bool) (ch n v : Nat) : List Out :=
  match mode with
  | .off | .retrigger => [noteOnMsg ch n v]
  | .noRepeat => if held then [] else [noteOnMsg ch n v]
  | .interrupt => if held then [noteOffMsg ch n, noteOnMsg ch n v] else [noteOnMsg ch n v]

theorem noteOn_eq {cfg : Config} {d : Dev} (hd : DInv cfg d) (sub : Sub) (code : Code) :
    d.noteOn sub code =
      match resolve cfg (StObs.ofDev d) (u8 cfg.vel) sub code with
      | none => (d, [])
      | some (n, ch, v) => (pressed d code n ch, pressOuts cfg.mode (decide (d.count ch n > 0)) ch n v) := by
  obtain ⟨m, hm1, hm2, -⟩ := hd.curMap
  unfold Dev.noteOn resolve
  simp only [hm1, StObs.ofDev, hm2]
  cases hk : alookup (sub, code) m.midi with
  | none => rfl
  | some k =>
    simp only [Dev.transposed]
    have e : (k.note : Int) + d.octave * 12 + d.semitone = (k.note : Int) + 12 * d.octave + d.semitone := by omega
    simp only [e]
    have hmode : d.cfg.mode = cfg.mode := by rw [hd.cfg_eq]
    by_cases hr : (k.note : Int) + 12 * d.octave + d.semitone < 0 ∨ (k.note : Int) + 12 * d.octave + d.semitone > 127
    · simp only [hr, if_true]
    · have hc : chanOf d.channel k.chOff = (d.channel + k.chOff) % 16 := by unfold chanOf; omega
      have hlt : (d.channel + k.chOff) % 16 < 16 := by omega
      simp only [hr, if_false, hc, Dev.setCount, pressed, Dev.count, hd.vel, hmode, noteEvent_on hlt,
        noteEvent_off hlt, pressOuts]
      congr 1
      cases cfg.mode <;> simp

theorem resolve_some {cfg : Config} (hacc : Accepted cfg = true) {s : StObs} {vel : Nat} {sub : Sub} {code : Code}
    {n ch v : Nat} (h : resolve cfg s vel sub code = some (n, ch, v)) : n ≤ 127 ∧ ch < 16 ∧ v = vel := by
  unfold resolve at h
  split at h
  · simp at h
  · split at h
    · simp at h
    · simp only [] at h
      split at h
      · simp at h
      · simp only [Option.some.injEq, Prod.mk.injEq] at h
        omega

theorem count_pressed (d : Dev) (code : Code) (n ch : Nat) (ch' n' : Nat) :
    (pressed d code n ch).count ch' n' = if (ch', n') = (ch, n) then d.count ch n + 1 else d.count ch' n' := by
  unfold pressed Dev.count
  by_cases h : (ch', n') = (ch, n)
  · simp only [h, alookup_ainsert_self, if_true]; rfl
  · simp only [alookup_ainsert_ne h, h, if_false]

theorem DInv.pressed {cfg : Config} {d : Dev} (hd : DInv cfg d) (code : Code) {n ch : Nat}
    (hn : n ≤ 127) (hc : ch < 16) : DInv cfg (pressed d code n ch) := by
  refine ⟨hd.cfg_eq, hd.dead, hd.ana, hd.ch, hd.map, hd.vel, hd.oct, hd.semi, ?_⟩
  intro p hp
  simp only [EngineSim.pressed] at hp
  rcases mem_ainsert.mp hp with ⟨h, -⟩ | rfl
  · exact hd.wf p h
  · exact ⟨hn, hc⟩

theorem Core.pressed {d : Dev} {snd : List (Nat × Nat)} (hc : Core d snd) {code : Code} (hcode : code ∉ akeys d.noteTr)
    (mode : Collision) {n ch v : Nat} (hch : ch < 16) (hv : 0 < v) :
    Core (pressed d code n ch) (sounding snd (pressOuts mode (decide (d.count ch n > 0)) ch n v)) := by
  have hnt : (EngineSim.pressed d code n ch).noteTr = ainsert code (n, ch) d.noteTr := rfl
  have hsub : ∀ p, p ∈ d.noteTr → p ∈ ainsert code (n, ch) d.noteTr := by
    intro p hp
    refine mem_ainsert.mpr (Or.inl ⟨hp, ?_⟩)
    intro e; apply hcode; rw [← e]; exact List.mem_map_of_mem (f := (·.1)) hp
  refine ⟨?_, ?_, ?_⟩
  · rw [hnt]; exact nodup_akeys_ainsert hc.nodup
  · intro ch' n'
    rw [count_pressed, hnt, holders_ainsert, aerase_of_not_mem hcode, hc.cnt, hc.cnt]
    by_cases h : (ch', n') = (ch, n)
    · have h' : (n, ch) = (n', ch') := by simp only [Prod.mk.injEq] at h ⊢; exact ⟨h.2.symm, h.1.symm⟩
      simp only [Prod.mk.injEq] at h
      simp [h.1, h.2]
    · have h' : ¬ (n, ch) = (n', ch') := by
        simp only [Prod.mk.injEq] at h ⊢; intro e; exact h ⟨e.2.symm, e.1.symm⟩
      simp [h, h']
  · rw [hnt]
    have hon : ∀ s : List (Nat × Nat), (∀ p ∈ s, ∃ k, (k, (p.2, p.1)) ∈ d.noteTr) →
        ∀ p ∈ sinsert (ch, n) s, ∃ k, (k, (p.2, p.1)) ∈ ainsert code (n, ch) d.noteTr := by
      intro s hs p hp
      rcases mem_sinsert.mp hp with h | rfl
      · obtain ⟨k, hk⟩ := hs p h; exact ⟨k, hsub _ hk⟩
      · exact ⟨code, mem_ainsert.mpr (Or.inr rfl)⟩
    have hoff : ∀ s : List (Nat × Nat), (∀ p ∈ s, ∃ k, (k, (p.2, p.1)) ∈ d.noteTr) →
        ∀ p ∈ serase (ch, n) s, ∃ k, (k, (p.2, p.1)) ∈ d.noteTr := by
      intro s hs p hp; exact hs p (mem_serase.mp hp).1
    cases mode <;> simp only [pressOuts]
    · simp only [sounding, List.foldl, recv_on hch hv]; exact hon _ hc.snd
    · split
      · intro p hp; obtain ⟨k, hk⟩ := hc.snd p hp; exact ⟨k, hsub _ hk⟩
      · simp only [sounding, List.foldl, recv_on hch hv]; exact hon _ hc.snd
    · split
      · simp only [sounding, List.foldl, recv_on hch hv, recv_off hch]; exact hon _ (hoff _ hc.snd)
      · simp only [sounding, List.foldl, recv_on hch hv]; exact hon _ hc.snd
    · simp only [sounding, List.foldl, recv_on hch hv]; exact hon _ hc.snd

theorem pressOuts_ok (mode : Collision) (held : Bool) {ch n v : Nat} (hc : ch < 16) (hn : n ≤ 127) (hv : v ≤ 127) :
    (pressOuts mode held ch n v).all okOut = true := by
  cases mode <;> cases held <;> simp [pressOuts, okOut_on hc hn hv, okOut_off hc hn]

/-! ### `NoteOff` -/

def released (d : Dev) (code : Code) (n ch : Nat) : Dev :=
  { d with noteTr := aerase code d.noteTr, counter := ainsert (ch, n) (d.count ch n - 1) d.counter }

def releaseOuts (mode : Collision) (last : Bool) (ch n : Nat) : List Out :=
  match mode with
  | .off => [noteOffMsg ch n]
  | _ => if last then [noteOffMsg ch n] else []

theorem noteOff_eq {cfg : Config} {d : Dev} (hd : DInv cfg d) (code : Code) :
    d.noteOff code =
      match alookup code d.noteTr with
      | none => (d, [])
      | some (n, ch) => (released d code n ch, releaseOuts cfg.mode (decide (d.count ch n = 1)) ch n) := by
  unfold Dev.noteOff
  cases hk : alookup code d.noteTr with
  | none => rfl
  | some q =>
    obtain ⟨n, ch⟩ := q
    have hch : ch < 16 := (hd.wf _ (alookup_mem hk)).2
    have hmode : d.cfg.mode = cfg.mode := by rw [hd.cfg_eq]
    simp only [Dev.setCount, released, Dev.count, hmode, noteEvent_off hch, releaseOuts]
    congr 1
    by_cases h1 : (alookup (ch, n) d.counter).getD 0 = 1 <;> cases cfg.mode <;> simp [h1]

theorem count_released (d : Dev) (code : Code) (n ch : Nat) (ch' n' : Nat) :
    (released d code n ch).count ch' n' = if (ch', n') = (ch, n) then d.count ch n - 1 else d.count ch' n' := by
  unfold released Dev.count
  by_cases h : (ch', n') = (ch, n)
  · simp only [h, alookup_ainsert_self, if_true]; rfl
  · simp only [alookup_ainsert_ne h, h, if_false]

theorem DInv.released {cfg : Config} {d : Dev} (hd : DInv cfg d) (code : Code) (n ch : Nat) :
    DInv cfg (released d code n ch) := by
  refine ⟨hd.cfg_eq, hd.dead, hd.ana, hd.ch, hd.map, hd.vel, hd.oct, hd.semi, ?_⟩
  intro p hp
  simp only [EngineSim.released] at hp
  exact hd.wf p (mem_aerase.mp hp).1

theorem releaseOuts_ok (mode : Collision) (last : Bool) {ch n : Nat} (hc : ch < 16) (hn : n ≤ 127) :
    (releaseOuts mode last ch n).all okOut = true := by
  cases mode <;> cases last <;> simp [releaseOuts, okOut_off hc hn]

theorem Core.released {d : Dev} {snd : List (Nat × Nat)} (hc : Core d snd) {code : Code} {n ch : Nat}
    (hk : alookup code d.noteTr = some (n, ch)) (mode : Collision) (hch : ch < 16) :
    Core (released d code n ch) (sounding snd (releaseOuts mode (decide (d.count ch n = 1)) ch n)) := by
  have hnt : (EngineSim.released d code n ch).noteTr = aerase code d.noteTr := rfl
  have hh := holders_aerase_of_lookup hc.nodup hk
  -- an entry for another pitch survives the erasure
  have hother : ∀ p : Nat × Nat, p ≠ (ch, n) → (∃ k, (k, (p.2, p.1)) ∈ d.noteTr) →
      ∃ k, (k, (p.2, p.1)) ∈ aerase code d.noteTr := by
    rintro p hp ⟨k, hkm⟩
    refine ⟨k, mem_aerase.mpr ⟨hkm, ?_⟩⟩
    intro e
    simp only at e
    rw [e] at hkm
    have := alookup_of_mem_nodup hc.nodup hkm
    rw [hk] at this
    simp only [Option.some.injEq, Prod.mk.injEq] at this
    apply hp
    rw [← Prod.eta p, ← this.1, ← this.2]
  have hoff : ∀ p ∈ serase (ch, n) snd, ∃ k, (k, (p.2, p.1)) ∈ aerase code d.noteTr := by
    intro p hp
    obtain ⟨h1, h2⟩ := mem_serase.mp hp
    exact hother p h2 (hc.snd p h1)
  refine ⟨?_, ?_, ?_⟩
  · rw [hnt]; exact nodup_akeys_aerase hc.nodup
  · intro ch' n'
    rw [count_released, hnt, hc.cnt, hc.cnt]
    have h1 := hh (n', ch')
    have h2 := hh (n, ch)
    by_cases h : (ch', n') = (ch, n)
    · simp only [Prod.mk.injEq] at h
      simp only [h.1, h.2, if_true] at h1 ⊢
      omega
    · have h' : ¬ (n, ch) = (n', ch') := by
        simp only [Prod.mk.injEq] at h ⊢; intro e; exact h ⟨e.2.symm, e.1.symm⟩
      simp only [h', if_false] at h1
      simp only [h, if_false]
      omega
  · rw [hnt]
    have hquiet : d.count ch n ≠ 1 → ∀ p ∈ snd, ∃ k, (k, (p.2, p.1)) ∈ aerase code d.noteTr := by
      intro hne p hp
      by_cases e : p = (ch, n)
      · subst e
        have h2 := hh (n, ch)
        have h3 := hc.cnt ch n
        simp only [if_true] at h2
        have : 0 < holders (aerase code d.noteTr) (n, ch) := by omega
        exact holders_pos_iff.mp this
      · exact hother p e (hc.snd p hp)
    cases mode <;> simp only [releaseOuts]
    · simp only [sounding, List.foldl, recv_off hch]; exact hoff
    all_goals
      by_cases h1 : d.count ch n = 1
      · simp only [h1, decide_true, if_true, sounding, List.foldl, recv_off hch]; exact hoff
      · simp only [h1, decide_false, sounding, List.foldl]; exact hquiet h1

/-! ### state actions -/

/-- `d'` differs from `d` at most in octave, semitone, channel, mapping, learning, multi, ext -/
structure Frame (d d' : Dev) : Prop where
  cfg : d'.cfg = d.cfg
  velocity : d'.velocity = d.velocity
  noteTr : d'.noteTr = d.noteTr
  anaTr : d'.anaTr = d.anaTr
  counter : d'.counter = d.counter
  actTr : d'.actTr = d.actTr
  keyTr : d'.keyTr = d.keyTr
  dead : d'.dead = d.dead

theorem Frame.refl (d : Dev) : Frame d d := ⟨rfl, rfl, rfl, rfl, rfl, rfl, rfl, rfl⟩

theorem Frame.trans {a b c : Dev} (h1 : Frame a b) (h2 : Frame b c) : Frame a c :=
  ⟨h2.cfg.trans h1.cfg, h2.velocity.trans h1.velocity, h2.noteTr.trans h1.noteTr, h2.anaTr.trans h1.anaTr,
   h2.counter.trans h1.counter, h2.actTr.trans h1.actTr, h2.keyTr.trans h1.keyTr, h2.dead.trans h1.dead⟩

theorem DInv.frame {cfg : Config} {d d' : Dev} (hd : DInv cfg d) (hf : Frame d d') (hch : d'.channel < 16)
    (hmap : d'.mapping < cfg.maps.length) (ho : True)
    (hs : True) : DInv cfg d' :=
  ⟨hf.cfg.trans hd.cfg_eq, hf.dead.trans hd.dead, hf.anaTr.trans hd.ana, hch, hmap, hf.velocity.trans hd.vel, ho, hs,
   by rw [hf.noteTr]; exact hd.wf⟩

theorem Core.frame {d d' : Dev} {snd : List (Nat × Nat)} (hc : Core d snd) (h1 : d'.noteTr = d.noteTr)
    (h2 : d'.counter = d.counter) : Core d' snd := by
  refine ⟨by rw [h1]; exact hc.nodup, ?_, by rw [h1]; exact hc.snd⟩
  intro ch n
  have := hc.cnt ch n
  unfold Dev.count at this ⊢
  rw [h1, h2]; exact this

theorem wrap8_range (x : Int) : -128 ≤ wrap8 x ∧ wrap8 x ≤ 127 := by unfold wrap8; omega

def nowrap (_d : Dev) : Prop := True

theorem checkDouble_frame (d : Dev) : Frame d d.checkDouble.1 := by
  unfold Dev.checkDouble
  (repeat' split) <;> exact ⟨rfl, rfl, rfl, rfl, rfl, rfl, rfl, rfl⟩

theorem checkDouble_dinv {cfg : Config} {d : Dev} (hd : DInv cfg d) : DInv cfg d.checkDouble.1 := by
  have hpos : 0 < cfg.maps.length := Nat.lt_of_le_of_lt (Nat.zero_le _) hd.map
  apply hd.frame (checkDouble_frame d)
  all_goals first
    | trivial
    | (unfold Dev.checkDouble
       (repeat' split) <;> first | exact hd.ch | exact hd.map | exact hpos | (simp))

theorem checkDouble_dbl (d : Dev) :
    d.checkDouble.2 = true ↔ d.actTr.length > 1 ∧ completePairs d.actTr ≠ [] := by
  unfold Dev.checkDouble completePairs pairs
  by_cases h1 : Action.mappingUp ∈ d.actTr ∧ Action.mappingDown ∈ d.actTr <;>
  by_cases h2 : Action.octaveUp ∈ d.actTr ∧ Action.octaveDown ∈ d.actTr <;>
  by_cases h3 : Action.semitoneUp ∈ d.actTr ∧ Action.semitoneDown ∈ d.actTr <;>
  by_cases h4 : Action.channelUp ∈ d.actTr ∧ Action.channelDown ∈ d.actTr <;>
  by_cases h0 : d.actTr.length > 1 <;>
  simp [List.filter_cons, h0, h1, h2, h3, h4]

theorem checkDouble_false {d : Dev} (h : d.checkDouble.2 = false) : d.checkDouble.1 = d := by
  unfold Dev.checkDouble at h ⊢
  (repeat' split) <;> simp_all

theorem checkDouble_one {d : Dev} {p : Action × Action} (h : d.checkDouble.2 = true)
    (hp : completePairs d.actTr = [p]) :
    stateKeyOf (StObs.ofDev d.checkDouble.1) = resetEffect (StObs.ofDev d) p := by
  unfold Dev.checkDouble completePairs pairs at *
  by_cases h1 : Action.mappingUp ∈ d.actTr ∧ Action.mappingDown ∈ d.actTr <;>
  by_cases h2 : Action.octaveUp ∈ d.actTr ∧ Action.octaveDown ∈ d.actTr <;>
  by_cases h3 : Action.semitoneUp ∈ d.actTr ∧ Action.semitoneDown ∈ d.actTr <;>
  by_cases h4 : Action.channelUp ∈ d.actTr ∧ Action.channelDown ∈ d.actTr <;>
  by_cases h0 : d.actTr.length > 1 <;>
  simp [List.filter_cons, h0, h1, h2, h3, h4] at h hp ⊢ <;>
  (subst hp; simp [stateKeyOf, StObs.ofDev, resetEffect])

theorem invokePress_frame (d : Dev) (a : Action) : Frame d (d.invokePress a).1 := by
  unfold Dev.invokePress
  cases a <;> simp only <;> (try split) <;> exact ⟨rfl, rfl, rfl, rfl, rfl, rfl, rfl, rfl⟩

theorem invokePress_outs (d : Dev) (a : Action) :
    (d.invokePress a).2 = if a = .panic then panicOuts d.channel else [] := by
  unfold Dev.invokePress
  cases a <;> simp

/-- octave, semitone, channel, mapping after an action press -/
def pressKey (d : Dev) : Action → Int × Int × Nat × Nat
  | .octaveUp => (d.octave + 1, d.semitone, d.channel, d.mapping)
  | .octaveDown => (d.octave - 1, d.semitone, d.channel, d.mapping)
  | .semitoneUp => (d.octave, d.semitone + 1, d.channel, d.mapping)
  | .semitoneDown => (d.octave, d.semitone - 1, d.channel, d.mapping)
  | .channelUp => (d.octave, d.semitone, if d.channel ≠ 15 then (d.channel + 1) % 256 else d.channel, d.mapping)
  | .channelDown => (d.octave, d.semitone, if d.channel ≠ 0 then d.channel - 1 else d.channel, d.mapping)
  | .mappingUp => (d.octave, d.semitone, d.channel,
      if (d.mapping : Int) ≠ (d.cfg.maps.length : Int) - 1 then d.mapping + 1 else d.mapping)
  | .mappingDown => (d.octave, d.semitone, d.channel, if d.mapping ≠ 0 then d.mapping - 1 else d.mapping)
  | _ => (d.octave, d.semitone, d.channel, d.mapping)

theorem invokePress_key (d : Dev) (a : Action) :
    ((d.invokePress a).1.octave, (d.invokePress a).1.semitone, (d.invokePress a).1.channel,
      (d.invokePress a).1.mapping) = pressKey d a := by
  unfold Dev.invokePress pressKey
  cases a <;> simp only <;> split <;> rfl

theorem invokePress_dinv {cfg : Config} {d : Dev} (hd : DInv cfg d) (a : Action) : DInv cfg (d.invokePress a).1 := by
  have hc := hd.ch
  have hm := hd.map
  have ho := hd.oct
  have hs := hd.semi
  have hcfg := hd.cfg_eq
  have hk := invokePress_key d a
  have h1 : (d.invokePress a).1.octave = (pressKey d a).1 := congrArg (·.1) hk
  have h2 : (d.invokePress a).1.semitone = (pressKey d a).2.1 := congrArg (·.2.1) hk
  have h3 : (d.invokePress a).1.channel = (pressKey d a).2.2.1 := congrArg (·.2.2.1) hk
  have h4 : (d.invokePress a).1.mapping = (pressKey d a).2.2.2 := congrArg (·.2.2.2) hk
  apply hd.frame (invokePress_frame d a)
  · rw [h3]; unfold pressKey; cases a <;> simp only <;> (try split) <;> omega
  · rw [h4]; unfold pressKey; rw [hcfg]; cases a <;> simp only <;> (try split) <;> omega
  · trivial
  · trivial

theorem invokePress_state {cfg : Config} {d : Dev} (hd : DInv cfg d) (a : Action)
    (hw : nowrap (d.invokePress a).1) :
    stateKeyOf (StObs.ofDev (d.invokePress a).1) = actionEffect cfg (StObs.ofDev d) a := by
  have hc := hd.ch
  have hm := hd.map
  have ho := hd.oct
  have hs := hd.semi
  have hcfg := hd.cfg_eq
  have hk := invokePress_key d a
  unfold nowrap at hw
  have h1 : (d.invokePress a).1.octave = (pressKey d a).1 := congrArg (·.1) hk
  have h2 : (d.invokePress a).1.semitone = (pressKey d a).2.1 := congrArg (·.2.1) hk
  have h3 : (d.invokePress a).1.channel = (pressKey d a).2.2.1 := congrArg (·.2.2.1) hk
  have h4 : (d.invokePress a).1.mapping = (pressKey d a).2.2.2 := congrArg (·.2.2.2) hk
  simp only [stateKeyOf, StObs.ofDev, h1, h2, h3, h4]
  cases a <;> simp only [pressKey, actionEffect, hcfg, Prod.mk.injEq] <;>
    (try split) <;> (try split) <;> first | omega | (simp only [true_and, and_true]; done) | (simp only [true_and, and_true]; omega)

/-! ### `handleKEYEvent` -/

/-- the key tracker update at the start of `handleKEYEvent` -/
def kt (d : Dev) (code : Code) (val : Int) : Dev :=
  if val = 1 then { d with keyTr := sinsert code d.keyTr } else { d with keyTr := serase code d.keyTr }

def actPress (d : Dev) (a : Action) : Dev × List Out :=
  let d := { d with actTr := sinsert a d.actTr }
  if d.checkDouble.2 then (d.checkDouble.1, []) else d.checkDouble.1.invokePress a

def actRelease (d : Dev) (a : Action) : Dev :=
  let d := if a = .multinote then d.multinote else d
  let d := d.invokeRelease a
  { d with actTr := serase a d.actTr }

theorem kt_frame (d : Dev) (code : Code) (val : Int) :
    (kt d code val).cfg = d.cfg ∧ (kt d code val).octave = d.octave ∧ (kt d code val).semitone = d.semitone ∧
    (kt d code val).channel = d.channel ∧ (kt d code val).velocity = d.velocity ∧
    (kt d code val).mapping = d.mapping ∧ (kt d code val).noteTr = d.noteTr ∧ (kt d code val).anaTr = d.anaTr ∧
    (kt d code val).counter = d.counter ∧ (kt d code val).actTr = d.actTr ∧ (kt d code val).dead = d.dead ∧
    (kt d code val).keyTr = if val = 1 then sinsert code d.keyTr else serase code d.keyTr := by
  unfold kt; split <;> simp

theorem kt_dinv {cfg : Config} {d : Dev} (hd : DInv cfg d) (code : Code) (val : Int) : DInv cfg (kt d code val) := by
  obtain ⟨h1, h2, h3, h4, h5, h6, h7, h8, h9, h10, h11, h12⟩ := kt_frame d code val
  exact ⟨h1.trans hd.cfg_eq, h11.trans hd.dead, h8.trans hd.ana, h4 ▸ hd.ch, h6 ▸ hd.map, h5.trans hd.vel,
    trivial, trivial, h7 ▸ hd.wf⟩

theorem handleKey_eq0 {d : Dev} {m : Mapping} (hm : d.curMap = some m) (sub : Sub) (code : Code) (val : Int) :
    d.handleKey sub code val =
      if val = 1 ∧ (kt d code val).exitComplete = true then (kt d code val, [.sig]) else
      match alookup code d.cfg.actions with
      | some a =>
        if val = 1 then actPress (kt d code val) a
        else if val = 0 then (actRelease (kt d code val) a, [])
        else (kt d code val, [])
      | none =>
        if (alookup (sub, code) m.midi).isSome then
          if val = 1 then (kt d code val).noteOn sub code
          else if val = 0 then (kt d code val).noteOff code
          else (kt d code val, [])
        else if val = 0 then (kt d code val).noteOff code
        else (kt d code val, []) := by
  unfold Dev.handleKey
  rw [hm]
  rfl

theorem kt_curMap (d : Dev) (code : Code) (val : Int) : (kt d code val).curMap = d.curMap := by
  unfold Dev.curMap; rw [(kt_frame d code val).1, (kt_frame d code val).2.2.2.2.2.1]

theorem handleKey_eq {cfg : Config} {d : Dev} (hd : DInv cfg d) (sub : Sub) (code : Code) (val : Int) :
    d.handleKey sub code val =
      if val = 1 ∧ (kt d code val).exitComplete = true then (kt d code val, [.sig]) else
      match alookup code cfg.actions with
      | some a =>
        if val = 1 then actPress (kt d code val) a
        else if val = 0 then (actRelease (kt d code val) a, [])
        else (kt d code val, [])
      | none =>
        if val = 1 then (kt d code val).noteOn sub code
        else if val = 0 then (kt d code val).noteOff code
        else (kt d code val, []) := by
  obtain ⟨m, hm1, -, -⟩ := hd.curMap
  rw [handleKey_eq0 hm1, hd.cfg_eq]
  split
  · rfl
  · cases alookup code cfg.actions with
    | some a => rfl
    | none =>
      simp only
      cases hn : alookup (sub, code) m.midi with
      | some k => simp
      | none =>
        simp only [Option.isSome_none, Bool.false_eq_true, if_false]
        by_cases h1 : val = 1
        · subst h1
          have h0 : ¬ (1 : Int) = 0 := by omega
          simp only [h0, if_true, if_false]
          unfold Dev.noteOn
          rw [kt_curMap, hm1]
          simp only [hn]
        · simp [h1]
