/-
  HidiProofs.Mixed — an invariant of the device model over *all* events (keys, axes of every type incl. key and action
  emulation, SYN, MIDI input), used for the no-stuck-notes theorems on mixed histories (C01, axis clause included).

  `MInv cfg d snd`:
    * `DevOK`  : channel < 16, trackers hold real notes/channels (from C05);
    * the key tracker has one entry per key, its keys are keys that are down, the counter equals the number of holders;
    * **everything a receiver hears is still tracked** — by a held key (`noteTracker`) or by a deflected key-emulating axis
      (`analogNoteTracker`).
  The only hypothesis on histories is press discipline: a key is pressed only while it is up (`PressOK`).
-/
import HidiProofs.EngineSimKey
import HidiProofs.Props.C05full
import HidiProofs.Props.C08
namespace Hidi.Mixed
open Hidi Hidi.Spec Hidi.EngineSim Hidi.Props.C05

/-- the pair `p = (channel, note)` is recorded for a held key or a deflected axis -/
def Tracked (d : Dev) (p : Nat × Nat) : Prop :=
  (∃ k, (k, (p.2, p.1)) ∈ d.noteTr) ∨ (∃ id, (id, (p.2, p.1)) ∈ d.anaTr)

structure MInv (cfg : Config) (d : Dev) (snd : List (Nat × Nat)) : Prop where
  ok : DevOK cfg d
  nodup : (akeys d.noteTr).Nodup
  cnt : ∀ ch n, d.count ch n = (holders d.noteTr (n, ch) : Int)
  keys : ∀ k ∈ akeys d.noteTr, k ∈ d.keyTr
  noact : ∀ k ∈ akeys d.noteTr, alookup k cfg.actions = none
  anodup : (akeys d.anaTr).Nodup
  snd : ∀ p ∈ snd, Tracked d p

/-! ### messages that cannot start a sound keep the invariant as long as nothing is forgotten -/

theorem quiet_keeps {cfg : Config} {d d' : Dev} {snd : List (Nat × Nat)} {outs : List Out}
    (h : MInv cfg d snd) (hq : outs.all quiet = true) (hok : DevOK cfg d')
    (hn : d'.noteTr = d.noteTr) (ha : d'.anaTr = d.anaTr) (hc : d'.counter = d.counter)
    (hk : ∀ k ∈ d.keyTr, k ∈ akeys d.noteTr → k ∈ d'.keyTr) : MInv cfg d' (sounding snd outs) := by
  refine ⟨hok, by rw [hn]; exact h.nodup, ?_, ?_, by rw [hn]; exact h.noact, by rw [ha]; exact h.anodup, ?_⟩
  · intro ch n
    have := h.cnt ch n
    unfold Dev.count at this ⊢
    rw [hc, hn]; exact this
  · intro k hkm
    rw [hn] at hkm
    exact hk k (h.keys k hkm) hkm
  · intro p hp
    have := h.snd p (sounding_quiet_subset hq p hp)
    unfold Tracked at this ⊢
    rw [hn, ha]; exact this

theorem cc_quiet (ch fn v : Nat) (hch : ch < 16) : quiet (ccEvent ch fn v) = true := by
  unfold ccEvent quiet
  have : (stCC ||| ch) % 256 = 0xB0 + ch := lorB0 ch hch
  simp only [this]
  have h1 : (0xB0 + ch) / 16 = 11 := by omega
  simp [h1]

theorem st_pb : ∀ ch, ch < 16 → (0xE0 ||| ch) % 256 = 0xE0 + ch := by decide

theorem pb_quiet (ch : Nat) (v : Rat) (hch : ch < 16) : quiet (pitchBendEvent ch v) = true := by
  unfold pitchBendEvent quiet
  simp only
  have : (stPB ||| ch) % 256 = 0xE0 + ch := st_pb ch hch
  rw [this]
  have h1 : (0xE0 + ch) / 16 = 14 := by omega
  simp [h1]

theorem off_quiet (ch n : Nat) : quiet (noteOffMsg ch n) = true := by
  simp [quiet, noteOffMsg]

theorem panicOuts_quiet (ch : Nat) (hch : ch < 16) : (panicOuts ch).all quiet = true := by
  rw [panicOuts_eq hch]; exact panicMsgs_quiet ch

/-! ### the four tracker primitives -/

/-- the messages of `NoteOn` by collision mode: afterwards a receiver hears at most the new pair in addition -/
def pressMsgs (mode : Collision) (cnt : Int) (ch n v : Nat) : List Out :=
  match mode with
  | .off | .retrigger => [noteOnMsg ch n v]
  | .noRepeat => if cnt > 0 then [] else [noteOnMsg ch n v]
  | .interrupt => if cnt > 0 then [noteOffMsg ch n, noteOnMsg ch n v] else [noteOnMsg ch n v]

theorem pressMsgs_sub (mode : Collision) (cnt : Int) {ch n v : Nat} (hch : ch < 16) (hv : 0 < v) (snd : List (Nat × Nat)) :
    ∀ q ∈ sounding snd (pressMsgs mode cnt ch n v), q = (ch, n) ∨ q ∈ snd := by
  intro q hq
  have one : ∀ s, q ∈ sounding s [noteOnMsg ch n v] → q = (ch, n) ∨ q ∈ s := by
    intro s h
    simp only [sounding, List.foldl, recv_on hch hv] at h
    rcases mem_sinsert.mp h with e | e
    · exact Or.inr e
    · exact Or.inl e
  cases mode <;> simp only [pressMsgs] at hq
  · exact one snd hq
  · split at hq
    · exact Or.inr hq
    · exact one snd hq
  · split at hq
    · have : sounding snd [noteOffMsg ch n, noteOnMsg ch n v] = sounding (serase (ch, n) snd) [noteOnMsg ch n v] := by
        simp only [sounding, List.foldl, recv_off hch]
      rw [this] at hq
      rcases one _ hq with e | e
      · exact Or.inl e
      · exact Or.inr (mem_serase.mp e).1
    · exact one snd hq
  · exact one snd hq

/-- `NoteOn` of a key that is not tracked yet -/
theorem noteOn_minv {cfg : Config} {d : Dev} {snd : List (Nat × Nat)} (h : MInv cfg d snd) (sub : Sub) (code : Code)
    (hfresh : code ∉ akeys d.noteTr) (hdown : code ∈ d.keyTr) (hna : alookup code cfg.actions = none) :
    MInv cfg (d.noteOn sub code).1 (sounding snd (d.noteOn sub code).2) := by
  have hgood := noteOn_good h.ok sub code
  unfold Dev.noteOn at hgood ⊢
  cases hm : d.curMap with
  | none =>
    -- cannot happen (`mapping < maps.length`)
    exfalso
    have := h.ok.map
    unfold Dev.curMap at hm
    rw [h.ok.cfg_eq] at hm
    rw [List.getElem?_eq_none_iff] at hm
    omega
  | some m =>
    rw [hm] at hgood
    simp only at hgood ⊢
    cases hk : alookup (sub, code) m.midi with
    | none => simp only; exact h
    | some key =>
      rw [hk] at hgood
      simp only at hgood ⊢
      by_cases hr : d.transposed key.note < 0 ∨ d.transposed key.note > 127
      · rw [if_pos hr]; exact h
      · rw [if_neg hr] at hgood ⊢
        -- abbreviations
        generalize hn : (d.transposed key.note).toNat = n at hgood ⊢
        generalize hc : chanOf d.channel key.chOff = ch at hgood ⊢
        have hch : ch < 16 := by rw [← hc]; exact chanOf_lt _ _
        have hv : 0 < d.velocity := h.ok.2.2.1
        have hon : noteEvent stNoteOn ch n d.velocity = noteOnMsg ch n d.velocity := noteEvent_on hch
        have hoff : noteEvent stNoteOff ch n 0 = noteOffMsg ch n := noteEvent_off hch
        simp only [hon, hoff]
        refine ⟨hgood.1, ?_, ?_, ?_, ?_, h.anodup, ?_⟩
        · exact nodup_akeys_ainsert h.nodup
        · intro ch' n'
          simp only [Dev.setCount, Dev.count]
          rw [holders_ainsert, aerase_of_not_mem hfresh]
          by_cases e : (ch, n) = (ch', n')
          · simp only [Prod.mk.injEq] at e
            obtain ⟨rfl, rfl⟩ := e
            rw [alookup_ainsert_self]
            have := h.cnt ch n
            unfold Dev.count at this
            simp only [Option.getD_some, if_true, this]
            omega
          · rw [alookup_ainsert_ne (fun e' => e e'.symm)]
            have hne : ¬ ((n, ch) = (n', ch')) := by
              intro e'; apply e; simp only [Prod.mk.injEq] at e' ⊢; exact ⟨e'.2, e'.1⟩
            have := h.cnt ch' n'
            unfold Dev.count at this
            simp only [hne, if_false, Nat.add_zero]
            exact this
        · intro k hkm
          simp only [Dev.setCount] at hkm ⊢
          rcases mem_akeys_ainsert.mp hkm with e | e
          · exact h.keys k e
          · subst e; exact hdown
        · intro k hkm
          simp only [Dev.setCount] at hkm
          rcases mem_akeys_ainsert.mp hkm with e | e
          · exact h.noact k e
          · subst e; exact hna
        · -- what is heard afterwards is still tracked: the new pair by the new entry, everything else as before
          intro p hp
          have hsub := pressMsgs_sub d.cfg.mode (d.count ch n) (n := n) hch hv snd
          have hp' : p ∈ sounding snd (pressMsgs d.cfg.mode (d.count ch n) ch n d.velocity) := by
            unfold pressMsgs
            cases hmode : d.cfg.mode <;> simp only [hmode] at hp ⊢ <;> exact hp
          rcases hsub p hp' with e | e
          · subst e
            left
            exact ⟨code, by simp only [Dev.setCount]; exact mem_ainsert.mpr (Or.inr rfl)⟩
          · rcases h.snd p e with ⟨k, hk'⟩ | ⟨id, hid⟩
            · left
              refine ⟨k, ?_⟩
              simp only [Dev.setCount]
              apply mem_ainsert.mpr
              left
              refine ⟨hk', ?_⟩
              intro e'
              apply hfresh
              simp only at e'
              rw [← e']
              exact List.mem_map_of_mem (f := Prod.fst) hk'
            · right; exact ⟨id, hid⟩

/-- `NoteOff` -/
theorem noteOff_minv {cfg : Config} {d : Dev} {snd : List (Nat × Nat)} (h : MInv cfg d snd) (code : Code) :
    MInv cfg (d.noteOff code).1 (sounding snd (d.noteOff code).2) := by
  have hgood := noteOff_good h.ok code
  unfold Dev.noteOff at hgood ⊢
  cases hl : alookup code d.noteTr with
  | none => simp only; exact h
  | some q =>
    obtain ⟨n, ch⟩ := q
    rw [hl] at hgood
    simp only at hgood ⊢
    have hmem := EngineSim.alookup_mem hl
    have hch : ch < 16 := (h.ok.noteTr _ hmem).2
    have hoff : noteEvent stNoteOff ch n 0 = noteOffMsg ch n := noteEvent_off hch
    simp only [hoff]
    have hhold := holders_aerase_of_lookup h.nodup hl
    refine ⟨hgood.1, nodup_akeys_aerase h.nodup, ?_, ?_, ?_, h.anodup, ?_⟩
    · intro ch' n'
      simp only [Dev.setCount, Dev.count]
      have hh := hhold (n', ch')
      by_cases e : (ch, n) = (ch', n')
      · simp only [Prod.mk.injEq] at e
        obtain ⟨rfl, rfl⟩ := e
        rw [alookup_ainsert_self]
        have := h.cnt ch n
        unfold Dev.count at this
        simp only [Option.getD_some, this, hh, if_true]
        omega
      · rw [alookup_ainsert_ne (fun e' => e e'.symm)]
        have hne : ¬ ((n, ch) = (n', ch')) := by
          intro e'; apply e; simp only [Prod.mk.injEq] at e' ⊢; exact ⟨e'.2, e'.1⟩
        have := h.cnt ch' n'
        unfold Dev.count at this
        rw [this, hh]
        simp only [hne, if_false, Nat.add_zero]
    · intro k hkm
      simp only [Dev.setCount] at hkm
      exact h.keys k (mem_akeys_aerase.mp hkm).1
    · intro k hkm
      simp only [Dev.setCount] at hkm
      exact h.noact k (mem_akeys_aerase.mp hkm).1
    · intro p hp
      -- either the Off was sent (then p differs from the released pair) or another holder remains
      have hcase : p ∈ snd ∧ (p = (ch, n) → 2 ≤ holders d.noteTr (n, ch)) := by
        cases hmode : d.cfg.mode <;> simp only [hmode] at hp
        · simp only [sounding, List.foldl, recv_off hch] at hp
          exact ⟨(mem_serase.mp hp).1, fun e => absurd e (mem_serase.mp hp).2⟩
        all_goals
          split at hp
          · rename_i hc1
            refine ⟨hp, fun _ => ?_⟩
            have h1 := h.cnt ch n
            have h2 := hhold (n, ch)
            simp only [if_true] at h2
            omega
          · simp only [sounding, List.foldl, recv_off hch] at hp
            exact ⟨(mem_serase.mp hp).1, fun e => absurd e (mem_serase.mp hp).2⟩
      obtain ⟨hps, htwo⟩ := hcase
      rcases h.snd p hps with ⟨k, hk⟩ | ⟨id, hid⟩
      · left
        by_cases hkc : k = code
        · -- the entry that is being removed: then p is the released pair and another holder exists
          subst hkc
          have hq := alookup_of_mem_nodup h.nodup hk
          rw [hl] at hq
          simp only [Option.some.injEq, Prod.mk.injEq] at hq
          have hp' : p = (ch, n) := by
            obtain ⟨a, b⟩ := p
            simp only at hq
            simp only [Prod.mk.injEq]
            exact ⟨hq.2.symm, hq.1.symm⟩
          have h2 := hhold (n, ch)
          simp only [if_true] at h2
          have hpos : 0 < holders (aerase k d.noteTr) (n, ch) := by have := htwo hp'; omega
          obtain ⟨k', hk'⟩ := holders_pos_iff.mp hpos
          subst hp'
          exact ⟨k', by simp only [Dev.setCount]; exact hk'⟩
        · exact ⟨k, by simp only [Dev.setCount]; exact mem_aerase.mpr ⟨hk, hkc⟩⟩
      · right; exact ⟨id, hid⟩

/-- `AnalogNoteOn` for an identifier that is not tracked yet -/
theorem analogNoteOn_minv {cfg : Config} {d : Dev} {snd : List (Nat × Nat)} (h : MInv cfg d snd) (id : Code × Bool)
    (note off : Nat) (hfresh : alookup id d.anaTr = none) :
    MInv cfg (d.analogNoteOn id note off).1 (sounding snd (d.analogNoteOn id note off).2) := by
  have hgood := analogNoteOn_good h.ok id note off
  unfold Dev.analogNoteOn at hgood ⊢
  simp only at hgood ⊢
  by_cases hr : d.transposed note < 0 ∨ d.transposed note > 127
  · rw [if_pos hr]; exact h
  · rw [if_neg hr] at hgood ⊢
    have hch : chanOf d.channel off < 16 := chanOf_lt _ _
    have hon : noteEvent stNoteOn (chanOf d.channel off) (d.transposed note).toNat 64 =
        noteOnMsg (chanOf d.channel off) (d.transposed note).toNat 64 := noteEvent_on hch
    simp only [hon]
    refine ⟨hgood.1, h.nodup, ?_, h.keys, h.noact, nodup_akeys_ainsert h.anodup, ?_⟩
    · intro ch n; have := h.cnt ch n; unfold Dev.count at this ⊢; exact this
    · intro p hp
      simp only [sounding, List.foldl, recv_on hch (by decide : 0 < 64)] at hp
      rcases mem_sinsert.mp hp with e | e
      · rcases h.snd p e with ⟨k, hk⟩ | ⟨i, hi⟩
        · left; exact ⟨k, hk⟩
        · right
          refine ⟨i, mem_ainsert.mpr (Or.inl ⟨hi, ?_⟩)⟩
          intro e'
          have : i ∈ akeys d.anaTr := List.mem_map_of_mem (f := Prod.fst) hi
          simp only at e'
          rw [e'] at this
          exact (alookup_eq_none.mp hfresh) this
      · subst e
        right
        exact ⟨id, mem_ainsert.mpr (Or.inr rfl)⟩

/-- `AnalogNoteOff` -/
theorem analogNoteOff_minv {cfg : Config} {d : Dev} {snd : List (Nat × Nat)} (h : MInv cfg d snd) (id : Code × Bool) :
    MInv cfg (d.analogNoteOff id).1 (sounding snd (d.analogNoteOff id).2) := by
  have hgood := analogNoteOff_good h.ok id
  unfold Dev.analogNoteOff at hgood ⊢
  cases hl : alookup id d.anaTr with
  | none => simp only; exact h
  | some q =>
    obtain ⟨n, ch⟩ := q
    rw [hl] at hgood
    simp only at hgood ⊢
    have hch : ch < 16 := (h.ok.anaTr _ (EngineSim.alookup_mem hl)).2
    have hoff : noteEvent stNoteOff ch n 0 = noteOffMsg ch n := noteEvent_off hch
    simp only [hoff]
    refine ⟨hgood.1, h.nodup, ?_, h.keys, h.noact, nodup_akeys_aerase h.anodup, ?_⟩
    · intro ch' n'; have := h.cnt ch' n'; unfold Dev.count at this ⊢; exact this
    · intro p hp
      simp only [sounding, List.foldl, recv_off hch] at hp
      obtain ⟨hps, hne⟩ := mem_serase.mp hp
      rcases h.snd p hps with ⟨k, hk⟩ | ⟨i, hi⟩
      · left; exact ⟨k, hk⟩
      · right
        refine ⟨i, mem_aerase.mpr ⟨hi, ?_⟩⟩
        intro e
        simp only at e
        subst e
        have := alookup_of_mem_nodup h.anodup hi
        rw [hl] at this
        simp only [Option.some.injEq, Prod.mk.injEq] at this
        apply hne
        obtain ⟨a, b⟩ := p
        simp only at this
        simp only [Prod.mk.injEq]
        exact ⟨this.2.symm, this.1.symm⟩

/-! ### `handleKEYEvent` -/

theorem minv_curMap {cfg : Config} {d : Dev} {snd : List (Nat × Nat)} (h : MInv cfg d snd) : ∃ m, d.curMap = some m := by
  unfold Dev.curMap
  rw [h.ok.cfg_eq]
  have := h.ok.map
  exact ⟨cfg.maps[d.mapping], by simp [this]⟩

/-- the key-tracker update keeps the invariant when a released key is not a tracked key any more afterwards — which is
    what the rest of the handler takes care of; here: a press, or a release of a key without a tracker entry -/
theorem kt_minv {cfg : Config} {d : Dev} {snd : List (Nat × Nat)} (h : MInv cfg d snd) (code : Code) (val : Int)
    (hok : val = 1 ∨ code ∉ akeys d.noteTr) : MInv cfg (kt d code val) snd := by
  obtain ⟨f1, f2, f3, f4, f5, f6, f7, f8, f9, f10, f11, f12⟩ := kt_frame d code val
  have hdok : DevOK cfg (kt d code val) := by
    obtain ⟨a1, a2, a3, a4, a5, a6, a7⟩ := h.ok
    exact ⟨f1.trans a1, f4 ▸ a2, f5 ▸ a3, f5 ▸ a4, f6 ▸ a5, f7 ▸ a6, f8 ▸ a7⟩
  refine ⟨hdok, by rw [f7]; exact h.nodup, ?_, ?_, by rw [f7]; exact h.noact, by rw [f8]; exact h.anodup, ?_⟩
  · intro ch n
    have := h.cnt ch n
    unfold Dev.count at this ⊢
    rw [f9, f7]; exact this
  · intro k hk
    rw [f7] at hk
    rw [f12]
    split
    · exact mem_sinsert.mpr (Or.inl (h.keys k hk))
    · rename_i hv
      refine mem_serase.mpr ⟨h.keys k hk, ?_⟩
      rintro rfl
      rcases hok with e | e
      · exact hv e
      · exact e hk
  · intro p hp
    have := h.snd p hp
    unfold Tracked at this ⊢
    rw [f7, f8]; exact this

/-- a step that leaves both trackers, the counters and the key tracker alone and emits nothing that can start a sound -/
theorem keep_minv {cfg : Config} {d d' : Dev} {snd : List (Nat × Nat)} {outs : List Out} (h : MInv cfg d snd)
    (hn : d'.noteTr = d.noteTr) (ha : d'.anaTr = d.anaTr) (hc : d'.counter = d.counter) (hk : d'.keyTr = d.keyTr)
    (hok : DevOK cfg d') (hq : outs.all quiet = true) : MInv cfg d' (sounding snd outs) :=
  quiet_keeps h hq hok hn ha hc (fun k hkm _ => by rw [hk]; exact hkm)

theorem actPress_keeps (d : Dev) (a : Action) (hch : d.channel < 16) :
    (actPress d a).1.noteTr = d.noteTr ∧ (actPress d a).1.anaTr = d.anaTr ∧ (actPress d a).1.counter = d.counter ∧
    (actPress d a).1.keyTr = d.keyTr ∧ (actPress d a).2.all quiet = true := by
  rw [actPress_eq]
  split
  · have f := checkDouble_frame (withAct d a)
    exact ⟨f.noteTr, f.anaTr, f.counter, f.keyTr, rfl⟩
  · have f := invokePress_frame (withAct d a) a
    refine ⟨f.noteTr, f.anaTr, f.counter, f.keyTr, ?_⟩
    rw [invokePress_outs]
    split
    · exact panicOuts_quiet _ hch
    · rfl

/-- an event is admissible in a state: key values are 0 / 1 / 2 (what evdev delivers) and a key is pressed only while up -/
def EvOK (d : Dev) : Ev → Prop
  | .key _ code val => (val = 0 ∨ val = 1 ∨ val = 2) ∧ (val = 1 → code ∉ d.keyTr)
  | _ => True

theorem actPress_devok {cfg : Config} {d : Dev} (hd : DevOK cfg d) (a : Action) : DevOK cfg (actPress d a).1 := by
  rw [actPress_eq]
  have hw : DevOK cfg (withAct d a) := DevOK.with_actTr hd _
  split
  · exact checkDouble_ok hw
  · exact (invokePress_good hw a).1

theorem actRelease_devok {cfg : Config} {d : Dev} (hd : DevOK cfg d) (a : Action) : DevOK cfg (actRelease d a) := by
  unfold actRelease
  simp only
  split
  · exact DevOK.with_actTr (invokeRelease_ok (multinote_ok hd) a) _
  · exact DevOK.with_actTr (invokeRelease_ok hd a) _

theorem handleKey_minv {cfg : Config} {d : Dev} {snd : List (Nat × Nat)} (h : MInv cfg d snd) (sub : Sub) (code : Code)
    (val : Int) (hv : val = 0 ∨ val = 1) (hpress : val = 1 → code ∉ d.keyTr) :
    MInv cfg (d.handleKey sub code val).1 (sounding snd (d.handleKey sub code val).2) := by
  obtain ⟨m, hm⟩ := minv_curMap h
  rw [handleKey_eq0 hm]
  have hcfg : d.cfg = cfg := h.ok.cfg_eq
  have hfresh_press : val = 1 → code ∉ akeys d.noteTr := fun e hk => hpress e (h.keys code hk)
  have esig : sounding snd [Out.sig] = snd := rfl
  have enil : sounding snd [] = snd := rfl
  by_cases hsw : val = 1 ∧ (kt d code val).exitComplete = true
  · -- the press that completes the exit sequence: swallowed
    rw [if_pos hsw, esig]
    exact kt_minv h code val (Or.inl hsw.1)
  · rw [if_neg hsw, hcfg]
    cases ha : alookup code cfg.actions with
    | some a =>
      simp only
      have hnk : code ∉ akeys d.noteTr := fun hk => by
        have := h.noact code hk; rw [ha] at this; cases this
      have hk1 := kt_minv h code val (Or.inr hnk)
      have hch1 : (kt d code val).channel < 16 := by rw [(kt_frame d code val).2.2.2.1]; exact h.ok.ch
      by_cases hv1 : val = 1
      · rw [if_pos hv1]
        obtain ⟨k1, k2, k3, k4, k5⟩ := actPress_keeps (kt d code val) a hch1
        exact keep_minv hk1 k1 k2 k3 k4 (actPress_devok hk1.ok a) k5
      · have hv0 : val = 0 := by rcases hv with e | e; exact e; exact absurd e hv1
        rw [if_neg hv1, if_pos hv0, enil]
        have hfr := actRelease_frame (kt d code val) a
        have := keep_minv (outs := []) hk1 hfr.2.2.2.2.2.2.1 hfr.2.2.2.2.2.2.2.1 hfr.2.2.2.2.2.2.2.2.1
          hfr.2.2.2.2.2.2.2.2.2.2.2 (actRelease_devok hk1.ok a) rfl
        rw [enil] at this; exact this
    | none =>
      simp only
      by_cases hv1 : val = 1
      · -- press of a note key (mapped or not)
        have hk1 := kt_minv h code val (Or.inl hv1)
        have hdown : code ∈ (kt d code val).keyTr := by
          rw [(kt_frame d code val).2.2.2.2.2.2.2.2.2.2.2, if_pos hv1]; exact mem_sinsert.mpr (Or.inr rfl)
        have hfr : code ∉ akeys (kt d code val).noteTr := by
          rw [(kt_frame d code val).2.2.2.2.2.2.1]; exact hfresh_press hv1
        have h0 : ¬ val = 0 := by omega
        split
        · exact noteOn_minv hk1 sub code hfr hdown ha
        · exact hk1
      · have hv0 : val = 0 := by rcases hv with e | e; exact e; exact absurd e hv1
        -- release: first the tracker entry goes (`NoteOff`), and the key tracker update is harmless afterwards
        have hrel : MInv cfg ((kt d code val).noteOff code).1 (sounding snd ((kt d code val).noteOff code).2) := by
          have h1 := noteOff_minv h code
          have hgone : code ∉ akeys (d.noteOff code).1.noteTr := by
            unfold Dev.noteOff
            cases hl : alookup code d.noteTr with
            | none => simp only; exact alookup_eq_none.mp hl
            | some q =>
              obtain ⟨n, c⟩ := q
              simp only [Dev.setCount]
              intro hk
              exact (mem_akeys_aerase.mp hk).2 rfl
          have h2 := kt_minv h1 code val (Or.inr hgone)
          have hcomm : (kt d code val).noteOff code = (kt (d.noteOff code).1 code val, (d.noteOff code).2) := by
            unfold Dev.noteOff kt Dev.setCount Dev.count
            simp only [hv1, if_false]
            cases alookup code d.noteTr with
            | none => rfl
            | some q => rfl
          rw [hcomm]
          exact h2
        split
        · exact hrel
        · exact hrel

/-! ### `handleABSEvent` -/

open Hidi.Props.C08 in
theorem negOn_minv {cfg : Config} {d : Dev} {snd : List (Nat × Nat)} (h : MInv cfg d snd) (a : Analog) (code : Code) :
    MInv cfg (negOn d a code).1 (sounding snd (negOn d a code).2) := by
  unfold negOn
  split
  · rename_i hc
    apply analogNoteOn_minv h
    cases hx : alookup (code, true) d.anaTr with
    | none => rfl
    | some q => rw [hx] at hc; simp at hc
  · exact h

open Hidi.Props.C08 in
theorem posOn_minv {cfg : Config} {d : Dev} {snd : List (Nat × Nat)} (h : MInv cfg d snd) (a : Analog) (code : Code) :
    MInv cfg (posOn d a code).1 (sounding snd (posOn d a code).2) := by
  unfold posOn
  split
  · rename_i hc
    apply analogNoteOn_minv h
    cases hx : alookup (code, false) d.anaTr with
    | none => rfl
    | some q => rw [hx] at hc; simp at hc
  · exact h

theorem releaseAxis_minv {cfg : Config} {d : Dev} {snd : List (Nat × Nat)} (h : MInv cfg d snd) (code : Code) :
    MInv cfg (d.releaseAxis code).1 (sounding snd (d.releaseAxis code).2) := by
  unfold Dev.releaseAxis
  simp only
  rw [sounding_append]
  exact analogNoteOff_minv (analogNoteOff_minv h _) _

open Hidi.Props.C08 in
theorem absKey_minv {cfg : Config} {d : Dev} {snd : List (Nat × Nat)} (h : MInv cfg d snd) (a : Analog) (code : Code)
    (canNeg : Bool) (v0 : Rat) :
    MInv cfg (d.absKey a code canNeg v0).1 (sounding snd (d.absKey a code canNeg v0).2) := by
  by_cases hn : vk canNeg v0 ≤ -1/2
  · rw [absKey_neg d a code canNeg v0 hn]
    simp only
    rw [sounding_append]
    exact analogNoteOff_minv (negOn_minv h a code) _
  · by_cases hc : -c49 < vk canNeg v0 ∧ vk canNeg v0 < c49
    · rw [absKey_centre d a code canNeg v0 hn hc]; exact releaseAxis_minv h code
    · by_cases hp : 1/2 ≤ vk canNeg v0
      · rw [absKey_pos d a code canNeg v0 hn hp]
        simp only
        rw [sounding_append]
        exact analogNoteOff_minv (posOn_minv h a code) _
      · rw [absKey_band d a code canNeg v0 hn hc hp]; exact h

theorem bidirCC_keeps (d : Dev) (a : Analog) (neg : Bool) (adj : Rat) :
    (d.bidirCC a neg adj).1.noteTr = d.noteTr ∧ (d.bidirCC a neg adj).1.anaTr = d.anaTr ∧
    (d.bidirCC a neg adj).1.counter = d.counter ∧ (d.bidirCC a neg adj).1.keyTr = d.keyTr ∧
    (d.bidirCC a neg adj).2.all quiet = true := by
  have hc := chanOf_lt d.channel a.chOff
  have hcN := chanOf_lt d.channel a.chOffNeg
  unfold Dev.bidirCC Dev.setZeroed
  simp only
  split <;> split <;> simp [cc_quiet, hc, hcN]

theorem absCC_minv {cfg : Config} {d : Dev} {snd : List (Nat × Nat)} (h : MInv cfg d snd) (a : Analog) (canNeg : Bool)
    (v : Rat) : MInv cfg (d.absCC a canNeg v).1 (sounding snd (d.absCC a canNeg v).2) := by
  have hok := (absCC_good h.ok a canNeg v).1
  have hc := chanOf_lt d.channel a.chOff
  unfold Dev.absCC at hok ⊢
  simp only at hok ⊢
  split
  · split
    · rename_i h1 h2
      simp only [h1, h2, if_true] at hok
      obtain ⟨k1, k2, k3, k4, k5⟩ := bidirCC_keeps d a (decide (v < 0)) (rabs v)
      exact keep_minv h k1 k2 k3 k4 hok k5
    · exact keep_minv h rfl rfl rfl rfl h.ok (by simp [cc_quiet, hc])
  · split
    · rename_i h1 h2
      simp only [h1, h2, if_true, Bool.false_eq_true, if_false] at hok
      obtain ⟨k1, k2, k3, k4, k5⟩ := bidirCC_keeps d a (decide (v < 1/2)) (rabs (fsub (fmul v 2) 1))
      exact keep_minv h k1 k2 k3 k4 hok k5
    · exact keep_minv h rfl rfl rfl rfl h.ok (by simp [cc_quiet, hc])

/-- the part of the state the invariant's tracker clauses look at -/
def proj (d : Dev) := (d.noteTr, d.anaTr, d.counter, d.keyTr)

@[simp] theorem proj_actTr (d : Dev) (l : List Action) : proj { d with actTr := l } = proj d := rfl

@[simp] theorem proj_checkDouble (d : Dev) : proj d.checkDouble.1 = proj d := by
  have f := checkDouble_frame d
  simp only [proj, f.noteTr, f.anaTr, f.counter, f.keyTr]

@[simp] theorem proj_invokePress (d : Dev) (x : Action) : proj (d.invokePress x).1 = proj d := by
  have f := invokePress_frame d x
  simp only [proj, f.noteTr, f.anaTr, f.counter, f.keyTr]

@[simp] theorem proj_invokeRelease (d : Dev) (x : Action) : proj (d.invokeRelease x) = proj d := by
  have r := invokeRelease_frame d x
  simp only [proj, r.2.2.2.2.2.2.1, r.2.2.2.2.2.2.2.1, r.2.2.2.2.2.2.2.2.1, r.2.2.2.2.2.2.2.2.2.2.2]

theorem invokePress_quiet (d : Dev) (x : Action) (hch : d.channel < 16) : (d.invokePress x).2.all quiet = true := by
  rw [invokePress_outs]
  split
  · exact panicOuts_quiet _ hch
  · rfl

theorem checkDouble_ch (d : Dev) (hch : d.channel < 16) : d.checkDouble.1.channel < 16 := by
  unfold Dev.checkDouble
  (repeat' split) <;> first | exact hch | (simp)

theorem absAction_keeps (d : Dev) (a : Analog) (canNeg : Bool) (v0 : Rat) (hch : d.channel < 16) :
    proj (d.absAction a canNeg v0).1 = proj d ∧ (d.absAction a canNeg v0).2.all quiet = true := by
  have hq := fun x => invokePress_quiet d.checkDouble.1 x (checkDouble_ch d hch)
  unfold Dev.absAction
  simp only
  repeat' split
  all_goals (constructor <;> (try simp_all) <;> (try exact hq _))

theorem absAction_minv {cfg : Config} {d : Dev} {snd : List (Nat × Nat)} (h : MInv cfg d snd) (a : Analog) (canNeg : Bool)
    (v0 : Rat) : MInv cfg (d.absAction a canNeg v0).1 (sounding snd (d.absAction a canNeg v0).2) := by
  obtain ⟨hp, k5⟩ := absAction_keeps d a canNeg v0 h.ok.ch
  simp only [proj, Prod.mk.injEq] at hp
  exact keep_minv h hp.1 hp.2.1 hp.2.2.1 hp.2.2.2 (absAction_good h.ok a _ _).1 k5

theorem handleAbs_minv {cfg : Config} (hacc : Accepted cfg = true) {d : Dev} {snd : List (Nat × Nat)} (h : MInv cfg d snd)
    (sub : Sub) (node : String) (code : Code) (raw : Int) :
    MInv cfg (d.handleAbs sub node code raw).1 (sounding snd (d.handleAbs sub node code raw).2) := by
  obtain ⟨m, hm⟩ := minv_curMap h
  have enil : ∀ s : List (Nat × Nat), sounding s [] = s := fun _ => rfl
  unfold Dev.handleAbs
  rw [hm]
  simp only
  cases ha : alookup (sub, code) m.analog with
  | none => exact releaseAxis_minv h code
  | some a =>
    simp only
    -- the state and messages after the optional release of a former key emulation
    have hpre : MInv cfg (if a.kind = .key then (d, ([] : List Out)) else d.releaseAxis code).1
        (sounding snd (if a.kind = .key then (d, ([] : List Out)) else d.releaseAxis code).2) := by
      split
      · exact h
      · exact releaseAxis_minv h code
    generalize (if a.kind = .key then (d, ([] : List Out)) else d.releaseAxis code) = p at hpre
    obtain ⟨d1, pre⟩ := p
    simp only at hpre ⊢
    cases hdz : m.deadzone sub code with
    | none =>
      simp only
      rw [sounding_append]
      exact keep_minv hpre rfl rfl rfl rfl hpre.ok rfl
    | some dz =>
      simp only
      split
      · exact hpre
      · have hla : ∀ x, MInv cfg { d1 with lastAna := x } (sounding snd pre) := fun x => by
          have := keep_minv (d' := { d1 with lastAna := x }) (outs := []) hpre rfl rfl rfl rfl hpre.ok rfl
          rw [enil] at this; exact this
        split
        · exact hla _
        · rw [sounding_append]
          cases hkind : a.kind with
          | cc => simp only; exact absCC_minv (hla _) a _ _
          | pitchBend =>
            simp only
            exact keep_minv (hla _) rfl rfl rfl rfl (hla _).ok (by simp [pb_quiet, chanOf_lt])
          | key => simp only; exact absKey_minv (hla _) a code _ _
          | action =>
            simp only
            exact absAction_minv (hla _) a _ _

/-! ### one event, a whole history, the disconnect clean-up -/

theorem step_minv {cfg : Config} (hacc : Accepted cfg = true) {d : Dev} {snd : List (Nat × Nat)} (h : MInv cfg d snd)
    (e : Ev) (he : EvOK d e) : MInv cfg (d.step e).1 (sounding snd (d.step e).2) := by
  have hdok := (step_good hacc h.ok e).1
  unfold Dev.step at hdok ⊢
  split
  · exact h
  · cases e with
    | syn => exact h
    | key sub code val =>
      simp only at hdok ⊢
      obtain ⟨hv, hp⟩ := he
      by_cases h2 : val = 2
      · rw [if_pos h2]; exact h
      · rw [if_neg h2]
        exact handleKey_minv h sub code val (by rcases hv with e | e | e; exact Or.inl e; exact Or.inr e; exact absurd e h2) hp
    | abs sub node code raw => exact handleAbs_minv hacc h sub node code raw
    | midiIn a b c =>
      simp only at hdok ⊢
      rename_i hdead
      rw [if_neg hdead] at hdok
      have keep : ∀ x, (({ d with ext := x } : Dev).noteTr = d.noteTr) := fun _ => rfl
      have : (d.midiIn a b c).noteTr = d.noteTr ∧ (d.midiIn a b c).anaTr = d.anaTr ∧ (d.midiIn a b c).counter = d.counter ∧
          (d.midiIn a b c).keyTr = d.keyTr := by
        unfold Dev.midiIn
        simp only
        (repeat' split) <;> exact ⟨rfl, rfl, rfl, rfl⟩
      exact keep_minv (outs := []) h this.1 this.2.1 this.2.2.1 this.2.2.2 hdok rfl

/-- a history is admissible from a state: key values 0/1/2 and every press happens while the key tracker does not hold the key -/
def OKHistory (d : Dev) : List Ev → Prop
  | [] => True
  | e :: r => EvOK d e ∧ OKHistory (d.step e).1 r

theorem run_minv {cfg : Config} (hacc : Accepted cfg = true) : ∀ (evs : List Ev) (d : Dev) (snd : List (Nat × Nat)),
    MInv cfg d snd → OKHistory d evs → MInv cfg (d.runFlat evs).1 (sounding snd (d.runFlat evs).2) := by
  intro evs
  induction evs with
  | nil => intro d snd h _; exact h
  | cons e r ih =>
    intro d snd h hok
    have h1 := step_minv hacc h e hok.1
    have h2 := ih _ _ h1 hok.2
    have e1 : (d.runFlat (e :: r)).1 = ((d.step e).1.runFlat r).1 := by simp [Dev.runFlat, Dev.run]
    have e2 : (d.runFlat (e :: r)).2 = (d.step e).2 ++ ((d.step e).1.runFlat r).2 := by simp [Dev.runFlat, Dev.run]
    rw [e1, e2, sounding_append]
    exact h2

theorem init_minv {cfg : Config} (hacc : Accepted cfg = true) : MInv cfg (Dev.init cfg) [] :=
  ⟨C05_init cfg hacc, by simp [Dev.init, akeys], by intro ch n; simp [Dev.init, Dev.count, alookup, holders],
   by intro k hk; simp [Dev.init, akeys] at hk, by intro k hk; simp [Dev.init, akeys] at hk, by simp [Dev.init, akeys],
   by intro p hp; cases hp⟩

/-- folding `NoteOff` over a list of keys -/
theorem foldOff_minv {cfg : Config} (l : List Code) : ∀ (d : Dev) (snd : List (Nat × Nat)) (o0 : List Out), MInv cfg d (sounding snd o0) →
    let r := l.foldl (fun (acc : Dev × List Out) c => let (d', o) := acc.1.noteOff c; (d', acc.2 ++ o)) (d, o0)
    MInv cfg r.1 (sounding snd r.2) ∧ r.1.noteTr = l.foldl (fun t c => aerase c t) d.noteTr ∧ r.1.anaTr = d.anaTr := by
  induction l with
  | nil => intro d snd o0 h; exact ⟨h, rfl, rfl⟩
  | cons c r ih =>
    intro d snd o0 h
    simp only [List.foldl_cons]
    have h1 := noteOff_minv h c
    rw [← sounding_append] at h1
    obtain ⟨i1, i2, i3⟩ := ih (d.noteOff c).1 snd (o0 ++ (d.noteOff c).2) h1
    refine ⟨i1, ?_, ?_⟩
    · rw [i2]
      congr 1
      unfold Dev.noteOff
      cases hl : alookup c d.noteTr with
      | none => simp only; exact (aerase_of_not_mem (alookup_eq_none.mp hl)).symm
      | some q => rfl
    · rw [i3]
      unfold Dev.noteOff
      cases alookup c d.noteTr <;> rfl

theorem foldAOff_minv {cfg : Config} (l : List (Code × Bool)) : ∀ (d : Dev) (snd : List (Nat × Nat)) (o0 : List Out),
    MInv cfg d (sounding snd o0) →
    let r := l.foldl (fun (acc : Dev × List Out) c => let (d', o) := acc.1.analogNoteOff c; (d', acc.2 ++ o)) (d, o0)
    MInv cfg r.1 (sounding snd r.2) ∧ r.1.anaTr = l.foldl (fun t c => aerase c t) d.anaTr ∧ r.1.noteTr = d.noteTr := by
  induction l with
  | nil => intro d snd o0 h; exact ⟨h, rfl, rfl⟩
  | cons c r ih =>
    intro d snd o0 h
    simp only [List.foldl_cons]
    have h1 := analogNoteOff_minv h c
    rw [← sounding_append] at h1
    obtain ⟨i1, i2, i3⟩ := ih (d.analogNoteOff c).1 snd (o0 ++ (d.analogNoteOff c).2) h1
    refine ⟨i1, ?_, ?_⟩
    · rw [i2]
      congr 1
      unfold Dev.analogNoteOff
      cases hl : alookup c d.anaTr with
      | none => simp only; exact (aerase_of_not_mem (alookup_eq_none.mp hl)).symm
      | some q => rfl
    · rw [i3]
      unfold Dev.analogNoteOff
      cases alookup c d.anaTr <;> rfl

theorem foldl_aerase_nil' {κ α : Type} [DecidableEq κ] (l : List κ) : ∀ (t : List (κ × α)), (∀ k ∈ akeys t, k ∈ l) →
    l.foldl (fun t c => aerase c t) t = [] := by
  induction l with
  | nil =>
    intro t h
    cases t with
    | nil => rfl
    | cons p r => have := h p.1 (by simp [akeys]); cases this
  | cons c l ih =>
    intro t h
    simp only [List.foldl_cons]
    apply ih
    intro k hk
    rw [mem_akeys_aerase] at hk
    rcases List.mem_cons.mp (h k hk.1) with e | e
    · exact absurd e hk.2
    · exact e

/-- **disconnect**: after the clean-up nothing is tracked any more and nothing sounds -/
theorem cleanup_silent {cfg : Config} {d : Dev} {snd : List (Nat × Nat)} (h : MInv cfg d snd) (hdead : d.dead = false) :
    sounding snd d.cleanup.2 = [] ∧ d.cleanup.1.noteTr = [] ∧ d.cleanup.1.anaTr = [] := by
  unfold Dev.cleanup Dev.cleanupWith
  rw [hdead]
  simp only [Bool.false_eq_true, if_false]
  have a := foldOff_minv (cfg := cfg) (akeys d.noteTr) d snd [] (by simpa [sounding] using h)
  simp only [] at a
  obtain ⟨a1, a2, a3⟩ := a
  generalize hr1 : (akeys d.noteTr).foldl (fun (acc : Dev × List Out) c => let (d', o) := acc.1.noteOff c; (d', acc.2 ++ o)) (d, []) = r1 at a1 a2 a3
  have b := foldAOff_minv (cfg := cfg) (akeys d.anaTr) r1.1 (sounding snd r1.2) [] (by simpa [sounding] using a1)
  simp only [] at b
  obtain ⟨b1, b2, b3⟩ := b
  generalize hr2 : (akeys d.anaTr).foldl (fun (acc : Dev × List Out) c => let (d', o) := acc.1.analogNoteOff c; (d', acc.2 ++ o)) (r1.1, []) = r2 at b1 b2 b3
  have hn : r2.1.noteTr = [] := by rw [b3, a2]; exact foldl_aerase_nil' _ _ (fun k hk => hk)
  have ha : r2.1.anaTr = [] := by rw [b2, a3]; exact foldl_aerase_nil' _ _ (fun k hk => hk)
  obtain ⟨d1, o1⟩ := r1
  obtain ⟨d2, o2⟩ := r2
  simp only at b1 hn ha ⊢
  rw [sounding_append]
  refine ⟨?_, hn, ha⟩
  apply List.eq_nil_iff_forall_not_mem.mpr
  intro p hp
  rcases b1.snd p hp with ⟨k, hk⟩ | ⟨i, hi⟩
  · rw [hn] at hk; cases hk
  · rw [ha] at hi; cases hi

end Hidi.Mixed
