/-
  HidiProofs.LifeLemmas — mutual exclusion and termination for the life-cycle model `Hidi.Life`.
  The model is finite-state: after case analysis on the three program counters every statement is a closed decidable
  proposition, checked by the kernel (`decide`, no `native_decide`).
-/
import Hidi.Life
namespace Hidi.LifeLemmas
open Hidi Hidi.Life

/-- mutual exclusion of both mutexes -/
def inv (s : St) : Bool :=
  !(mainHoldsE s.main && ledHoldsE s.led) &&
  !(mainHoldsX s.main && ledHoldsX s.led) && !(mainHoldsX s.main && midiHoldsX s.midi) && !(ledHoldsX s.led && midiHoldsX s.midi) &&
  -- X is only ever taken inside E by main and by the LED goroutine (lock order E ⊃ X)
  (!mainHoldsX s.main || mainHoldsE s.main) && (!ledHoldsX s.led || ledHoldsE s.led)

def mainRank : MainPC → Nat
  | .done => 0 | .wait => 1 | .inEc => 2 | .wantEc => 3 | .cancel => 4 | .recv => 5
  | .inE false => 6 | .inEX => 7 | .inE true => 8 | .wantE false => 7 | .wantE true => 9
def ledRank : LedPC → Nat
  | .done => 0 | .closing => 1 | .connect => 1 | .loopTop => 2 | .inE2 => 3 | .inEX => 4 | .inE => 5 | .wantE => 6 | .sleep => 7
def midiRank : MidiPC → Nat
  | .done => 0 | .sel => 1 | .inX => 2 | .wantX => 3

def measure (s : St) : Nat := 100 * mainRank s.main + 10 * ledRank s.led + midiRank s.midi

theorem inv_init : inv {} = true := by decide

/-- `inv` only looks at who holds what -/
def invB (mE mX lE lX iX : Bool) : Bool :=
  !(mE && lE) && !(mX && lX) && !(mX && iX) && !(lX && iX) && (!mX || mE) && (!lX || lE)

theorem inv_eq (s : St) :
    inv s = invB (mainHoldsE s.main) (mainHoldsX s.main) (ledHoldsE s.led) (ledHoldsX s.led) (midiHoldsX s.midi) := rfl

/-- steps of the main goroutine keep mutual exclusion -/
theorem step_inv_main (m : MainPC) (l : LedPC) (i : MidiPC) (c : Bool) (x : Step)
    (hx : (step ⟨m, l, i, c⟩ x).led = l ∧ (step ⟨m, l, i, c⟩ x).midi = i) :
    inv ⟨m, l, i, c⟩ = true → enabled ⟨m, l, i, c⟩ x = true → inv (step ⟨m, l, i, c⟩ x) = true := by
  rw [inv_eq, inv_eq, hx.1, hx.2]
  simp only
  intro h he
  have hfE : freeE ⟨m, l, i, c⟩ = (!mainHoldsE m && !ledHoldsE l) := rfl
  have hfX : freeX ⟨m, l, i, c⟩ = (!mainHoldsX m && !ledHoldsX l && !midiHoldsX i) := rfl
  generalize ledHoldsE l = lE at *
  generalize ledHoldsX l = lX at *
  generalize midiHoldsX i = iX at *
  cases x <;> cases m <;> simp only [enabled, step, hfE, hfX] at he ⊢ <;>
    (try (rename_i p; cases p)) <;> cases lE <;> cases lX <;> cases iX <;> simp_all [invB, mainHoldsE, mainHoldsX]

/-- steps of the LED goroutine keep mutual exclusion -/
theorem step_inv_led (m : MainPC) (l : LedPC) (i : MidiPC) (c : Bool) (x : Step)
    (hx : (step ⟨m, l, i, c⟩ x).main = m ∧ (step ⟨m, l, i, c⟩ x).midi = i) :
    inv ⟨m, l, i, c⟩ = true → enabled ⟨m, l, i, c⟩ x = true → inv (step ⟨m, l, i, c⟩ x) = true := by
  rw [inv_eq, inv_eq, hx.1, hx.2]
  simp only
  intro h he
  have hfE : freeE ⟨m, l, i, c⟩ = (!mainHoldsE m && !ledHoldsE l) := rfl
  have hfX : freeX ⟨m, l, i, c⟩ = (!mainHoldsX m && !ledHoldsX l && !midiHoldsX i) := rfl
  generalize mainHoldsE m = mE at *
  generalize mainHoldsX m = mX at *
  generalize midiHoldsX i = iX at *
  cases x <;> cases l <;> simp only [enabled, step, hfE, hfX] at he ⊢ <;>
    cases mE <;> cases mX <;> cases iX <;> (try split) <;> simp_all [invB, ledHoldsE, ledHoldsX]

/-- steps of the MIDI-input goroutine keep mutual exclusion -/
theorem step_inv_midi (m : MainPC) (l : LedPC) (i : MidiPC) (c : Bool) (x : Step)
    (hx : (step ⟨m, l, i, c⟩ x).main = m ∧ (step ⟨m, l, i, c⟩ x).led = l) :
    inv ⟨m, l, i, c⟩ = true → enabled ⟨m, l, i, c⟩ x = true → inv (step ⟨m, l, i, c⟩ x) = true := by
  rw [inv_eq, inv_eq, hx.1, hx.2]
  simp only
  intro h he
  have hfX : freeX ⟨m, l, i, c⟩ = (!mainHoldsX m && !ledHoldsX l && !midiHoldsX i) := rfl
  generalize mainHoldsE m = mE at *
  generalize mainHoldsX m = mX at *
  generalize ledHoldsE l = lE at *
  generalize ledHoldsX l = lX at *
  cases x <;> cases i <;> simp only [enabled, step, hfX] at he ⊢ <;>
    cases mE <;> cases mX <;> cases lE <;> cases lX <;> (try split) <;> simp_all [invB, midiHoldsX]

/-- every step moves at most one goroutine -/
theorem step_moves_one (s : St) (x : Step) :
    ((step s x).led = s.led ∧ (step s x).midi = s.midi) ∨ ((step s x).main = s.main ∧ (step s x).midi = s.midi) ∨
    ((step s x).main = s.main ∧ (step s x).led = s.led) := by
  cases x <;> simp only [step] <;> (try split) <;> simp

/-- **mutual exclusion is an invariant** -/
theorem step_inv (s : St) (x : Step) (h : inv s = true) (he : enabled s x = true) : inv (step s x) = true := by
  obtain ⟨m, l, i, c⟩ := s
  rcases step_moves_one ⟨m, l, i, c⟩ x with h1 | h1 | h1
  · exact step_inv_main m l i c x h1 h he
  · exact step_inv_led m l i c x h1 h he
  · exact step_inv_midi m l i c x h1 h he

theorem run_inv (xs : List Step) : ∀ s, inv s = true → inv (run s xs) = true := by
  induction xs with
  | nil => intro s h; exact h
  | cons x r ih =>
    intro s h
    simp only [run]
    split
    · rename_i he; exact ih _ (step_inv s x h he)
    · exact ih _ h

/-- `wg.Wait()` has returned only if both other goroutines have finished -/
def doneOK (s : St) : Prop := s.main = .done → s.led = .done ∧ s.midi = .done

instance (s : St) : Decidable (doneOK s) := by unfold doneOK; exact inferInstance

theorem step_doneOK (s : St) (x : Step) (h : doneOK s) (he : enabled s x = true) : doneOK (step s x) := by
  obtain ⟨m, l, i, c⟩ := s
  by_cases hm : m = .done
  · subst hm
    obtain ⟨hl, hi⟩ := h rfl
    simp only at hl hi
    subst hl; subst hi
    cases x <;> simp [enabled, cancelled] at he <;> simp [step, doneOK]
  · unfold doneOK at h ⊢
    cases x <;> simp only [step, enabled] at he ⊢ <;> (try split) <;> simp_all

theorem run_doneOK (xs : List Step) : ∀ s, doneOK s → doneOK (run s xs) := by
  induction xs with
  | nil => intro s h; exact h
  | cons x r ih =>
    intro s h
    simp only [run]
    split
    · rename_i he; exact ih _ (step_doneOK s x h he)
    · exact ih _ h

/-! ### progress once the input has ended -/

/-- with the input ended and the mutexes exclusive: the helper step is enabled, the measure goes down, the input stays
    ended -/
theorem helper_ok (m : MainPC) (l : LedPC) (i : MidiPC) :
    inv ⟨m, l, i, true⟩ = true → doneOK ⟨m, l, i, true⟩ → allDone ⟨m, l, i, true⟩ = false →
      enabled ⟨m, l, i, true⟩ (helper ⟨m, l, i, true⟩) = true ∧
      measure (step ⟨m, l, i, true⟩ (helper ⟨m, l, i, true⟩)) < measure ⟨m, l, i, true⟩ ∧
      (step ⟨m, l, i, true⟩ (helper ⟨m, l, i, true⟩)).closed = true := by
  cases m <;> cases l <;> cases i <;> first | decide | (rename_i p; cases p <;> decide)

theorem measure_le (s : St) : measure s ≤ 973 := by
  obtain ⟨m, l, i, c⟩ := s
  have h1 : mainRank m ≤ 9 := by cases m <;> first | decide | (rename_i p; cases p <;> decide)
  have h2 : ledRank l ≤ 7 := by cases l <;> decide
  have h3 : midiRank i ≤ 3 := by cases i <;> decide
  simp only [measure]; omega

theorem drive_is_run (n : Nat) : ∀ s, inv s = true → doneOK s → s.closed = true → run s (driveSteps n s) = drive n s := by
  induction n with
  | zero => intro s _ _ _; rfl
  | succ n ih =>
    intro s hi hdo hc
    simp only [driveSteps, drive]
    split
    · rfl
    · rename_i hd
      obtain ⟨m, l, i, c⟩ := s
      simp only at hc; subst hc
      have hd' : allDone ⟨m, l, i, true⟩ = false := by simpa using hd
      obtain ⟨he, -, hcl⟩ := helper_ok m l i hi hdo hd'
      simp only [run, he, if_true]
      exact ih _ (step_inv _ _ hi he) (step_doneOK _ _ hdo he) hcl

/-- **termination**: `measure s` helper steps finish all three goroutines -/
theorem drive_done : ∀ (n : Nat) (s : St), inv s = true → doneOK s → s.closed = true → measure s ≤ n → allDone (drive n s) = true := by
  intro n
  induction n with
  | zero =>
    intro s hi _ hc hm
    obtain ⟨m, l, i, c⟩ := s
    simp only [drive]
    have h1 : mainRank m = 0 ∧ ledRank l = 0 ∧ midiRank i = 0 := by simp only [measure] at hm; omega
    obtain ⟨a, b, d⟩ := h1
    have e1 : m = .done := by
      cases m with
      | wantE p => cases p <;> simp [mainRank] at a
      | inE p => cases p <;> simp [mainRank] at a
      | done => rfl
      | _ => simp [mainRank] at a
    have e2 : l = .done := by cases l <;> simp [ledRank] at b <;> rfl
    have e3 : i = .done := by cases i <;> simp [midiRank] at d <;> rfl
    subst e1; subst e2; subst e3
    rfl
  | succ n ih =>
    intro s hi hdo hc hm
    simp only [drive]
    split
    · assumption
    · rename_i hd
      obtain ⟨m, l, i, c⟩ := s
      simp only at hc; subst hc
      have hd' : allDone ⟨m, l, i, true⟩ = false := by simpa using hd
      obtain ⟨he, hlt, hcl⟩ := helper_ok m l i hi hdo hd'
      exact ih _ (step_inv _ _ hi he) (step_doneOK _ _ hdo he) hcl (by omega)

/-- every step the finishing schedule takes is a step of one of the three goroutines (no further input, no MIDI message
    is needed), and it is enabled when taken -/
def GoodSchedule : St → List Step → Prop
  | _, [] => True
  | s, x :: r => enabled s x = true ∧ x ≠ .unplug ∧ x ≠ .midiArrives ∧ (∀ p, x ≠ .mainTake p) ∧ GoodSchedule (step s x) r

theorem helper_internal (m : MainPC) (l : LedPC) (i : MidiPC) :
    helper ⟨m, l, i, true⟩ ≠ .unplug ∧ helper ⟨m, l, i, true⟩ ≠ .midiArrives ∧ ∀ p, helper ⟨m, l, i, true⟩ ≠ .mainTake p := by
  have key : ∀ b : Bool, helper ⟨m, l, i, true⟩ ≠ .unplug ∧ helper ⟨m, l, i, true⟩ ≠ .midiArrives ∧
      helper ⟨m, l, i, true⟩ ≠ .mainTake b := by
    intro b
    cases b <;> cases m <;> cases l <;> cases i <;> first | decide | (rename_i q; cases q <;> decide)
  exact ⟨(key true).1, (key true).2.1, fun p => (key p).2.2⟩

theorem driveSteps_good (n : Nat) : ∀ s, inv s = true → doneOK s → s.closed = true → GoodSchedule s (driveSteps n s) := by
  induction n with
  | zero => intro s _ _ _; trivial
  | succ n ih =>
    intro s hi hdo hc
    simp only [driveSteps]
    split
    · trivial
    · rename_i hd
      obtain ⟨m, l, i, c⟩ := s
      simp only at hc; subst hc
      have hd' : allDone ⟨m, l, i, true⟩ = false := by simpa using hd
      obtain ⟨he, -, hcl⟩ := helper_ok m l i hi hdo hd'
      obtain ⟨g1, g2, g3⟩ := helper_internal m l i
      exact ⟨he, g1, g2, g3, ih _ (step_inv _ _ hi he) (step_doneOK _ _ hdo he) hcl⟩

theorem driveSteps_length (n : Nat) : ∀ s, (driveSteps n s).length ≤ n := by
  induction n with
  | zero => intro s; simp [driveSteps]
  | succ n ih =>
    intro s
    simp only [driveSteps]
    split
    · simp
    · simp only [List.length_cons]; have := ih (step s (helper s)); omega

end Hidi.LifeLemmas
