/-
  GenTieAbs — the axis path regenerated from the Go sources computes what the model computes (C05–C08).

  `Hidi/Gen/Bodies.lean` (written on every run by tools/extract/golite.go) contains the translation of `handleABSEvent`
  (as the segment chain `Body.handleABSEvent_s0 … _s10`) and of `processEvent`.  `HidiProofs/BodiesAbs.lean` proves them
  equal to the model's `Dev.handleAbs` / `Dev.step`, on which the theorems of C05 (every message well-formed), C06
  (transfer function: range, monotonicity, end stops, accuracy), C07 (one side at a time) and C08 (key emulation) are
  stated.  The binary64 arithmetic is the same `Hidi/Float.lean` on both sides: one correctly rounded operation per Go
  operation, `float64(int)` and `math.Abs` exact, literals = `rnd53` of their decimal value.

  * `GenTieAbs_translated`      : both methods are inside the translator's subset;
  * `GenTieAbs_evconsts`        : the event-type constants the translator uses are those of go-evdev (regenerated table);
  * `GenTieAbs_handleABSEvent`  : generated axis handler = `Dev.handleAbs`, every state (`channel` a `uint8`), every
                                  configuration, axis, raw value;
  * `GenTieAbs_processEvent_*`  : generated `processEvent` = `Dev.step` for key, axis and SYN events;
  * `GenTieAbs_reachable`       : in particular in every non-crashed state of every history of an accepted configuration;
  * `GenTieAbs_C05_wellformed`  : C05 on the generated code: everything the regenerated `processEvent` sends for an
                                  in-range event is a well-formed MIDI message.
-/
import HidiProofs.BodiesAbs
import HidiProofs.Props.C05full
import HidiProofs.Props.C02mixed
import Hidi.Gen.Evdev
namespace Hidi.Props.GenTieAbs
open Hidi Hidi.GoLite Hidi.Gen Hidi.BodiesTie Hidi.Spec Hidi.AnaIndep Hidi.KInvReach

theorem GenTieAbs_translated :
    ["handleABSEvent", "processEvent"].all (fun n => decide (n ∈ Body.translated)) = true := by decide

theorem GenTieAbs_evconsts :
    alookup "EV_SYN" Gen.evTypes = some 0 ∧ alookup "EV_KEY" Gen.evTypes = some 1 ∧ alookup "EV_ABS" Gen.evTypes = some 3 := by
  decide

theorem GenTieAbs_handleABSEvent (d : Dev) (hch : d.channel < 256) (sub : Sub) (node : String) (code : Code) (raw t : Int) :
    Body.handleABSEvent (toG d) sub node code raw t = toGR (d.handleAbs sub node code raw) :=
  handleAbs_eq d hch sub node code raw t

theorem GenTieAbs_processEvent_key (d : Dev) (hch : d.channel < 256) (hdead : d.dead = false) (sub : Sub) (node : String)
    (code : Code) (v : Int) : Body.processEvent (toG d) sub node code v 1 = toGR (d.step (.key sub code v)) :=
  processEvent_key d hch hdead sub node code v

theorem GenTieAbs_processEvent_abs (d : Dev) (hch : d.channel < 256) (hdead : d.dead = false) (sub : Sub) (node : String)
    (code : Code) (v : Int) : Body.processEvent (toG d) sub node code v 3 = toGR (d.step (.abs sub node code v)) :=
  processEvent_abs d hch hdead sub node code v

theorem GenTieAbs_processEvent_syn (d : Dev) (hdead : d.dead = false) (sub : Sub) (node : String) (code : Code) (v : Int) :
    Body.processEvent (toG d) sub node code v 0 = toGR (d.step .syn) :=
  processEvent_syn d hdead sub node code v

/-- in every non-crashed state of every history (keys, axes, SYN, MIDI input) of an accepted configuration -/
theorem GenTieAbs_reachable (cfg : Config) (hacc : Accepted cfg = true) (evs : List Ev)
    (hdead : ((Dev.init cfg).run evs).1.dead = false) (sub : Sub) (node : String) (code : Code) (raw : Int) :
    Body.processEvent (toG ((Dev.init cfg).run evs).1) sub node code raw 3 =
      toGR (((Dev.init cfg).run evs).1.step (.abs sub node code raw)) := by
  have hk := reachable_kinv cfg hacc evs hdead
  have hch : ((Dev.init cfg).run evs).1.channel < 256 := by
    have := hk.ch
    have e : (setAna ((Dev.init cfg).run evs).1 []).channel = ((Dev.init cfg).run evs).1.channel := rfl
    omega
  exact processEvent_abs _ hch hdead sub node code raw

/-- C05 on the generated code: every message the regenerated `processEvent` sends for an in-range axis event is a
    complete, valid MIDI channel message -/
theorem GenTieAbs_C05_wellformed (cfg : Config) (hacc : Accepted cfg = true) (d : Dev) (hd : C05.DevOK cfg d) (hdead : d.dead = false)
    (sub : Sub) (node : String) (code : Code) (raw : Int)
    (hr : evInRange cfg (StObs.ofDev d) (.abs sub node code raw) = true) :
    ∀ o ∈ (Body.processEvent (toG d) sub node code raw 3).out, wellFormed o = true := by
  have hch : d.channel < 256 := by have := hd.2.1; omega
  rw [processEvent_abs d hch hdead]
  exact C05.C05_step cfg hacc d _ hd hr

end Hidi.Props.GenTieAbs
