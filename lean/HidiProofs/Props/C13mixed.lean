/-
  C13 on states of histories of every event kind: the panic press sends All Notes Off plus 128 Note Offs on the current
  channel and leaves trackers and playing state alone — also while axes are deflected or emulated notes sound
  (transfer argument: `Props/C02mixed.lean`).
-/
import HidiProofs.KInvReach
import HidiProofs.Props.C13
namespace Hidi.Props.C13
open Hidi Hidi.Spec Hidi.EngineSim Hidi.AnaIndep Hidi.KInvReach

theorem C13_all_messages {cfg : Config} {d : Dev} (hd : KInv cfg d) (sub : Sub) (code : Code)
    (ha : alookup code cfg.actions = some .panic) (hsw : (kt d code 1).exitComplete = false)
    (hnp : (withAct (kt d code 1) .panic).checkDouble.2 = false) :
    (d.handleKey sub code 1).2 = panicMsgs d.channel := by
  rw [handleKey_split hd]
  have hnp' : (withAct (kt (setAna d []) code 1) .panic).checkDouble.2 = false := by
    have e : withAct (kt (setAna d []) code 1) .panic = setAna (withAct (kt d code 1) .panic) [] := by
      rw [kt_ana]; rfl
    rw [e, checkDouble_ana]; exact hnp
  exact C13_messages hd sub code ha hsw hnp'

/-- the panic press keeps both note trackers, the counters, the velocity and the configuration -/
theorem C13_all_trackers {cfg : Config} {d : Dev} (hd : KInv cfg d) (sub : Sub) (code : Code)
    (ha : alookup code cfg.actions = some .panic) (hsw : (kt d code 1).exitComplete = false) :
    let d' := (d.handleKey sub code 1).1
    d'.noteTr = d.noteTr ∧ d'.anaTr = d.anaTr ∧ d'.counter = d.counter ∧ d'.velocity = d.velocity ∧ d'.cfg = d.cfg := by
  intro d'
  have h := C13_trackers hd sub code ha hsw
  have e : d' = setAna ((setAna d []).handleKey sub code 1).1 d.anaTr := by
    show (d.handleKey sub code 1).1 = _
    rw [handleKey_split hd]; rfl
  rw [e]
  exact ⟨h.1, rfl, h.2.2.1, h.2.2.2.1, h.2.2.2.2⟩

end Hidi.Props.C13
