/-
  C03 on states of histories of every event kind (see `Props/C02mixed.lean` for the transfer argument): the collision
  rules of a press and of a release, stated with the number of holders, hold whatever the axes are doing; the counter
  equals the number of holders after every admissible mixed history (`C01_mixed_counter`).
-/
import HidiProofs.KInvReach
import HidiProofs.Props.C03
import HidiProofs.Props.C01
namespace Hidi.Props.C03
open Hidi Hidi.Spec Hidi.EngineSim Hidi.AnaIndep Hidi.KInvReach

theorem C03_all_press {cfg : Config} {d : Dev} (hd : KInv cfg d)
    (hcnt : ∀ ch n, d.count ch n = (holders d.noteTr (n, ch) : Int))
    (sub : Sub) (code : Code) (hna : alookup code cfg.actions = none) (hsw : (kt d code 1).exitComplete = false) :
    (d.handleKey sub code 1).2 =
      match resolve cfg (StObs.ofDev d) (u8 cfg.vel) sub code with
      | none => []
      | some (n, ch, v) => pressSpec cfg.mode (holders d.noteTr (n, ch)) ch n v := by
  rw [handleKey_split hd]
  exact C03_press hd hcnt sub code hna hsw

theorem C03_all_release {cfg : Config} {d : Dev} (hd : KInv cfg d)
    (hcnt : ∀ ch n, d.count ch n = (holders d.noteTr (n, ch) : Int))
    (sub : Sub) (code : Code) (hna : alookup code cfg.actions = none) :
    (d.handleKey sub code 0).2 =
      match alookup code d.noteTr with
      | none => []
      | some (n, ch) => releaseSpec cfg.mode (holders d.noteTr (n, ch)) ch n := by
  rw [handleKey_split hd]
  exact C03_release hd hcnt sub code hna

theorem C03_all_last_release_only {cfg : Config} {d : Dev} (hd : KInv cfg d)
    (hcnt : ∀ ch n, d.count ch n = (holders d.noteTr (n, ch) : Int))
    (sub : Sub) (code : Code) (hna : alookup code cfg.actions = none) (hm : cfg.mode ≠ .off)
    {n ch : Nat} (hl : alookup code d.noteTr = some (n, ch)) :
    (d.handleKey sub code 0).2 = if holders d.noteTr (n, ch) = 1 then [noteOffMsg ch n] else [] := by
  rw [handleKey_split hd]
  exact C03_last_release_only hd hcnt sub code hna hm hl

/-- **on every admissible history of any event kinds**: the state before each key event satisfies both hypotheses of the
    three theorems above -/
theorem C03_all_history (cfg : Config) (hacc : Accepted cfg = true) (evs : List Ev)
    (hok : Hidi.Mixed.OKHistory (Dev.init cfg) evs) (hdead : ((Dev.init cfg).run evs).1.dead = false) :
    let d := ((Dev.init cfg).run evs).1
    KInv cfg d ∧ ∀ ch n, d.count ch n = (holders d.noteTr (n, ch) : Int) := by
  intro d
  refine ⟨reachable_kinv cfg hacc evs hdead, ?_⟩
  intro ch n
  exact Hidi.Props.C01.C01_mixed_counter cfg evs hacc hok ch n

end Hidi.Props.C03
