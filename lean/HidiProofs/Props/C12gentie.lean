/-
  C12 (selection order) on the regenerated code: `Hidi/Gen/FindCfg.lean` is the translation of
  `(*DeviceConfigs).FindConfig` (config/loader.go) made by tools/extract/findcfg.go on every run, and it equals the
  model's `findConfig` for every set of loaded maps, every identifier and every device type.  The precedence theorems of
  `Props/C12.lean` (user over factory, exact identifier over default, keyboards / gamepads by device type, errors) are
  therefore theorems about the function as it is written now.
-/
import Hidi.Gen.FindCfg
import HidiProofs.Props.C12
namespace Hidi.Props.C12gen
open Hidi Hidi.Gen

theorem C12_gen_translated : Body.findConfigTranslated = true := by decide

/-- generated `FindConfig` = model, everywhere -/
theorem C12_gen_findConfig (c : DeviceConfigs) (id : InputID) (ty : DevType) :
    Body.findConfig c id ty = findConfig c id ty := by
  unfold Body.findConfig findConfig
  simp only [Id.run, pure]
  cases ty
  · simp
  · rcases Option.eq_none_or_eq_some (alookup id c.userKeyboards) with h1 | ⟨v1, h1⟩ <;>
    rcases Option.eq_none_or_eq_some (alookup zeroID c.userKeyboards) with h2 | ⟨v2, h2⟩ <;>
    rcases Option.eq_none_or_eq_some (alookup id c.factoryKeyboards) with h3 | ⟨v3, h3⟩ <;>
    rcases Option.eq_none_or_eq_some (alookup zeroID c.factoryKeyboards) with h4 | ⟨v4, h4⟩ <;>
    simp [firstSome, Body.cmLookup, h1, h2, h3, h4]
  · simp
  · rcases Option.eq_none_or_eq_some (alookup id c.userGamepads) with h1 | ⟨v1, h1⟩ <;>
    rcases Option.eq_none_or_eq_some (alookup zeroID c.userGamepads) with h2 | ⟨v2, h2⟩ <;>
    rcases Option.eq_none_or_eq_some (alookup id c.factoryGamepads) with h3 | ⟨v3, h3⟩ <;>
    rcases Option.eq_none_or_eq_some (alookup zeroID c.factoryGamepads) with h4 | ⟨v4, h4⟩ <;>
    simp [firstSome, Body.cmLookup, h1, h2, h3, h4]

end Hidi.Props.C12gen
