/-
  C12 — Config selection: user over factory, specific over default, bad files isolated.
  Theorems about `Hidi.findConfig`, `Hidi.loadDir`, `Hidi.loadAll`, for all inputs.

  * `C12_precedence_*`  : the four-step order user exact → user default → factory exact → factory default, from the keyboard
                          maps for keyboards and the gamepad maps for joysticks; `notFound` iff none exists; any other
                          device type is `unsupported` whatever is configured;
  * `C12_isolation`     : a directory gives the same result as the same directory with every entry removed that is a
                          directory, does not carry the `.toml` suffix (any case), or fails to parse — so adding or removing
                          such entries anywhere in the tree changes nothing (`C12_bad_entry_irrelevant`);
  * `C12_never_panics`  : `LoadDeviceConfigs` yields a result or an error for every combination of present / missing
                          directories; a missing directory is an error.
-/
import HidiProofs.EngineSimBase
import Hidi.Loader
namespace Hidi.Props.C12
open Hidi Hidi.EngineSim

/-! ### precedence -/

def pickSpec (user fact : List (InputID × String)) (id : InputID) : Except FindErr (String × String) :=
  match alookup id user with
  | some f => .ok (f, "user")
  | none =>
    match alookup zeroID user with
    | some f => .ok (f, "user")
    | none =>
      match alookup id fact with
      | some f => .ok (f, "factory")
      | none =>
        match alookup zeroID fact with
        | some f => .ok (f, "factory")
        | none => .error .notFound

/-- **precedence, keyboards**: user exact, user default, factory exact, factory default — from the keyboard directories -/
theorem C12_precedence_keyboard (c : DeviceConfigs) (id : InputID) :
    findConfig c id .keyboard = pickSpec c.userKeyboards c.factoryKeyboards id := by
  unfold findConfig pickSpec
  simp only [firstSome]
  cases alookup id c.userKeyboards <;> cases alookup zeroID c.userKeyboards <;>
    cases alookup id c.factoryKeyboards <;> cases alookup zeroID c.factoryKeyboards <;> rfl

/-- **precedence, joysticks**: the same order, from the gamepad directories -/
theorem C12_precedence_joystick (c : DeviceConfigs) (id : InputID) :
    findConfig c id .joystick = pickSpec c.userGamepads c.factoryGamepads id := by
  unfold findConfig pickSpec
  simp only [firstSome]
  cases alookup id c.userGamepads <;> cases alookup zeroID c.userGamepads <;>
    cases alookup id c.factoryGamepads <;> cases alookup zeroID c.factoryGamepads <;> rfl

/-- any other device type is unsupported, whatever files exist -/
theorem C12_unsupported (c : DeviceConfigs) (id : InputID) (ty : DevType) (h1 : ty ≠ .keyboard) (h2 : ty ≠ .joystick) :
    findConfig c id ty = .error .unsupported := by
  cases ty <;> simp_all [findConfig]

/-- a user file always beats any factory file -/
theorem C12_user_over_factory (c : DeviceConfigs) (id : InputID) (f : String)
    (h : alookup id c.userKeyboards = some f ∨ (alookup id c.userKeyboards = none ∧ alookup zeroID c.userKeyboards = some f)) :
    findConfig c id .keyboard = .ok (f, "user") := by
  rw [C12_precedence_keyboard]
  unfold pickSpec
  rcases h with h | ⟨h1, h2⟩
  · simp [h]
  · simp [h1, h2]

/-- `notFound` exactly when none of the four candidates exists -/
theorem C12_not_found_iff (c : DeviceConfigs) (id : InputID) :
    findConfig c id .keyboard = .error .notFound ↔
      alookup id c.userKeyboards = none ∧ alookup zeroID c.userKeyboards = none ∧
      alookup id c.factoryKeyboards = none ∧ alookup zeroID c.factoryKeyboards = none := by
  rw [C12_precedence_keyboard]
  unfold pickSpec
  cases alookup id c.userKeyboards <;> cases alookup zeroID c.userKeyboards <;>
    cases alookup id c.factoryKeyboards <;> cases alookup zeroID c.factoryKeyboards <;> simp

/-! ### isolation of bad files -/

/-- entries that can contribute a configuration -/
def good (e : Entry) : Bool :=
  !e.isDir && hasTomlSuffix (e.path.getLast?.getD "") && (match e.outcome with | .ok _ => true | .fail => false)

def stepL (m : List (InputID × String)) (e : Entry) : List (InputID × String) :=
  if e.isDir then m else
  let name := e.path.getLast?.getD ""
  if ¬ hasTomlSuffix name then m else
  match e.outcome with
  | .fail => m
  | .ok id => ainsert id name m

theorem loadDir_eq (es : List Entry) : loadDir es = (sortEntries es).foldl stepL [] := rfl

theorem stepL_bad {m : List (InputID × String)} {e : Entry} (h : good e = false) : stepL m e = m := by
  unfold stepL good at *
  cases hd : e.isDir
  · simp only [hd, Bool.not_false, Bool.true_and, Bool.false_eq_true, if_false] at h ⊢
    cases hs : hasTomlSuffix (e.path.getLast?.getD "")
    · simp
    · simp only [hs, Bool.true_and] at h
      cases ho : e.outcome with
      | fail => simp
      | ok id => rw [ho] at h; simp at h
  · simp

theorem foldl_filter_good (l : List Entry) : ∀ m, l.foldl stepL m = (l.filter good).foldl stepL m := by
  induction l with
  | nil => intro m; rfl
  | cons e r ih =>
    intro m
    simp only [List.foldl_cons, List.filter_cons]
    cases hg : good e
    · simp only [Bool.false_eq_true, if_false]
      rw [stepL_bad hg]; exact ih m
    · simp only [if_true, List.foldl_cons]; exact ih _

/-- inserting an entry puts it somewhere into the list and leaves the rest as it was -/
theorem insertEntry_split (e : Entry) (r : List Entry) :
    ∃ l1 l2, r = l1 ++ l2 ∧ insertEntry e r = l1 ++ e :: l2 := by
  induction r with
  | nil => exact ⟨[], [], rfl, rfl⟩
  | cons x r ih =>
    simp only [insertEntry]
    split
    · exact ⟨[], x :: r, rfl, rfl⟩
    · obtain ⟨l1, l2, h1, h2⟩ := ih
      exact ⟨x :: l1, l2, by rw [h1]; rfl, by rw [h2]; rfl⟩

/-- **isolation (on the walk)**: the result of a directory is the result of the walk with every entry dropped that is a
    directory, lacks the `.toml` suffix, or fails to parse -/
theorem C12_isolation (es : List Entry) :
    loadDir es = ((sortEntries es).filter good).foldl stepL [] := by
  rw [loadDir_eq]; exact foldl_filter_good _ _

/-- **a bad entry changes nothing**: adding a directory, a non-TOML file or a file that fails to parse — with any name,
    anywhere in the tree — leaves the result of the directory as it was -/
theorem C12_bad_entry_irrelevant (b : Entry) (es : List Entry) (hb : good b = false) :
    loadDir (b :: es) = loadDir es := by
  rw [C12_isolation, C12_isolation]
  have : sortEntries (b :: es) = insertEntry b (sortEntries es) := rfl
  rw [this]
  obtain ⟨l1, l2, h1, h2⟩ := insertEntry_split b (sortEntries es)
  rw [h2, h1]
  simp only [List.filter_append, List.filter_cons, hb, Bool.false_eq_true, if_false]

/-- only good entries can put an identifier into the result -/
theorem C12_result_from_good (es : List Entry) (id : InputID) (f : String) (h : (id, f) ∈ loadDir es) :
    ∃ e ∈ es, good e = true ∧ e.outcome = .ok id ∧ e.path.getLast?.getD "" = f := by
  rw [C12_isolation] at h
  have hmem : ∀ (l : List Entry) (m : List (InputID × String)), (id, f) ∈ l.foldl stepL m →
      (id, f) ∈ m ∨ ∃ e ∈ l, e.outcome = .ok id ∧ e.path.getLast?.getD "" = f := by
    intro l
    induction l with
    | nil => intro m hm; exact Or.inl hm
    | cons e r ih =>
      intro m hm
      simp only [List.foldl_cons] at hm
      rcases ih _ hm with h1 | ⟨e', he', h2⟩
      · unfold stepL at h1
        split at h1
        · exact Or.inl h1
        · simp only at h1
          split at h1
          · exact Or.inl h1
          · split at h1
            · exact Or.inl h1
            · rename_i id' ho
              rcases mem_ainsert.mp h1 with h3 | h3
              · exact Or.inl h3.1
              · simp only [Prod.mk.injEq] at h3
                exact Or.inr ⟨e, List.mem_cons_self, by rw [ho, h3.1], h3.2.symm⟩
      · exact Or.inr ⟨e', List.mem_cons_of_mem _ he', h2⟩
  rcases hmem _ _ h with h0 | ⟨e, he, h1, h2⟩
  · cases h0
  · have hf := List.mem_filter.mp he
    have hsort : ∀ (l : List Entry) (x : Entry), x ∈ sortEntries l → x ∈ l := by
      intro l
      induction l with
      | nil => intro x hx; exact hx
      | cons y r ih =>
        intro x hx
        have : sortEntries (y :: r) = insertEntry y (sortEntries r) := rfl
        rw [this] at hx
        obtain ⟨l1, l2, h1', h2'⟩ := insertEntry_split y (sortEntries r)
        rw [h2'] at hx
        rcases List.mem_append.mp hx with hx | hx
        · exact List.mem_cons_of_mem _ (ih x (by rw [h1']; exact List.mem_append_left _ hx))
        · rcases List.mem_cons.mp hx with hx | hx
          · rw [hx]; exact List.mem_cons_self
          · exact List.mem_cons_of_mem _ (ih x (by rw [h1']; exact List.mem_append_right _ hx))
    exact ⟨e, hsort es e hf.1, hf.2, h1, h2⟩

/-! ### missing directories -/

/-- **never a crash**: for every combination of present / missing directories the loader returns a value or an error -/
theorem C12_never_panics (fg fk ug uk : Root) : loadAll fg fk ug uk ≠ .panic := by
  unfold loadAll
  split <;> simp

theorem C12_missing_is_error (fg fk ug uk : Root)
    (h : fg.present = false ∨ fk.present = false ∨ ug.present = false ∨ uk.present = false) :
    loadAll fg fk ug uk = .err := by
  unfold loadAll
  rw [if_pos]
  rcases h with h | h | h | h <;> simp [h]

/-! ### non-vacuity -/

def exEntries : List Entry :=
  [⟨["b.toml"], false, .ok (3, 1, 2, 3)⟩, ⟨["a.TOML"], false, .ok (0, 0, 0, 0)⟩, ⟨["broken.toml"], false, .fail⟩,
   ⟨["c.txt"], false, .ok (3, 1, 2, 3)⟩, ⟨["z.toml"], true, .fail⟩, ⟨["zz.toml"], false, .ok (3, 1, 2, 3)⟩]

example : loadDir exEntries = [((0, 0, 0, 0), "a.TOML"), ((3, 1, 2, 3), "zz.toml")] := by decide
example : findConfig ⟨[], [((3, 1, 2, 3), "f.toml")], [], [((0, 0, 0, 0), "u0.toml")]⟩ (3, 1, 2, 3) .keyboard =
    .ok ("u0.toml", "user") := by rfl

end Hidi.Props.C12
