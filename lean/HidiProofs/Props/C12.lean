import Hidi
namespace Hidi.Props.C12
open Hidi

/-- placeholder obligation replaced by the real theorems below as they are proved -/
theorem zero_id : zeroID = (0, 0, 0, 0) := rfl

end Hidi.Props.C12
