/-
  C06 — the transfer function of an axis (`shapeRaw`, `flipVal`, `ccByte`, `pitchBendEvent` of
  `Hidi/Engine.lean`): range, monotonicity, exact end stops, rest position inside the deadzone,
  and the same for the controller byte, the signed scaling and the 14-bit pitch-bend value.

  All statements are about the exact binary64 model of `Hidi/Float.lean` (every operation is
  followed by `rnd53`), not about real arithmetic.
-/
import HidiProofs.AxisLemmas
namespace Hidi.Props.C06
open Hidi Hidi.Spec Hidi.FloatLemmas Hidi.AxisLemmas

/-! ### the shaped value -/

/-- the shaped value stays in [-1, 1] -/
theorem C06_shape_range {mn mx : Int} {dzc : Bool} {dz : Rat} {raw : Int}
    (h : axisOK mn mx dzc dz raw = true) :
    -1 ≤ shapeRaw mn mx dzc dz raw ∧ shapeRaw mn mx dzc dz raw ≤ 1 := by
  obtain ⟨_, _, h3, _, h5, _, h7⟩ := axisOK_iff.mp h
  obtain ⟨a, b, c⟩ := normRaw_range h
  have hc : dzc = true → 0 ≤ normRaw mn mx raw := fun hd => c (by have := h5 hd; omega)
  obtain ⟨d, e⟩ := centre_range a b hc
  rw [shapeRaw_eq]
  exact ⟨dzCut_ge_neg_one h7 d, dzCut_le_one h7 e⟩

/-- … and in [0, 1] for an unsigned axis without centring -/
theorem C06_shape_range_unsigned {mx : Int} {dz : Rat} {raw : Int}
    (h : axisOK 0 mx false dz raw = true) :
    0 ≤ shapeRaw 0 mx false dz raw := by
  obtain ⟨_, _, h3, _, _, _, h7⟩ := axisOK_iff.mp h
  obtain ⟨_, _, c⟩ := normRaw_range h
  rw [shapeRaw_eq]
  exact dzCut_nonneg h7 (centre_nonneg_of_not (c h3))

/-- monotone in the raw position -/
theorem C06_shape_mono {mn mx : Int} {dzc : Bool} {dz : Rat} {r1 r2 : Int}
    (h1 : axisOK mn mx dzc dz r1 = true) (h2 : axisOK mn mx dzc dz r2 = true) (h : r1 ≤ r2) :
    shapeRaw mn mx dzc dz r1 ≤ shapeRaw mn mx dzc dz r2 := by
  obtain ⟨_, hpos, hmn1, _, _, _, h7⟩ := axisOK_iff.mp h1
  obtain ⟨_, _, _, hmx2, _, _, _⟩ := axisOK_iff.mp h2
  rw [shapeRaw_eq, shapeRaw_eq]
  exact dzCut_mono h7 (centre_mono (normRaw_mono hmn1 hmx2 hpos h))

/-! ### end stops -/

/-- the physical end stops map exactly to the ends -/
theorem C06_end_stop_max {mn mx : Int} {dzc : Bool} {dz : Rat}
    (h : axisOK mn mx dzc dz mx = true) :
    shapeRaw mn mx dzc dz mx = 1 := by
  obtain ⟨_, hpos, _, _, _, _, h7⟩ := axisOK_iff.mp h
  have hmx0 : (0 : ℚ) < mx := by exact_mod_cast hpos
  have hab : rabs (mx : ℚ) = (mx : ℚ) := by rw [rabs_eq, abs_of_pos hmx0]
  have hn : normRaw mn mx mx = 1 := by
    unfold normRaw
    rw [if_neg (by omega), hab]
    exact fdiv_self hmx0.ne'
  have hc : centre dzc 1 = 1 := by
    unfold centre
    split_ifs
    · unfold fsub fmul
      norm_num [rnd53_two, rnd53_one]
    · rfl
  rw [shapeRaw_eq, hn, hc]
  exact dzCut_one h7

theorem C06_end_stop_min_signed {mn mx : Int} {dz : Rat} (hmn : mn < 0)
    (h : axisOK mn mx false dz mn = true) :
    shapeRaw mn mx false dz mn = -1 := by
  obtain ⟨_, _, _, _, _, _, h7⟩ := axisOK_iff.mp h
  have hmn0 : (mn : ℚ) < 0 := by exact_mod_cast hmn
  have hab : rabs (mn : ℚ) = -(mn : ℚ) := by rw [rabs_eq, abs_of_neg hmn0]
  have hn : normRaw mn mx mn = -1 := by
    unfold normRaw fdiv
    rw [if_pos hmn, hab, div_neg, div_self hmn0.ne, rnd53_neg_one]
  have hc : centre false (-1) = -1 := rfl
  rw [shapeRaw_eq, hn, hc]
  exact dzCut_neg_one h7

theorem C06_end_stop_min_centred {mx : Int} {dz : Rat} (h : axisOK 0 mx true dz 0 = true) :
    shapeRaw 0 mx true dz 0 = -1 := by
  obtain ⟨_, _, _, _, _, _, h7⟩ := axisOK_iff.mp h
  have hn : normRaw 0 mx 0 = 0 := by
    simp [normRaw, fdiv, rnd53_zero]
  have hc : centre true 0 = -1 := by
    simp [centre, fsub, fmul, rnd53_zero, rnd53_neg_one]
  rw [shapeRaw_eq, hn, hc]
  exact dzCut_neg_one h7

theorem C06_end_stop_min_unsigned {mx : Int} {dz : Rat} (h : axisOK 0 mx false dz 0 = true) :
    shapeRaw 0 mx false dz 0 = 0 := by
  obtain ⟨_, _, _, _, _, h6, _⟩ := axisOK_iff.mp h
  have hn : normRaw 0 mx 0 = 0 := by
    simp [normRaw, fdiv, rnd53_zero]
  have hc : centre false 0 = 0 := rfl
  rw [shapeRaw_eq, hn, hc]
  exact dzCut_zero h6

/-! ### rest position -/

/-- positions inside the deadzone give exactly 0 (deadzone a binary64 value, no centring) -/
theorem C06_rest {mn mx : Int} {dz : Rat} {raw : Int} (_h : axisOK mn mx false dz raw = true)
    (hrep : rnd53 dz = dz)
    (hin : rabs ((raw : Rat) / (if raw < 0 then rabs (mn : Rat) else rabs (mx : Rat))) < dz) :
    shapeRaw mn mx false dz raw = 0 := by
  rw [rabs_eq (_ / _), abs_lt] at hin
  rw [shapeRaw_eq]
  have hc : ∀ x, centre false x = x := fun _ => rfl
  rw [hc]
  unfold normRaw fdiv
  split_ifs with hr
  · rw [if_pos hr] at hin
    exact dzCut_rest hrep hin.1 hin.2
  · rw [if_neg hr] at hin
    exact dzCut_rest hrep hin.1 hin.2

/-! ### controller value -/

/-- controller value: range, ends, centre, monotone -/
theorem C06_cc_range {a : Rat} (h0 : 0 ≤ a) (h1 : a ≤ 1) : ccByte a ≤ 127 := by
  obtain ⟨l, u⟩ := ftrunc127_range h0 h1
  unfold ccByte u8
  omega

theorem C06_cc_zero : ccByte 0 = 0 := by
  simp [ccByte, fmul, rnd53_zero, ftrunc_zero, u8]

theorem C06_cc_one : ccByte 1 = 127 := by
  simp [ccByte, fmul, rnd53_127, ftrunc_127, u8]

theorem C06_cc_half : ccByte (1/2) = 63 := by
  have hr : rnd53 (127 * (1/2)) = 127/2 := by
    have := rnd53_of_rep' 127 (-1) (by norm_num)
    norm_num at this ⊢; exact this
  have hf : ftrunc (127/2 : ℚ) = 63 := by
    rw [ftrunc_def, if_neg (by norm_num), Int.floor_eq_iff]; norm_num
  unfold ccByte fmul
  rw [hr, hf]; rfl

theorem C06_cc_mono {a b : Rat} (h0 : 0 ≤ a) (hab : a ≤ b) (h1 : b ≤ 1) : ccByte a ≤ ccByte b := by
  obtain ⟨la, ua⟩ := ftrunc127_range h0 (le_trans hab h1)
  obtain ⟨lb, ub⟩ := ftrunc127_range (le_trans h0 hab) h1
  have hm : ftrunc (fmul 127 a) ≤ ftrunc (fmul 127 b) := by
    apply ftrunc_mono
    unfold fmul
    exact rnd53_mono (by linarith)
  unfold ccByte u8
  omega

/-! ### signed scaling -/

/-- the unidirectional signed scaling (v+1)/2 maps [-1,1] onto [0,1] with exact ends and centre -/
theorem C06_signed_scale {v : Rat} (h0 : -1 ≤ v) (h1 : v ≤ 1) :
    0 ≤ fdiv (fadd v 1) 2 ∧ fdiv (fadd v 1) 2 ≤ 1 := by
  have a : 0 ≤ fadd v 1 := rnd53_nonneg (by linarith)
  have b : fadd v 1 ≤ 2 := by
    have := rnd53_mono (show v + 1 ≤ 2 by linarith); rwa [rnd53_two] at this
  unfold fdiv
  exact ⟨rnd53_nonneg (by linarith), rnd53_le_one (by linarith)⟩

theorem C06_signed_scale_ends :
    fdiv (fadd (-1) 1) 2 = 0 ∧ fdiv (fadd 0 1) 2 = 1/2 ∧ fdiv (fadd 1 1) 2 = 1 := by
  refine ⟨?_, ?_, ?_⟩
  · simp [fdiv, fadd, rnd53_zero]
  · simp only [fdiv, fadd, zero_add, rnd53_one, rnd53_half]
  · have : (1:ℚ) + 1 = 2 := by norm_num
    simp only [fdiv, fadd, this, rnd53_two]
    norm_num [rnd53_one]

theorem signed_scale_mono {x y : Rat} (h : x ≤ y) : fdiv (fadd x 1) 2 ≤ fdiv (fadd y 1) 2 := by
  unfold fdiv fadd
  apply rnd53_mono
  have := rnd53_mono (show x + 1 ≤ y + 1 by linarith)
  linarith

/-! ### pitch bend -/

/-- pitch bend: 14-bit range, exact ends, centre 8192, monotone. `pbTarget x` is the integer the
    model encodes. -/
def pbTarget (x : Rat) : Int := fround (fmul 16383 (fdiv (fadd x 1) 2))

theorem C06_pb_range {x : Rat} (h0 : -1 ≤ x) (h1 : x ≤ 1) : 0 ≤ pbTarget x ∧ pbTarget x ≤ 16383 := by
  obtain ⟨l, u⟩ := C06_signed_scale h0 h1
  have a : 0 ≤ fmul 16383 (fdiv (fadd x 1) 2) := rnd53_nonneg (by linarith)
  have b : fmul 16383 (fdiv (fadd x 1) 2) ≤ 16383 := by
    have := rnd53_mono (show 16383 * fdiv (fadd x 1) 2 ≤ 16383 by linarith)
    rwa [rnd53_16383] at this
  have a' := fround_mono a
  have b' := fround_mono b
  rw [fround_zero] at a'
  rw [fround_16383] at b'
  exact ⟨a', b'⟩

theorem C06_pb_encoding (ch : Nat) (x : Rat) (h0 : -1 ≤ x) (h1 : x ≤ 1) :
    pitchBendEvent ch x =
      .midi ((stPB ||| ch) % 256) ((pbTarget x) % 128).toNat ((pbTarget x) / 128).toNat := by
  obtain ⟨l, u⟩ := C06_pb_range h0 h1
  have : (pbTarget x / 128) % 128 = pbTarget x / 128 := by omega
  show Out.midi _ (pbTarget x % 128).toNat ((pbTarget x / 128) % 128).toNat = _
  rw [this]

theorem C06_pb_ends : pbTarget (-1) = 0 ∧ pbTarget 0 = 8192 ∧ pbTarget 1 = 16383 := by
  obtain ⟨e1, e2, e3⟩ := C06_signed_scale_ends
  refine ⟨?_, ?_, ?_⟩
  · unfold pbTarget; rw [e1]
    simp [fmul, rnd53_zero, fround_zero]
  · unfold pbTarget; rw [e2]
    have hr : rnd53 (16383 * (1/2)) = 16383/2 := by
      have := rnd53_of_rep' 16383 (-1) (by norm_num)
      norm_num at this ⊢; exact this
    unfold fmul
    rw [hr, fround_def, if_neg (by norm_num), Int.floor_eq_iff]; norm_num
  · unfold pbTarget; rw [e3]
    unfold fmul
    rw [mul_one, rnd53_16383, fround_16383]

theorem C06_pb_mono {x y : Rat} (h : x ≤ y) : pbTarget x ≤ pbTarget y := by
  unfold pbTarget
  apply fround_mono
  unfold fmul
  apply rnd53_mono
  have := signed_scale_mono h
  linarith

/-! ### flipping -/

/-- flipping keeps the range and reverses the order -/
theorem C06_flip_range_signed {v : Rat} (h0 : -1 ≤ v) (h1 : v ≤ 1) (flip : Bool) :
    -1 ≤ flipVal true flip v ∧ flipVal true flip v ≤ 1 := by
  cases flip
  · exact ⟨h0, h1⟩
  · simp only [flipVal, if_true]
    constructor <;> linarith

theorem C06_flip_range_unsigned {v : Rat} (h0 : 0 ≤ v) (h1 : v ≤ 1) (flip : Bool) :
    0 ≤ flipVal false flip v ∧ flipVal false flip v ≤ 1 := by
  cases flip
  · exact ⟨h0, h1⟩
  · have e : flipVal false true v = fsub 1 v := rfl
    rw [e]; unfold fsub
    exact ⟨rnd53_nonneg (by linarith), rnd53_le_one (by linarith)⟩

theorem C06_flip_antitone {canNeg : Bool} {v w : Rat} (h : v ≤ w) :
    flipVal canNeg true w ≤ flipVal canNeg true v := by
  cases canNeg
  · have e : ∀ x, flipVal false true x = fsub 1 x := fun _ => rfl
    rw [e, e]; unfold fsub
    exact rnd53_mono (by linarith)
  · have e : ∀ x, flipVal true true x = -x := fun _ => rfl
    rw [e, e]; linarith

/-! ### non-vacuity: the hypotheses are satisfiable -/

example : axisOK (-128) 127 false (1/4) 127 = true := axisOK_iff.mpr (by norm_num)
example : axisOK (-128) 127 false (1/4) (-128) = true := axisOK_iff.mpr (by norm_num)
example : axisOK 0 255 true (1/4) 0 = true := axisOK_iff.mpr (by norm_num)
example : axisOK 0 255 false (1/4) 0 = true := axisOK_iff.mpr (by norm_num)
example : axisOK 0 255 false 0 17 = true := axisOK_iff.mpr (by norm_num)
/-- the Go literal `0.05` (nearest binary64) is an admissible deadzone -/
example : axisOK (-128) 127 false (rnd53 (1/20)) 127 = true := by
  have a : 0 ≤ rnd53 (1/20) := rnd53_nonneg (by norm_num)
  have b : rnd53 (1/20) ≤ 1/2 := by
    have := rnd53_mono (show (1/20 : ℚ) ≤ 1/2 by norm_num); rwa [rnd53_half] at this
  exact axisOK_iff.mpr ⟨by norm_num, by norm_num, by norm_num, by norm_num, by simp, a, by linarith⟩
/-- a position inside the deadzone 1/4 (a binary64 value) of a signed axis -/
example : rnd53 (1/4) = 1/4 ∧
    rabs (((-20 : Int) : Rat) / (if (-20 : Int) < 0 then rabs ((-128 : Int) : Rat) else rabs ((127 : Int) : Rat))) < 1/4 := by
  constructor
  · have := rnd53_of_rep' 1 (-2) (by norm_num)
    norm_num at this ⊢; exact this
  · rw [rabs_eq]; norm_num [rabs_eq]

end Hidi.Props.C06
