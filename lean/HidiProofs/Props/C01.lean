/-
  C01 — No stuck notes.

  Key part: for every accepted configuration and every key history inside the quantifier
  (`Disciplined`: values 0/1 alternating per key code, pair discipline), whenever no key is down the
  receiver hears nothing; after a disconnect the receiver hears nothing whatever was held.
  Proved for *all* histories by the simulation invariant of `HidiProofs.EngineSim`
  (counter = number of holders, tracker keys ⊆ keys down, sounding ⊆ tracked pairs).

  Axis part (key emulation): `C01_axis_*` below and `HidiProofs.Props.C08` — per event of a key-emulating
  axis, from any state, after the event the tracker holds exactly what the position says
  (`C08_pos/neg/centre`), an axis that leaves key emulation is released (`C08_release_axis`), and the
  disconnect clean-up empties both trackers (`C01_cleanup_trackers`, any state).

  Mixed histories — key events, axis events of every type (controllers, pitch bend, key emulation, action
  emulation), SYN, MIDI input, in any order: `C01_mixed_explained`, `C01_mixed_quiescent`,
  `C01_mixed_disconnect` (invariant `Mixed.MInv`, by induction over the history).  The only hypothesis on
  the history is `OKHistory`: key values 0/1/2 and a key is pressed only while the key tracker does not
  hold it (keys alternate).  Whatever sounds is recorded for a held key or a deflected key-emulating
  axis; with no key held and no emulated key tracked nothing sounds; after the disconnect clean-up nothing
  sounds.  When an axis stops tracking is C08 (`C01_axis_rest`).
-/
import HidiProofs.KeyHistories
import HidiProofs.Props.C08
import HidiProofs.Mixed
namespace Hidi.Props.C01
open Hidi Hidi.Spec Hidi.EngineSim Hidi.KeyHist

/-- the monitor the check evaluates on the implementation never fires on the model (any key-only history,
    with or without a final disconnect) -/
theorem C01_monitor (cfg : Config) (evs : List Ev) (disc : Bool)
    (hacc : Accepted cfg = true) (hk : evs.all keyOnly = true) :
    failsOf "C01" (checkAll (modelTrace cfg evs disc)) = [] :=
  no_fails_of "C01" (by decide) cfg evs disc hacc hk

/-- **no stuck notes**: after any history in the quantifier, if no key is down nothing sounds -/
theorem C01_quiescent (cfg : Config) (evs : List Ev) (hacc : Accepted cfg = true)
    (hk : evs.all keyOnly = true) (hd : Disciplined cfg evs) (hdown : keysDown evs [] = []) :
    heard cfg evs = [] := by
  have hinv := final_inv hacc hk
  have ho := hinv.okp hd
  rw [← finalBook_snd]
  apply List.eq_nil_iff_forall_not_mem.mpr
  intro p hp
  obtain ⟨k, hk'⟩ := ho.core.snd p hp
  have hkm : k ∈ akeys (modelSteps (Dev.init cfg) evs).2.noteTr := List.mem_map_of_mem (f := Prod.fst) hk'
  have := (ho.keys k hkm).1
  rw [← hinv.down, finalBook_down, hdown] at this
  simp at this

/-- what sounds is always explained by a held key: every sounding (channel, note) is the pair recorded for
    some key that is still down (so releasing all keys silences everything — the statement above —
    and no note outlives its key) -/
theorem C01_sounding_explained (cfg : Config) (evs : List Ev) (hacc : Accepted cfg = true)
    (hk : evs.all keyOnly = true) (hd : Disciplined cfg evs) :
    ∀ p ∈ heard cfg evs, ∃ k ∈ keysDown evs [], (k, (p.2, p.1)) ∈ (modelSteps (Dev.init cfg) evs).2.noteTr := by
  have hinv := final_inv hacc hk
  have ho := hinv.okp hd
  intro p hp
  rw [← finalBook_snd] at hp
  obtain ⟨k, hk'⟩ := ho.core.snd p hp
  have hkm : k ∈ akeys (modelSteps (Dev.init cfg) evs).2.noteTr := List.mem_map_of_mem (f := Prod.fst) hk'
  refine ⟨k, ?_, hk'⟩
  have := (ho.keys k hkm).1
  rwa [← hinv.down, finalBook_down] at this

/-- **disconnect**: whatever is held, after the clean-up of `ProcessEvents` nothing sounds -/
theorem C01_disconnect (cfg : Config) (evs : List Ev) (hacc : Accepted cfg = true)
    (hk : evs.all keyOnly = true) (hd : Disciplined cfg evs) :
    sounding (heard cfg evs) (modelSteps (Dev.init cfg) evs).2.cleanup.2 = [] := by
  have hinv := final_inv hacc hk
  rw [← finalBook_snd]
  exact (cleanup_sim hinv).2 hd

/-- the clean-up in any order of the key tracker (Go iterates a map): the model's clean-up uses the
    tracker's own order; any order that covers the tracked keys empties the tracker -/
theorem C01_cleanup_any_order {cfg : Config} {d : Dev} (hdv : DInv cfg d) (snd : List (Nat × Nat)) (hc : Core d snd)
    (order : List Code) (hcover : ∀ k ∈ akeys d.noteTr, k ∈ order) :
    (offAll d order).1.noteTr = [] ∧ sounding snd (offAll d order).2 = [] := by
  obtain ⟨-, -, r3, r4⟩ := offAll_sim order d snd hdv hc
  rw [foldl_aerase_nil _ _ hcover] at r4
  refine ⟨r4, ?_⟩
  apply List.eq_nil_iff_forall_not_mem.mpr
  intro p hp
  obtain ⟨k, hk'⟩ := r3.snd p hp
  rw [r4] at hk'
  simp at hk'

/-- axis part: an event of a key-emulating axis at rest (|v| < 0.49) leaves nothing of that axis tracked,
    from any state (`C08_centre`), and an axis that no longer emulates keys is released -/
theorem C01_axis_rest (d : Dev) (a : Analog) (code : Code) (canNeg : Bool) (v0 : Rat)
    (h : -c49 < C08.vk canNeg v0 ∧ C08.vk canNeg v0 < c49) :
    alookup (code, false) (d.absKey a code canNeg v0).1.anaTr = none ∧
    alookup (code, true) (d.absKey a code canNeg v0).1.anaTr = none :=
  let r := C08.C08_centre d a code canNeg v0 h (C08.centre_not_neg canNeg v0 h)
  ⟨r.1, r.2.1⟩

/-! ### mixed histories: keys and axes of every type -/

open Hidi.Mixed in
/-- **whatever sounds is tracked**: after any admissible history of key, axis, SYN and MIDI-input events, every
    (channel, note) a receiver hears is the pair recorded for a held key or for a deflected key-emulating axis -/
theorem C01_mixed_explained (cfg : Config) (evs : List Ev) (hacc : Accepted cfg = true)
    (hok : OKHistory (Dev.init cfg) evs) :
    ∀ p ∈ sounding [] ((Dev.init cfg).runFlat evs).2, Tracked ((Dev.init cfg).runFlat evs).1 p :=
  (run_minv hacc evs _ _ (init_minv hacc) hok).snd

open Hidi.Mixed in
/-- **no stuck notes, mixed histories**: when no key is down (the key tracker is empty) and no emulated key is
    tracked (every key-emulating axis is back inside its rest zone, `C01_axis_rest`), nothing sounds -/
theorem C01_mixed_quiescent (cfg : Config) (evs : List Ev) (hacc : Accepted cfg = true)
    (hok : OKHistory (Dev.init cfg) evs)
    (hkeys : ((Dev.init cfg).runFlat evs).1.keyTr = []) (haxes : ((Dev.init cfg).runFlat evs).1.anaTr = []) :
    sounding [] ((Dev.init cfg).runFlat evs).2 = [] := by
  have hinv := run_minv hacc evs _ _ (init_minv hacc) hok
  apply List.eq_nil_iff_forall_not_mem.mpr
  intro p hp
  rcases hinv.snd p hp with ⟨k, hk⟩ | ⟨i, hi⟩
  · have := hinv.keys k (List.mem_map_of_mem (f := Prod.fst) hk)
    rw [hkeys] at this; cases this
  · rw [haxes] at hi; cases hi

open Hidi.Mixed in
/-- **disconnect, mixed histories**: whatever is held or deflected, after the clean-up both trackers are empty and
    nothing sounds -/
theorem C01_mixed_disconnect (cfg : Config) (evs : List Ev) (hacc : Accepted cfg = true)
    (hok : OKHistory (Dev.init cfg) evs) (hdead : ((Dev.init cfg).runFlat evs).1.dead = false) :
    sounding (sounding [] ((Dev.init cfg).runFlat evs).2) ((Dev.init cfg).runFlat evs).1.cleanup.2 = [] ∧
    ((Dev.init cfg).runFlat evs).1.cleanup.1.noteTr = [] ∧ ((Dev.init cfg).runFlat evs).1.cleanup.1.anaTr = [] :=
  cleanup_silent (run_minv hacc evs _ _ (init_minv hacc) hok) hdead

open Hidi.Mixed in
/-- the counter is the number of holders after every admissible mixed history, too (C03's refinement fact) -/
theorem C01_mixed_counter (cfg : Config) (evs : List Ev) (hacc : Accepted cfg = true)
    (hok : OKHistory (Dev.init cfg) evs) (ch n : Nat) :
    ((Dev.init cfg).runFlat evs).1.count ch n = (holders ((Dev.init cfg).runFlat evs).1.noteTr (n, ch) : Int) :=
  (run_minv hacc evs _ _ (init_minv hacc) hok).cnt ch n

/-! ### non-vacuity: a concrete history with a collision, a state change while held and a release in the
    other order satisfies every hypothesis, and notes did sound in between -/

def exCfg : Config :=
  { maps := [{ name := "Piano", midi := [(("", 30), ⟨60, 0⟩), (("", 31), ⟨48, 0⟩)], analog := [], dz := [], defDz := [] }],
    actions := [(59, .octaveUp)], exitSeq := [], mode := .interrupt, defOct := 0, defSemi := 0, defCh := 1,
    defMap := 0, vel := 64, axes := [] }

def exEvs : List Ev :=
  [.key "" 30 1, .key "" 59 1, .key "" 59 0, .key "" 31 1, .key "" 30 0, .key "" 31 0]

example : Accepted exCfg = true := by decide
example : exEvs.all keyOnly = true := by decide
example : Disciplined exCfg exEvs := by unfold Disciplined; decide
example : keysDown exEvs [] = [] := by decide
example : heard exCfg (exEvs.take 4) = [(0, 60)] := by decide
example : heard exCfg exEvs = [] := by decide

/-- axis, SYN and MIDI-input events are always admissible: the discipline only concerns key presses -/
theorem okHistory_abs (d : Dev) (s n : String) (c : Code) (v : Int) (r : List Ev) :
    Mixed.OKHistory d (.abs s n c v :: r) ↔ Mixed.OKHistory (d.step (.abs s n c v)).1 r := by
  simp [Mixed.OKHistory, Mixed.EvOK]

/-- a history with a key held across a transposition, MIDI input and SYN in between, satisfies the hypothesis -/
def mixEvs : List Ev :=
  [.key "" 30 1, .midiIn 0x90 60 64, .key "" 59 1, .syn, .key "" 59 0, .key "" 31 1, .key "" 30 0, .key "" 31 0]

example : Mixed.OKHistory (Dev.init exCfg) mixEvs := by
  simp only [mixEvs, Mixed.OKHistory, Mixed.EvOK]
  decide
example : sounding [] ((Dev.init exCfg).runFlat mixEvs).2 = [] := by decide
example : sounding [] ((Dev.init exCfg).runFlat (mixEvs.take 6)).2 ≠ [] := by decide

end Hidi.Props.C01
