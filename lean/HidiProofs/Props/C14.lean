/-
  C14 — The exit sequence fires exactly when all its keys are down, and swallows that press.

  * `C14_signal_iff`        : a key event raises the signal iff it is a press after which every key of the
                              (non-empty) exit sequence is in the key tracker;
  * `C14_completing_press`  : that press emits the signal and nothing else, and changes nothing but the key tracker —
                              no note, no action of its own, although the key may also be a note or action key;
  * `C14_tracker_is_keys_down` : the key tracker is exactly the set of keys whose last event was a press (so
                              "in the tracker" means "held now", pressed in any order);
  * `C14_never_when_empty`  : with an empty sequence no event ever raises the signal;
  * `C14_monitor`           : the monitor evaluated on the implementation never fires on the model.

  Not modelled: the send on the signal channel blocks when that channel is full (capacity 1 in `main.go`).
-/
import HidiProofs.KeyHistories
namespace Hidi.Props.C14
open Hidi Hidi.Spec Hidi.EngineSim Hidi.KeyHist

theorem C14_monitor (cfg : Config) (evs : List Ev) (disc : Bool)
    (hacc : Accepted cfg = true) (hk : evs.all keyOnly = true) :
    failsOf "C14" (checkAll (modelTrace cfg evs disc)) = [] :=
  no_fails_of "C14" (by decide) cfg evs disc hacc hk

theorem sig_not_mem_of_okOut {o : List Out} (h : o.all okOut = true) : Out.sig ∉ o := by
  intro hm
  have := List.all_eq_true.mp h _ hm
  simp [okOut, isMidi] at this

theorem pressOuts_no_sig (mode : Collision) (held : Bool) (ch n v : Nat) : Out.sig ∉ pressOuts mode held ch n v := by
  unfold pressOuts noteOnMsg noteOffMsg
  cases mode <;> cases held <;> simp

theorem releaseOuts_no_sig (mode : Collision) (last : Bool) (ch n : Nat) : Out.sig ∉ releaseOuts mode last ch n := by
  unfold releaseOuts noteOffMsg
  cases mode <;> cases last <;> simp

theorem panicMsgs_no_sig (ch : Nat) : Out.sig ∉ panicMsgs ch := by
  unfold panicMsgs; simp

/-- **the signal is raised exactly on a press that completes the sequence** -/
theorem C14_signal_iff {cfg : Config} {d : Dev} (hd : DInv cfg d) (sub : Sub) (code : Code) (val : Int) :
    Out.sig ∈ (d.handleKey sub code val).2 ↔ (val = 1 ∧ (kt d code val).exitComplete = true) := by
  rw [handleKey_eq hd]
  constructor
  · intro h
    split at h
    · assumption
    · exfalso
      cases ha : alookup code cfg.actions with
      | some a =>
        rw [ha] at h
        simp only at h
        split at h
        · rcases (actPress_model (kt_dinv hd code val) a).2.2 with e | ⟨-, e⟩
          · rw [e] at h; simp at h
          · rw [e] at h; exact panicMsgs_no_sig _ h
        · split at h <;> simp at h
      | none =>
        rw [ha] at h
        simp only at h
        split at h
        · rw [noteOn_eq (kt_dinv hd code val)] at h
          split at h
          · simp at h
          · exact pressOuts_no_sig _ _ _ _ _ h
        · split at h
          · rw [noteOff_eq (kt_dinv hd code val)] at h
            split at h
            · simp at h
            · exact releaseOuts_no_sig _ _ _ _ h
          · simp at h
  · intro h
    rw [if_pos h]
    simp

/-- **the completing press is swallowed**: signal only; nothing but the key tracker changes -/
theorem C14_completing_press {cfg : Config} {d : Dev} (hd : DInv cfg d) (sub : Sub) (code : Code)
    (h : (kt d code 1).exitComplete = true) :
    d.handleKey sub code 1 = ({ d with keyTr := sinsert code d.keyTr }, [.sig]) := by
  rw [handleKey_eq hd, if_pos ⟨rfl, h⟩]
  simp [kt]

/-- what "complete" means: the sequence is non-empty and each of its keys is in the tracker after this press -/
theorem C14_complete_iff (d : Dev) (code : Code) :
    (kt d code 1).exitComplete = true ↔
      d.cfg.exitSeq ≠ [] ∧ ∀ k ∈ d.cfg.exitSeq, k ∈ d.keyTr ∨ k = code := by
  unfold Dev.exitComplete kt
  simp only [if_true, Bool.and_eq_true, Bool.not_eq_true', List.isEmpty_eq_false_iff, List.all_eq_true,
    decide_eq_true_eq, mem_sinsert]

/-- the key tracker after a history is the set of keys whose last event was a press -/
theorem C14_tracker_is_keys_down {cfg : Config} (hacc : Accepted cfg = true) {evs : List Ev}
    (hk : evs.all keyOnly = true) : ((Dev.init cfg).run evs).1.keyTr = keysDown evs [] := by
  have hinv := final_inv hacc hk
  rw [← modelSteps_final, ← hinv.down, finalBook_down]

/-- **empty sequence: never** -/
theorem C14_never_when_empty {cfg : Config} {d : Dev} (hd : DInv cfg d) (hempty : cfg.exitSeq = [])
    (sub : Sub) (code : Code) (val : Int) : Out.sig ∉ (d.handleKey sub code val).2 := by
  rw [C14_signal_iff hd]
  rintro ⟨-, h⟩
  unfold Dev.exitComplete at h
  rw [(kt_frame d code val).1, hd.cfg_eq, hempty] at h
  simp at h

/-- the signal count of a whole history: with an empty sequence it is zero -/
theorem C14_never_when_empty_history {cfg : Config} (hacc : Accepted cfg = true) (hempty : cfg.exitSeq = [])
    (evs : List Ev) (hk : evs.all keyOnly = true) : Out.sig ∉ allOuts (Dev.init cfg) evs := by
  have hnone := C14_monitor cfg evs false hacc hk
  -- direct argument by induction with the invariant
  suffices h : ∀ (evs : List Ev) (d : Dev) (b : Book), Inv cfg d b → evs.all keyOnly = true →
      Out.sig ∉ allOuts d evs from
    h evs _ _ (inv_init hacc) hk
  clear hnone hk evs
  intro evs
  induction evs with
  | nil => intro d b _ _; simp [allOuts, modelSteps]
  | cons e es ih =>
    intro d b hinv hk
    simp only [List.all_cons, Bool.and_eq_true] at hk
    have hstep := (step_sim hacc hinv 0 e (keyOnly_ne hk.1)).1
    simp only [allOuts, modelSteps, List.flatMap_cons, List.mem_append, not_or]
    refine ⟨?_, ih _ _ hstep hk.2⟩
    unfold Dev.step
    rw [hinv.dinv.dead]
    simp only [Bool.false_eq_true, if_false]
    cases e with
    | syn => simp
    | midiIn x y z => simp
    | abs s n c v => simp [keyOnly] at hk
    | key sub code val =>
      simp only
      split
      · simp
      · exact C14_never_when_empty hinv.dinv hempty sub code val

/-! ### non-vacuity: ESC is panic *and* in the sequence; the completing press does not panic -/

def exCfg : Config :=
  { maps := [{ name := "Piano", midi := [(("", 30), ⟨60, 0⟩)], analog := [], dz := [], defDz := [] }],
    actions := [(1, .panic)], exitSeq := [1, 30], mode := .off, defOct := 0, defSemi := 0, defCh := 1,
    defMap := 0, vel := 64, axes := [] }

example : ((Dev.init exCfg).run [.key "" 30 1, .key "" 1 1, .key "" 1 0, .key "" 30 0]).2 =
    [[noteOnMsg 0 60 64], [.sig], [], [noteOffMsg 0 60]] := by decide
example : ((Dev.init exCfg).run [.key "" 1 1, .key "" 30 1]).2 = [panicMsgs 0, [.sig]] := by decide

end Hidi.Props.C14
