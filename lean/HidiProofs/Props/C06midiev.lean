/-
  C06 on the regenerated pitch-bend constructor (`Hidi/Gen/MidiEv.lean`, translated from internal/pkg/midi/event.go on every
  run): the two data bytes it builds are the 7-bit halves of `target = int(math.Round(16383·((val+1)/2)))`, so the 14-bit
  value at the receiver, `lsb + 128·msb`, is exactly `target` whenever `target` is inside 0‥16383 — which the C06 theorems
  about `pitchBendEvent` (`C06_pb_*`, `C06_pb_accuracy`) establish for every shaped axis value.  A mask or shift that loses
  a bit (or swapped bytes) breaks this theorem.
-/
import HidiProofs.Props.C05midiev
import HidiProofs.Props.C06
namespace Hidi.Props.C06
open Hidi Hidi.Gen

theorem C06_gen_pitchBend_bytes (ch : Nat) (val : Rat) :
    MidiEv.PitchBendEvent ch val =
      [224 ||| ch, ((pbTarget val % 128) % 256).toNat, ((pbTarget val / 128 % 128) % 256).toNat] := by
  simp only [MidiEv.PitchBendEvent, pbTarget, u8]

/-- the receiver's 14-bit value is the rounded target, as the code is written now -/
theorem C06_gen_pitchBend_value (ch : Nat) (val : Rat) (h0 : 0 ≤ pbTarget val) (h1 : pbTarget val ≤ 16383) :
    ∃ lsb msb, MidiEv.PitchBendEvent ch val = [224 ||| ch, lsb, msb] ∧ lsb < 128 ∧ msb < 128 ∧
      ((lsb + 128 * msb : Nat) : Int) = pbTarget val := by
  refine ⟨_, _, C06_gen_pitchBend_bytes ch val, ?_, ?_, ?_⟩ <;> omega

/-- for every shaped value (−1 ≤ val ≤ 1, which `C06_shape_range` gives for every in-range axis position) the bytes built
    now carry exactly the rounded 14-bit target -/
theorem C06_gen_pitchBend_shaped (ch : Nat) (val : Rat) (h0 : -1 ≤ val) (h1 : val ≤ 1) :
    ∃ lsb msb, MidiEv.PitchBendEvent ch val = [224 ||| ch, lsb, msb] ∧ lsb < 128 ∧ msb < 128 ∧
      ((lsb + 128 * msb : Nat) : Int) = pbTarget val :=
  C06_gen_pitchBend_value ch val (C06_pb_range h0 h1).1 (C06_pb_range h0 h1).2

/-- … and it is the value the model transmits (`Hidi.pitchBendEvent`, on which `C06_pb_*` are stated) -/
theorem C06_gen_pitchBend_model (ch : Nat) (val : Rat) (hch : ch < 16) :
    MidiEv.PitchBendEvent ch val = Hidi.Props.C05.bytes (pitchBendEvent ch val) :=
  Hidi.Props.C05.C05_gen_pitchBendEvent ch val (by omega)

end Hidi.Props.C06
