/-
  C11 — note names and numbers are a bijection; nothing else is a note name.
  Model: `Hidi/Notes.lean` (`stringToNote`, `noteName`), pitch tables regenerated from
  `config/event.go` (`Hidi/Gen/Tables.lean`).
-/
import Hidi
import HidiProofs.NotesLemmas
namespace Hidi.Props.C11
open Hidi Hidi.NotesLemmas

/-- every number 0–127 has a name, and the name parses back to the number -/
theorem C11_roundtrip : ∀ n, n < 128 → stringToNote (noteName n) = .ok n := by
  set_option maxRecDepth 100000 in decide

/-- the 128 names are pairwise different -/
theorem C11_names_injective : ∀ n, n < 128 → ∀ m, m < 128 → noteName n = noteName m → n = m := by
  set_option maxRecDepth 100000 in decide

/-- the pinned pattern and tables are what the model was written for -/
theorem C11_tables :
    Gen.noteRegex = "^(?P<pitch>[a-zA-Z]#?)(?P<octave>-?\\d)$" ∧
    Gen.pitchToValC = [(['A', '#'], 10), (['A'], 9), (['B'], 11), (['C', '#'], 1), (['C'], 0), (['D', '#'], 3),
      (['D'], 2), (['E'], 4), (['F', '#'], 6), (['F'], 5), (['G', '#'], 8), (['G'], 7)] := by
  constructor <;> decide

/-- ASCII lower-casing, the inverse direction of `upperC` -/
def lowerC (c : Char) : Char := if 'A' ≤ c ∧ c ≤ 'Z' then Char.ofNat (c.toNat + 32) else c

theorem lowerC_toNat (c : Char) :
    (lowerC c).toNat = if 65 ≤ c.toNat ∧ c.toNat ≤ 90 then c.toNat + 32 else c.toNat := by
  unfold lowerC
  simp only [char_le_iff, Char.reduceToNat]
  split
  · rw [toNat_ofNat_small]; omega
  · rfl

theorem upperC_lowerC (c : Char) : upperC (lowerC c) = upperC c := by
  apply Char.toNat_inj.mp
  rw [upperC_toNat (lowerC c), upperC_toNat c, lowerC_toNat c]
  (repeat' split) <;> omega

/-- parsing only depends on the upper-cased string -/
theorem C11_upper (s : List Char) : stringToNote (s.map upperC) = stringToNote s :=
  stringToNote_upper s

/-- only the 128 names: whatever is accepted is (up to letter case) the canonical name of the number returned -/
theorem C11_only_names (s : List Char) (n : Nat) :
    stringToNote s = .ok n → n < 128 ∧ s.map upperC = noteName n := by
  intro h
  obtain ⟨P, hP, sharp, neg, D, hD, hs⟩ := accepted_shape s n h
  have hc := check_candidates P hP sharp (by cases sharp <;> simp) neg (by cases neg <;> simp) D hD
  rw [← C11_upper s, hs] at h
  rw [hs]
  exact check_sound _ n hc h

/-- letter case does not matter -/
theorem C11_case (s : List Char) : stringToNote (s.map lowerC) = stringToNote (s.map upperC) := by
  rw [← C11_upper (s.map lowerC), List.map_map]
  have : upperC ∘ lowerC = upperC := by funext c; exact upperC_lowerC c
  rw [this]

/-- everything that is not (up to case) one of the 128 names is rejected -/
theorem C11_rejects (s : List Char) :
    (∀ n, n < 128 → s.map upperC ≠ noteName n) → stringToNote s = .err := by
  intro h
  cases hs : stringToNote s with
  | ok n => obtain ⟨hn, he⟩ := C11_only_names s n hs; exact absurd he (h n hn)
  | err => rfl
  | panic => exact absurd hs (stringToNote_ne_panic s)

example : stringToNote "c#3".toList = .ok 61 := by decide
example : stringToNote "H3".toList = .err := by decide

end Hidi.Props.C11
