/-
  C11 — note names and numbers are a bijection; nothing else is a note name.
  Model: `Hidi/Notes.lean` (`stringToNote`, `noteName`), pitch tables regenerated from
  `config/event.go` (`Hidi/Gen/Tables.lean`).
-/
import Hidi
namespace Hidi.Props.C11
open Hidi

/-- every number 0–127 has a name, and the name parses back to the number -/
theorem C11_roundtrip : ∀ n, n < 128 → stringToNote (noteName n) = .ok n := by
  set_option maxRecDepth 100000 in decide

/-- the 128 names are pairwise different -/
theorem C11_names_injective : ∀ n, n < 128 → ∀ m, m < 128 → noteName n = noteName m → n = m := by
  set_option maxRecDepth 100000 in decide

/-- the pinned pattern and tables are what the model was written for -/
theorem C11_tables :
    Gen.noteRegex = "^(?P<pitch>[a-zA-Z]#?)(?P<octave>-?\\d)$" ∧
    Gen.pitchToValC = [(['A', '#'], 10), (['A'], 9), (['B'], 11), (['C', '#'], 1), (['C'], 0), (['D', '#'], 3),
      (['D'], 2), (['E'], 4), (['F', '#'], 6), (['F'], 5), (['G', '#'], 8), (['G'], 7)] := by
  constructor <;> decide

example : stringToNote "c#3".toList = .ok 61 := by decide
example : stringToNote "H3".toList = .err := by decide

end Hidi.Props.C11
