/-
  C20 (device type rule) on the regenerated rules: `Gen.deviceTypeRows` / `Gen.deviceTypeDefault` are the case clauses of
  `DetermineDeviceType` (input/device.go) in source order, extracted on every run.  Interpreted with the meaning of
  `contains` (every listed handler type occurs) and `containsOnly` (as many handlers as listed types, and every listed type
  occurs), they give the model's `determineType` for every list of handler types — so the type rule of `Props/C20.lean`
  (joystick if any handler is joystick-like, otherwise keyboard if any is a standard keyboard, otherwise not playable) is
  about the clauses as they are written now.  (`HandlerType` itself is already computed from the regenerated
  `Gen.handlerRows`.)
-/
import Hidi.Normalize
import HidiProofs.Props.C20
namespace Hidi.Props.C20gen
open Hidi

/-- `contains(in, types...)` / `containsOnly(in, types...)` on the list of handler types of a group -/
def ruleHolds (hts : List String) (row : String × List String × String) : Bool :=
  if row.1 = "contains" then row.2.1.all (· ∈ hts)
  else if row.1 = "containsOnly" then decide (hts.length = row.2.1.length) && row.2.1.all (· ∈ hts)
  else false

def devTypeOfName : String → DevType
  | "JoystickDevice" => .joystick
  | "KeyboardDevice" => .keyboard
  | "MouseDevice" => .mouse
  | _ => .unknown

/-- the first clause that holds, else the default -/
def determineFromRows (rows : List (String × List String × String)) (dflt : String) (hts : List String) : DevType :=
  match rows.find? (ruleHolds hts) with
  | some r => devTypeOfName r.2.2
  | none => devTypeOfName dflt

theorem C20_gen_rows_wellformed :
    Gen.deviceTypeRows.all (fun r => r.1 = "contains" ∨ r.1 = "containsOnly") = true ∧
    (Gen.deviceTypeDefault :: Gen.deviceTypeRows.map (·.2.2)).all
      (fun n => n ∈ ["JoystickDevice", "KeyboardDevice", "MouseDevice", "UnknownDevice"]) = true := by decide

/-- the regenerated clauses give the model's rule, for every list of handler types -/
theorem C20_gen_type_rule (hts : List String) :
    determineFromRows Gen.deviceTypeRows Gen.deviceTypeDefault hts = determineType hts := by
  unfold determineFromRows determineType
  have hr : Gen.deviceTypeRows = [("contains", ["DI_TYPE_JOYSTICK"], "JoystickDevice"),
      ("contains", ["DI_TYPE_STD_KBD"], "KeyboardDevice"), ("containsOnly", ["DI_TYPE_MOUSE"], "MouseDevice")] := by decide
  have hd : Gen.deviceTypeDefault = "UnknownDevice" := by decide
  rw [hr, hd]
  by_cases h1 : "DI_TYPE_JOYSTICK" ∈ hts
  · simp [List.find?, ruleHolds, h1, devTypeOfName]
  · by_cases h2 : "DI_TYPE_STD_KBD" ∈ hts
    · simp [List.find?, ruleHolds, h1, h2, devTypeOfName]
    · by_cases h3 : hts.length = 1 ∧ "DI_TYPE_MOUSE" ∈ hts
      · simp [List.find?, ruleHolds, h1, h2, h3.1, h3.2, devTypeOfName]
      · have h3' : ¬ (hts.length = 1 ∧ "DI_TYPE_MOUSE" ∈ hts) := h3
        by_cases hl : hts.length = 1
        · have hm : "DI_TYPE_MOUSE" ∉ hts := fun hm => h3 ⟨hl, hm⟩
          simp [List.find?, ruleHolds, h1, h2, hl, hm, devTypeOfName]
        · simp [List.find?, ruleHolds, h1, h2, hl, devTypeOfName]

end Hidi.Props.C20gen
