import Hidi
namespace Hidi.Props.C20
open Hidi

/-- placeholder obligation replaced by the real theorems below as they are proved -/
theorem empty : normalize [] = [] := rfl

end Hidi.Props.C20
