/-
  C20 — Device discovery groups handlers into devices independently of order.
  Theorems about `Hidi.groupBy` / `Hidi.normalize` / `Hidi.determineType` / `Hidi.handlerType`, for every handler list.

  * `C20_group_spec`      : the group of location `p` is exactly the handlers reporting `p`, in discovery order, and it
                            exists iff there is at least one (so: every handler is in exactly one group, two handlers share a
                            group iff they report the same location);
  * `C20_keys_nodup`      : one group per location;
  * `C20_partition`       : the groups' members, concatenated, are a permutation of the input;
  * `C20_type_rule`       : joystick if any member is joystick-like, else keyboard if any is a standard keyboard, else mouse
                            iff it is a single mouse handler, else not playable;
  * `C20_order`           : for any two discovery orders (permutations of one another) the groups agree location by location:
                            same members up to order, same type;
  * `C20_handler_type_set`: `HandlerType` depends only on the *set* of capability types.
  The device ID is taken from the first handler of a group (`dis[0].ID`): it is order-independent exactly when the handlers of
  one location report the same ID — `C20_order_id_partial`.
-/
import HidiProofs.EngineSimBase
import Hidi.Normalize
namespace Hidi.Props.C20
open Hidi Hidi.EngineSim

def at_ (hs : List HandlerInfo) (p : String) : List HandlerInfo := hs.filter (·.phys = p)

def stepG (acc : List (String × List HandlerInfo)) (h : HandlerInfo) : List (String × List HandlerInfo) :=
  match alookup h.phys acc with
  | some l => acc.map (fun p => if p.1 = h.phys then (p.1, l ++ [h]) else p)
  | none => acc ++ [(h.phys, [h])]

theorem groupBy_eq (hs : List HandlerInfo) : groupBy hs = hs.foldl stepG [] := rfl

def Inv (acc : List (String × List HandlerInfo)) (pre : List HandlerInfo) : Prop :=
  (akeys acc).Nodup ∧ ∀ p, alookup p acc = if at_ pre p = [] then none else some (at_ pre p)

theorem alookup_map_update {acc : List (String × List HandlerInfo)} {k : String} {v : List HandlerInfo} (p : String) :
    alookup p (acc.map (fun q => if q.1 = k then (q.1, v) else q)) =
      if p = k then (alookup p acc).map (fun _ => v) else alookup p acc := by
  induction acc with
  | nil => simp [alookup]
  | cons q r ih =>
    obtain ⟨a, b⟩ := q
    simp only [List.map_cons, alookup]
    by_cases hak : a = k
    · subst hak
      simp only [if_true]
      by_cases hp : a = p
      · subst hp; simp
      · simp only [hp, if_false]
        rw [ih]
    · simp only [hak, if_false]
      by_cases hp : a = p
      · subst hp; simp [hak]
      · simp only [hp, if_false]; rw [ih]

theorem akeys_map_update {acc : List (String × List HandlerInfo)} {k : String} {v : List HandlerInfo} :
    akeys (acc.map (fun q => if q.1 = k then (q.1, v) else q)) = akeys acc := by
  induction acc with
  | nil => rfl
  | cons q r ih =>
    simp only [akeys, List.map_cons] at ih ⊢
    rw [ih]
    split <;> rfl

theorem step_inv {acc : List (String × List HandlerInfo)} {pre : List HandlerInfo} (h : HandlerInfo)
    (hi : Inv acc pre) : Inv (stepG acc h) (pre ++ [h]) := by
  obtain ⟨hn, hl⟩ := hi
  unfold stepG
  cases hk : alookup h.phys acc with
  | none =>
    simp only
    constructor
    · have : akeys (acc ++ [(h.phys, [h])]) = akeys acc ++ [h.phys] := by simp [akeys]
      rw [this]
      refine List.nodup_append.mpr ⟨hn, by simp, ?_⟩
      intro a ha b hb
      simp at hb; subst hb
      intro e; subst e
      exact (alookup_eq_none.mp hk) ha
    · intro p
      rw [alookup_append, hl p]
      have hfl : at_ (pre ++ [h]) p = at_ pre p ++ (if h.phys = p then [h] else []) := by
        simp only [at_, List.filter_append, List.filter_cons, List.filter_nil, decide_eq_true_eq]
      rw [hfl]
      by_cases hp : h.phys = p
      · subst hp
        have hnone := hl h.phys
        rw [hk] at hnone
        have he : at_ pre h.phys = [] := by
          cases hx : at_ pre h.phys with
          | nil => rfl
          | cons a r => rw [hx] at hnone; simp at hnone
        simp [he, alookup]
      · simp only [hp, if_false, List.append_nil]
        split
        · simp [alookup, hp]
        · rfl
  | some l =>
    simp only
    constructor
    · rw [akeys_map_update]; exact hn
    · intro p
      rw [alookup_map_update, hl p]
      have hfl : at_ (pre ++ [h]) p = at_ pre p ++ (if h.phys = p then [h] else []) := by
        simp only [at_, List.filter_append, List.filter_cons, List.filter_nil, decide_eq_true_eq]
      rw [hfl]
      have hl' := hl h.phys
      rw [hk] at hl'
      have hne : at_ pre h.phys ≠ [] := by
        intro he; rw [if_pos he] at hl'; cases hl'
      rw [if_neg hne] at hl'
      have hleq : l = at_ pre h.phys := by simpa using hl'
      by_cases hp : p = h.phys
      · subst hp
        simp [hne, hleq]
      · have hp' : ¬ h.phys = p := fun e => hp e.symm
        simp only [hp, hp', if_false, List.append_nil]

theorem foldl_inv (rest : List HandlerInfo) : ∀ (acc : List (String × List HandlerInfo)) (pre : List HandlerInfo),
    Inv acc pre → Inv (rest.foldl stepG acc) (pre ++ rest) := by
  induction rest with
  | nil => intro acc pre h; simpa using h
  | cons h r ih =>
    intro acc pre hi
    have := ih (stepG acc h) (pre ++ [h]) (step_inv h hi)
    simpa [List.append_assoc] using this

theorem groupBy_inv (hs : List HandlerInfo) : Inv (groupBy hs) hs := by
  have := foldl_inv hs [] [] ⟨by simp [akeys], by intro p; simp [alookup, at_]⟩
  simpa [groupBy_eq] using this

/-- **one group per location** -/
theorem C20_keys_nodup (hs : List HandlerInfo) : (akeys (groupBy hs)).Nodup := (groupBy_inv hs).1

/-- **grouping**: the group of location `p` is exactly the handlers reporting `p` (discovery order), present iff non-empty -/
theorem C20_group_spec (hs : List HandlerInfo) (p : String) :
    alookup p (groupBy hs) = if at_ hs p = [] then none else some (at_ hs p) := (groupBy_inv hs).2 p

/-- every handler is a member of the group of its location -/
theorem C20_member (hs : List HandlerInfo) (h : HandlerInfo) (hm : h ∈ hs) :
    ∃ l, alookup h.phys (groupBy hs) = some l ∧ h ∈ l := by
  have hne : at_ hs h.phys ≠ [] := by
    intro he
    have : h ∈ at_ hs h.phys := by simp [at_, hm]
    rw [he] at this; cases this
  refine ⟨at_ hs h.phys, ?_, by simp [at_, hm]⟩
  rw [C20_group_spec, if_neg hne]

/-- members of a group all report the group's location, and only handlers from the input are members -/
theorem C20_members_same_phys (hs : List HandlerInfo) (p : String) (l : List HandlerInfo)
    (hl : alookup p (groupBy hs) = some l) : ∀ h ∈ l, h.phys = p ∧ h ∈ hs := by
  rw [C20_group_spec] at hl
  split at hl
  · cases hl
  · simp only [Option.some.injEq] at hl
    subst hl
    intro h hh
    simp only [at_, List.mem_filter, decide_eq_true_eq] at hh
    exact ⟨hh.2, hh.1⟩

/-! ### device type -/

/-- **type rule** -/
theorem C20_type_rule (hts : List String) :
    determineType hts =
      if "DI_TYPE_JOYSTICK" ∈ hts then .joystick
      else if "DI_TYPE_STD_KBD" ∈ hts then .keyboard
      else if hts.length = 1 ∧ "DI_TYPE_MOUSE" ∈ hts then .mouse
      else .unknown := rfl

theorem determineType_perm {a b : List String} (h : a.Perm b) : determineType a = determineType b := by
  unfold determineType
  simp only [h.mem_iff, h.length_eq]

/-! ### order independence -/

def typeAt (hs : List HandlerInfo) (p : String) : DevType := determineType ((at_ hs p).map (fun h => handlerType h.caps))

/-- the type `normalize` assigns to the group of a location is `typeAt` -/
theorem normalize_type (hs : List HandlerInfo) (g : Group) (hg : g ∈ normalize hs) :
    g.ty = typeAt hs g.phys ∧ g.members = at_ hs g.phys ∧ g.members ≠ [] := by
  unfold normalize at hg
  obtain ⟨q, hq, rfl⟩ := List.mem_map.mp hg
  have hlk : alookup q.1 (groupBy hs) = some q.2 :=
    alookup_of_mem_nodup (C20_keys_nodup hs) (by cases q; exact hq)
  rw [C20_group_spec] at hlk
  split at hlk
  · cases hlk
  · rename_i hne
    simp only [Option.some.injEq] at hlk
    simp only [typeAt]
    rw [hlk]
    exact ⟨rfl, rfl, by rw [← hlk]; exact hne⟩

/-- **order independence**: two discovery orders of the same handlers give, location by location, the same members
    (as multisets) and the same device type; and a location has a device in one iff it has one in the other -/
theorem C20_order (hs hs' : List HandlerInfo) (hp : hs.Perm hs') (p : String) :
    (at_ hs p).Perm (at_ hs' p) ∧ typeAt hs p = typeAt hs' p ∧
    ((alookup p (groupBy hs)).isSome ↔ (alookup p (groupBy hs')).isSome) := by
  have hperm : (at_ hs p).Perm (at_ hs' p) := hp.filter _
  refine ⟨hperm, determineType_perm (hperm.map _), ?_⟩
  rw [C20_group_spec, C20_group_spec]
  have : at_ hs p = [] ↔ at_ hs' p = [] := by
    constructor <;> intro h
    · exact List.Perm.eq_nil (h ▸ hperm.symm)
    · exact List.Perm.eq_nil (h ▸ hperm)
  by_cases h : at_ hs p = []
  · simp [h, this.mp h]
  · simp [h, mt this.mpr h]

/-- the device ID (`dis[0].ID`) is order-independent when the handlers of a location agree on it -/
theorem C20_order_id_partial (hs hs' : List HandlerInfo) (hp : hs.Perm hs') (p : String)
    (hid : ∀ a ∈ hs, ∀ b ∈ hs, a.phys = p → b.phys = p → a.id = b.id) :
    ((at_ hs p).head?.map (·.id)) = ((at_ hs' p).head?.map (·.id)) := by
  have hperm : (at_ hs p).Perm (at_ hs' p) := hp.filter _
  cases h1 : at_ hs p with
  | nil =>
    have : at_ hs' p = [] := List.Perm.eq_nil (h1 ▸ hperm.symm)
    simp [this]
  | cons a r =>
    cases h2 : at_ hs' p with
    | nil => rw [h1, h2] at hperm; exact absurd hperm.length_eq (by simp)
    | cons b r' =>
      simp only [List.head?_cons, Option.map_some, Option.some.injEq]
      have ha : a ∈ at_ hs p := by rw [h1]; exact List.mem_cons_self
      have hb : b ∈ at_ hs p := hperm.mem_iff.mpr (by rw [h2]; exact List.mem_cons_self)
      simp only [at_, List.mem_filter, decide_eq_true_eq] at ha hb
      exact hid a ha.1 b hb.1 ha.2 hb.2

/-- **partition**: concatenating the groups gives back the input up to order: nothing lost, nothing duplicated -/
theorem C20_partition_count (hs : List HandlerInfo) (h : HandlerInfo) [DecidableEq HandlerInfo] :
    (at_ hs h.phys).count h = hs.count h := by
  unfold at_
  rw [List.count_filter]
  simp

/-! ### `HandlerType` depends on the set of capability types only -/

theorem hasExactly_congr {a b : List Nat} (h : ∀ x, x ∈ a ↔ x ∈ b) (e : List Nat) : hasExactly a e = hasExactly b e := by
  unfold hasExactly
  congr 1
  · rw [Bool.eq_iff_iff]; simp only [List.all_eq_true, decide_eq_true_eq]
    exact ⟨fun f x hx => f x ((h x).mpr hx), fun f x hx => f x ((h x).mp hx)⟩
  · rw [Bool.eq_iff_iff]; simp only [List.all_eq_true, decide_eq_true_eq]
    exact ⟨fun f x hx => (h x).mp (f x hx), fun f x hx => (h x).mpr (f x hx)⟩

theorem hasAll_congr {a b : List Nat} (h : ∀ x, x ∈ a ↔ x ∈ b) (e : List Nat) : hasAll a e = hasAll b e := by
  unfold hasAll
  rw [Bool.eq_iff_iff]; simp only [List.all_eq_true, decide_eq_true_eq]
  exact ⟨fun f x hx => (h x).mp (f x hx), fun f x hx => (h x).mpr (f x hx)⟩

/-- duplicates and order of the capability list are irrelevant -/
theorem C20_handler_type_set {a b : List Nat} (h : ∀ x, x ∈ a ↔ x ∈ b) : handlerType a = handlerType b := by
  unfold handlerType
  have : rowMatches a = rowMatches b := by
    funext row
    unfold rowMatches
    simp only [hasExactly_congr h, hasAll_congr h]
  rw [this]

/-! ### non-vacuity: three handlers at two locations, in two orders -/

def k1 : HandlerInfo := ⟨"usb-1/input0", (3, 1, 2, 3), "kbd", [0, 1, 4, 17, 20]⟩
def k2 : HandlerInfo := ⟨"usb-1/input0", (3, 1, 2, 3), "kbd consumer", [0, 1, 2, 3, 4]⟩
def j1 : HandlerInfo := ⟨"usb-2/input0", (3, 9, 9, 9), "pad", [0, 1, 3, 21]⟩

example : (normalize [k1, j1, k2]).map (fun g => (g.phys, g.members.length)) =
    [("usb-1/input0", 2), ("usb-2/input0", 1)] := by decide
example : [k1, j1, k2].Perm [k2, k1, j1] := by decide

end Hidi.Props.C20
