/-
  C05 — every message the model emits is a well-formed MIDI message (`Spec.wellFormed`), for all
  events in range (`Spec.evInRange`), including axes, the panic action and the disconnect clean-up.

  `DevOK` is the invariant: channel < 16, velocity in 1..127, a valid mapping index, and tracked
  (note, channel) pairs in range.  It is preserved by every step (in range or not); the outputs are
  well-formed for every step in range.  The only place where the range hypothesis is needed is the
  data byte of a controller message (`ccByte` of the shaped value, C06).
-/
import HidiProofs.Props.C06
namespace Hidi.Props.C05
open Hidi Hidi.Spec Hidi.FloatLemmas Hidi.AxisLemmas Hidi.Props.C06

/-- what C05 needs to know about a reachable device state -/
def DevOK (cfg : Config) (d : Dev) : Prop :=
  d.cfg = cfg ∧ d.channel < 16 ∧ 1 ≤ d.velocity ∧ d.velocity ≤ 127 ∧ d.mapping < cfg.maps.length ∧
  (∀ p ∈ d.noteTr, p.2.1 ≤ 127 ∧ p.2.2 < 16) ∧ (∀ p ∈ d.anaTr, p.2.1 ≤ 127 ∧ p.2.2 < 16)

/-! ### lists of well-formed messages -/

def WF (os : List Out) : Prop := ∀ o ∈ os, wellFormed o = true

theorem WF_nil : WF [] := by intro o h; cases h

theorem WF_append {a b : List Out} (ha : WF a) (hb : WF b) : WF (a ++ b) := by
  intro o h
  rcases List.mem_append.mp h with h | h
  · exact ha o h
  · exact hb o h

theorem WF_cons {o : Out} {l : List Out} (ho : wellFormed o = true) (hl : WF l) : WF (o :: l) := by
  intro x hx
  rcases List.mem_cons.mp hx with rfl | h
  · exact ho
  · exact hl x h

theorem WF_single {o : Out} (ho : wellFormed o = true) : WF [o] := WF_cons ho WF_nil

/-! ### status bytes and single messages -/

theorem st_on : ∀ ch, ch < 16 → (0x90 ||| ch) % 256 = 0x90 + ch := by decide
theorem st_off : ∀ ch, ch < 16 → (0x80 ||| ch) % 256 = 0x80 + ch := by decide
theorem st_cc : ∀ ch, ch < 16 → (0xB0 ||| ch) % 256 = 0xB0 + ch := by decide
theorem st_pb : ∀ ch, ch < 16 → (0xE0 ||| ch) % 256 = 0xE0 + ch := by decide

theorem wf_midi_iff {a b c : Nat} : wellFormed (.midi a b c) = true ↔
    (a / 16 = 8 ∨ a / 16 = 9 ∨ a / 16 = 11 ∨ a / 16 = 14) ∧ a < 256 ∧ b < 128 ∧ c < 128 := by
  simp [wellFormed]

theorem wf_noteOn {ch note vel : Nat} (hch : ch < 16) (hn : note ≤ 127) (hv : vel ≤ 127) :
    wellFormed (noteEvent stNoteOn ch note vel) = true := by
  have := st_on ch hch
  unfold noteEvent stNoteOn
  rw [wf_midi_iff, this]; omega

theorem wf_noteOff {ch note : Nat} (hch : ch < 16) (hn : note ≤ 127) :
    wellFormed (noteEvent stNoteOff ch note 0) = true := by
  have := st_off ch hch
  unfold noteEvent stNoteOff
  rw [wf_midi_iff, this]; omega

theorem wf_cc {ch fn v : Nat} (hch : ch < 16) (hn : fn ≤ 127) (hv : v ≤ 127) :
    wellFormed (ccEvent ch fn v) = true := by
  have := st_cc ch hch
  unfold ccEvent stCC
  rw [wf_midi_iff, this]; omega

theorem wf_pb {ch : Nat} (hch : ch < 16) (val : Rat) :
    wellFormed (pitchBendEvent ch val) = true := by
  have := st_pb ch hch
  unfold pitchBendEvent stPB
  simp only []
  rw [wf_midi_iff, this]; omega

theorem chanOf_lt (c off : Nat) : chanOf c off < 16 := by
  unfold chanOf; omega

/-! ### association lists -/

theorem alookup_mem {κ α} [DecidableEq κ] {k : κ} {v : α} :
    ∀ {l : List (κ × α)}, alookup k l = some v → (k, v) ∈ l
  | [], h => by simp [alookup] at h
  | (k', a) :: r, h => by
    unfold alookup at h
    split_ifs at h with hk
    · cases h; subst hk; exact List.mem_cons_self
    · exact List.mem_cons_of_mem _ (alookup_mem h)

theorem mem_aerase {κ α} [DecidableEq κ] {k : κ} {l : List (κ × α)} {p : κ × α}
    (h : p ∈ aerase k l) : p ∈ l := (List.mem_filter.mp h).1

theorem mem_ainsert {κ α} [DecidableEq κ] {k : κ} {a : α} {l : List (κ × α)} {p : κ × α}
    (h : p ∈ ainsert k a l) : p ∈ l ∨ p = (k, a) := by
  unfold ainsert at h
  rcases List.mem_append.mp h with h | h
  · exact Or.inl (mem_aerase h)
  · exact Or.inr (List.mem_singleton.mp h)

/-- tracked (note, channel) pairs are in range -/
def TrOK {κ} (l : List (κ × (Nat × Nat))) : Prop := ∀ p ∈ l, p.2.1 ≤ 127 ∧ p.2.2 < 16

theorem TrOK_aerase {κ} [DecidableEq κ] {k : κ} {l : List (κ × (Nat × Nat))} (h : TrOK l) :
    TrOK (aerase k l) := fun p hp => h p (mem_aerase hp)

theorem TrOK_ainsert {κ} [DecidableEq κ] {k : κ} {n c : Nat} {l : List (κ × (Nat × Nat))}
    (h : TrOK l) (hn : n ≤ 127) (hc : c < 16) : TrOK (ainsert k (n, c) l) := by
  intro p hp
  rcases mem_ainsert hp with hp | rfl
  · exact h p hp
  · exact ⟨hn, hc⟩

theorem TrOK_lookup {κ} [DecidableEq κ] {k : κ} {n c : Nat} {l : List (κ × (Nat × Nat))}
    (h : TrOK l) (hl : alookup k l = some (n, c)) : n ≤ 127 ∧ c < 16 :=
  h _ (alookup_mem hl)

/-! ### the invariant -/

theorem DevOK.of_fields {cfg : Config} {d d' : Dev} (h : DevOK cfg d)
    (h1 : d'.cfg = d.cfg) (h2 : d'.channel = d.channel) (h3 : d'.velocity = d.velocity)
    (h4 : d'.mapping = d.mapping) (h5 : d'.noteTr = d.noteTr) (h6 : d'.anaTr = d.anaTr) :
    DevOK cfg d' := by
  unfold DevOK at *
  rw [h1, h2, h3, h4, h5, h6]; exact h

theorem DevOK.noteTr {cfg : Config} {d : Dev} (h : DevOK cfg d) : TrOK d.noteTr := h.2.2.2.2.2.1
theorem DevOK.anaTr {cfg : Config} {d : Dev} (h : DevOK cfg d) : TrOK d.anaTr := h.2.2.2.2.2.2
theorem DevOK.ch {cfg : Config} {d : Dev} (h : DevOK cfg d) : d.channel < 16 := h.2.1
theorem DevOK.vel {cfg : Config} {d : Dev} (h : DevOK cfg d) : d.velocity ≤ 127 := h.2.2.2.1
theorem DevOK.map {cfg : Config} {d : Dev} (h : DevOK cfg d) : d.mapping < cfg.maps.length := h.2.2.2.2.1
theorem DevOK.cfg_eq {cfg : Config} {d : Dev} (h : DevOK cfg d) : d.cfg = cfg := h.1

theorem DevOK.set_noteTr {cfg : Config} {d d' : Dev} (h : DevOK cfg d) (t : TrOK d'.noteTr)
    (h1 : d'.cfg = d.cfg) (h2 : d'.channel = d.channel) (h3 : d'.velocity = d.velocity)
    (h4 : d'.mapping = d.mapping) (h6 : d'.anaTr = d.anaTr) : DevOK cfg d' := by
  unfold DevOK at *
  rw [h1, h2, h3, h4, h6]
  exact ⟨h.1, h.2.1, h.2.2.1, h.2.2.2.1, h.2.2.2.2.1, t, h.2.2.2.2.2.2⟩

theorem DevOK.set_anaTr {cfg : Config} {d d' : Dev} (h : DevOK cfg d) (t : TrOK d'.anaTr)
    (h1 : d'.cfg = d.cfg) (h2 : d'.channel = d.channel) (h3 : d'.velocity = d.velocity)
    (h4 : d'.mapping = d.mapping) (h5 : d'.noteTr = d.noteTr) : DevOK cfg d' := by
  unfold DevOK at *
  rw [h1, h2, h3, h4, h5]
  exact ⟨h.1, h.2.1, h.2.2.1, h.2.2.2.1, h.2.2.2.2.1, h.2.2.2.2.2.1, t⟩

theorem DevOK.set_channel {cfg : Config} {d d' : Dev} (h : DevOK cfg d) (t : d'.channel < 16)
    (h1 : d'.cfg = d.cfg) (h3 : d'.velocity = d.velocity)
    (h4 : d'.mapping = d.mapping) (h5 : d'.noteTr = d.noteTr) (h6 : d'.anaTr = d.anaTr) :
    DevOK cfg d' := by
  unfold DevOK at *
  rw [h1, h3, h4, h5, h6]
  exact ⟨h.1, t, h.2.2.1, h.2.2.2.1, h.2.2.2.2.1, h.2.2.2.2.2.1, h.2.2.2.2.2.2⟩

theorem DevOK.set_mapping {cfg : Config} {d d' : Dev} (h : DevOK cfg d)
    (t : d'.mapping < cfg.maps.length)
    (h1 : d'.cfg = d.cfg) (h2 : d'.channel = d.channel) (h3 : d'.velocity = d.velocity)
    (h5 : d'.noteTr = d.noteTr) (h6 : d'.anaTr = d.anaTr) :
    DevOK cfg d' := by
  unfold DevOK at *
  rw [h1, h2, h3, h5, h6]
  exact ⟨h.1, h.2.1, h.2.2.1, h.2.2.2.1, t, h.2.2.2.2.2.1, h.2.2.2.2.2.2⟩

/-- state preserved and output well-formed -/
def Good (cfg : Config) (r : Dev × List Out) : Prop := DevOK cfg r.1 ∧ WF r.2

theorem Good.nil {cfg : Config} {d : Dev} (h : DevOK cfg d) : Good cfg (d, []) := ⟨h, WF_nil⟩

theorem Good.mk {cfg : Config} {d : Dev} {o : List Out} (h1 : DevOK cfg d) (h2 : WF o) :
    Good cfg (d, o) := ⟨h1, h2⟩

/-- close `DevOK cfg d'` where `d'` differs from `d` in irrelevant fields (or one relevant one) -/
macro "devok_same" h:term : tactic =>
  `(tactic| (apply DevOK.of_fields $h <;> rfl))
macro "devok_noteTr" h:term : tactic =>
  `(tactic| (apply DevOK.set_noteTr $h <;> first | rfl | skip))
macro "devok_anaTr" h:term : tactic =>
  `(tactic| (apply DevOK.set_anaTr $h <;> first | rfl | skip))
macro "devok_channel" h:term : tactic =>
  `(tactic| (apply DevOK.set_channel $h <;> first | rfl | skip))
macro "devok_mapping" h:term : tactic =>
  `(tactic| (apply DevOK.set_mapping $h <;> first | rfl | skip))

/-! ### notes -/

theorem noteOn_good {cfg : Config} {d : Dev} (hd : DevOK cfg d) (sub : Sub) (code : Code) :
    Good cfg (d.noteOn sub code) := by
  unfold Dev.noteOn
  split
  · exact Good.mk (by devok_same hd) (WF_single rfl)
  · split
    · exact Good.nil hd
    · rename_i key _
      simp only []
      by_cases hn : (d.transposed key.note < 0 ∨ d.transposed key.note > 127)
      · rw [if_pos hn]; exact Good.nil hd
      · rw [if_neg hn]
        have hn' : (d.transposed key.note).toNat ≤ 127 := by omega
        have hc := chanOf_lt d.channel key.chOff
        have hon := wf_noteOn hc hn' hd.vel
        have hoff := wf_noteOff hc hn'
        apply Good.mk
        · devok_noteTr hd
          exact TrOK_ainsert hd.noteTr hn' hc
        · split <;> (try split_ifs) <;>
            first | exact WF_nil | exact WF_single hon | exact WF_cons hoff (WF_single hon)

theorem noteOff_good {cfg : Config} {d : Dev} (hd : DevOK cfg d) (code : Code) :
    Good cfg (d.noteOff code) := by
  unfold Dev.noteOff
  split
  · exact Good.nil hd
  · rename_i note ch hl
    obtain ⟨hn, hc⟩ := TrOK_lookup hd.noteTr hl
    have hoff := wf_noteOff hc hn
    simp only []
    apply Good.mk
    · devok_noteTr hd
      exact TrOK_aerase hd.noteTr
    · split <;> (try split_ifs) <;>
        first | exact WF_nil | exact WF_single hoff

theorem analogNoteOn_good {cfg : Config} {d : Dev} (hd : DevOK cfg d) (id : Code × Bool)
    (note chOff : Nat) : Good cfg (d.analogNoteOn id note chOff) := by
  unfold Dev.analogNoteOn
  simp only []
  by_cases hn : (d.transposed note < 0 ∨ d.transposed note > 127)
  · rw [if_pos hn]; exact Good.nil hd
  · rw [if_neg hn]
    have hn' : (d.transposed note).toNat ≤ 127 := by omega
    have hc := chanOf_lt d.channel chOff
    apply Good.mk
    · devok_anaTr hd
      exact TrOK_ainsert hd.anaTr hn' hc
    · exact WF_single (wf_noteOn hc hn' (by norm_num))

theorem analogNoteOff_good {cfg : Config} {d : Dev} (hd : DevOK cfg d) (id : Code × Bool) :
    Good cfg (d.analogNoteOff id) := by
  unfold Dev.analogNoteOff
  split
  · exact Good.nil hd
  · rename_i note ch hl
    obtain ⟨hn, hc⟩ := TrOK_lookup hd.anaTr hl
    apply Good.mk
    · devok_anaTr hd
      exact TrOK_aerase hd.anaTr
    · exact WF_single (wf_noteOff hc hn)

/-! ### state actions -/

theorem panicOuts_wf {ch : Nat} (hc : ch < 16) : WF (panicOuts ch) := by
  unfold panicOuts
  apply WF_cons (wf_cc hc (by decide) (by norm_num))
  intro o ho
  obtain ⟨n, hn, rfl⟩ := List.mem_map.mp ho
  exact wf_noteOff hc (by have := List.mem_range.mp hn; omega)

theorem invokePress_good {cfg : Config} {d : Dev} (hd : DevOK cfg d) (a : Action) :
    Good cfg (d.invokePress a) := by
  have hch := hd.ch
  have hmap := hd.map
  have hcfg := hd.cfg_eq
  unfold Dev.invokePress
  cases a <;> simp only []
  case panic => exact Good.mk (by devok_same hd) (panicOuts_wf hd.ch)
  case mappingUp =>
    apply Good.mk _ WF_nil
    split_ifs with h
    · devok_mapping hd
      show d.mapping + 1 < cfg.maps.length
      rw [hcfg] at h; omega
    · exact hd
  case mappingDown =>
    apply Good.mk _ WF_nil
    split_ifs with h
    · devok_mapping hd
      show d.mapping - 1 < cfg.maps.length
      omega
    · exact hd
  case channelUp =>
    apply Good.mk _ WF_nil
    split_ifs with h
    · devok_channel hd
      show (d.channel + 1) % 256 < 16
      omega
    · exact hd
  case channelDown =>
    apply Good.mk _ WF_nil
    split_ifs with h
    · devok_channel hd
      show d.channel - 1 < 16
      omega
    · exact hd
  all_goals exact Good.nil hd

theorem invokeRelease_ok {cfg : Config} {d : Dev} (hd : DevOK cfg d) (a : Action) :
    DevOK cfg (d.invokeRelease a) := by
  unfold Dev.invokeRelease
  split
  · devok_same hd
  · exact hd

theorem checkDouble_ok {cfg : Config} {d : Dev} (hd : DevOK cfg d) : DevOK cfg d.checkDouble.1 := by
  have hmap := hd.map
  unfold Dev.checkDouble
  split_ifs
  · devok_mapping hd
    show 0 < cfg.maps.length
    omega
  · devok_same hd
  · devok_same hd
  · devok_channel hd
    show 0 < 16
    norm_num
  · exact hd
  · exact hd

theorem multinote_ok {cfg : Config} {d : Dev} (hd : DevOK cfg d) : DevOK cfg d.multinote := by
  unfold Dev.multinote
  simp only []
  split <;> devok_same hd

/-! ### key events -/

theorem handleKey_good {cfg : Config} {d : Dev} (hd : DevOK cfg d) (sub : Sub) (code : Code)
    (val : Int) : Good cfg (d.handleKey sub code val) := by
  unfold Dev.handleKey
  split
  · exact Good.mk (by devok_same hd) (WF_single rfl)
  · simp only []
    have hd1 : DevOK cfg (if val = 1 then ({ d with keyTr := sinsert code d.keyTr } : Dev)
        else { d with keyTr := serase code d.keyTr }) := by
      split_ifs <;> devok_same hd
    generalize (if val = 1 then ({ d with keyTr := sinsert code d.keyTr } : Dev)
        else { d with keyTr := serase code d.keyTr }) = d1 at hd1 ⊢
    split
    · exact Good.mk hd1 (WF_single rfl)
    · split
      · rename_i a _
        split
        · have h2 : DevOK cfg ({ d1 with actTr := sinsert a d1.actTr } : Dev) := by devok_same hd1
          have h3 := checkDouble_ok h2
          split
          · exact Good.nil h3
          · exact invokePress_good h3 a
        · split
          · apply Good.mk _ WF_nil
            have h2 : DevOK cfg (if a = Action.multinote then d1.multinote else d1) := by
              split_ifs
              · exact multinote_ok hd1
              · exact hd1
            have h3 := invokeRelease_ok h2 a
            devok_same h3
          · exact Good.nil hd1
      · split
        · split
          · exact noteOn_good hd1 sub code
          · split
            · exact noteOff_good hd1 code
            · exact Good.nil hd1
        · split
          · exact noteOff_good hd1 code
          · exact Good.nil hd1

/-! ### axes -/

theorem Good.seq {cfg : Config} {p : Dev × List Out} (f : Dev → Dev × List Out)
    (hp : Good cfg p) (hf : ∀ d, DevOK cfg d → Good cfg (f d)) :
    Good cfg ((f p.1).1, p.2 ++ (f p.1).2) :=
  ⟨(hf _ hp.1).1, WF_append hp.2 (hf _ hp.1).2⟩

theorem releaseAxis_good {cfg : Config} {d : Dev} (hd : DevOK cfg d) (code : Code) :
    Good cfg (d.releaseAxis code) := by
  unfold Dev.releaseAxis
  simp only []
  exact Good.seq (fun d => d.analogNoteOff (code, true)) (analogNoteOff_good hd _)
    (fun d h => analogNoteOff_good h _)

theorem analogOk_iff {a : Analog} : analogOk a = true ↔
    a.cc ≤ 119 ∧ a.ccNeg ≤ 119 ∧ a.note ≤ 127 ∧ a.noteNeg ≤ 127 ∧ a.chOff ≤ 15 ∧ a.chOffNeg ≤ 15 := by
  simp [analogOk]

theorem accepted_analog {cfg : Config} (hacc : Accepted cfg = true) {i : Nat} {m : Mapping}
    {k : Sub × Code} {a : Analog} (hm : cfg.maps[i]? = some m) (ha : alookup k m.analog = some a) :
    analogOk a = true := by
  simp only [Accepted, decide_eq_true_eq, List.all_eq_true] at hacc
  have hmem : m ∈ cfg.maps := List.mem_of_getElem? hm
  have := hacc.1 m hmem
  simp only [mappingOk, decide_eq_true_eq, List.all_eq_true] at this
  exact this.2 _ (alookup_mem ha)

theorem accepted_key {cfg : Config} (hacc : Accepted cfg = true) {i : Nat} {m : Mapping}
    {k : Sub × Code} {key : Key} (hm : cfg.maps[i]? = some m) (hk : alookup k m.midi = some key) :
    key.note ≤ 127 ∧ key.chOff ≤ 15 := by
  simp only [Accepted, decide_eq_true_eq, List.all_eq_true] at hacc
  have hmem : m ∈ cfg.maps := List.mem_of_getElem? hm
  have := hacc.1 m hmem
  simp only [mappingOk, decide_eq_true_eq, List.all_eq_true] at this
  have := this.1 _ (alookup_mem hk)
  simpa [keyOk] using this

theorem bidirCC_good {cfg : Config} {d : Dev} (hd : DevOK cfg d) (a : Analog) (neg : Bool) (adj : Rat) :
    DevOK cfg (d.bidirCC a neg adj).1 ∧
      (a.cc ≤ 127 → a.ccNeg ≤ 127 → ccByte adj ≤ 127 → WF (d.bidirCC a neg adj).2) := by
  have hc := chanOf_lt d.channel a.chOff
  have hcN := chanOf_lt d.channel a.chOffNeg
  unfold Dev.bidirCC
  simp only []
  split <;> split_ifs <;> refine ⟨hd, fun h1 h2 h3 => ?_⟩
  · exact WF_append (WF_single (wf_cc hcN h2 h3)) WF_nil
  · exact WF_append (WF_single (wf_cc hcN h2 h3)) (WF_single (wf_cc hc h1 (by norm_num)))
  · exact WF_append (WF_single (wf_cc hc h1 h3)) WF_nil
  · exact WF_append (WF_single (wf_cc hc h1 h3)) (WF_single (wf_cc hcN h2 (by norm_num)))

/-- the range of the flipped value, by kind of axis -/
def vRange (canNeg : Bool) (v : Rat) : Prop := (if canNeg then -1 ≤ v else 0 ≤ v) ∧ v ≤ 1

theorem absCC_good {cfg : Config} {d : Dev} (hd : DevOK cfg d) (a : Analog) (canNeg : Bool) (v : Rat) :
    DevOK cfg (d.absCC a canNeg v).1 ∧
      (analogOk a = true → vRange canNeg v → WF (d.absCC a canNeg v).2) := by
  have hc := chanOf_lt d.channel a.chOff
  unfold Dev.absCC
  simp only []
  cases canNeg
  · simp only [vRange, Bool.false_eq_true, if_false]
    by_cases hb : a.bidir = true
    · -- unsigned, bidirectional
      rw [if_pos hb]
      obtain ⟨g1, g2⟩ := bidirCC_good hd a (decide (v < 1/2)) (rabs (fsub (fmul v 2) 1))
      refine ⟨g1, fun hok hr => ?_⟩
      obtain ⟨h1, h2, _⟩ := analogOk_iff.mp hok
      obtain ⟨l, u⟩ := recentre_range hr.1 hr.2
      obtain ⟨l', u'⟩ := rabs_le_one l u
      exact g2 (by omega) (by omega) (C06_cc_range l' u')
    · rw [if_neg hb]
      refine ⟨hd, fun hok hr => ?_⟩
      obtain ⟨h1, h2, _⟩ := analogOk_iff.mp hok
      exact WF_single (wf_cc hc (by omega) (C06_cc_range hr.1 hr.2))
  · simp only [vRange, if_true]
    by_cases hb : a.bidir = true
    · -- signed, bidirectional
      rw [if_pos hb]
      obtain ⟨g1, g2⟩ := bidirCC_good hd a (decide (v < 0)) (rabs v)
      refine ⟨g1, fun hok hr => ?_⟩
      obtain ⟨h1, h2, _⟩ := analogOk_iff.mp hok
      obtain ⟨l', u'⟩ := rabs_le_one hr.1 hr.2
      exact g2 (by omega) (by omega) (C06_cc_range l' u')
    · rw [if_neg hb]
      refine ⟨hd, fun hok hr => ?_⟩
      obtain ⟨h1, h2, _⟩ := analogOk_iff.mp hok
      obtain ⟨l, u⟩ := C06_signed_scale hr.1 hr.2
      exact WF_single (wf_cc hc (by omega) (C06_cc_range l u))

theorem absKey_good {cfg : Config} {d : Dev} (hd : DevOK cfg d) (a : Analog) (code : Code)
    (canNeg : Bool) (v0 : Rat) : Good cfg (d.absKey a code canNeg v0) := by
  unfold Dev.absKey
  simp only []
  generalize (if canNeg = true then v0 else fsub (fmul v0 2) 1) = v
  split
  · refine Good.seq (fun d => d.analogNoteOff (code, false)) ?_ (fun d h => analogNoteOff_good h _)
    split
    · exact analogNoteOn_good hd _ _ _
    · exact Good.nil hd
  · split
    · exact Good.seq (fun d => d.analogNoteOff (code, true)) (analogNoteOff_good hd _)
        (fun d h => analogNoteOff_good h _)
    · split
      · refine Good.seq (fun d => d.analogNoteOff (code, true)) ?_ (fun d h => analogNoteOff_good h _)
        split
        · exact analogNoteOn_good hd _ _ _
        · exact Good.nil hd
      · exact Good.nil hd

theorem DevOK.with_actTr {cfg : Config} {d : Dev} (h : DevOK cfg d) (l : List Action) :
    DevOK cfg { d with actTr := l } := h

theorem absAction_good {cfg : Config} {d : Dev} (hd : DevOK cfg d) (a : Analog)
    (canNeg : Bool) (v0 : Rat) : Good cfg (d.absAction a canNeg v0) := by
  unfold Dev.absAction
  simp only []
  have h1 := checkDouble_ok hd
  generalize d.checkDouble = p at h1 ⊢
  generalize (if canNeg = true then v0 else fsub (fmul v0 2) 1) = v
  split
  · exact Good.nil h1
  · split
    · have g := invokePress_good h1 a.actNeg
      exact Good.mk ((invokeRelease_ok (g.1.with_actTr _) _).with_actTr _) g.2
    · split
      · exact Good.mk ((invokeRelease_ok (invokeRelease_ok h1 _) _).with_actTr _) WF_nil
      · split
        · have g := invokePress_good h1 a.act
          exact Good.mk (invokeRelease_ok ((g.1.with_actTr _).with_actTr _) _) g.2
        · exact Good.nil h1

theorem flipped_range {mn mx : Int} {dzc : Bool} {dz : Rat} {raw : Int} (flip : Bool)
    (h : axisOK mn mx dzc dz raw = true) :
    vRange (decide (mn < 0) || dzc)
      (flipVal (decide (mn < 0) || dzc) flip (shapeRaw mn mx dzc dz raw)) := by
  obtain ⟨h1, _, _, _, h5, _, _⟩ := axisOK_iff.mp h
  obtain ⟨l, u⟩ := C06_shape_range h
  by_cases hn : mn < 0
  · have e : (decide (mn < 0) || dzc) = true := by simp [hn]
    rw [e]; unfold vRange; rw [if_pos rfl]
    exact C06_flip_range_signed l u flip
  · cases dzc
    · have e : (decide (mn < 0) || false) = false := by simp [hn]
      rw [e]; unfold vRange; simp only [Bool.false_eq_true, if_false]
      have : mn = 0 := by omega
      subst this
      exact C06_flip_range_unsigned (C06_shape_range_unsigned h) u flip
    · have e : (decide (mn < 0) || true) = true := by simp
      rw [e]; unfold vRange; rw [if_pos rfl]
      exact C06_flip_range_signed l u flip

/-- state preserved; output well-formed when `R` (the event is in range) -/
def GoodIf (R : Prop) (cfg : Config) (r : Dev × List Out) : Prop := DevOK cfg r.1 ∧ (R → WF r.2)

theorem Good.goodIf {R : Prop} {cfg : Config} {r : Dev × List Out} (h : Good cfg r) :
    GoodIf R cfg r := ⟨h.1, fun _ => h.2⟩

theorem GoodIf.seq {R : Prop} {cfg : Config} {pre : List Out} {q : Dev × List Out}
    (hp : WF pre) (hq : GoodIf R cfg q) : GoodIf R cfg (q.1, pre ++ q.2) :=
  ⟨hq.1, fun r => WF_append hp (hq.2 r)⟩

theorem DevOK.with_lastAna {cfg : Config} {d : Dev} (h : DevOK cfg d) (l : List ((Sub × Code) × Rat)) :
    DevOK cfg { d with lastAna := l } := h

theorem handleAbs_good {cfg : Config} (hacc : Accepted cfg = true) {d : Dev} (hd : DevOK cfg d)
    (sub : Sub) (node : String) (code : Code) (raw : Int) :
    GoodIf (evInRange cfg (StObs.ofDev d) (.abs sub node code raw) = true) cfg
      (d.handleAbs sub node code raw) := by
  have hcfg := hd.cfg_eq
  subst hcfg
  unfold Dev.handleAbs
  split
  · exact (Good.mk (by devok_same hd) (WF_single rfl)).goodIf
  · rename_i m hm
    have hm' : d.cfg.maps[d.mapping]? = some m := hm
    split
    · exact (releaseAxis_good hd code).goodIf
    · rename_i a ha
      have hok : analogOk a = true := accepted_analog hacc hm' ha
      have gP : Good d.cfg (if a.kind = AKind.key then (d, ([] : List Out)) else d.releaseAxis code) := by
        split
        · exact Good.nil hd
        · exact releaseAxis_good hd code
      cases hdz : m.deadzone sub code with
      | none =>
        simp only []
        exact (Good.mk (by devok_same gP.1) (WF_append gP.2 (WF_single rfl))).goodIf
      | some dz =>
        have hR : evInRange d.cfg (StObs.ofDev d) (.abs sub node code raw) = true →
            axisOK ((alookup (node, code) d.cfg.axes).getD (0, 0)).1
              ((alookup (node, code) d.cfg.axes).getD (0, 0)).2 a.dzCenter dz raw = true := by
          intro h
          simp only [evInRange, StObs.ofDev, hm', ha, hdz] at h
          exact h
        generalize (evInRange d.cfg (StObs.ofDev d) (.abs sub node code raw) = true) = R at hR ⊢
        simp only []
        generalize (if a.kind = AKind.key then (d, ([] : List Out)) else d.releaseAxis code) = p at gP ⊢
        have hpc : p.1.cfg = d.cfg := gP.1.cfg_eq
        rw [← hpc] at hR
        have hd' := fun l => gP.1.with_lastAna l
        split
        · exact (Good.mk gP.1 gP.2).goodIf
        · split
          · exact (Good.mk (hd' _) gP.2).goodIf
          · apply GoodIf.seq gP.2
            split
            · exact ⟨(absCC_good (hd' _) a _ _).1,
                fun r => (absCC_good (hd' _) a _ _).2 hok (flipped_range a.flip (hR r))⟩
            · exact (Good.mk (hd' _) (WF_single (wf_pb (chanOf_lt _ _) _))).goodIf
            · exact (absKey_good (hd' _) _ _ _ _).goodIf
            · exact (absAction_good (hd' _) _ _ _).goodIf

/-! ### steps -/

theorem step_good {cfg : Config} (hacc : Accepted cfg = true) {d : Dev} (hd : DevOK cfg d) (e : Ev) :
    GoodIf (evInRange cfg (StObs.ofDev d) e = true) cfg (d.step e) := by
  unfold Dev.step
  split
  · exact (Good.nil hd).goodIf
  · cases e with
    | syn => exact (Good.nil hd).goodIf
    | key sub code val =>
      simp only []
      split
      · exact (Good.nil hd).goodIf
      · exact (handleKey_good hd sub code val).goodIf
    | abs sub node code val => exact handleAbs_good hacc hd sub node code val
    | midiIn a b c =>
      refine (Good.mk ?_ WF_nil).goodIf
      unfold Dev.midiIn
      simp only []
      split_ifs <;> devok_same hd

/-! ### the theorems -/

theorem C05_init (cfg : Config) (hacc : Accepted cfg = true) : DevOK cfg (Dev.init cfg) := by
  simp only [Accepted, decide_eq_true_eq] at hacc
  obtain ⟨_, hmap, h1, h2, h3, h4⟩ := hacc
  refine ⟨rfl, ?_, ?_, ?_, hmap, ?_, ?_⟩
  · show u8 (cfg.defCh - 1) < 16
    unfold u8; omega
  · show 1 ≤ u8 cfg.vel
    unfold u8; omega
  · show u8 cfg.vel ≤ 127
    unfold u8; omega
  · intro p hp; cases hp
  · intro p hp; cases hp

theorem C05_step_ok (cfg : Config) (hacc : Accepted cfg = true) (d : Dev) (e : Ev)
    (hd : DevOK cfg d) : DevOK cfg (d.step e).1 :=
  (step_good hacc hd e).1

/-- the property for one step -/
theorem C05_step (cfg : Config) (hacc : Accepted cfg = true) (d : Dev) (e : Ev) (hd : DevOK cfg d)
    (hr : evInRange cfg (StObs.ofDev d) e = true) : ∀ o ∈ (d.step e).2, wellFormed o = true :=
  (step_good hacc hd e).2 hr

/-! #### disconnect clean-up -/

/-- only the trackers matter for the clean-up -/
def TrsOK (d : Dev) : Prop := TrOK d.noteTr ∧ TrOK d.anaTr

theorem noteOff_trs {d : Dev} (hd : TrsOK d) (code : Code) :
    TrsOK (d.noteOff code).1 ∧ WF (d.noteOff code).2 := by
  unfold Dev.noteOff
  split
  · exact ⟨hd, WF_nil⟩
  · rename_i note ch hl
    obtain ⟨hn, hc⟩ := TrOK_lookup hd.1 hl
    have hoff := wf_noteOff hc hn
    simp only []
    refine ⟨⟨TrOK_aerase hd.1, hd.2⟩, ?_⟩
    split <;> (try split_ifs) <;>
      first | exact WF_nil | exact WF_single hoff

theorem analogNoteOff_trs {d : Dev} (hd : TrsOK d) (id : Code × Bool) :
    TrsOK (d.analogNoteOff id).1 ∧ WF (d.analogNoteOff id).2 := by
  unfold Dev.analogNoteOff
  split
  · exact ⟨hd, WF_nil⟩
  · rename_i note ch hl
    obtain ⟨hn, hc⟩ := TrOK_lookup hd.2 hl
    exact ⟨⟨hd.1, TrOK_aerase hd.2⟩, WF_single (wf_noteOff hc hn)⟩

theorem foldl_trs {α} (f : Dev → α → Dev × List Out)
    (hf : ∀ d c, TrsOK d → TrsOK (f d c).1 ∧ WF (f d c).2) :
    ∀ (l : List α) (acc : Dev × List Out), TrsOK acc.1 → WF acc.2 →
      TrsOK (l.foldl (fun (acc : Dev × List Out) c => ((f acc.1 c).1, acc.2 ++ (f acc.1 c).2)) acc).1 ∧
      WF (l.foldl (fun (acc : Dev × List Out) c => ((f acc.1 c).1, acc.2 ++ (f acc.1 c).2)) acc).2
  | [], acc, h1, h2 => ⟨h1, h2⟩
  | c :: l, acc, h1, h2 => by
    rw [List.foldl_cons]
    exact foldl_trs f hf l _ (hf _ c h1).1 (WF_append h2 (hf _ c h1).2)

theorem cleanupWith_wf {d : Dev} (hd : TrsOK d) (order : List Code) (aorder : List (Code × Bool)) :
    WF (d.cleanupWith order aorder).2 := by
  obtain ⟨t1, w1⟩ := foldl_trs (fun d c => d.noteOff c) (fun d c h => noteOff_trs h c) order (d, [])
    hd WF_nil
  obtain ⟨_, w2⟩ := foldl_trs (fun d c => d.analogNoteOff c) (fun d c h => analogNoteOff_trs h c) aorder
    (_, []) t1 WF_nil
  exact WF_append w1 w2

/-- … and for the disconnect clean-up -/
theorem C05_cleanup (cfg : Config) (d : Dev) (hd : DevOK cfg d) :
    ∀ o ∈ d.cleanup.2, wellFormed o = true := by
  unfold Dev.cleanup
  split
  · exact WF_nil
  · exact cleanupWith_wf ⟨hd.noteTr, hd.anaTr⟩ _ _

/-! #### whole histories -/

theorem run_cons (d : Dev) (e : Ev) (es : List Ev) :
    d.run (e :: es) = (((d.step e).1.run es).1, (d.step e).2 :: ((d.step e).1.run es).2) := rfl

/-- generalised over the start state -/
theorem run_wf {cfg : Config} (hacc : Accepted cfg = true) :
    ∀ (evs : List Ev) (d : Dev), DevOK cfg d →
      (∀ i (h : i < evs.length), evInRange cfg (StObs.ofDev (d.run (evs.take i)).1) evs[i] = true) →
      ∀ os ∈ (d.run evs).2, ∀ o ∈ os, wellFormed o = true
  | [], d, _, _ => by
    intro os hos; cases hos
  | e :: es, d, hd, hr => by
    intro os hos
    rw [run_cons] at hos
    rcases List.mem_cons.mp hos with rfl | hos
    · have h0 := hr 0 (by simp)
      exact C05_step cfg hacc d e hd h0
    · refine run_wf hacc es (d.step e).1 (C05_step_ok cfg hacc d e hd) ?_ os hos
      intro i hi
      have := hr (i + 1) (by simp; omega)
      simpa [run_cons] using this

/-- the property for whole histories: if every event is in range at the state it meets, every
    emitted message is well-formed -/
theorem C05_run (cfg : Config) (hacc : Accepted cfg = true) (evs : List Ev)
    (hr : ∀ i (h : i < evs.length),
      evInRange cfg (StObs.ofDev ((Dev.init cfg).run (evs.take i)).1) evs[i] = true) :
    ∀ os ∈ ((Dev.init cfg).run evs).2, ∀ o ∈ os, wellFormed o = true :=
  run_wf hacc evs (Dev.init cfg) (C05_init cfg hacc) hr

/-- every state reached from the initial state satisfies the invariant -/
theorem C05_run_ok (cfg : Config) (hacc : Accepted cfg = true) (evs : List Ev) :
    DevOK cfg ((Dev.init cfg).run evs).1 := by
  suffices h : ∀ (evs : List Ev) (d : Dev), DevOK cfg d → DevOK cfg (d.run evs).1 from
    h evs _ (C05_init cfg hacc)
  intro evs
  induction evs with
  | nil => intro d hd; exact hd
  | cons e es ih => intro d hd; rw [run_cons]; exact ih _ (C05_step_ok cfg hacc d e hd)

/-! ### non-vacuity: an accepted configuration with an axis, and an axis event in range -/

def exCfg : Config :=
  { maps := [{ name := "m", midi := [(("", 30), ⟨60, 0⟩)],
               analog := [(("", 0), { kind := .cc, cc := 1, ccNeg := 2, note := 0, noteNeg := 0, chOff := 0,
                                      chOffNeg := 0, act := .none, actNeg := .none, flip := false,
                                      bidir := false, dzCenter := false })],
               dz := [], defDz := [("", 1/4)] }],
    actions := [], exitSeq := [], mode := .off, defOct := 0, defSemi := 0, defCh := 1, defMap := 0,
    vel := 64, axes := [(("js", 0), (-128, 127))] }

theorem exCfg_accepted : Accepted exCfg = true := by decide

theorem exCfg_inRange :
    evInRange exCfg (StObs.ofDev (Dev.init exCfg)) (.abs "" "js" 0 100) = true := by
  have : axisOK (-128) 127 false (1/4) 100 = true := axisOK_iff.mpr (by norm_num)
  simpa [evInRange, StObs.ofDev, Dev.init, exCfg, alookup, Mapping.deadzone] using this

example : ∀ os ∈ ((Dev.init exCfg).run [.abs "" "js" 0 100]).2, ∀ o ∈ os, wellFormed o = true :=
  C05_run exCfg exCfg_accepted _ (by
    intro i h
    have : i = 0 := by simpa using h
    subst this
    exact exCfg_inRange)

end Hidi.Props.C05
