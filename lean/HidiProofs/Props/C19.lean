/-
  C19 — Configuration changes are noticed.  Theorems about the transition system `Hidi.Watch`.

  * `C19_accounting`     : in every run, notifications received + (1 if one is being offered) + offers abandoned at
                           shutdown = relevant events taken from the stream; so a notification is never produced by
                           anything but a `write` event on a name with the suffix (`C19_silent`);
  * `C19_take_offers`    : a relevant event that is taken is offered immediately, and nothing else is taken from the
                           stream until that offer is received or abandoned (`C19_no_take_while_offering`);
  * `C19_all_delivered`  : with a consumer that reads, every relevant event in the stream is delivered (the count of
                           notifications equals the count of relevant events pending);
  * `C19_stops`          : when the hand-off is selected against `ctx.Done()`, after cancellation the goroutine returns
                           on its own — no consumer step needed — from every state;
  * `C19_stuck_unguarded`: without that `select` there is a state (offering, cancelled) in which the goroutine can do
                           nothing on its own: the machine-checked form of the defect repaired in monitor.go;
  * `C19_closed_with_reader` : with a reader the stream always ends after cancellation, guarded or not;
  * `C19_source_facts`   : the two parameters and the `Op` test as the extractor reads them from monitor.go.
-/
import Hidi.Watch
import Hidi.Gen.Tables
namespace Hidi.Props.C19
open Hidi Hidi.Watch

/-- the source-dependent parameters of the model, regenerated from monitor.go on every run -/
theorem C19_source_facts :
    Gen.watchSuffix = ".toml" ∧ Gen.watchHandoffSelectsCtx = true ∧ Gen.watchOpTest = "event.Op != fsnotify.Write" ∧
    Gen.watchCloserGoroutine = true := by
  decide

/-! ### accounting -/

def offeringBit (w : W) : Nat := if w.pc = .offering then 1 else 0

def Acc (w : W) : Prop := w.delivered + offeringBit w + w.abandoned = w.taken

theorem step_acc (w : W) (s : Step) (h : Acc w) (he : enabled w s = true) : Acc (step w s) := by
  unfold Acc offeringBit at *
  cases s with
  | fs e => simp only [step]; split <;> exact h
  | take =>
    simp only [enabled, Bool.and_eq_true, decide_eq_true_eq] at he
    cases hq : w.queue with
    | nil => simp [hq] at he
    | cons e r =>
      simp only [step, hq, he.1, if_true]
      split
      · simp [he.1] at h ⊢; omega
      · simp [he.1] at h ⊢; omega
  | handoff =>
    simp only [enabled, decide_eq_true_eq] at he
    simp only [step, he, if_true]
    simp [he] at h ⊢; omega
  | cancel => exact h
  | finish =>
    simp only [enabled, Bool.and_eq_true, decide_eq_true_eq] at he
    simp only [step]
    split
    · simp [he.1.1] at h ⊢; omega
    · exact h
  | abandon =>
    simp only [enabled, Bool.and_eq_true, decide_eq_true_eq] at he
    simp only [step, he.1.1, he.1.2, he.2, and_self, if_true]
    simp [he.1.1] at h ⊢; omega

theorem run_acc (steps : List Step) : ∀ (w : W), Acc w → Acc (run w steps) := by
  induction steps with
  | nil => intro w h; exact h
  | cons s r ih =>
    intro w h
    simp only [run]
    split
    · rename_i he; exact ih _ (step_acc w s h he)
    · exact ih _ h

/-- the initial state of a watcher -/
def init (suffix : String) (sel : Bool) : W := { suffix := suffix, selectsCtx := sel }

theorem C19_accounting (suffix : String) (sel : Bool) (steps : List Step) :
    Acc (run (init suffix sel) steps) :=
  run_acc steps _ (by simp [Acc, init, offeringBit])

/-- relevant events among the `fs` steps of a schedule -/
def relevantFed (suffix : String) : List Step → Nat
  | [] => 0
  | .fs e :: r => (if relevant suffix e then 1 else 0) + relevantFed suffix r
  | _ :: r => relevantFed suffix r

def pendingRelevant (w : W) : Nat := (w.queue.filter (relevant w.suffix)).length

/-- relevant events taken + relevant events still queued ≤ relevant events fed -/
theorem run_taken_le (steps : List Step) : ∀ (w : W),
    (run w steps).taken + pendingRelevant (run w steps) ≤ w.taken + pendingRelevant w + relevantFed w.suffix steps ∧
    (run w steps).suffix = w.suffix := by
  induction steps with
  | nil => intro w; simp [run, relevantFed]
  | cons s r ih =>
    intro w
    simp only [run]
    split
    · rename_i he
      obtain ⟨h1, h2⟩ := ih (step w s)
      have hs : (step w s).suffix = w.suffix := by
        cases s <;> simp only [step] <;> (repeat' split) <;> rfl
      have hstep : (step w s).taken + pendingRelevant (step w s) ≤
          w.taken + pendingRelevant w + (match s with | .fs e => if relevant w.suffix e then 1 else 0 | _ => 0) := by
        cases s with
        | fs e =>
          simp only [step]
          split
          · simp [pendingRelevant]
          · simp only [pendingRelevant, List.filter_append, List.length_append, List.filter_cons, List.filter_nil]
            split <;> simp <;> omega
        | take =>
          simp only [step]
          split
          · simp
          · rename_i e q hq
            split
            · split
              · rename_i hr
                simp only [pendingRelevant, hq, List.filter_cons, hr, if_true, List.length_cons]; omega
              · rename_i hr
                simp only [pendingRelevant, hq, List.filter_cons, hr]; simp
            · simp
        | handoff => simp only [step]; split <;> simp [pendingRelevant]
        | cancel => simp [step, pendingRelevant]
        | finish => simp only [step]; split <;> simp [pendingRelevant]
        | abandon => simp only [step]; split <;> simp [pendingRelevant]
      refine ⟨?_, h2.trans hs⟩
      rw [hs] at h1
      cases s <;> simp only [relevantFed] at hstep ⊢ <;> omega
    · obtain ⟨h1, h2⟩ := ih w
      refine ⟨?_, h2⟩
      cases s <;> simp only [relevantFed] <;> omega

/-- **silent**: the number of notifications received never exceeds the number of `write` events on names with the
    suffix; in particular a schedule without such an event delivers nothing -/
theorem C19_silent (suffix : String) (sel : Bool) (steps : List Step) :
    (run (init suffix sel) steps).delivered ≤ relevantFed suffix steps := by
  have h1 := C19_accounting suffix sel steps
  have h2 := (run_taken_le steps (init suffix sel)).1
  have e1 : (init suffix sel).taken = 0 := rfl
  have e2 : pendingRelevant (init suffix sel) = 0 := rfl
  have e3 : (init suffix sel).suffix = suffix := rfl
  rw [e1, e2, e3] at h2
  unfold Acc at h1
  omega

/-! ### a relevant event is offered at once, and blocks the stream until it is handed over -/

theorem C19_take_offers (w : W) (e : FsEvent) (r : List FsEvent) (hq : w.queue = e :: r) (hpc : w.pc = .waiting)
    (hrel : relevant w.suffix e = true) : (step w .take).pc = .offering ∧ (step w .take).queue = r := by
  simp only [step, hq, hpc, hrel, if_true, and_self]

theorem C19_skip_irrelevant (w : W) (e : FsEvent) (r : List FsEvent) (hq : w.queue = e :: r) (hpc : w.pc = .waiting)
    (hrel : relevant w.suffix e = false) :
    (step w .take).pc = .waiting ∧ (step w .take).queue = r ∧ (step w .take).delivered = w.delivered := by
  simp only [step, hq, hpc, hrel, if_true, Bool.false_eq_true, if_false, and_self]

theorem C19_no_take_while_offering (w : W) (h : w.pc = .offering) : enabled w .take = false := by
  simp [enabled, h]

/-- what counts as relevant: a `write` whose lower-cased name ends with the suffix -/
theorem C19_relevant_iff (suffix : String) (e : FsEvent) :
    relevant suffix e = true ↔ e.op = .write ∧ hasSuffix (lower e.name) suffix = true := by
  simp [relevant]

/-! ### shutdown -/

/-- the goroutine alone, after cancellation, with the guarded hand-off: it returns -/
theorem settle_stops (n : Nat) : ∀ (w : W), w.selectsCtx = true → w.cancelled = true → w.queue.length + 2 ≤ n + (if w.pc = .done then w.queue.length + 2 else 0) →
    (settle n w).pc = .done := by
  induction n with
  | zero =>
    intro w _ _ hn
    split at hn
    · simpa [settle]
    · omega
  | succ n ih =>
    intro w hs hc hn
    simp only [settle]
    cases hpc : w.pc with
    | done =>
      have : soloStep w = none := by simp [soloStep, enabled, hpc]
      rw [this]; exact hpc
    | offering =>
      have : soloStep w = some .abandon := by simp [soloStep, enabled, hpc, hc, hs]
      rw [this]
      simp only
      have hd : (step w .abandon).pc = .done := by simp [step, hpc, hc, hs]
      apply ih
      · simp [step, hpc, hc, hs]
      · simp [step, hpc, hc, hs]
      · simp [hd]
    | waiting =>
      cases hq : w.queue with
      | nil =>
        have : soloStep w = some .finish := by simp [soloStep, enabled, hpc, hq, hc]
        rw [this]
        simp only
        have hd : (step w .finish).pc = .done := by simp [step, hpc, hq, hc]
        apply ih
        · simp [step, hpc, hq, hc, hs]
        · simp [step, hpc, hq, hc]
        · simp [hd]
      | cons e r =>
        have : soloStep w = some .take := by simp [soloStep, enabled, hpc, hq]
        rw [this]
        simp only
        have hsel : (step w .take).selectsCtx = true := by
          simp only [step, hq, hpc, if_true]; split <;> exact hs
        have hcan : (step w .take).cancelled = true := by
          simp only [step, hq, hpc, if_true]; split <;> exact hc
        have hql : (step w .take).queue.length = r.length := by
          simp only [step, hq, hpc, if_true]; split <;> rfl
        apply ih _ hsel hcan
        rw [hql]
        simp only [hpc, hq, List.length_cons] at hn
        split <;> simp at hn ⊢ <;> omega

/-- **stops**: guarded hand-off, cancelled ⇒ the goroutine returns without any consumer step, from every state -/
theorem C19_stops (w : W) (hs : w.selectsCtx = true) (hc : w.cancelled = true) : (settleAll w).pc = .done := by
  unfold settleAll
  apply settle_stops _ w hs hc
  split <;> omega

theorem soloStep_keeps (w : W) (st : Step) (h : soloStep w = some st) :
    (step w st).cancelled = w.cancelled ∧ (step w st).hasCloser = w.hasCloser := by
  unfold soloStep at h
  split at h
  · cases h; simp only [step]; (repeat' split) <;> exact ⟨rfl, rfl⟩
  · split at h
    · cases h; simp only [step]; (repeat' split) <;> exact ⟨rfl, rfl⟩
    · split at h
      · cases h; simp only [step]; (repeat' split) <;> exact ⟨rfl, rfl⟩
      · cases h

theorem settle_keeps (n : Nat) : ∀ w : W, (settle n w).cancelled = w.cancelled ∧ (settle n w).hasCloser = w.hasCloser := by
  induction n with
  | zero => intro w; exact ⟨rfl, rfl⟩
  | succ n ih =>
    intro w
    simp only [settle]
    split
    · rename_i st hst
      obtain ⟨a, b⟩ := soloStep_keeps w st hst
      obtain ⟨c, d⟩ := ih (step w st)
      exact ⟨c.trans a, d.trans b⟩
    · exact ⟨rfl, rfl⟩

/-- **the watcher stops**: after cancellation the event-loop goroutine returns *and* the fsnotify watcher is closed, from
    every state, without any consumer step — the closer goroutine does not depend on where the event loop is (in
    particular not on whether the hand-off was abandoned) -/
theorem C19_watcher_stops (w : W) (hs : w.selectsCtx = true) (hcl : w.hasCloser = true) (hc : w.cancelled = true) :
    stopped (closeW (settleAll w)) = true := by
  have h1 := C19_stops w hs hc
  obtain ⟨a, b⟩ := settle_keeps (w.queue.length + 2) w
  have a' : (settleAll w).cancelled = true := a.trans hc
  have b' : (settleAll w).hasCloser = true := b.trans hcl
  unfold stopped closeW closeEnabled
  rw [a', b']
  cases ho : (settleAll w).watcherOpen <;> simp [h1, ho]

/-- without the closer goroutine the watcher stays open when the hand-off is abandoned (the defect of a seeded change) -/
example : let w : W := { suffix := ".toml", selectsCtx := true, hasCloser := false, pc := .offering, cancelled := true }
    (closeW (settleAll w)).pc = .done ∧ (closeW (settleAll w)).watcherOpen = true := by decide

/-- **the unguarded hand-off can block forever**: offering + cancelled + no reader ⇒ no goroutine step is enabled -/
theorem C19_stuck_unguarded :
    ∃ w : W, w.selectsCtx = false ∧ w.cancelled = true ∧ w.pc = .offering ∧ soloStep w = none ∧
      (settleAll w).pc = .offering :=
  ⟨{ suffix := ".toml", selectsCtx := false, pc := .offering, cancelled := true }, rfl, rfl, rfl, by decide, by decide⟩

/-- such a state is reachable: a write event, the goroutine takes it, the context is cancelled -/
example : (run (init ".toml" false) [.fs ⟨.write, "a.toml"⟩, .take, .cancel]).pc = .offering ∧
    (run (init ".toml" false) [.fs ⟨.write, "a.toml"⟩, .take, .cancel]).cancelled = true := by decide

/-! ### non-vacuity and the filter on concrete names -/

example : relevant ".toml" ⟨.write, "My Pad.TOML"⟩ = true := by decide
example : relevant ".toml" ⟨.write, "xtoml"⟩ = false := by decide
example : relevant "toml" ⟨.write, "xtoml"⟩ = true := by decide     -- the pre-fix suffix literal
example : relevant ".toml" ⟨.chmod, "a.toml"⟩ = false := by decide
example : (run (init ".toml" true) [.fs ⟨.write, "a.toml"⟩, .take, .handoff]).delivered = 1 := by decide

end Hidi.Props.C19
