/-
  C01 (disconnect clause) on the regenerated code: `Hidi/Gen/Bodies.lean` contains the translation of the clean-up of
  `ProcessEvents` (a `NoteOff` for every tracked key, an `AnalogNoteOff` for every tracked identifier, under the event
  mutex), and it equals the model's clean-up for every state.  With `C01_mixed_disconnect`: after every admissible
  history of keys, axes, SYN and MIDI input the regenerated clean-up leaves nothing sounding and both trackers empty.

  Go ranges over the tracker maps in an unspecified order; the translation folds over the model's list order, and
  `C01_cleanup_any_order` is the theorem that the order does not matter.
-/
import HidiProofs.BodiesCleanup
import HidiProofs.Props.C01
namespace Hidi.Props.C01gen
open Hidi Hidi.GoLite Hidi.Gen Hidi.BodiesTie Hidi.Spec Hidi.EngineSim Hidi.Mixed

theorem C01_gen_translated : "ProcessEvents.cleanup" ∈ Body.translated := by decide

/-- generated clean-up = model clean-up, every state -/
theorem C01_gen_cleanup (d : Dev) :
    Body.cleanupBody (toG d) = toGR (d.cleanupWith (akeys d.noteTr) (akeys d.anaTr)) := cleanup_eq d

/-- after every admissible history the regenerated clean-up silences everything the device still has sounding and
    empties both trackers -/
theorem C01_gen_disconnect (cfg : Config) (evs : List Ev) (hacc : Accepted cfg = true)
    (hok : OKHistory (Dev.init cfg) evs) (hdead : ((Dev.init cfg).runFlat evs).1.dead = false) :
    let g := Body.cleanupBody (toG ((Dev.init cfg).runFlat evs).1)
    sounding (sounding [] ((Dev.init cfg).runFlat evs).2) g.out = [] ∧ g.noteTr = [] ∧ g.anaTr = [] := by
  intro g
  have h := C01.C01_mixed_disconnect cfg evs hacc hok hdead
  have e : ((Dev.init cfg).runFlat evs).1.cleanup =
      ((Dev.init cfg).runFlat evs).1.cleanupWith (akeys ((Dev.init cfg).runFlat evs).1.noteTr)
        (akeys ((Dev.init cfg).runFlat evs).1.anaTr) := by
    unfold Dev.cleanup; rw [hdead]; rfl
  rw [e] at h
  have hg : g = toGR (((Dev.init cfg).runFlat evs).1.cleanupWith (akeys ((Dev.init cfg).runFlat evs).1.noteTr)
      (akeys ((Dev.init cfg).runFlat evs).1.anaTr)) := cleanup_eq _
  rw [hg]
  exact ⟨by simpa [toGR] using h.1, h.2.1, h.2.2⟩

end Hidi.Props.C01gen
