/-
  C18 — Start-up upkeep never touches user files and always restores factory files.
  Theorems about `Hidi.upkeep` (the model of `updateHIDIConfiguration`), for every template and every tree.
-/
import HidiProofs.EngineSimBase
import Hidi.Upkeep
import Hidi.Gen.Tables
namespace Hidi.Props.C18
open Hidi Hidi.EngineSim

/-! ### primitive effects only ever bind the path they are applied to -/

theorem mkdir_lookup {fs fs' : FS} {p q : String} (h : mkdir fs p = some fs') (hq : q ≠ p) :
    alookup q fs' = alookup q fs := by
  unfold mkdir at h
  split at h
  · simp only [Option.some.injEq] at h; subst h; exact alookup_ainsert_ne hq
  · simp at h

theorem mkdir_self {fs fs' : FS} {p : String} (h : mkdir fs p = some fs') : alookup p fs' = some .dir := by
  unfold mkdir at h
  split at h
  · simp only [Option.some.injEq] at h; subst h; exact alookup_ainsert_self
  · simp at h

theorem writeFile_lookup {fs fs' : FS} {p q data : String} (h : writeFile fs p data = some fs') (hq : q ≠ p) :
    alookup q fs' = alookup q fs := by
  unfold writeFile at h
  split at h
  · simp at h
  · split at h
    · simp at h
    · simp only [Option.some.injEq] at h; subst h; exact alookup_ainsert_ne hq

theorem writeFile_self {fs fs' : FS} {p data : String} (h : writeFile fs p data = some fs') :
    alookup p fs' = some (.file data) := by
  unfold writeFile at h
  split at h
  · simp at h
  · split at h
    · simp at h
    · simp only [Option.some.injEq] at h; subst h; exact alookup_ainsert_self

/-! ### `updateFactory` -/

/-- **frame**: paths that are not entries of the list are untouched (whether or not the run succeeds) -/
theorem updateFactory_frame (l : List (String × Node)) : ∀ (fs : FS) (q : String), q ∉ l.map (·.1) →
    alookup q (updateFactory l fs).1 = alookup q fs := by
  induction l with
  | nil => intro fs q _; rfl
  | cons e r ih =>
    intro fs q hq
    obtain ⟨p, nd⟩ := e
    simp only [List.map_cons, List.mem_cons, not_or] at hq
    cases nd with
    | dir =>
      simp only [updateFactory]
      split
      · exact ih fs q hq.2
      · cases hm : mkdir fs p with
        | none => rfl
        | some fs' => simp only; rw [ih fs' q hq.2, mkdir_lookup hm hq.1]
    | file data =>
      simp only [updateFactory]
      cases hl : alookup p fs with
      | none =>
        simp only
        cases hw : writeFile fs p data with
        | none => rfl
        | some fs' => simp only; rw [ih fs' q hq.2, writeFile_lookup hw hq.1]
      | some nd =>
        cases nd with
        | dir => rfl
        | file old =>
          simp only
          split
          · exact ih fs q hq.2
          · cases hw : writeFile fs p data with
            | none => rfl
            | some fs' => simp only; rw [ih fs' q hq.2, writeFile_lookup hw hq.1]

/-- **restores**: after a successful run every file entry of the list has exactly the template content
    (entries with distinct paths) -/
theorem updateFactory_restores (l : List (String × Node)) : ∀ (fs : FS), (l.map (·.1)).Nodup →
    (updateFactory l fs).2 = true →
    ∀ p data, (p, Node.file data) ∈ l → alookup p (updateFactory l fs).1 = some (.file data) := by
  induction l with
  | nil => intro fs _ _ p data h; simp at h
  | cons e r ih =>
    intro fs hnd hok p data hmem
    obtain ⟨p0, nd⟩ := e
    simp only [List.map_cons, List.nodup_cons] at hnd
    -- one step: the tree after the head entry, the success of the tail, and what the head left at `p0`
    have key : ∃ fs1, updateFactory ((p0, nd) :: r) fs = updateFactory r fs1 ∧
        (∀ d, nd = Node.file d → alookup p0 fs1 = some (.file d)) := by
      cases nd with
      | dir =>
        simp only [updateFactory] at hok ⊢
        split
        · exact ⟨fs, rfl, by intro d hd; cases hd⟩
        · cases hm : mkdir fs p0 with
          | none => rw [hm] at hok; simp only at hok; rename_i hx; simp [hx] at hok
          | some fs' => exact ⟨fs', rfl, by intro d hd; cases hd⟩
      | file data0 =>
        simp only [updateFactory] at hok ⊢
        cases hl : alookup p0 fs with
        | none =>
          rw [hl] at hok
          simp only at hok ⊢
          cases hw : writeFile fs p0 data0 with
          | none => rw [hw] at hok; simp at hok
          | some fs' =>
            refine ⟨fs', rfl, ?_⟩
            intro d hd; cases hd; exact writeFile_self hw
        | some nd' =>
          rw [hl] at hok
          cases nd' with
          | dir => simp at hok
          | file old =>
            simp only at hok ⊢
            by_cases he : old = data0
            · simp only [he, if_true] at hok ⊢
              refine ⟨fs, rfl, ?_⟩
              intro d hd; cases hd; rw [hl, he]
            · simp only [he, if_false] at hok ⊢
              cases hw : writeFile fs p0 data0 with
              | none => rw [hw] at hok; simp at hok
              | some fs' =>
                refine ⟨fs', rfl, ?_⟩
                intro d hd; cases hd; exact writeFile_self hw
    obtain ⟨fs1, heq, hhead⟩ := key
    rw [heq] at hok ⊢
    rcases List.mem_cons.mp hmem with h | h
    · simp only [Prod.mk.injEq] at h
      obtain ⟨rfl, rfl⟩ := h
      rw [updateFactory_frame r fs1 p hnd.1]
      exact hhead data rfl
    · exact ih fs1 hnd.2 hok p data h

/-! ### `upkeep`, configuration directory present -/

/-- the factory part of the template (what the second walk visits) -/
def facOf (tpl : List (String × Node)) : List (String × Node) := tpl.filter (fun e => under factoryDir e.1)

theorem upkeep_present (tpl : List (String × Node)) (fs : FS) (hroot : (alookup configDir fs).isSome = true) :
    upkeep tpl fs =
      (if ¬ (updateFactory (facOf tpl) fs).2 = true then ((updateFactory (facOf tpl) fs).1, false) else
       match alookup blacklistPath (updateFactory (facOf tpl) fs).1 with
       | some _ => ((updateFactory (facOf tpl) fs).1, true)
       | none =>
         match alookup blacklistPath tpl with
         | some (.file data) =>
           (match writeFile (updateFactory (facOf tpl) fs).1 blacklistPath data with
            | some fs2 => (fs2, true)
            | none => ((updateFactory (facOf tpl) fs).1, false))
         | _ => ((updateFactory (facOf tpl) fs).1, false)) := by
  unfold upkeep
  have : ¬ (alookup configDir fs).isNone = true := by
    cases h : alookup configDir fs <;> simp_all
  rw [if_neg this]
  rfl

/-- **user files are untouched**: with the configuration directory present, every path that is not a factory
    template entry keeps exactly what it had — hidi.toml, everything under user/, extra files anywhere, and the
    blacklist when it exists.  (Holds whether or not the run succeeds.) -/
theorem C18_frame (tpl : List (String × Node)) (fs : FS) (hroot : (alookup configDir fs).isSome = true)
    (q : String) (hq : q ∉ (facOf tpl).map (·.1))
    (hb : q ≠ blacklistPath ∨ (alookup blacklistPath fs).isSome = true) :
    alookup q (upkeep tpl fs).1 = alookup q fs := by
  rw [upkeep_present tpl fs hroot]
  have hf := updateFactory_frame (facOf tpl) fs q hq
  split
  · exact hf
  · split
    · exact hf
    · rename_i hnone
      have hqb : q ≠ blacklistPath := by
        rcases hb with h | h
        · exact h
        · intro he
          subst he
          rw [hf] at hnone
          rw [hnone] at h
          simp at h
      split
      · split
        · rename_i fs2 hw
          simp only
          rw [writeFile_lookup hw hqb, hf]
        · exact hf
      · exact hf

/-- **factory files are restored**: after a successful run every factory template file is present with exactly
    the template content (template paths distinct; the blacklist is not a factory path) -/
theorem C18_restores (tpl : List (String × Node)) (fs : FS) (hroot : (alookup configDir fs).isSome = true)
    (hnd : ((facOf tpl).map (·.1)).Nodup) (hbl : blacklistPath ∉ (facOf tpl).map (·.1))
    (hok : (upkeep tpl fs).2 = true) :
    ∀ p data, (p, Node.file data) ∈ facOf tpl → alookup p (upkeep tpl fs).1 = some (.file data) := by
  intro p data hmem
  have hpb : p ≠ blacklistPath := by
    intro he; subst he
    exact hbl (List.mem_map_of_mem (f := Prod.fst) hmem)
  rw [upkeep_present tpl fs hroot] at hok ⊢
  split at hok
  · simp at hok
  · rename_i hfok
    have hfok' : (updateFactory (facOf tpl) fs).2 = true := by simpa using hfok
    have hr := updateFactory_restores (facOf tpl) fs hnd hfok' p data hmem
    rw [if_neg hfok]
    split
    · exact hr
    · split
      · split
        · rename_i fs2 hw
          simp only
          rw [writeFile_lookup hw hpb]; exact hr
        · exact hr
      · exact hr

/-- **the blacklist is created only if missing**, with the template's content -/
theorem C18_blacklist_created (tpl : List (String × Node)) (fs : FS) (hroot : (alookup configDir fs).isSome = true)
    (hbl : blacklistPath ∉ (facOf tpl).map (·.1)) (habs : alookup blacklistPath fs = none)
    (hok : (upkeep tpl fs).2 = true) :
    ∃ data, alookup blacklistPath tpl = some (.file data) ∧
      alookup blacklistPath (upkeep tpl fs).1 = some (.file data) := by
  have hf := updateFactory_frame (facOf tpl) fs blacklistPath hbl
  rw [upkeep_present tpl fs hroot] at hok ⊢
  split at hok
  · simp at hok
  · rename_i hfok
    rw [if_neg hfok]
    rw [hf, habs] at hok ⊢
    simp only at hok ⊢
    split at hok
    · rename_i data hd
      split at hok
      · rename_i fs2 hw
        refine ⟨data, hd, ?_⟩
        simp only [hw]
        exact writeFile_self hw
      · simp at hok
    · simp at hok

/-! ### running it again changes nothing -/

/-- a tree in which every directory entry of the list exists and every file entry has the template content is a
    fixed point of the factory update -/
theorem updateFactory_fixpoint (l : List (String × Node)) (fs : FS)
    (hd : ∀ p, (p, Node.dir) ∈ l → (alookup p fs).isSome = true)
    (hf : ∀ p data, (p, Node.file data) ∈ l → alookup p fs = some (.file data)) :
    updateFactory l fs = (fs, true) := by
  induction l with
  | nil => rfl
  | cons e r ih =>
    obtain ⟨p, nd⟩ := e
    have ihr := ih (fun q hq => hd q (List.mem_cons_of_mem _ hq)) (fun q d hq => hf q d (List.mem_cons_of_mem _ hq))
    cases nd with
    | dir =>
      simp only [updateFactory]
      rw [if_pos (hd p List.mem_cons_self)]
      exact ihr
    | file data =>
      simp only [updateFactory]
      rw [hf p data List.mem_cons_self]
      simp only [if_true]
      exact ihr

/-- after a successful run every directory entry of the list exists -/
theorem updateFactory_dirs (l : List (String × Node)) : ∀ (fs : FS), (l.map (·.1)).Nodup →
    (updateFactory l fs).2 = true → ∀ p, (p, Node.dir) ∈ l → (alookup p (updateFactory l fs).1).isSome = true := by
  induction l with
  | nil => intro fs _ _ p h; cases h
  | cons e r ih =>
    intro fs hnd hok p hmem
    obtain ⟨p0, nd⟩ := e
    simp only [List.map_cons, List.nodup_cons] at hnd
    have key : ∃ fs1, updateFactory ((p0, nd) :: r) fs = updateFactory r fs1 ∧
        (nd = Node.dir → (alookup p0 fs1).isSome = true) := by
      cases nd with
      | dir =>
        simp only [updateFactory] at hok ⊢
        split
        · rename_i hsome; exact ⟨fs, rfl, fun _ => hsome⟩
        · cases hm : mkdir fs p0 with
          | none => rw [hm] at hok; rename_i hx; simp [hx] at hok
          | some fs' => exact ⟨fs', rfl, fun _ => by rw [mkdir_self hm]; rfl⟩
      | file data0 =>
        simp only [updateFactory] at hok ⊢
        cases hl : alookup p0 fs with
        | none =>
          rw [hl] at hok
          simp only at hok ⊢
          cases hw : writeFile fs p0 data0 with
          | none => rw [hw] at hok; simp at hok
          | some fs' => exact ⟨fs', rfl, fun h => by cases h⟩
        | some nd' =>
          rw [hl] at hok
          cases nd' with
          | dir => simp at hok
          | file old =>
            simp only at hok ⊢
            by_cases he : old = data0
            · simp only [he, if_true] at hok ⊢; exact ⟨fs, rfl, fun h => by cases h⟩
            · simp only [he, if_false] at hok ⊢
              cases hw : writeFile fs p0 data0 with
              | none => rw [hw] at hok; simp at hok
              | some fs' => exact ⟨fs', rfl, fun h => by cases h⟩
    obtain ⟨fs1, heq, hhead⟩ := key
    rw [heq] at hok ⊢
    rcases List.mem_cons.mp hmem with h | h
    · simp only [Prod.mk.injEq] at h
      obtain ⟨rfl, rfl⟩ := h
      rw [updateFactory_frame r fs1 p hnd.1]
      exact hhead rfl
    · exact ih fs1 hnd.2 hok p h

/-- **idempotent**: a second run after a successful one changes nothing and succeeds -/
theorem C18_idempotent (tpl : List (String × Node)) (fs : FS) (hroot : (alookup configDir fs).isSome = true)
    (hnd : ((facOf tpl).map (·.1)).Nodup) (hbl : blacklistPath ∉ (facOf tpl).map (·.1))
    (hcfg : configDir ∉ (facOf tpl).map (·.1))
    (hok : (upkeep tpl fs).2 = true) :
    upkeep tpl (upkeep tpl fs).1 = ((upkeep tpl fs).1, true) := by
  have hroot' : (alookup configDir (upkeep tpl fs).1).isSome = true := by
    rw [C18_frame tpl fs hroot configDir hcfg (Or.inl (by decide))]; exact hroot
  -- the first run, spelled out
  have hfok : (updateFactory (facOf tpl) fs).2 = true := by
    rw [upkeep_present tpl fs hroot] at hok
    split at hok
    · simp at hok
    · rename_i h; simpa using h
  -- factory entries in the result of the first run
  have hfiles : ∀ p data, (p, Node.file data) ∈ facOf tpl → alookup p (upkeep tpl fs).1 = some (.file data) :=
    C18_restores tpl fs hroot hnd hbl hok
  have hdirs : ∀ p, (p, Node.dir) ∈ facOf tpl → (alookup p (upkeep tpl fs).1).isSome = true := by
    intro p hp
    have hpb : p ≠ blacklistPath := by
      intro he; subst he; exact hbl (List.mem_map_of_mem (f := Prod.fst) hp)
    have h1 := updateFactory_dirs (facOf tpl) fs hnd hfok p hp
    -- the blacklist step does not touch `p`
    rw [upkeep_present tpl fs hroot, if_neg (by simpa using hfok)]
    split
    · exact h1
    · split
      · split
        · rename_i fs2 hw; simp only; rw [writeFile_lookup hw hpb]; exact h1
        · exact h1
      · exact h1
  -- the blacklist exists after the first run
  have hblk : (alookup blacklistPath (upkeep tpl fs).1).isSome = true := by
    cases hb : alookup blacklistPath fs with
    | some x =>
      rw [C18_frame tpl fs hroot blacklistPath hbl (Or.inr (by rw [hb]; rfl)), hb]; rfl
    | none =>
      obtain ⟨data, -, h2⟩ := C18_blacklist_created tpl fs hroot hbl hb hok
      rw [h2]; rfl
  rw [upkeep_present tpl _ hroot', updateFactory_fixpoint (facOf tpl) _ hdirs hfiles]
  simp only [not_true_eq_false, if_false]
  cases hx : alookup blacklistPath (upkeep tpl fs).1 with
  | none => rw [hx] at hblk; cases hblk
  | some x => rfl

/-! ### the factory update succeeds on every regular tree -/

/-- the tree is *regular* for a list of template entries: where the template has a directory the tree has nothing or a
    directory, where it has a file the tree has nothing or a file (absent, truncated, modified, intact — not type-swapped) -/
def Regular (l : List (String × Node)) (fs : FS) : Prop :=
  (∀ p, (p, Node.dir) ∈ l → alookup p fs = none ∨ alookup p fs = some .dir) ∧
  (∀ p d, (p, Node.file d) ∈ l → alookup p fs = none ∨ ∃ o, alookup p fs = some (.file o))

/-- walking the list, every entry's parent is a directory known by then: one of `known` or an earlier directory entry -/
def Ready : List String → List (String × Node) → Bool
  | _, [] => true
  | known, (p, .dir) :: r => known.contains (parentOf p) && Ready (p :: known) r
  | known, (p, .file _) :: r => known.contains (parentOf p) && Ready known r

theorem isDirIn_of_known {fs : FS} {known : List String} (hk : ∀ k ∈ known, alookup k fs = some .dir)
    {q : String} (hq : known.contains q = true) : isDirIn fs q = true := by
  have := hk q (List.contains_iff_mem.mp hq)
  simp [isDirIn, this]

theorem updateFactory_succeeds (l : List (String × Node)) : ∀ (known : List String) (fs : FS),
    (l.map (·.1)).Nodup → (∀ k ∈ known, alookup k fs = some .dir ∧ k ∉ l.map (·.1)) →
    Ready known l = true → Regular l fs → (updateFactory l fs).2 = true := by
  induction l with
  | nil => intro _ _ _ _ _ _; rfl
  | cons e r ih =>
    intro known fs hnd hk hready hreg
    obtain ⟨p, nd⟩ := e
    simp only [List.map_cons, List.nodup_cons] at hnd
    have hk' : ∀ k ∈ known, alookup k fs = some .dir := fun k h => (hk k h).1
    have hkne : ∀ k ∈ known, k ≠ p := fun k h e => (hk k h).2 (by rw [e]; exact List.mem_cons_self)
    have hkr : ∀ k ∈ known, k ∉ r.map (·.1) := fun k h hm => (hk k h).2 (List.mem_cons_of_mem _ hm)
    have hregr : ∀ fs', (∀ q, q ≠ p → alookup q fs' = alookup q fs) → Regular r fs' := by
      intro fs' hsame
      constructor
      · intro q hq
        have hqp : q ≠ p := fun e => hnd.1 (by rw [← e]; exact List.mem_map_of_mem (f := Prod.fst) hq)
        rw [hsame q hqp]; exact hreg.1 q (List.mem_cons_of_mem _ hq)
      · intro q d hq
        have hqp : q ≠ p := fun e => hnd.1 (by rw [← e]; exact List.mem_map_of_mem (f := Prod.fst) hq)
        rw [hsame q hqp]; exact hreg.2 q d (List.mem_cons_of_mem _ hq)
    cases nd with
    | dir =>
      simp only [Ready, Bool.and_eq_true] at hready
      simp only [updateFactory]
      rcases hreg.1 p List.mem_cons_self with hn | hd
      · -- absent: created
        have hnone : (alookup p fs).isSome = false := by rw [hn]; rfl
        rw [if_neg (by rw [hnone]; simp)]
        have hm : mkdir fs p = some (ainsert p .dir fs) := by
          unfold mkdir
          rw [if_pos ⟨isDirIn_of_known hk' hready.1, by rw [hn]; rfl⟩]
        rw [hm]
        simp only
        apply ih (p :: known) _ hnd.2 _ hready.2 (hregr _ (fun q hq => alookup_ainsert_ne hq))
        intro k hkm
        rcases List.mem_cons.mp hkm with e | e
        · subst e; exact ⟨alookup_ainsert_self, hnd.1⟩
        · exact ⟨by rw [alookup_ainsert_ne (hkne k e)]; exact hk' k e, hkr k e⟩
      · -- already a directory
        rw [if_pos (by rw [hd]; rfl)]
        apply ih (p :: known) fs hnd.2 _ hready.2 (hregr fs (fun _ _ => rfl))
        intro k hkm
        rcases List.mem_cons.mp hkm with e | e
        · subst e; exact ⟨hd, hnd.1⟩
        · exact ⟨hk' k e, hkr k e⟩
    | file data =>
      simp only [Ready, Bool.and_eq_true] at hready
      simp only [updateFactory]
      have hw : ∀ o, (alookup p fs = none ∨ alookup p fs = some (.file o)) →
          writeFile fs p data = some (ainsert p (.file data) fs) := by
        intro o ho
        unfold writeFile
        rw [if_neg (by rw [isDirIn_of_known hk' hready.1]; simp)]
        rcases ho with h | h <;> rw [h]
      have hknown' : ∀ (fs' : FS), (∀ q, q ≠ p → alookup q fs' = alookup q fs) →
          ∀ k ∈ known, alookup k fs' = some .dir ∧ k ∉ r.map (·.1) :=
        fun fs' hs k hkm => ⟨by rw [hs k (hkne k hkm)]; exact hk' k hkm, hkr k hkm⟩
      rcases hreg.2 p data List.mem_cons_self with hn | ⟨o, ho⟩
      · rw [hn]
        simp only
        rw [hw data (Or.inl hn)]
        simp only
        exact ih known _ hnd.2 (hknown' _ (fun q hq => alookup_ainsert_ne hq)) hready.2
          (hregr _ (fun q hq => alookup_ainsert_ne hq))
      · rw [ho]
        simp only
        by_cases he : o = data
        · rw [if_pos he]
          exact ih known fs hnd.2 (hknown' fs (fun _ _ => rfl)) hready.2 (hregr fs (fun _ _ => rfl))
        · rw [if_neg he, hw o (Or.inr ho)]
          simp only
          exact ih known _ hnd.2 (hknown' _ (fun q hq => alookup_ainsert_ne hq)) hready.2
            (hregr _ (fun q hq => alookup_ainsert_ne hq))

/-- **start-up upkeep succeeds on every regular tree** (configuration directory present): whatever is absent, truncated or
    modified among the factory entries, whatever else is in the tree -/
theorem C18_succeeds (tpl : List (String × Node)) (fs : FS) (hroot : alookup configDir fs = some .dir)
    (hnd : ((facOf tpl).map (·.1)).Nodup) (hcfg : configDir ∉ (facOf tpl).map (·.1))
    (hbl : blacklistPath ∉ (facOf tpl).map (·.1))
    (hready : Ready [configDir] (facOf tpl) = true) (hreg : Regular (facOf tpl) fs)
    (hbp : parentOf blacklistPath = configDir)
    (hbt : ∃ data, alookup blacklistPath tpl = some (.file data))
    (hbr : alookup blacklistPath fs = none ∨ ∃ o, alookup blacklistPath fs = some (.file o)) :
    (upkeep tpl fs).2 = true := by
  have hroot' : (alookup configDir fs).isSome = true := by rw [hroot]; rfl
  have hfok := updateFactory_succeeds (facOf tpl) [configDir] fs hnd
    (by intro k hk; simp at hk; subst hk; exact ⟨hroot, hcfg⟩) hready hreg
  rw [upkeep_present tpl fs hroot', if_neg (by simpa using hfok)]
  have hfb := updateFactory_frame (facOf tpl) fs blacklistPath hbl
  have hfc := updateFactory_frame (facOf tpl) fs configDir hcfg
  rcases hbr with hn | ⟨o, ho⟩
  · rw [hfb, hn]
    simp only
    obtain ⟨data, hd⟩ := hbt
    rw [hd]
    simp only
    have : writeFile (updateFactory (facOf tpl) fs).1 blacklistPath data =
        some (ainsert blacklistPath (.file data) (updateFactory (facOf tpl) fs).1) := by
      unfold writeFile
      have hdir : isDirIn (updateFactory (facOf tpl) fs).1 (parentOf blacklistPath) = true := by
        rw [hbp]; simp [isDirIn, hfc, hroot]
      rw [if_neg (by rw [hdir]; simp), hfb, hn]
    rw [this]
  · rw [hfb, ho]

/-! ### crash states: whatever an interrupted run leaves behind is again a regular tree with the same user files -/

theorem regular_of_agree {l : List (String × Node)} {fs c : FS} (h : Regular l fs)
    (hag : ∀ q, q ∈ l.map (·.1) → alookup q c = alookup q fs) : Regular l c := by
  constructor
  · intro p hp; rw [hag p (List.mem_map_of_mem (f := Prod.fst) hp)]; exact h.1 p hp
  · intro p d hp; rw [hag p (List.mem_map_of_mem (f := Prod.fst) hp)]; exact h.2 p d hp

/-- every intermediate tree of a factory update (the in-flight file cut anywhere: content `"-"`) agrees with the start tree
    outside the list's paths and is regular for the list -/
theorem crashStates_similar (l : List (String × Node)) : ∀ (fs : FS), (l.map (·.1)).Nodup → Regular l fs →
    ∀ c ∈ updateFactoryS l fs, (∀ q, q ∉ l.map (·.1) → alookup q c = alookup q fs) ∧ Regular l c := by
  induction l with
  | nil => intro fs _ _ c hc; cases hc
  | cons e r ih =>
    intro fs hnd hreg c hc
    obtain ⟨p, nd⟩ := e
    simp only [List.map_cons, List.nodup_cons] at hnd
    have hregr : Regular r fs := ⟨fun q hq => hreg.1 q (List.mem_cons_of_mem _ hq), fun q d hq => hreg.2 q d (List.mem_cons_of_mem _ hq)⟩
    -- lift a statement about a later state (relative to `fs'` and `r`) to one relative to `fs` and the whole list
    have lift : ∀ (fs' : FS) (nd' : Node), (∀ q, q ≠ p → alookup q fs' = alookup q fs) → alookup p fs' = some nd' →
        (nd = Node.dir → nd' = Node.dir) → (∀ d, nd = Node.file d → ∃ o, nd' = Node.file o) →
        ∀ c, ((∀ q, q ∉ r.map (·.1) → alookup q c = alookup q fs') ∧ Regular r c) →
          (∀ q, q ∉ (p :: r.map (·.1)) → alookup q c = alookup q fs) ∧ Regular ((p, nd) :: r) c := by
      intro fs' nd' hsame hp hdir hfile c ⟨h1, h2⟩
      refine ⟨?_, ?_⟩
      · intro q hq
        simp only [List.mem_cons, not_or] at hq
        rw [h1 q hq.2, hsame q hq.1]
      · have hcp : alookup p c = some nd' := by rw [h1 p hnd.1]; exact hp
        constructor
        · intro q hq
          rcases List.mem_cons.mp hq with e | e
          · simp only [Prod.mk.injEq] at e
            obtain ⟨rfl, rfl⟩ := e
            right; rw [hcp, hdir rfl]
          · exact h2.1 q e
        · intro q d hq
          rcases List.mem_cons.mp hq with e | e
          · simp only [Prod.mk.injEq] at e
            obtain ⟨rfl, rfl⟩ := e
            right
            obtain ⟨o, ho⟩ := hfile d rfl
            exact ⟨o, by rw [hcp, ho]⟩
          · exact h2.2 q d e
    -- the same for a state that only differs from `fs` at `p`
    have here : ∀ (c : FS) (nd' : Node), (∀ q, q ≠ p → alookup q c = alookup q fs) → alookup p c = some nd' →
        (nd = Node.dir → nd' = Node.dir) → (∀ d, nd = Node.file d → ∃ o, nd' = Node.file o) →
        (∀ q, q ∉ (p :: r.map (·.1)) → alookup q c = alookup q fs) ∧ Regular ((p, nd) :: r) c := by
      intro c nd' hsame hp hdir hfile
      refine lift c nd' hsame hp hdir hfile c ⟨fun _ _ => rfl, ?_⟩
      exact regular_of_agree hregr (fun q hq => hsame q (fun e => hnd.1 (e ▸ hq)))
    cases nd with
    | dir =>
      simp only [updateFactoryS] at hc
      split at hc
      · -- exists already: the states are those of the rest, from `fs`
        rename_i hsome
        have hd : alookup p fs = some .dir := by
          rcases hreg.1 p List.mem_cons_self with h | h
          · rw [h] at hsome; cases hsome
          · exact h
        exact lift fs .dir (fun _ _ => rfl) hd (fun _ => rfl) (fun d h => by cases h) c (ih fs hnd.2 hregr c hc)
      · cases hm : mkdir fs p with
        | none => rw [hm] at hc; cases hc
        | some fs' =>
          rw [hm] at hc
          have hsame : ∀ q, q ≠ p → alookup q fs' = alookup q fs := fun q hq => mkdir_lookup hm hq
          have hp := mkdir_self hm
          rcases List.mem_cons.mp hc with e | e
          · subst e
            exact here _ .dir hsame hp (fun _ => rfl) (fun d h => by cases h)
          · have hregr' : Regular r fs' := regular_of_agree hregr (fun q hq => hsame q (fun e => hnd.1 (e ▸ hq)))
            exact lift fs' .dir hsame hp (fun _ => rfl) (fun d h => by cases h) c (ih fs' hnd.2 hregr' c e)
    | file data =>
      simp only [updateFactoryS] at hc
      -- the two shapes of a write: placeholder content, then complete
      have write_case : ∀ (fs' : FS), writeFile fs p data = some fs' →
          c ∈ writeStates fs p data ++ updateFactoryS r fs' →
          (∀ q, q ∉ (p :: r.map (·.1)) → alookup q c = alookup q fs) ∧ Regular ((p, Node.file data) :: r) c := by
        intro fs' hw hc'
        have hsame : ∀ q, q ≠ p → alookup q fs' = alookup q fs := fun q hq => writeFile_lookup hw hq
        have hp := writeFile_self hw
        rcases List.mem_append.mp hc' with e | e
        · unfold writeStates at e
          rw [hw] at e
          simp only [List.mem_cons, List.not_mem_nil, or_false] at e
          rcases e with e | e
          · subst e
            exact here _ (.file "-") (fun q hq => alookup_ainsert_ne hq) alookup_ainsert_self
              (fun h => by cases h) (fun d _ => ⟨"-", rfl⟩)
          · subst e
            exact here _ (.file data) hsame hp (fun h => by cases h) (fun d _ => ⟨data, rfl⟩)
        · have hregr' : Regular r fs' := regular_of_agree hregr (fun q hq => hsame q (fun e => hnd.1 (e ▸ hq)))
          exact lift fs' (.file data) hsame hp (fun h => by cases h) (fun d _ => ⟨data, rfl⟩) c (ih fs' hnd.2 hregr' c e)
      cases hl : alookup p fs with
      | none =>
        rw [hl] at hc
        simp only at hc
        cases hw : writeFile fs p data with
        | none => rw [hw] at hc; cases hc
        | some fs' => rw [hw] at hc; exact write_case fs' hw hc
      | some nd' =>
        rw [hl] at hc
        cases nd' with
        | dir => cases hc
        | file old =>
          simp only at hc
          by_cases he : old = data
          · rw [if_pos he] at hc
            exact lift fs (.file old) (fun _ _ => rfl) hl (fun h => by cases h) (fun d _ => ⟨old, rfl⟩) c (ih fs hnd.2 hregr c hc)
          · rw [if_neg he] at hc
            cases hw : writeFile fs p data with
            | none => rw [hw] at hc; cases hc
            | some fs' => rw [hw] at hc; exact write_case fs' hw hc

/-- the result of a factory update (successful or not) is regular again -/
theorem updateFactory_regular (l : List (String × Node)) : ∀ (fs : FS), (l.map (·.1)).Nodup → Regular l fs →
    Regular l (updateFactory l fs).1 := by
  induction l with
  | nil => intro fs _ h; exact h
  | cons e r ih =>
    intro fs hnd hreg
    obtain ⟨p, nd⟩ := e
    simp only [List.map_cons, List.nodup_cons] at hnd
    have hregr : Regular r fs := ⟨fun q hq => hreg.1 q (List.mem_cons_of_mem _ hq), fun q d hq => hreg.2 q d (List.mem_cons_of_mem _ hq)⟩
    -- after the head: a tree `fs1` that differs from `fs` at most at `p`, where it is type-correct
    have fin : ∀ (fs1 : FS), (∀ q, q ≠ p → alookup q fs1 = alookup q fs) →
        ((nd = Node.dir → alookup p fs1 = none ∨ alookup p fs1 = some .dir) ∧
         (∀ d, nd = Node.file d → alookup p fs1 = none ∨ ∃ o, alookup p fs1 = some (.file o))) →
        Regular ((p, nd) :: r) (updateFactory r fs1).1 := by
      intro fs1 hsame hhead
      have hr1 : Regular r fs1 := regular_of_agree hregr (fun q hq => hsame q (fun e => hnd.1 (e ▸ hq)))
      have := ih fs1 hnd.2 hr1
      have hfp := updateFactory_frame r fs1 p hnd.1
      constructor
      · intro q hq
        rcases List.mem_cons.mp hq with e | e
        · simp only [Prod.mk.injEq] at e; obtain ⟨rfl, rfl⟩ := e; rw [hfp]; exact hhead.1 rfl
        · exact this.1 q e
      · intro q d hq
        rcases List.mem_cons.mp hq with e | e
        · simp only [Prod.mk.injEq] at e; obtain ⟨rfl, rfl⟩ := e; rw [hfp]; exact hhead.2 d rfl
        · exact this.2 q d e
    have stay : Regular ((p, nd) :: r) fs := hreg
    cases nd with
    | dir =>
      simp only [updateFactory]
      split
      · exact fin fs (fun _ _ => rfl) ⟨fun _ => hreg.1 p List.mem_cons_self, fun d h => by cases h⟩
      · cases hm : mkdir fs p with
        | none => exact stay
        | some fs' =>
          simp only
          exact fin fs' (fun q hq => mkdir_lookup hm hq) ⟨fun _ => Or.inr (mkdir_self hm), fun d h => by cases h⟩
    | file data =>
      simp only [updateFactory]
      cases hl : alookup p fs with
      | none =>
        simp only
        cases hw : writeFile fs p data with
        | none => exact stay
        | some fs' =>
          simp only
          exact fin fs' (fun q hq => writeFile_lookup hw hq) ⟨fun h => (by cases h), fun d _ => Or.inr ⟨data, writeFile_self hw⟩⟩
      | some nd' =>
        cases nd' with
        | dir => exact stay
        | file old =>
          simp only
          by_cases he : old = data
          · rw [if_pos he]
            exact fin fs (fun _ _ => rfl) ⟨fun h => (by cases h), fun d _ => Or.inr ⟨old, hl⟩⟩
          · rw [if_neg he]
            cases hw : writeFile fs p data with
            | none => exact stay
            | some fs' =>
              simp only
              exact fin fs' (fun q hq => writeFile_lookup hw hq) ⟨fun h => (by cases h), fun d _ => Or.inr ⟨data, writeFile_self hw⟩⟩

/-! ### the theorems instantiated with the embedded template of the repository (`Gen.templateShape`, regenerated) -/

def hasFile (tpl : List (String × Node)) (p : String) : Bool :=
  match alookup p tpl with
  | some (.file _) => true
  | _ => false

theorem hasFile_spec {tpl : List (String × Node)} {p : String} (h : hasFile tpl p = true) :
    ∃ data, alookup p tpl = some (.file data) := by
  unfold hasFile at h
  split at h
  · rename_i d hd; exact ⟨d, hd⟩
  · cases h

/-- the template as the model sees it (contents are opaque tags) -/
def repoTemplate : List (String × Node) :=
  Gen.templateShape.map (fun e => (e.1, if e.2.1 then Node.dir else Node.file e.2.2))

/-- structural facts about the embedded template that the theorems above need — checked by evaluation on every run:
    factory paths are distinct; neither the configuration directory nor the blacklist is a factory path; walking the factory
    part, every entry's parent is the configuration directory or an earlier directory entry; the blacklist lives directly in
    the configuration directory and is a file of the template -/
theorem C18_template_facts :
    ((facOf repoTemplate).map (·.1)).Nodup ∧ configDir ∉ (facOf repoTemplate).map (·.1) ∧
    blacklistPath ∉ (facOf repoTemplate).map (·.1) ∧ Ready [configDir] (facOf repoTemplate) = true ∧
    parentOf blacklistPath = configDir ∧ (∃ data, alookup blacklistPath repoTemplate = some (.file data)) ∧
    (facOf repoTemplate).length ≥ 2 := by
  refine ⟨by decide, by decide, by decide, by decide, by decide, ?_, by decide⟩
  have h : hasFile repoTemplate blacklistPath = true := by decide
  exact hasFile_spec h

/-- **for the repository's template**: on every regular tree with the configuration directory present, start-up upkeep
    succeeds, restores every factory file, leaves everything else untouched, creates the blacklist only if missing, and a
    second run changes nothing -/
theorem C18_repo (fs : FS) (hroot : alookup configDir fs = some .dir) (hreg : Regular (facOf repoTemplate) fs)
    (hbr : alookup blacklistPath fs = none ∨ ∃ o, alookup blacklistPath fs = some (.file o)) :
    (upkeep repoTemplate fs).2 = true ∧
    (∀ p data, (p, Node.file data) ∈ facOf repoTemplate → alookup p (upkeep repoTemplate fs).1 = some (.file data)) ∧
    (∀ q, q ∉ (facOf repoTemplate).map (·.1) → (q ≠ blacklistPath ∨ (alookup blacklistPath fs).isSome = true) →
      alookup q (upkeep repoTemplate fs).1 = alookup q fs) ∧
    upkeep repoTemplate (upkeep repoTemplate fs).1 = ((upkeep repoTemplate fs).1, true) := by
  obtain ⟨f1, f2, f3, f4, f5, f6, -⟩ := C18_template_facts
  have hroot' : (alookup configDir fs).isSome = true := by rw [hroot]; rfl
  have hok := C18_succeeds repoTemplate fs hroot f1 f2 f3 f4 hreg f5 f6 hbr
  exact ⟨hok, C18_restores repoTemplate fs hroot' f1 f3 hok,
    fun q hq hb => C18_frame repoTemplate fs hroot' q hq hb,
    C18_idempotent repoTemplate fs hroot' f1 f3 f2 hok⟩

/-! ### interruption: a later run on whatever an interrupted run left behind -/

/-- crash states of a run with the configuration directory present -/
theorem upkeepStates_present (tpl : List (String × Node)) (fs : FS) (hroot : (alookup configDir fs).isSome = true) :
    upkeepStates tpl fs =
      updateFactoryS (facOf tpl) fs ++
      (if ¬ (updateFactory (facOf tpl) fs).2 = true then [] else
       match alookup blacklistPath (updateFactory (facOf tpl) fs).1, alookup blacklistPath tpl with
       | none, some (.file data) => writeStates (updateFactory (facOf tpl) fs).1 blacklistPath data
       | _, _ => []) := by
  unfold upkeepStates
  have : ¬ (alookup configDir fs).isNone = true := by
    cases h : alookup configDir fs <;> simp_all
  rw [if_neg this]
  rfl

/-- **crash**: take any tree that is regular for the repository's template, with the configuration directory present, and
    any state `c` an interrupted run can leave behind (after any primitive effect, the in-flight file cut anywhere).  Then a
    later run on `c` succeeds, makes every factory file equal to its template again, and everything that is neither a
    factory template path nor the blacklist is exactly as it was before the interrupted run. -/
theorem C18_crash_repo (fs : FS) (hroot : alookup configDir fs = some .dir) (hreg : Regular (facOf repoTemplate) fs)
    (hbr : alookup blacklistPath fs = none ∨ ∃ o, alookup blacklistPath fs = some (.file o))
    (c : FS) (hc : c ∈ upkeepStates repoTemplate fs) :
    (upkeep repoTemplate c).2 = true ∧
    (∀ p data, (p, Node.file data) ∈ facOf repoTemplate → alookup p (upkeep repoTemplate c).1 = some (.file data)) ∧
    (∀ q, q ∉ (facOf repoTemplate).map (·.1) → q ≠ blacklistPath → alookup q (upkeep repoTemplate c).1 = alookup q fs) := by
  obtain ⟨f1, f2, f3, f4, f5, f6, -⟩ := C18_template_facts
  have hroot' : (alookup configDir fs).isSome = true := by rw [hroot]; rfl
  -- `c` agrees with `fs` outside the factory paths and the blacklist, is regular, and its blacklist is absent or a file
  have hsim : (∀ q, q ∉ (facOf repoTemplate).map (·.1) → q ≠ blacklistPath → alookup q c = alookup q fs) ∧
      Regular (facOf repoTemplate) c ∧ (alookup blacklistPath c = none ∨ ∃ o, alookup blacklistPath c = some (.file o)) := by
    rw [upkeepStates_present repoTemplate fs hroot'] at hc
    rcases List.mem_append.mp hc with h | h
    · obtain ⟨h1, h2⟩ := crashStates_similar (facOf repoTemplate) fs f1 hreg c h
      exact ⟨fun q hq _ => h1 q hq, h2, by rw [h1 blacklistPath f3]; exact hbr⟩
    · split at h
      · cases h
      · -- the blacklist write: after a complete factory update
        have hfr := updateFactory_frame (facOf repoTemplate) fs
        have hregf := updateFactory_regular (facOf repoTemplate) fs f1 hreg
        split at h
        · rename_i data hbn hbt
          unfold writeStates at h
          cases hw : writeFile (updateFactory (facOf repoTemplate) fs).1 blacklistPath data with
          | none => rw [hw] at h; cases h
          | some fs2 =>
            rw [hw] at h
            simp only [List.mem_cons, List.not_mem_nil, or_false] at h
            have both : ∀ (c' : FS), (∀ q, q ≠ blacklistPath → alookup q c' = alookup q (updateFactory (facOf repoTemplate) fs).1) →
                (∃ o, alookup blacklistPath c' = some (.file o)) →
                (∀ q, q ∉ (facOf repoTemplate).map (·.1) → q ≠ blacklistPath → alookup q c' = alookup q fs) ∧
                Regular (facOf repoTemplate) c' ∧ (alookup blacklistPath c' = none ∨ ∃ o, alookup blacklistPath c' = some (.file o)) := by
              intro c' hs hb
              refine ⟨fun q hq hqb => by rw [hs q hqb, hfr q hq], ?_, Or.inr hb⟩
              exact regular_of_agree hregf (fun q hq => hs q (fun e => f3 (e ▸ hq)))
            rcases h with e | e
            · subst e
              exact both _ (fun q hq => alookup_ainsert_ne hq) ⟨"-", alookup_ainsert_self⟩
            · subst e
              exact both _ (fun q hq => writeFile_lookup hw hq) ⟨data, writeFile_self hw⟩
        · cases h
  obtain ⟨s1, s2, s3⟩ := hsim
  have hrootc : alookup configDir c = some .dir := by
    rw [s1 configDir f2 (by decide)]; exact hroot
  obtain ⟨r1, r2, r3, -⟩ := C18_repo c hrootc s2 s3
  refine ⟨r1, r2, ?_⟩
  intro q hq hqb
  rw [r3 q hq (Or.inl hqb), s1 q hq hqb]

/-! ### the configuration directory does not exist: the complete template tree is created -/

def nodeOf (e : String × Node) : Node := e.2

/-- walking the list with nothing of it in the tree yet: everything is created, nothing else is touched -/
theorem createAll_spec (l : List (String × Node)) : ∀ (known : List String) (fs : FS),
    (l.map (·.1)).Nodup → (∀ k ∈ known, isDirIn fs k = true ∧ k ∉ l.map (·.1)) →
    Ready known l = true → (∀ p ∈ l.map (·.1), alookup p fs = none) →
    (createAll l fs).2 = true ∧ (∀ e ∈ l, alookup e.1 (createAll l fs).1 = some e.2) ∧
    (∀ q, q ∉ l.map (·.1) → alookup q (createAll l fs).1 = alookup q fs) := by
  induction l with
  | nil => intro _ fs _ _ _ _; exact ⟨rfl, fun e he => (by cases he), fun _ _ => rfl⟩
  | cons e r ih =>
    intro known fs hnd hk hready habs
    obtain ⟨p, nd⟩ := e
    simp only [List.map_cons, List.nodup_cons] at hnd
    have hpn : alookup p fs = none := habs p List.mem_cons_self
    have hkp : ∀ k ∈ known, k ≠ p := fun k h e => (hk k h).2 (by rw [e]; exact List.mem_cons_self)
    have hpar : isDirIn fs (parentOf p) = true := by
      cases nd <;> (simp only [Ready, Bool.and_eq_true] at hready; exact (hk _ (List.contains_iff_mem.mp hready.1)).1)
    -- the tree after the head entry
    have hstep : ∃ fs', (match nd with | .dir => mkdir fs p | .file d => writeFile fs p d) = some fs' ∧ fs' = ainsert p nd fs := by
      cases nd with
      | dir => exact ⟨_, by simp only; unfold mkdir; rw [if_pos ⟨hpar, by rw [hpn]; rfl⟩], rfl⟩
      | file d => exact ⟨_, by simp only; unfold writeFile; rw [if_neg (by rw [hpar]; simp), hpn], rfl⟩
    obtain ⟨fs', hmk, hfs'⟩ := hstep
    have hsame : ∀ q, q ≠ p → alookup q fs' = alookup q fs := fun q hq => by rw [hfs']; exact alookup_ainsert_ne hq
    have hself : alookup p fs' = some nd := by rw [hfs']; exact alookup_ainsert_self
    have hdirk : ∀ k, k ≠ p → isDirIn fs k = true → isDirIn fs' k = true := by
      intro k hkne h
      unfold isDirIn at h ⊢
      rw [hsame k hkne]; exact h
    have habs' : ∀ q ∈ r.map (·.1), alookup q fs' = none := fun q hq => by
      rw [hsame q (fun e => hnd.1 (e ▸ hq))]; exact habs q (List.mem_cons_of_mem _ hq)
    have hres : createAll ((p, nd) :: r) fs = createAll r fs' := by
      cases nd with
      | dir => simp only [createAll]; simp only at hmk; rw [hmk]
      | file d => simp only [createAll]; simp only at hmk; rw [hmk]
    have hknown' : ∀ k ∈ (match nd with | .dir => p :: known | .file _ => known),
        isDirIn fs' k = true ∧ k ∉ r.map (·.1) := by
      intro k hkm
      cases nd with
      | dir =>
        rcases List.mem_cons.mp hkm with e | e
        · subst e; exact ⟨by unfold isDirIn; rw [hself]; simp, hnd.1⟩
        · exact ⟨hdirk k (hkp k e) (hk k e).1, fun hm => (hk k e).2 (List.mem_cons_of_mem _ hm)⟩
      | file d => exact ⟨hdirk k (hkp k hkm) (hk k hkm).1, fun hm => (hk k hkm).2 (List.mem_cons_of_mem _ hm)⟩
    have hready' : Ready (match nd with | .dir => p :: known | .file _ => known) r = true := by
      cases nd <;> (simp only [Ready, Bool.and_eq_true] at hready; exact hready.2)
    obtain ⟨i1, i2, i3⟩ := ih _ fs' hnd.2 hknown' hready' habs'
    rw [hres]
    refine ⟨i1, ?_, ?_⟩
    · intro e he
      rcases List.mem_cons.mp he with h | h
      · subst h; rw [i3 p hnd.1]; exact hself
      · exact i2 e h
    · intro q hq
      have hq1 : q ≠ p := fun e => hq (by rw [e]; exact List.mem_cons_self)
      have hq2 : q ∉ r.map (·.1) := fun hm => hq (List.mem_cons_of_mem _ hm)
      rw [i3 q hq2, hsame q hq1]

/-- **absent configuration directory**: on a tree that has nothing at any template path, the run succeeds, the complete
    template tree exists afterwards, and nothing else is touched -/
theorem C18_fresh_repo (fs : FS) (habs : ∀ p ∈ repoTemplate.map (·.1), alookup p fs = none) :
    (upkeep repoTemplate fs).2 = true ∧ (∀ e ∈ repoTemplate, alookup e.1 (upkeep repoTemplate fs).1 = some e.2) ∧
    (∀ q, q ∉ repoTemplate.map (·.1) → alookup q (upkeep repoTemplate fs).1 = alookup q fs) := by
  have hcfg : configDir ∈ repoTemplate.map (·.1) := by decide
  have hnone : (alookup configDir fs).isNone = true := by rw [habs configDir hcfg]; rfl
  have : upkeep repoTemplate fs = createAll repoTemplate fs := by unfold upkeep; rw [if_pos hnone]
  rw [this]
  apply createAll_spec repoTemplate [""] fs (by decide) _ (by decide) habs
  intro k hk
  simp only [List.mem_singleton] at hk
  subst hk
  exact ⟨by simp [isDirIn], by decide⟩

/-- the template has the configuration directory itself as its first entry, every factory file, the blacklist and hidi.toml -/
theorem C18_template_nonempty : repoTemplate.length ≥ 10 ∧ (configDir, Node.dir) ∈ repoTemplate := by
  constructor <;> decide

end Hidi.Props.C18
