/-
  C18 — Start-up upkeep never touches user files and always restores factory files.
  Theorems about `Hidi.upkeep` (the model of `updateHIDIConfiguration`), for every template and every tree.
-/
import HidiProofs.EngineSimBase
import Hidi.Upkeep
namespace Hidi.Props.C18
open Hidi Hidi.EngineSim

/-! ### primitive effects only ever bind the path they are applied to -/

theorem mkdir_lookup {fs fs' : FS} {p q : String} (h : mkdir fs p = some fs') (hq : q ≠ p) :
    alookup q fs' = alookup q fs := by
  unfold mkdir at h
  split at h
  · simp only [Option.some.injEq] at h; subst h; exact alookup_ainsert_ne hq
  · simp at h

theorem mkdir_self {fs fs' : FS} {p : String} (h : mkdir fs p = some fs') : alookup p fs' = some .dir := by
  unfold mkdir at h
  split at h
  · simp only [Option.some.injEq] at h; subst h; exact alookup_ainsert_self
  · simp at h

theorem writeFile_lookup {fs fs' : FS} {p q data : String} (h : writeFile fs p data = some fs') (hq : q ≠ p) :
    alookup q fs' = alookup q fs := by
  unfold writeFile at h
  split at h
  · simp at h
  · split at h
    · simp at h
    · simp only [Option.some.injEq] at h; subst h; exact alookup_ainsert_ne hq

theorem writeFile_self {fs fs' : FS} {p data : String} (h : writeFile fs p data = some fs') :
    alookup p fs' = some (.file data) := by
  unfold writeFile at h
  split at h
  · simp at h
  · split at h
    · simp at h
    · simp only [Option.some.injEq] at h; subst h; exact alookup_ainsert_self

/-! ### `updateFactory` -/

/-- **frame**: paths that are not entries of the list are untouched (whether or not the run succeeds) -/
theorem updateFactory_frame (l : List (String × Node)) : ∀ (fs : FS) (q : String), q ∉ l.map (·.1) →
    alookup q (updateFactory l fs).1 = alookup q fs := by
  induction l with
  | nil => intro fs q _; rfl
  | cons e r ih =>
    intro fs q hq
    obtain ⟨p, nd⟩ := e
    simp only [List.map_cons, List.mem_cons, not_or] at hq
    cases nd with
    | dir =>
      simp only [updateFactory]
      split
      · exact ih fs q hq.2
      · cases hm : mkdir fs p with
        | none => rfl
        | some fs' => simp only; rw [ih fs' q hq.2, mkdir_lookup hm hq.1]
    | file data =>
      simp only [updateFactory]
      cases hl : alookup p fs with
      | none =>
        simp only
        cases hw : writeFile fs p data with
        | none => rfl
        | some fs' => simp only; rw [ih fs' q hq.2, writeFile_lookup hw hq.1]
      | some nd =>
        cases nd with
        | dir => rfl
        | file old =>
          simp only
          split
          · exact ih fs q hq.2
          · cases hw : writeFile fs p data with
            | none => rfl
            | some fs' => simp only; rw [ih fs' q hq.2, writeFile_lookup hw hq.1]

/-- **restores**: after a successful run every file entry of the list has exactly the template content
    (entries with distinct paths) -/
theorem updateFactory_restores (l : List (String × Node)) : ∀ (fs : FS), (l.map (·.1)).Nodup →
    (updateFactory l fs).2 = true →
    ∀ p data, (p, Node.file data) ∈ l → alookup p (updateFactory l fs).1 = some (.file data) := by
  induction l with
  | nil => intro fs _ _ p data h; simp at h
  | cons e r ih =>
    intro fs hnd hok p data hmem
    obtain ⟨p0, nd⟩ := e
    simp only [List.map_cons, List.nodup_cons] at hnd
    -- one step: the tree after the head entry, the success of the tail, and what the head left at `p0`
    have key : ∃ fs1, updateFactory ((p0, nd) :: r) fs = updateFactory r fs1 ∧
        (∀ d, nd = Node.file d → alookup p0 fs1 = some (.file d)) := by
      cases nd with
      | dir =>
        simp only [updateFactory] at hok ⊢
        split
        · exact ⟨fs, rfl, by intro d hd; cases hd⟩
        · cases hm : mkdir fs p0 with
          | none => rw [hm] at hok; simp only at hok; rename_i hx; simp [hx] at hok
          | some fs' => exact ⟨fs', rfl, by intro d hd; cases hd⟩
      | file data0 =>
        simp only [updateFactory] at hok ⊢
        cases hl : alookup p0 fs with
        | none =>
          rw [hl] at hok
          simp only at hok ⊢
          cases hw : writeFile fs p0 data0 with
          | none => rw [hw] at hok; simp at hok
          | some fs' =>
            refine ⟨fs', rfl, ?_⟩
            intro d hd; cases hd; exact writeFile_self hw
        | some nd' =>
          rw [hl] at hok
          cases nd' with
          | dir => simp at hok
          | file old =>
            simp only at hok ⊢
            by_cases he : old = data0
            · simp only [he, if_true] at hok ⊢
              refine ⟨fs, rfl, ?_⟩
              intro d hd; cases hd; rw [hl, he]
            · simp only [he, if_false] at hok ⊢
              cases hw : writeFile fs p0 data0 with
              | none => rw [hw] at hok; simp at hok
              | some fs' =>
                refine ⟨fs', rfl, ?_⟩
                intro d hd; cases hd; exact writeFile_self hw
    obtain ⟨fs1, heq, hhead⟩ := key
    rw [heq] at hok ⊢
    rcases List.mem_cons.mp hmem with h | h
    · simp only [Prod.mk.injEq] at h
      obtain ⟨rfl, rfl⟩ := h
      rw [updateFactory_frame r fs1 p hnd.1]
      exact hhead data rfl
    · exact ih fs1 hnd.2 hok p data h

/-! ### `upkeep`, configuration directory present -/

/-- the factory part of the template (what the second walk visits) -/
def facOf (tpl : List (String × Node)) : List (String × Node) := tpl.filter (fun e => under factoryDir e.1)

theorem upkeep_present (tpl : List (String × Node)) (fs : FS) (hroot : (alookup configDir fs).isSome = true) :
    upkeep tpl fs =
      (if ¬ (updateFactory (facOf tpl) fs).2 = true then ((updateFactory (facOf tpl) fs).1, false) else
       match alookup blacklistPath (updateFactory (facOf tpl) fs).1 with
       | some _ => ((updateFactory (facOf tpl) fs).1, true)
       | none =>
         match alookup blacklistPath tpl with
         | some (.file data) =>
           (match writeFile (updateFactory (facOf tpl) fs).1 blacklistPath data with
            | some fs2 => (fs2, true)
            | none => ((updateFactory (facOf tpl) fs).1, false))
         | _ => ((updateFactory (facOf tpl) fs).1, false)) := by
  unfold upkeep
  have : ¬ (alookup configDir fs).isNone = true := by
    cases h : alookup configDir fs <;> simp_all
  rw [if_neg this]
  rfl

/-- **user files are untouched**: with the configuration directory present, every path that is not a factory
    template entry keeps exactly what it had — hidi.toml, everything under user/, extra files anywhere, and the
    blacklist when it exists.  (Holds whether or not the run succeeds.) -/
theorem C18_frame (tpl : List (String × Node)) (fs : FS) (hroot : (alookup configDir fs).isSome = true)
    (q : String) (hq : q ∉ (facOf tpl).map (·.1))
    (hb : q ≠ blacklistPath ∨ (alookup blacklistPath fs).isSome = true) :
    alookup q (upkeep tpl fs).1 = alookup q fs := by
  rw [upkeep_present tpl fs hroot]
  have hf := updateFactory_frame (facOf tpl) fs q hq
  split
  · exact hf
  · split
    · exact hf
    · rename_i hnone
      have hqb : q ≠ blacklistPath := by
        rcases hb with h | h
        · exact h
        · intro he
          subst he
          rw [hf] at hnone
          rw [hnone] at h
          simp at h
      split
      · split
        · rename_i fs2 hw
          simp only
          rw [writeFile_lookup hw hqb, hf]
        · exact hf
      · exact hf

/-- **factory files are restored**: after a successful run every factory template file is present with exactly
    the template content (template paths distinct; the blacklist is not a factory path) -/
theorem C18_restores (tpl : List (String × Node)) (fs : FS) (hroot : (alookup configDir fs).isSome = true)
    (hnd : ((facOf tpl).map (·.1)).Nodup) (hbl : blacklistPath ∉ (facOf tpl).map (·.1))
    (hok : (upkeep tpl fs).2 = true) :
    ∀ p data, (p, Node.file data) ∈ facOf tpl → alookup p (upkeep tpl fs).1 = some (.file data) := by
  intro p data hmem
  have hpb : p ≠ blacklistPath := by
    intro he; subst he
    exact hbl (List.mem_map_of_mem (f := Prod.fst) hmem)
  rw [upkeep_present tpl fs hroot] at hok ⊢
  split at hok
  · simp at hok
  · rename_i hfok
    have hfok' : (updateFactory (facOf tpl) fs).2 = true := by simpa using hfok
    have hr := updateFactory_restores (facOf tpl) fs hnd hfok' p data hmem
    rw [if_neg hfok]
    split
    · exact hr
    · split
      · split
        · rename_i fs2 hw
          simp only
          rw [writeFile_lookup hw hpb]; exact hr
        · exact hr
      · exact hr

/-- **the blacklist is created only if missing**, with the template's content -/
theorem C18_blacklist_created (tpl : List (String × Node)) (fs : FS) (hroot : (alookup configDir fs).isSome = true)
    (hbl : blacklistPath ∉ (facOf tpl).map (·.1)) (habs : alookup blacklistPath fs = none)
    (hok : (upkeep tpl fs).2 = true) :
    ∃ data, alookup blacklistPath tpl = some (.file data) ∧
      alookup blacklistPath (upkeep tpl fs).1 = some (.file data) := by
  have hf := updateFactory_frame (facOf tpl) fs blacklistPath hbl
  rw [upkeep_present tpl fs hroot] at hok ⊢
  split at hok
  · simp at hok
  · rename_i hfok
    rw [if_neg hfok]
    rw [hf, habs] at hok ⊢
    simp only at hok ⊢
    split at hok
    · rename_i data hd
      split at hok
      · rename_i fs2 hw
        refine ⟨data, hd, ?_⟩
        simp only [hw]
        exact writeFile_self hw
      · simp at hok
    · simp at hok

end Hidi.Props.C18
