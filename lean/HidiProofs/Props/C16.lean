/-
  C16 — Device lifecycle.  Source facts and (below) the lock-discipline theorems.
-/
import Hidi.Gen.Evdev
namespace Hidi.Props.C16
open Hidi

/-- the disconnect clean-up of `ProcessEvents` runs under `eventProcessMutex` (regenerated from events.go) -/
theorem C16_source_facts : Gen.cleanupUnderEventMutex = true := by decide

end Hidi.Props.C16
