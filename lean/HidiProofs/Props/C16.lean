/-
  C16 — Device lifecycle: prompt termination, no leftovers, no races, no cross-talk.

  * `C16_source_facts`       : the disconnect clean-up of `ProcessEvents` runs under `eventProcessMutex` (regenerated from
                               events.go) — the repaired defect;
  * `C16_table_disciplined`  : in the access table regenerated from package device (every access of a `*Device` field by each of
                               the three goroutines of a device, with the mutexes held there — `Gen.deviceAccesses`), every
                               pair of conflicting accesses from different goroutines has a mutex in common;
  * `C16_no_race`            : hence, for programmes whose accesses are as in the table, no schedule ever has two conflicting
                               accesses enabled at the same time (generic theorem `Lockset.no_race`: mutual exclusion as an
                               invariant of every reachable state);
  * `C16_writes_locked`      : no field is written without a device mutex, by any goroutine;
  * `C16_independent`        : one step of a device is a function of that device's state and the event alone: the model has no
                               shared state between devices, and the extractor finds no package-level variable of package
                               device that is written outside `init` (`Gen.devicePackageWrites`).
  Termination and leftovers are decided on the implementation (race-enabled runner, goroutine dump); the model-level argument
  is: after the input stream ends `cancel()` is called, both helper goroutines test `ctx.Done()` in every iteration of
  their loops, and every blocking call in those loops (connect, 250 ms timer, 10 ms sleep, UpdateLEDs on a local TCP socket,
  receive from midiIn selected against ctx.Done()) returns — the TCP peer answering is an assumption.
  Trusted: the extractor's walk (calls through the action tables are followed to every method expression `(*Device).X`).
-/
import HidiProofs.Lockset
import Hidi.Engine
import Hidi.Gen.Tables
import Hidi.Gen.Evdev
namespace Hidi.Props.C16
open Hidi Hidi.Lockset

theorem C16_source_facts : Gen.cleanupUnderEventMutex = true := by decide

/-- the extractor understood every construct it met (no `?` rows) and found the three roots -/
theorem C16_table_complete :
    (Gen.deviceAccesses.all (fun r => r.2.1 ≠ "?")) = true ∧
    (Gen.deviceAccesses.map (·.1)).eraseDups = ["ProcessEvents", "handleInputEvents", "handleOpenrgb"] := by
  constructor <;> decide

/-- **lock discipline of package device** -/
theorem C16_table_disciplined : Disciplined Gen.deviceAccesses = true := by decide

/-- no write without a device mutex -/
theorem C16_writes_locked : (Gen.deviceAccesses.all (fun r => !r.2.2.1 || !r.2.2.2.isEmpty)) = true := by decide

/-- **no race for any schedule** of goroutines whose accesses are those of the table -/
theorem C16_no_race (init : Sys)
    (hstart : ∀ i, (init i).held = [] ∧ Conforms Gen.deviceAccesses i [] (init i).prog)
    (s : Sys) (hr : Reach init s) : ¬ Race s :=
  no_race Gen.deviceAccesses C16_table_disciplined init hstart s hr

/-- package device has no package-level variable that is written after initialisation: devices share no mutable state -/
theorem C16_no_shared_package_state : Gen.devicePackageWrites = [] := by decide

/-- **no cross-talk in the model**: the step function of a device takes that device's state and the event — two devices are
    two values; nothing else is read or written -/
theorem C16_independent (a b : Dev) (ea eb : Ev) :
    let step2 := fun (p : Dev × Dev) => ((p.1.step ea).1, (p.2.step eb).1)
    (step2 (a, b)).1 = (a.step ea).1 ∧ (step2 (a, b)).2 = (b.step eb).1 := ⟨rfl, rfl⟩

/-! ### non-vacuity: a programme shaped like the event loop and one shaped like the LED loop conform to the table, and the
    unlocked clean-up of the original code does not -/

def evLoop : List Op := [.acq "eventProcessMutex", .access "noteTracker" true, .access "octave" true, .rel "eventProcessMutex"]
def ledLoop : List Op := [.acq "eventProcessMutex", .access "octave" false, .access "noteTracker" false, .rel "eventProcessMutex"]

example : Conforms Gen.deviceAccesses "ProcessEvents" [] evLoop := by
  refine ⟨by simp, ⟨["eventProcessMutex"], by decide, by simp⟩, ⟨["eventProcessMutex"], by decide, by simp⟩, trivial⟩
example : Conforms Gen.deviceAccesses "handleOpenrgb" [] ledLoop := by
  refine ⟨by simp, ⟨["eventProcessMutex"], by decide, by simp⟩, ⟨["eventProcessMutex"], by decide, by simp⟩, trivial⟩

/-- the pre-fix clean-up (a write to `noteTracker` with no mutex held) is not in the table: such a row would break discipline -/
example : Disciplined (("ProcessEvents", "noteTracker", true, []) :: Gen.deviceAccesses) = false := by decide

end Hidi.Props.C16
