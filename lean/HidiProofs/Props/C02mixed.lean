/-
  C02 on states of histories of every event kind.  `KInv` (= `DInv` with the analog note tracker set aside) holds in every
  state reached by keys, axes, SYN and MIDI input in any order (`KInvReach.reachable_kinv`), the key handler neither reads
  nor writes the analog tracker (`AnaIndep.handleKey_split`), so the per-event theorems of `Props/C02.lean` hold there too:
  a deflected key-emulating axis, a sounding emulated note or an action held by an axis do not change what a key press
  records or what its release sends.
-/
import HidiProofs.KInvReach
import HidiProofs.Props.C02
namespace Hidi.Props.C02
open Hidi Hidi.Spec Hidi.EngineSim Hidi.AnaIndep Hidi.KInvReach

/-- reachable states of arbitrary histories -/
theorem reachable_kinv_all (cfg : Config) (hacc : Accepted cfg = true) (evs : List Ev)
    (hdead : ((Dev.init cfg).run evs).1.dead = false) : KInv cfg ((Dev.init cfg).run evs).1 :=
  reachable_kinv cfg hacc evs hdead

theorem C02_all_press_records {cfg : Config} {d : Dev} (hd : KInv cfg d) (sub : Sub) (code : Code)
    (hna : alookup code cfg.actions = none) (hsw : (kt d code 1).exitComplete = false) :
    (d.handleKey sub code 1).1.noteTr =
      match resolve cfg (StObs.ofDev d) (u8 cfg.vel) sub code with
      | none => d.noteTr
      | some (n, ch, _) => ainsert code (n, ch) d.noteTr := by
  rw [handleKey_split hd]
  exact C02_press_records hd sub code hna hsw

theorem C02_all_frame_action_press {cfg : Config} {d : Dev} (hd : KInv cfg d) (sub : Sub) (code : Code) (a : Action)
    (ha : alookup code cfg.actions = some a) (hsw : (kt d code 1).exitComplete = false) :
    (d.handleKey sub code 1).1.noteTr = d.noteTr := by
  rw [handleKey_split hd]
  exact C02_frame_action_press hd sub code a ha hsw

theorem C02_all_frame_action_release {cfg : Config} {d : Dev} (hd : KInv cfg d) (sub : Sub) (code : Code) (a : Action)
    (ha : alookup code cfg.actions = some a) :
    (d.handleKey sub code 0).1.noteTr = d.noteTr ∧ (d.handleKey sub code 0).2 = [] := by
  rw [handleKey_split hd]
  exact C02_frame_action_release hd sub code a ha

/-- **release pinned to the press**, whatever the axes are doing -/
theorem C02_all_release_pinned {cfg : Config} {d : Dev} (hd : KInv cfg d) (sub : Sub) (code : Code)
    (hna : alookup code cfg.actions = none) :
    (d.handleKey sub code 0).2 =
      match alookup code d.noteTr with
      | none => []
      | some (n, ch) => releaseOuts cfg.mode (decide (d.count ch n = 1)) ch n := by
  rw [handleKey_split hd]
  exact C02_release_pinned hd sub code hna

theorem C02_all_actions_silent {cfg : Config} {d : Dev} (hd : KInv cfg d) (sub : Sub) (code : Code) (a : Action)
    (ha : alookup code cfg.actions = some a) (hs : isStateAction a = true) (val : Int) :
    ∀ o ∈ (d.handleKey sub code val).2, isMidi o = false := by
  rw [handleKey_split hd]
  exact C02_actions_silent hd sub code a ha hs val

/-- the key handler leaves the analog tracker alone -/
theorem C02_all_key_keeps_axes {cfg : Config} {d : Dev} (hd : KInv cfg d) (sub : Sub) (code : Code) (val : Int) :
    (d.handleKey sub code val).1.anaTr = d.anaTr := by
  rw [handleKey_split hd]; rfl

end Hidi.Props.C02
