/-
  C11 on the regenerated code: `Hidi/Gen/NoteFn.lean` is the translation of `StringToNote` (config/event.go) made by
  tools/extract/notes.go on every run — the order of its checks, the `-0` test, the `uint8` arithmetic
  `(uint8(octave)+2)*12 + pitchVal` and the range test are translated; the regular-expression match, `strings.ToUpper`, the
  (regenerated) pitch table and `strconv.Atoi` on the matched octave are the primitives of `Hidi/Notes.lean`.  It equals
  the model's `stringToNote` for every string, so the theorems of `Props/C11.lean` (round trip, only the 128 names, case,
  rejections) are about the function as written now.
-/
import Hidi.Gen.NoteFn
import HidiProofs.Props.C11
namespace Hidi.Props.C11gen
open Hidi Hidi.GoLite Hidi.Gen

theorem C11_gen_translated : Body.stringToNoteTranslated = true := by decide

theorem C11_gen_stringToNote (s : List Char) : Body.stringToNote s = stringToNote s := by
  unfold Body.stringToNote stringToNote
  simp only [Id.run, pure]
  cases hm : matchNote s with
  | none => rfl
  | some m =>
    obtain ⟨pitch, neg, d⟩ := m
    simp only
    cases hp : pitchVal (pitch.map upperC) with
    | none => simp
    | some p =>
      simp only [Option.isSome_some, Bool.not_true, Bool.false_eq_true, if_false, Option.getD_some, wrapU8]
      by_cases hz : neg = true ∧ digitVal d = 0
      · simp [hz.1, hz.2]
      · have hz' : (neg && (digitVal d == 0)) = false := by
          cases neg <;> simp_all
        simp only [hz', Bool.false_eq_true, if_false, hz]
        generalize ho : (if neg = true then -((digitVal d : Nat) : Int) else ((digitVal d : Nat) : Int)) = o
        have e : ((((o % 256 + 2) % 256 * 12) % 256 + (p : Int)) % 256) =
            (((((u8 o + 2) % 256) * 12 % 256 + p) % 256 : Nat) : Int) := by
          unfold u8; omega
        simp only [Bool.or_eq_true, decide_eq_true_eq, e]
        generalize (((u8 o + 2) % 256) * 12 % 256 + p) % 256 = cal
        by_cases hc : cal > 127
        · have : ((cal : Int) > 127) := by omega
          simp [hc, this]
        · have h1 : ¬ ((cal : Int) > 127) := by omega
          have h2 : ¬ ((cal : Int) < 0) := by omega
          simp [hc, h1, h2]

end Hidi.Props.C11gen
