/-
  C17 — LED feedback shows the device's actual state.  Theorems about `Hidi.Led.frame` (checked writes) and the MIDI-input
  tracker `Dev.midiIn`.

  * `C17_frame_total`   : for every state, every configuration and every LED layout (any order, any subset, unknown
                          names, no LEDs at all) the frame is a list of exactly one colour per LED — no index outside the
                          frame is ever written (the unchecked code crashed on an empty layout: `C17_unchecked_crashes`);
  * `C17_layout`        : an action whose key is unbound, or whose key has no LED, paints nothing; otherwise it paints
                          exactly the LED of its key (`C17_unchecked_hits_led0` is what the unchecked code did);
  * `C17_active`        : every LED of a key whose base note + transposition equals the pitch recorded for a held key shows
                          the active colour — whatever else was painted before (last paint wins, and every later paint of
                          that pass is the same colour);
  * `C17_midi_in_*`     : Note Off, or Note On with velocity 0, removes the note from the MIDI-input tracker; Note On with
                          velocity > 0 adds it; the panic action clears the tracker;
  * `C17_channel_colours` : the sixteen channel colours (exact table);
  * `C17_source_facts`  : the two facts regenerated from the sources that select the checked behaviour.
-/
import HidiProofs.LedLemmas
import Hidi.Gen.Evdev
namespace Hidi.Props.C17
open Hidi Hidi.Led Hidi.LedLemmas Hidi.EngineSim

/-- source facts regenerated from open_rgb.go / events.go: every frame write for action keys and strip LEDs goes through the
    checked setter; a MIDI-input Note On with velocity 0 is treated as Note Off -/
theorem C17_source_facts : Gen.ledUncheckedWrites = 0 ∧ Gen.midiInVelocityZeroIsOff = true := by decide

/-- LED names are distinct, so `LedNameToKey` (built by ranging over a Go map) is well defined -/
theorem C17_led_names_distinct : (Gen.keyToLedName.map (·.2)).Nodup := by decide

/-- **any layout**: the frame always has exactly one colour per LED; nothing outside it is written -/
theorem C17_frame_total (d : Dev) (devName : String) (leds : List String) (shifted : RGB × RGB × RGB)
    (hm : d.curMap.isSome = true) :
    ∃ l, frame true d devName leds shifted = .ok l ∧ l.length = leds.length := by
  unfold frame
  cases hc : d.curMap with
  | none => rw [hc] at hm; cases hm
  | some m =>
    simp only
    have h1 := frameExt_isOk d leds m (frameBase_isOk d devName leds shifted m)
    exact foldl_isOk _ (fun f p hf => paintNote_isOk leds rfl m _ _ hf) _ _ h1

def exMap : Mapping := { name := "Piano", midi := [], analog := [], dz := [], defDz := [] }
def exCfg0 : Config :=
  { maps := [exMap], actions := [], exitSeq := [], mode := .off, defOct := 0, defSemi := 0, defCh := 1, defMap := 0,
    vel := 64, axes := [] }

/-- the unchecked code on a controller without LEDs: a Go panic (index out of range) — the crash repaired in the repository -/
theorem C17_unchecked_crashes : frame false (Dev.init exCfg0) "kbd" [] ({}, {}, {}) = .panic := by decide

/-- **layout**: with checked writes an action paints at most the LED of its own key -/
theorem C17_layout (cfg : Config) (im : List (Nat × Nat)) (l : List RGB) (a : Action) (c : RGB) :
    paintAction true cfg im (.ok l) a c =
      match actionCode cfg a with
      | none => .ok l                                   -- the action is not bound to any key
      | some code =>
        match alookup code im with
        | none => .ok l                                 -- its key has no LED
        | some i => if i < l.length then .ok (l.set i c) else .ok l := by
  unfold paintAction
  simp only [if_true]
  cases actionCode cfg a with
  | none => rfl
  | some code => simp only; cases alookup code im <;> rfl

/-- what the unchecked code did with an unbound action: it wrote LED 0 -/
theorem C17_unchecked_hits_led0 (cfg : Config) (im : List (Nat × Nat)) (l : List RGB) (a : Action) (c : RGB)
    (hunbound : actionCode cfg a = none) (h0 : alookup 0 im = none) (hl : 0 < l.length) :
    paintAction false cfg im (.ok l) a c = .ok (l.set 0 c) := by
  unfold paintAction
  simp [hunbound, h0, setAt, hl]

/-- **active**: every LED of a key at the pitch of a held key shows the active colour -/
theorem C17_active (d : Dev) (devName : String) (leds : List String) (shifted : RGB × RGB × RGB) (m : Mapping)
    (hm : d.curMap = some m) (held : Code × (Nat × Nat)) (hheld : held ∈ d.noteTr)
    (code : Nat) (hcode : code ∈ keysWithNote m (baseOf held.2.1 (d.semitone + d.octave * 12)))
    (i : Nat) (hi : alookup code (indexMap leds) = some i) :
    ∃ l, frame true d devName leds shifted = .ok l ∧ l[i]? = some d.cfg.colors.active := by
  unfold frame
  rw [hm]
  simp only
  have h1 := frameExt_isOk d leds m (frameBase_isOk d devName leds shifted m)
  obtain ⟨l0, e0, hl0⟩ := h1
  have hg : Good leds.length [] d.cfg.colors.active (frameExt d leds m (frameBase true d devName leds shifted m)) :=
    ⟨l0, e0, hl0, by intro j hj; cases hj⟩
  obtain ⟨S', ⟨l, e1, hl, hs⟩, -, g3⟩ :=
    foldNotes_good leds rfl m d.cfg.colors.active (fun (p : Code × (Nat × Nat)) => baseOf p.2.1 (d.semitone + d.octave * 12))
      d.noteTr [] _ hg
  refine ⟨l, e1, ?_⟩
  exact hs i (g3 held hheld code hcode i hi) (indexMap_lt leds code i hi)

/-! ### the MIDI-input tracker -/

theorem C17_midi_in_note_off (d : Dev) (ch note vel : Nat) (hch : ch < 16) :
    (d.midiIn (0x80 + ch) note vel).ext = serase (ch, note) d.ext := by
  unfold Dev.midiIn
  have h1 : (0x80 + ch) / 16 = 8 := by omega
  have h2 : (0x80 + ch) % 16 = ch := by omega
  have h3 : (0x80 + ch) ≥ 128 := by omega
  simp only [h1, h2]
  have hc : (8 ≠ 15 ∧ 0x80 + ch ≥ 128) := ⟨by decide, h3⟩
  rw [if_pos hc]
  have e1 : ¬ (8 * 16 = stNoteOn) := by decide
  have e2 : 8 * 16 = stNoteOff := by decide
  rw [if_neg e1, if_pos e2]

theorem C17_midi_in_note_on_zero (d : Dev) (ch note : Nat) (hch : ch < 16) :
    (d.midiIn (0x90 + ch) note 0).ext = serase (ch, note) d.ext := by
  unfold Dev.midiIn
  have h1 : (0x90 + ch) / 16 = 9 := by omega
  have h2 : (0x90 + ch) % 16 = ch := by omega
  have h3 : (0x90 + ch) ≥ 128 := by omega
  simp only [h1, h2]
  have hc : (9 ≠ 15 ∧ 0x90 + ch ≥ 128) := ⟨by decide, h3⟩
  rw [if_pos hc]
  have e1 : 9 * 16 = stNoteOn := by decide
  rw [if_pos e1, if_pos trivial]

theorem C17_midi_in_note_on (d : Dev) (ch note vel : Nat) (hch : ch < 16) (hv : 0 < vel) :
    (d.midiIn (0x90 + ch) note vel).ext = sinsert (ch, note) d.ext := by
  unfold Dev.midiIn
  have h1 : (0x90 + ch) / 16 = 9 := by omega
  have h2 : (0x90 + ch) % 16 = ch := by omega
  have h3 : (0x90 + ch) ≥ 128 := by omega
  have h4 : ¬ vel = 0 := by omega
  simp only [h1, h2]
  have hc : (9 ≠ 15 ∧ 0x90 + ch ≥ 128) := ⟨by decide, h3⟩
  rw [if_pos hc]
  have e1 : 9 * 16 = stNoteOn := by decide
  rw [if_pos e1, if_neg h4]

/-- after Note Off (or Note On with velocity 0) the note is not highlighted any more, whatever happened before -/
theorem C17_midi_in_cleared (d : Dev) (ch note : Nat) (hch : ch < 16) :
    (ch, note) ∉ (d.midiIn (0x80 + ch) note 0).ext ∧ (ch, note) ∉ (d.midiIn (0x90 + ch) note 0).ext := by
  rw [C17_midi_in_note_off d ch note 0 hch, C17_midi_in_note_on_zero d ch note hch]
  constructor <;> (intro h; exact (mem_serase.mp h).2 rfl)

/-- the panic action clears the MIDI-input tracker (all channels) -/
theorem C17_panic_clears (d : Dev) : (d.invokePress .panic).1.ext = [] := rfl

/-- the sixteen channel colours (`colorful.Hsv(45·ch + 30, 1, 1)` scaled to bytes) -/
theorem C17_channel_colours :
    (List.range 16).map chanColor =
      [⟨255, 127, 0⟩, ⟨191, 255, 0⟩, ⟨0, 255, 0⟩, ⟨0, 255, 191⟩, ⟨0, 127, 255⟩, ⟨63, 0, 255⟩, ⟨255, 0, 255⟩, ⟨255, 0, 63⟩,
       ⟨255, 127, 0⟩, ⟨191, 255, 0⟩, ⟨0, 255, 0⟩, ⟨0, 255, 191⟩, ⟨0, 127, 255⟩, ⟨63, 0, 255⟩, ⟨255, 0, 255⟩, ⟨255, 0, 63⟩] := by
  decide

end Hidi.Props.C17
