/-
  C17 — LED feedback shows the device's actual state.  Theorems about `Hidi.Led.frame` (checked writes) and the MIDI-input
  tracker `Dev.midiIn`.

  * `C17_frame_total`   : for every state, every configuration and every LED layout (any order, any subset, unknown
                          names, no LEDs at all) the frame is a list of exactly one colour per LED — no index outside the
                          frame is ever written (the unchecked code crashed on an empty layout: `C17_unchecked_crashes`);
  * `C17_layout`        : an action whose key is unbound, or whose key has no LED, paints nothing; otherwise it paints
                          exactly the LED of its key (`C17_unchecked_hits_led0` is what the unchecked code did);
  * `C17_active`        : every LED of a key whose base note + transposition equals the pitch recorded for a held key shows
                          the active colour — whatever else was painted before (last paint wins, and every later paint of
                          that pass is the same colour);
  * `C17_midi_in_*`     : Note Off, or Note On with velocity 0, removes the note from the MIDI-input tracker; Note On with
                          velocity > 0 adds it; the panic action clears the tracker;
  * `C17_refinement`    : **every LED of every frame** equals the declarative `LedSpec.highlight`: active colour if a key
                          at a pitch the device is sounding, else the external colour if a MIDI-input note of the current
                          channel is at its pitch, else the colour of the lowest MIDI-input channel with a note at its pitch,
                          else its colour in the base frame (proved by "last write wins" over the list of writes);
  * `C17_pitch_class`   : the base colour of a mapped key's LED is the class colour (C / black / white, or white on the
                          "Control" mapping) of base note + semitone + 12·octave when that is a MIDI note;
  * `C17_unavailable`   : and the 'unavailable' colour when it is not, for a key bound to no action;
  * `C17_action_key`    : the LED of the key an action is bound to (when it is not also a note key) shows the indicator
                          colour of the *current* octave / semitone / mapping / channel (`indicator`): white1 / white2 /
                          white3 by the number of steps, the channel colour (dimmed at the end of the range), red for
                          panic — "last paint of that action wins" over the paint list `Led.actionPaints`;
  * `C17_external`, `C17_other_channel` : corollaries of the refinement for the MIDI-input highlights;
  * `C17_channel_colours` : the sixteen channel colours (exact table);
  * `C17_source_facts`  : the two facts regenerated from the sources that select the checked behaviour.
-/
import HidiProofs.LedLemmas
import HidiProofs.LedSpec
import Hidi.Gen.Evdev
namespace Hidi.Props.C17
open Hidi Hidi.Led Hidi.LedLemmas Hidi.LedSpec Hidi.EngineSim

/-- source facts regenerated from open_rgb.go / events.go: every frame write for action keys and strip LEDs goes through the
    checked setter; a MIDI-input Note On with velocity 0 is treated as Note Off -/
theorem C17_source_facts : Gen.ledUncheckedWrites = 0 ∧ Gen.midiInVelocityZeroIsOff = true := by decide

/-- the indicator paints regenerated from the LED loop of `handleOpenrgb` — every `paintAction(action, colour)` call in source
    order with the conditions of its enclosing `if`s — are the rows of the model's `Led.actionPaints` (same order, same
    guards, same colours: `white1/2/3` = 27 / 100 / 255 grey, `chanColor` = `channelColors[d.channel]`, the dimmed colour =
    each component divided by 3, panic = red 0xff) -/
theorem C17_action_paints_source :
    Gen.ledActionPaints =
      [("", "config.Panic", "openrgb.Color{Red: 0xff}"),
       ("", "config.OctaveUp", "white1"),
       ("", "config.OctaveDown", "white1"),
       ("d.octave > 0 && d.octave == 1", "config.OctaveUp", "white2"),
       ("d.octave > 0 && !(d.octave == 1)", "config.OctaveUp", "white3"),
       ("d.octave < 0 && d.octave == -1", "config.OctaveDown", "white2"),
       ("d.octave < 0 && !(d.octave == -1)", "config.OctaveDown", "white3"),
       ("", "config.SemitoneUp", "white1"),
       ("", "config.SemitoneDown", "white1"),
       ("d.semitone > 0 && d.semitone == 1", "config.SemitoneUp", "white2"),
       ("d.semitone > 0 && !(d.semitone == 1)", "config.SemitoneUp", "white3"),
       ("d.semitone < 0 && d.semitone == -1", "config.SemitoneDown", "white2"),
       ("d.semitone < 0 && !(d.semitone == -1)", "config.SemitoneDown", "white3"),
       ("", "config.MappingUp", "white3"),
       ("", "config.MappingDown", "white3"),
       ("d.mapping == 0", "config.MappingDown", "white1"),
       ("d.mapping == len(d.config.KeyMappings)-1", "config.MappingUp", "white1"),
       ("", "config.ChannelUp", "chanColor"),
       ("", "config.ChannelDown", "chanColor"),
       ("d.channel == 0", "config.ChannelDown", "openrgb.Color{ Red: chanColor.Red / 3, Green: chanColor.Green / 3, Blue: chanColor.Blue / 3, }"),
       ("d.channel == 15", "config.ChannelUp", "openrgb.Color{ Red: chanColor.Red / 3, Green: chanColor.Green / 3, Blue: chanColor.Blue / 3, }"),
       ("", "config.Multinote", "white1")] ∧
    Gen.ledLocalColors =
      [("white1", "openrgb.Color{Red: 27, Green: 27, Blue: 27}"), ("white2", "openrgb.Color{Red: 100, Green: 100, Blue: 100}"),
       ("white3", "openrgb.Color{Red: 255, Green: 255, Blue: 255}"), ("chanColor", "channelColors[d.channel]")] ∧
    white1 = ⟨27, 27, 27⟩ ∧ white2 = ⟨100, 100, 100⟩ ∧ white3 = ⟨255, 255, 255⟩ ∧ red = ⟨255, 0, 0⟩ := by
  decide

/-- the painting passes of the refresh loop in source order — everything 'unavailable', the keyboard mapping in class
    colours, MIDI-input notes of the channels 15 down to 0 in their channel colours, then the current channel in the
    external colour, then the device's own notes in the active colour — which is the order of `Led.frame`
    (`frameStrip`/`framePre`, `frameBase`, `frameExt`, the final fold) and what "last write wins" in `C17_refinement` rests on -/
theorem C17_pass_order_source :
    Gen.ledPasses =
      [("for i := 0; i < len(ledArray); i++", ["d.config.OpenRGB.Colors.Unavailable"]),
       ("for code, key := range d.config.KeyMappings[d.mapping].Midi[\"\"]", ["color"]),
       ("for ch := 15; ch >= 0; ch--", ["channelColors[byte(ch)]"]),
       ("for note, _ := range d.externalNoteTracker[d.channel]", ["d.config.OpenRGB.Colors.ActiveExternal"]),
       ("for _, noteAndChannel := range d.noteTracker", ["d.config.OpenRGB.Colors.Active"])] := by
  decide

/-- LED names are distinct, so `LedNameToKey` (built by ranging over a Go map) is well defined -/
theorem C17_led_names_distinct : (Gen.keyToLedName.map (·.2)).Nodup := by decide

/-- **any layout**: the frame always has exactly one colour per LED; nothing outside it is written -/
theorem C17_frame_total (d : Dev) (devName : String) (leds : List String) (shifted : RGB × RGB × RGB)
    (hm : d.curMap.isSome = true) :
    ∃ l, frame true d devName leds shifted = .ok l ∧ l.length = leds.length := by
  unfold frame
  cases hc : d.curMap with
  | none => rw [hc] at hm; cases hm
  | some m =>
    simp only
    have h1 := frameExt_isOk d leds m (frameBase_isOk d devName leds shifted m)
    exact foldl_isOk _ (fun f p hf => paintNote_isOk leds rfl m _ _ hf) _ _ h1

def exMap : Mapping := { name := "Piano", midi := [], analog := [], dz := [], defDz := [] }
def exCfg0 : Config :=
  { maps := [exMap], actions := [], exitSeq := [], mode := .off, defOct := 0, defSemi := 0, defCh := 1, defMap := 0,
    vel := 64, axes := [] }

/-- the unchecked code on a controller without LEDs: a Go panic (index out of range) — the crash repaired in the repository -/
theorem C17_unchecked_crashes : frame false (Dev.init exCfg0) "kbd" [] ({}, {}, {}) = .panic := by decide

/-- **layout**: with checked writes an action paints at most the LED of its own key -/
theorem C17_layout (cfg : Config) (im : List (Nat × Nat)) (l : List RGB) (a : Action) (c : RGB) :
    paintAction true cfg im (.ok l) a c =
      match actionCode cfg a with
      | none => .ok l                                   -- the action is not bound to any key
      | some code =>
        match alookup code im with
        | none => .ok l                                 -- its key has no LED
        | some i => if i < l.length then .ok (l.set i c) else .ok l := by
  unfold paintAction
  simp only [if_true]
  cases actionCode cfg a with
  | none => rfl
  | some code => simp only; cases alookup code im <;> rfl

/-- what the unchecked code did with an unbound action: it wrote LED 0 -/
theorem C17_unchecked_hits_led0 (cfg : Config) (im : List (Nat × Nat)) (l : List RGB) (a : Action) (c : RGB)
    (hunbound : actionCode cfg a = none) (h0 : alookup 0 im = none) (hl : 0 < l.length) :
    paintAction false cfg im (.ok l) a c = .ok (l.set 0 c) := by
  unfold paintAction
  simp [hunbound, h0, setAt, hl]

/-- **active**: every LED of a key whose transposed pitch (`k + offset`, in the integers) is the pitch of a note the device
    has sounding shows the active colour -/
theorem C17_active (d : Dev) (devName : String) (leds : List String) (shifted : RGB × RGB × RGB) (m : Mapping)
    (hm : d.curMap = some m) (held : Code × (Nat × Nat)) (hheld : held ∈ d.noteTr)
    (code k : Nat) (hcode : code ∈ keysWithNote m k) (hk127 : k ≤ 127)
    (hk : (k : Int) + (d.semitone + d.octave * 12) = (held.2.1 : Int))
    (i : Nat) (hi : alookup code (indexMap leds) = some i) :
    ∃ l, frame true d devName leds shifted = .ok l ∧ l[i]? = some d.cfg.colors.active := by
  have hb : baseI held.2.1 (d.semitone + d.octave * 12) = (k : Int) := by unfold baseI; omega
  have hok : baseOk held.2.1 (d.semitone + d.octave * 12) = true := by
    unfold baseOk; rw [hb]; simp; omega
  have hof : baseOf held.2.1 (d.semitone + d.octave * 12) = k := by unfold baseOf; rw [hb]; simp
  have hheld' : held ∈ ownOn d (d.semitone + d.octave * 12) := by
    unfold ownOn; exact List.mem_filter.mpr ⟨hheld, hok⟩
  unfold frame
  rw [hm]
  simp only
  have h1 := frameExt_isOk d leds m (frameBase_isOk d devName leds shifted m)
  obtain ⟨l0, e0, hl0⟩ := h1
  have hg : Good leds.length [] d.cfg.colors.active (frameExt d leds m (frameBase true d devName leds shifted m)) :=
    ⟨l0, e0, hl0, by intro j hj; cases hj⟩
  obtain ⟨S', ⟨l, e1, hl, hs⟩, -, g3⟩ :=
    foldNotes_good leds rfl m d.cfg.colors.active (fun (p : Code × (Nat × Nat)) => baseOf p.2.1 (d.semitone + d.octave * 12))
      (ownOn d (d.semitone + d.octave * 12)) [] _ hg
  refine ⟨l, e1, ?_⟩
  exact hs i (g3 held hheld' code (by rw [hof]; exact hcode) i hi) (indexMap_lt leds code i hi)


/-! ### refinement to a per-LED specification -/

/-- **refinement**: every LED of the frame shows `highlight` of its base colour — for every state, layout and mapping -/
theorem C17_refinement (d : Dev) (devName : String) (leds : List String) (shifted : RGB × RGB × RGB) (m : Mapping)
    (hm : d.curMap = some m) :
    ∃ base l, frameBase true d devName leds shifted m = .ok base ∧ frame true d devName leds shifted = .ok l ∧
      base.length = leds.length ∧ l.length = leds.length ∧
      ∀ i (hi : i < base.length), l[i]? = some (highlight d leds m base[i] i) := by
  obtain ⟨base, hb, hlen⟩ := frameBase_isOk d devName leds shifted m
  obtain ⟨l, hl, hll, hs⟩ := frame_highlight d devName leds shifted m hm base hb hlen
  exact ⟨base, l, hb, hl, hlen, hll, hs⟩

/-- nothing is highlighted on LED `i` -/
def Unlit (d : Dev) (leds : List String) (m : Mapping) (i : Nat) : Prop :=
  lit (indexMap leds) m (fun (p : Code × (Nat × Nat)) => baseOf p.2.1 (d.semitone + d.octave * 12)) (ownOn d (d.semitone + d.octave * 12)) i = false ∧
  ∀ ch, lit (indexMap leds) m (fun (p : Nat × Nat) => baseOf p.2 (d.semitone + d.octave * 12))
    (extOn d ch (d.semitone + d.octave * 12)) i = false

theorem highlight_unlit (d : Dev) (leds : List String) (m : Mapping) (base : RGB) (i : Nat) (h : Unlit d leds m i) :
    highlight d leds m base i = base := by
  unfold highlight
  simp only [h.1, h.2 d.channel]
  have : (List.range 16).find? (fun ch => lit (indexMap leds) m (fun (p : Nat × Nat) => baseOf p.2 (d.semitone + d.octave * 12))
      (extOn d ch (d.semitone + d.octave * 12)) i) = none := by
    apply List.find?_eq_none.mpr
    intro ch _; simp [h.2 ch]
  simp [this]

/-- **pitch class**: a mapped key with an LED, nothing sounding at its pitch, whose transposed note is a MIDI note, shows
    the class colour of that note -/
theorem C17_pitch_class (d : Dev) (devName : String) (leds : List String) (shifted : RGB × RGB × RGB) (m : Mapping)
    (hm : d.curMap = some m) (hnd : (akeys m.midi).Nodup) (p : (Sub × Code) × Key) (hp : p ∈ m.midi) (hsub : p.1.1 = "")
    (i : Nat) (hi : alookup p.1.2 (indexMap leds) = some i) (hun : Unlit d leds m i)
    (hlo : 0 ≤ (p.2.note : Int) + (d.semitone + d.octave * 12)) (hhi : (p.2.note : Int) + (d.semitone + d.octave * 12) ≤ 127) :
    ∃ l, frame true d devName leds shifted = .ok l ∧
      l[i]? = some (classColor m shifted ((p.2.note : Int) + (d.semitone + d.octave * 12)).toNat) := by
  obtain ⟨base, l, hb, hl, hlen, -, hs⟩ := C17_refinement d devName leds shifted m hm
  obtain ⟨pre, base', -, hb', -, -, hbi⟩ := frameBase_key d devName leds shifted m hnd p hp hsub i hi
  rw [hb] at hb'; cases hb'
  have hil : i < base.length := hlen ▸ indexMap_lt leds _ i hi
  refine ⟨l, hl, ?_⟩
  rw [hs i hil, highlight_unlit d leds m _ i hun]
  have hc : ¬ ((p.2.note : Int) + (d.semitone + d.octave * 12) < 0 ∨ (p.2.note : Int) + (d.semitone + d.octave * 12) > 127) := by
    omega
  simp only [hc, if_false] at hbi
  rw [List.getElem?_eq_getElem hil] at hbi
  exact hbi

/-- **unavailable**: the same key when its transposed note is outside 0‥127, if it is bound to no action: the
    'unavailable' colour -/
theorem C17_unavailable (d : Dev) (devName : String) (leds : List String) (shifted : RGB × RGB × RGB) (m : Mapping)
    (hm : d.curMap = some m) (hnd : (akeys m.midi).Nodup) (p : (Sub × Code) × Key) (hp : p ∈ m.midi) (hsub : p.1.1 = "")
    (i : Nat) (hi : alookup p.1.2 (indexMap leds) = some i) (hun : Unlit d leds m i)
    (hout : (p.2.note : Int) + (d.semitone + d.octave * 12) < 0 ∨ (p.2.note : Int) + (d.semitone + d.octave * 12) > 127)
    (hact : ∀ a, actionCode d.cfg a ≠ some p.1.2) :
    ∃ l, frame true d devName leds shifted = .ok l ∧ l[i]? = some d.cfg.colors.unavailable := by
  obtain ⟨base, l, hb, hl, hlen, -, hs⟩ := C17_refinement d devName leds shifted m hm
  obtain ⟨pre, base', hpre, hb', hplen, -, hbi⟩ := frameBase_key d devName leds shifted m hnd p hp hsub i hi
  rw [hb] at hb'; cases hb'
  have hil : i < base.length := hlen ▸ indexMap_lt leds _ i hi
  have hil' : i < leds.length := indexMap_lt leds _ i hi
  refine ⟨l, hl, ?_⟩
  rw [hs i hil, highlight_unlit d leds m _ i hun]
  simp only [hout, if_true] at hbi
  rw [List.getElem?_eq_getElem hil] at hbi
  rw [hbi]
  -- the pre-frame shows 'unavailable' there
  obtain ⟨name, hname, hkey⟩ := indexMap_spec leds _ i hi
  have hk := framePre_unavailable d devName leds i hil' ?_ ?_
  · obtain ⟨pre', e, -, hv⟩ := hk
    rw [hpre] at e; cases e
    have : i < pre.length := by omega
    rw [List.getElem?_eq_getElem this] at hv
    simp only [Option.some.injEq] at hv
    simp [this, hv]
  · intro sname hs' e
    rw [hname] at e
    simp only [Option.some.injEq] at e; subst e
    -- a strip LED name is not a key LED name
    unfold stripLeds at hs'
    split at hs'
    · simp only [List.mem_map, List.mem_range] at hs'
      obtain ⟨k, hk, rfl⟩ := hs'
      have : ∀ k < 18, ledKey s!"RGB Strip {k + 1}" = none := by decide
      rw [this k hk] at hkey; cases hkey
    · cases hs'
  · intro a code ha hc
    have := indexMap_inj leds _ _ _ hc hi
    subst this
    exact hact a ha

/-- **external colour**: a key at the pitch of a MIDI-input note on the current channel, with no own note sounding at its
    pitch, shows the external colour -/
theorem C17_external (d : Dev) (devName : String) (leds : List String) (shifted : RGB × RGB × RGB) (m : Mapping)
    (hm : d.curMap = some m) (i : Nat) (hi : i < leds.length)
    (hown : lit (indexMap leds) m (fun (p : Code × (Nat × Nat)) => baseOf p.2.1 (d.semitone + d.octave * 12)) (ownOn d (d.semitone + d.octave * 12)) i = false)
    (hext : lit (indexMap leds) m (fun (p : Nat × Nat) => baseOf p.2 (d.semitone + d.octave * 12))
      (extOn d d.channel (d.semitone + d.octave * 12)) i = true) :
    ∃ l, frame true d devName leds shifted = .ok l ∧ l[i]? = some d.cfg.colors.activeExternal := by
  obtain ⟨base, l, -, hl, hlen, -, hs⟩ := C17_refinement d devName leds shifted m hm
  refine ⟨l, hl, ?_⟩
  rw [hs i (by omega)]
  unfold highlight
  simp [hown, hext]

/-- **other channels**: with nothing of the device's own or of the current channel at its pitch, the LED shows the colour of
    the lowest MIDI-input channel that has a note there -/
theorem C17_other_channel (d : Dev) (devName : String) (leds : List String) (shifted : RGB × RGB × RGB) (m : Mapping)
    (hm : d.curMap = some m) (i : Nat) (hi : i < leds.length)
    (hown : lit (indexMap leds) m (fun (p : Code × (Nat × Nat)) => baseOf p.2.1 (d.semitone + d.octave * 12)) (ownOn d (d.semitone + d.octave * 12)) i = false)
    (hcur : lit (indexMap leds) m (fun (p : Nat × Nat) => baseOf p.2 (d.semitone + d.octave * 12))
      (extOn d d.channel (d.semitone + d.octave * 12)) i = false)
    (ch : Nat) (hch : ch < 16)
    (hlit : lit (indexMap leds) m (fun (p : Nat × Nat) => baseOf p.2 (d.semitone + d.octave * 12))
      (extOn d ch (d.semitone + d.octave * 12)) i = true)
    (hmin : ∀ c < ch, lit (indexMap leds) m (fun (p : Nat × Nat) => baseOf p.2 (d.semitone + d.octave * 12))
      (extOn d c (d.semitone + d.octave * 12)) i = false) :
    ∃ l, frame true d devName leds shifted = .ok l ∧ l[i]? = some (chanColor ch) := by
  obtain ⟨base, l, -, hl, hlen, -, hs⟩ := C17_refinement d devName leds shifted m hm
  refine ⟨l, hl, ?_⟩
  rw [hs i (by omega)]
  unfold highlight
  simp only [hown, hcur]
  have : (List.range 16).find? (fun c => lit (indexMap leds) m (fun (p : Nat × Nat) => baseOf p.2 (d.semitone + d.octave * 12))
      (extOn d c (d.semitone + d.octave * 12)) i) = some ch := by
    rw [List.find?_eq_some_iff_append]
    refine ⟨hlit, List.range ch, (List.range (16 - ch - 1)).map (· + (ch + 1)), ?_, ?_⟩
    · have : 16 = ch + (1 + (16 - ch - 1)) := by omega
      conv => lhs; rw [this, List.range_add, List.range_add]
      simp
      intro a _; omega
    · intro c hc
      have := List.mem_range.mp hc
      simp [hmin c this]
  simp [this]


/-- an LED that belongs to no note key of the mapping is never highlighted -/
theorem lit_false_of_no_key {α} (leds : List String) (m : Mapping) (g : α → Nat) (L : List α) (i : Nat)
    (hno : ∀ q ∈ m.midi, q.1.1 = "" → alookup q.1.2 (indexMap leds) ≠ some i) :
    lit (indexMap leds) m g L i = false := by
  unfold lit
  apply List.any_eq_false.mpr
  intro p _
  simp only [Bool.not_eq_true]
  apply List.any_eq_false.mpr
  intro code hcode
  unfold keysWithNote at hcode
  obtain ⟨q, hq, rfl⟩ := List.mem_map.mp hcode
  have hq' := List.mem_filter.mp hq
  have hs : q.1.1 = "" := by
    have := hq'.2; simp only [decide_eq_true_eq] at this; exact this.1
  simpa using hno q hq'.1 hs

theorem unlit_of_no_key (d : Dev) (leds : List String) (m : Mapping) (i : Nat)
    (hno : ∀ q ∈ m.midi, q.1.1 = "" → alookup q.1.2 (indexMap leds) ≠ some i) : Unlit d leds m i :=
  ⟨lit_false_of_no_key leds m _ _ i hno, fun _ => lit_false_of_no_key leds m _ _ i hno⟩

/-! ### the indicator keys (octave, semitone, mapping, channel, multi-note, panic) -/

/-- what the key bound to an action shows: the state of the setting it changes -/
def indicator (d : Dev) : Action → Option RGB
  | .panic => some red
  | .octaveUp => some (if d.octave > 0 then (if d.octave = 1 then white2 else white3) else white1)
  | .octaveDown => some (if d.octave < 0 then (if d.octave = -1 then white2 else white3) else white1)
  | .semitoneUp => some (if d.semitone > 0 then (if d.semitone = 1 then white2 else white3) else white1)
  | .semitoneDown => some (if d.semitone < 0 then (if d.semitone = -1 then white2 else white3) else white1)
  | .mappingUp => some (if (d.mapping : Int) = (d.cfg.maps.length : Int) - 1 then white1 else white3)
  | .mappingDown => some (if d.mapping = 0 then white1 else white3)
  | .channelUp => some (if d.channel = 15 then third (chanColor d.channel) else chanColor d.channel)
  | .channelDown => some (if d.channel = 0 then third (chanColor d.channel) else chanColor d.channel)
  | .multinote => some white1
  | _ => none

theorem indicator_spec (d : Dev) (a : Action) : lastPaint (actionPaints d) a = indicator d a := by
  have h := lastPaint_values d
  cases a <;> simp only [indicator] <;> simp only [h]

/-- **indicator keys**: the LED of the key an action is bound to — when that key is not also a note key of the current
    mapping (such an LED is never highlighted: `unlit_of_no_key`) — shows the indicator colour of the device's *current* octave, semitone,
    mapping or channel: one step = `white2`, more = `white3`, none = `white1`; the channel keys show the channel colour,
    dimmed at the end of the range; panic is red.  For every state, configuration and LED layout. -/
theorem C17_action_key (d : Dev) (devName : String) (leds : List String) (shifted : RGB × RGB × RGB) (m : Mapping)
    (hm : d.curMap = some m) (hn : (akeys d.cfg.actions).Nodup) (a : Action) (c : RGB) (hc : indicator d a = some c)
    (i : Nat) (hi : actionLed d.cfg leds a = some i)
    (hno : ∀ q ∈ m.midi, q.1.1 = "" → alookup q.1.2 (indexMap leds) ≠ some i) :
    ∃ l, frame true d devName leds shifted = .ok l ∧ l[i]? = some c := by
  have hun := unlit_of_no_key d leds m i hno
  obtain ⟨base, l, hb, hl, hlen, -, hs⟩ := C17_refinement d devName leds shifted m hm
  obtain ⟨strip, pre, -, hpre, -, hplen, hpi⟩ := framePre_action d devName leds hn a i hi
  have hil : i < leds.length := by
    unfold actionLed at hi
    cases hk : actionCode d.cfg a with
    | none => rw [hk] at hi; cases hi
    | some k => rw [hk] at hi; exact indexMap_lt leds k i hi
  obtain ⟨pre', base', hpre', hb', -, -, hbi⟩ := frameBase_other d devName leds shifted m i hil hno
  rw [hb] at hb'; cases hb'
  rw [hpre] at hpre'; cases hpre'
  refine ⟨l, hl, ?_⟩
  have hib : i < base.length := hlen ▸ hil
  rw [hs i hib, highlight_unlit d leds m _ i hun]
  rw [List.getElem?_eq_getElem hib, hpi, indicator_spec, hc] at hbi
  simpa using hbi

/-- the octave-up key after the octave was raised once / more than once / not at all -/
theorem C17_octave_up_key (d : Dev) (devName : String) (leds : List String) (shifted : RGB × RGB × RGB) (m : Mapping)
    (hm : d.curMap = some m) (hn : (akeys d.cfg.actions).Nodup)
    (i : Nat) (hi : actionLed d.cfg leds .octaveUp = some i)
    (hno : ∀ q ∈ m.midi, q.1.1 = "" → alookup q.1.2 (indexMap leds) ≠ some i) :
    ∃ l, frame true d devName leds shifted = .ok l ∧
      l[i]? = some (if d.octave ≤ 0 then white1 else if d.octave = 1 then white2 else white3) := by
  apply C17_action_key d devName leds shifted m hm hn .octaveUp _ _ i hi hno
  simp only [indicator]
  congr 1
  by_cases h : d.octave > 0
  · have : ¬ d.octave ≤ 0 := by omega
    simp [h, this]
  · have : d.octave ≤ 0 := by omega
    simp [h, this]

/-! ### non-vacuity: a concrete layout (three LEDs in an order different from the key codes), a held key, MIDI-input
    notes on the current channel and on two other channels -/

def exM : Mapping :=
  { name := "Piano", midi := [(("", 30), ⟨60, 0⟩), (("", 31), ⟨61, 0⟩), (("", 32), ⟨62, 0⟩), (("", 33), ⟨120, 0⟩)],
    analog := [], dz := [], defDz := [] }
def exC : Config :=
  { maps := [exM], actions := [(59, .octaveUp)], exitSeq := [], mode := .off, defOct := 0, defSemi := 0, defCh := 1,
    defMap := 0, vel := 64, axes := [],
    colors := { unavailable := ⟨9, 9, 9⟩, active := ⟨0, 255, 0⟩, activeExternal := ⟨0, 0, 255⟩ } }
def exLeds : List String := ["Key: S", "Key: A", "Key: F1", "Key: D", "Logo", "Key: F"]
def exShift : RGB × RGB × RGB := (⟨1, 1, 1⟩, ⟨2, 2, 2⟩, ⟨3, 3, 3⟩)
/-- key S held; MIDI input: note 60 on the current channel, 62 on channels 4 and 3; octave raised by one (key F1 pressed
    and released), so base note 120 is out of range -/
def exD : Dev :=
  ((Dev.init exC).runFlat [.key "" 59 1, .key "" 59 0, .key "" 31 1, .midiIn 0x90 72 100, .midiIn 0x93 74 100,
    .midiIn 0x92 74 100]).1

example : exD.curMap = some exM ∧ (akeys exM.midi).Nodup ∧ exD.octave = 1 := ⟨by rfl, by decide, by decide⟩
/-- S active, A external, F1 (octave up, one step) white2, D channel 3's colour (the lower of 4 and 3), an LED without a
    key untouched, F unavailable (120 + 12 > 127) -/
example : frame true exD "kbd" exLeds exShift =
    .ok [⟨0, 255, 0⟩, ⟨0, 0, 255⟩, white2, chanColor 2, ⟨9, 9, 9⟩, ⟨9, 9, 9⟩] := by decide
example : Unlit (Dev.init exC) exLeds exM 1 := by
  refine ⟨by decide, ?_⟩
  intro ch; simp [Dev.init, lit, extOn]
/-- the hypotheses of `C17_pitch_class` hold for key A on the fresh device: its LED shows the C colour -/
example : ∃ l, frame true (Dev.init exC) "kbd" exLeds exShift = .ok l ∧ l[1]? = some ⟨3, 3, 3⟩ :=
  C17_pitch_class (Dev.init exC) "kbd" exLeds exShift exM (by rfl) (by decide) (("", 30), ⟨60, 0⟩) (by decide) rfl 1
    (by decide) (by refine ⟨by decide, ?_⟩; intro ch; simp [Dev.init, lit, extOn]) (by decide) (by decide)

/-- the hypotheses of `C17_active` hold for key S (note 61, one octave up: pitch 73) in the example state: LED 0 is active -/
example : ∃ l, frame true exD "kbd" exLeds exShift = .ok l ∧ l[0]? = some ⟨0, 255, 0⟩ :=
  C17_active exD "kbd" exLeds exShift exM (by rfl) (31, (73, 0)) (by decide) 31 61 (by decide) (by decide) (by decide) 0
    (by decide)

/-- the hypotheses of `C17_action_key` hold for F1 (octave up) in the example state: `white2` at LED 2 -/
example : ∃ l, frame true exD "kbd" exLeds exShift = .ok l ∧ l[2]? = some white2 :=
  C17_action_key exD "kbd" exLeds exShift exM (by rfl) (by decide) .octaveUp white2 (by decide) 2 (by decide) (by decide)

/-! ### the MIDI-input tracker -/

theorem C17_midi_in_note_off (d : Dev) (ch note vel : Nat) (hch : ch < 16) :
    (d.midiIn (0x80 + ch) note vel).ext = serase (ch, note) d.ext := by
  unfold Dev.midiIn
  have h1 : (0x80 + ch) / 16 = 8 := by omega
  have h2 : (0x80 + ch) % 16 = ch := by omega
  have h3 : (0x80 + ch) ≥ 128 := by omega
  simp only [h1, h2]
  have hc : (8 ≠ 15 ∧ 0x80 + ch ≥ 128) := ⟨by decide, h3⟩
  rw [if_pos hc]
  have e1 : ¬ (8 * 16 = stNoteOn) := by decide
  have e2 : 8 * 16 = stNoteOff := by decide
  rw [if_neg e1, if_pos e2]

theorem C17_midi_in_note_on_zero (d : Dev) (ch note : Nat) (hch : ch < 16) :
    (d.midiIn (0x90 + ch) note 0).ext = serase (ch, note) d.ext := by
  unfold Dev.midiIn
  have h1 : (0x90 + ch) / 16 = 9 := by omega
  have h2 : (0x90 + ch) % 16 = ch := by omega
  have h3 : (0x90 + ch) ≥ 128 := by omega
  simp only [h1, h2]
  have hc : (9 ≠ 15 ∧ 0x90 + ch ≥ 128) := ⟨by decide, h3⟩
  rw [if_pos hc]
  have e1 : 9 * 16 = stNoteOn := by decide
  rw [if_pos e1, if_pos trivial]

theorem C17_midi_in_note_on (d : Dev) (ch note vel : Nat) (hch : ch < 16) (hv : 0 < vel) :
    (d.midiIn (0x90 + ch) note vel).ext = sinsert (ch, note) d.ext := by
  unfold Dev.midiIn
  have h1 : (0x90 + ch) / 16 = 9 := by omega
  have h2 : (0x90 + ch) % 16 = ch := by omega
  have h3 : (0x90 + ch) ≥ 128 := by omega
  have h4 : ¬ vel = 0 := by omega
  simp only [h1, h2]
  have hc : (9 ≠ 15 ∧ 0x90 + ch ≥ 128) := ⟨by decide, h3⟩
  rw [if_pos hc]
  have e1 : 9 * 16 = stNoteOn := by decide
  rw [if_pos e1, if_neg h4]

/-- after Note Off (or Note On with velocity 0) the note is not highlighted any more, whatever happened before -/
theorem C17_midi_in_cleared (d : Dev) (ch note : Nat) (hch : ch < 16) :
    (ch, note) ∉ (d.midiIn (0x80 + ch) note 0).ext ∧ (ch, note) ∉ (d.midiIn (0x90 + ch) note 0).ext := by
  rw [C17_midi_in_note_off d ch note 0 hch, C17_midi_in_note_on_zero d ch note hch]
  constructor <;> (intro h; exact (mem_serase.mp h).2 rfl)

/-- the panic action clears the MIDI-input tracker (all channels) -/
theorem C17_panic_clears (d : Dev) : (d.invokePress .panic).1.ext = [] := rfl

/-- the sixteen channel colours (`colorful.Hsv(45·ch + 30, 1, 1)` scaled to bytes) -/
theorem C17_channel_colours :
    (List.range 16).map chanColor =
      [⟨255, 127, 0⟩, ⟨191, 255, 0⟩, ⟨0, 255, 0⟩, ⟨0, 255, 191⟩, ⟨0, 127, 255⟩, ⟨63, 0, 255⟩, ⟨255, 0, 255⟩, ⟨255, 0, 63⟩,
       ⟨255, 127, 0⟩, ⟨191, 255, 0⟩, ⟨0, 255, 0⟩, ⟨0, 255, 191⟩, ⟨0, 127, 255⟩, ⟨63, 0, 255⟩, ⟨255, 0, 255⟩, ⟨255, 0, 63⟩] := by
  decide

end Hidi.Props.C17
