/-
  C17 — LED feedback shows the device's actual state.  Theorems about `Hidi.Led.frame` and `Dev.midiIn`.
-/
import Hidi.Led
import Hidi.Gen.Evdev
namespace Hidi.Props.C17
open Hidi Hidi.Led

/-- source facts regenerated from open_rgb.go / events.go: every frame write for action keys and strip LEDs goes through the
    checked setter; a MIDI-input Note On with velocity 0 is treated as Note Off -/
theorem C17_source_facts : Gen.ledUncheckedWrites = 0 ∧ Gen.midiInVelocityZeroIsOff = true := by decide

/-- LED names are distinct, so `LedNameToKey` (built by ranging over a Go map) is well defined -/
theorem C17_led_names_distinct : (Gen.keyToLedName.map (·.2)).Nodup := by decide

end Hidi.Props.C17
